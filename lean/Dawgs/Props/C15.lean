/-
C15 — reachability answers equal true graph reachability regardless of query history.
ONLY property statements and non-vacuity examples live here; lemmas are in Proofs/C15.lean.

Layering (DESIGN §4 C15):
  1. `sccCert_sound`                 verified certificate checker for SCC decompositions (all graphs)
  2. `tarjan_*`                      the transcribed iterative Tarjan (full correctness = stated goal)
  3. `bidir_reachable_correct`       `ComponentReachable` (all digraphs, all directions)
  4. `reach_cache_exact`             every cached entry is the true reach set, preserved by every query
        … `_refuted` for the DFS as the code has it (DESIGN §5 F5), `_fixed` for the repaired DFS
  5. `answers_history_independent`   corollary; `_refuted` / `_fixed` likewise
  `C15_full` is the statement of properties.jsonl for the live code; `c15_full_refuted` its refutation.
-/
import Dawgs.Proofs.C15
import Dawgs.Proofs.C15Tarjan
import Dawgs.Proofs.C15Lift
import Dawgs.Proofs.C15Sound
import Dawgs.Proofs.C15TarjanFull
import Dawgs.Proofs.C15Round3
import Dawgs.Generated.C15Fresh
namespace Dawgs.C15.Props
open Dawgs.C15 Dawgs.C16

/-! ### 0. the spec itself: plain BFS is the reachability relation -/

/-- The monitor's BFS reach set is exactly the reflexive-transitive closure of adjacency, for every digraph,
direction and start node (no well-formedness assumption, the fuel `|V|+2` always suffices). -/
theorem spec_bfs_is_reachability (g : Digraph) (d : Dir) (u x : Nat) :
    x ∈ g.reachSet d u ↔ Reach (g.adj d) u x :=
  g.mem_reachSet d u x

/-! ### 1. SCC certificate checker -/

/-- If the checker accepts `comps` for `g` then `comps` is the SCC decomposition of `g`: a partition of the
nodes, two nodes share a component exactly when each reaches the other, and the condensation is acyclic. -/
theorem sccCert_sound (g : Digraph) (comps : List (List Nat)) (h : checkSCC g comps = true) : IsSCC g comps :=
  checkSCC_sound h

/-! ### 2. Tarjan -/

/-- FULL CORRECTNESS of the transcribed iterative Tarjan: for every well-formed digraph it returns a decomposition
the certificate checker accepts (hence, by `sccCert_sound`, the SCC decomposition in reverse topological order).
Proved below as `tarjan_correct`.  Every check run still evaluates `checkSCC` on the implementation's (= model's, by
the tie) output of every case. -/
def tarjan_correct_full : Prop :=
  ∀ g : Digraph, g.WF → ∃ comps lk, tarjan g = some (comps, lk) ∧ checkSCC g comps = true

/-- The iterative Tarjan loop never exhausts its fuel `|V|·(|V|+1)+1`: it returns on EVERY digraph
(measure: remaining branches of the cursors on the dfs stack + one cursor's worth per undiscovered node). -/
theorem tarjan_terminates (g : Digraph) : (tarjan g).isSome = true := tarjan_isSome g

/-- Tarjan's output is a PARTITION of the node set, for every digraph: every node lies in exactly one emitted
component, nothing else does, and no component is empty.  (Invariants: discovered = on the Tarjan stack or
emitted; the dfs cursors are a subsequence of the stack; low-links stay within [discovery index of the run's
first node, own discovery index], so the run's first cursor always closes a component that unwinds the whole
stack.) -/
theorem tarjan_partition (g : Digraph) (comps : List (List Nat)) (lk : List (Nat × Nat))
    (h : tarjan g = some (comps, lk)) :
    (∀ v, v ∈ g.nodes ↔ v ∈ comps.flatten) ∧ comps.flatten.Nodup ∧ ∀ C, C ∈ comps → C ≠ [] :=
  tarjan_partition_aux comps lk h

/-- (kept from the layered plan) whenever the checker accepts Tarjan's output it IS the SCC decomposition. -/
theorem tarjan_correct_partial (g : Digraph) (comps : List (List Nat)) (lk : List (Nat × Nat))
    (_ht : tarjan g = some (comps, lk)) (hc : checkSCC g comps = true) : IsSCC g comps :=
  checkSCC_sound hc

/-- **Tarjan is correct on every well-formed digraph.**  Invariants of the explicit-stack loop (frames = each dfs cursor
with the finished nodes above it on the Tarjan stack): the stack is sorted by discovery index; finished nodes have all
neighbours discovered and `lowLink ≤ discIdx` of every neighbour still on the stack; a cursor's low-link is below the
low-links of the finished nodes of its frame; every low-link is the discovery index of a stack node reachable from its
owner; finished nodes on the stack have `lowLink < discIdx`.  When a cursor with `lowLink = discIdx` pops, its frame is
strongly connected (low-link chains lead back to the root) and no edge leaves it towards the rest of the stack. -/
theorem tarjan_correct : tarjan_correct_full := by
  intro g hw
  have ht := tarjan_isSome g
  cases h : tarjan g with
  | none => rw [h] at ht; cases ht
  | some p =>
    obtain ⟨comps, lk⟩ := p
    exact ⟨comps, lk, rfl, tarjan_checkSCC hw comps lk h⟩

/-- the SCC part of C15: partition, same component ⇔ mutually reachable, acyclic condensation — every digraph -/
theorem tarjan_scc (g : Digraph) (hw : g.WF) : ∃ comps lk, tarjan g = some (comps, lk) ∧ IsSCC g comps := by
  obtain ⟨comps, lk, h1, h2⟩ := tarjan_correct g hw
  exact ⟨comps, lk, h1, checkSCC_sound h2⟩

/-! ### 3. ComponentReachable -/

/-- The bidirectional BFS (smaller-frontier rule, early break when the inbound frontier is exhausted) returns,
within its fuel, `true` exactly when the end component is reachable from the start component in the given
direction — for every well-formed component digraph (acyclic or not), every pair and all three directions. -/
theorem bidir_reachable_correct (cg : CompGraph) (hw : cg.dg.WF) (s t : Nat) (d : Dir) :
    ∃ b, cg.componentReachable s t d = some b ∧ (b = true ↔ Reach (cg.dg.adj d) s t) := by
  unfold CompGraph.componentReachable bidirFuel
  exact bidir_correct (cg.dg.adj d) (cg.dg.adj d.reverse) (Dir.reverse_conv hw d) cg.dg.nodes
    (cg.dg.adj_sub_nodes d) (cg.dg.adj_sub_nodes d.reverse) s t _ (Nat.le_refl _)

/-! ### 4. the reach cache -/

/-- FULL STRENGTH: for ANY cache that satisfies the C16 contract (a hit returns the latest put of that key —
whatever its capacity and eviction choices), any digraph, any fuel: if every cached binding is the exact reach
set of its key, then `componentReachDFS` answers with the exact reach set of the queried component and every
binding cached afterwards is exact again.  `fixed = false` is the DFS as /repo has it. -/
def reach_cache_exact (fixed : Bool) : Prop :=
  ∀ (σ : Type) (C : CacheI σ) (Rep : σ → Ideal → Prop), Lawful C Rep →
  ∀ (adjf : Nat → List Nat) (fuel : Nat) (cache : σ) (m : Ideal) (c : Nat),
    Rep cache m → CacheExact adjf m →
    ∀ cache' r, reachDFS C adjf fixed fuel cache c = some (cache', r) →
      ExactBits adjf c r ∧ ∃ m', Rep cache' m' ∧ CacheExact adjf m'

/-- the repaired DFS (cache only cursors whose exploration was not cut by the shared visited set; the root is
always complete) satisfies the full-strength statement -/
theorem reach_cache_exact_fixed : reach_cache_exact true :=
  fun _ C Rep hL adjf fuel cache m c hrep hex cache' r h =>
    reachDFS_fixed_exact C Rep adjf hL fuel cache m hrep hex c cache' r h

/-- F5 witness at component level: the diamond `3→{1,2}, 2→1, 1→0` (component ids in Tarjan emission order). -/
def diamond : Nat → List Nat
  | 3 => [1, 2]
  | 2 => [1]
  | 1 => [0]
  | _ => []

def diamondRun : Option ((Sieve × Sieve) × Nat) :=
  reachDFS (dirCache .outb) diamond false 50 (Sieve.new 8, Sieve.new 8) 3

/-- **the current code violates the statement**: one query for component 3 on an empty cache of capacity 8
leaves the binding `2 ↦ {1,2}` in the outbound cache although `2` reaches `0` (cursor 2 skipped the already
visited neighbour 1 and was cached without 1's descendants). -/
theorem reach_cache_exact_refuted : ¬ reach_cache_exact false := by
  intro h
  have hrun : (diamondRun.map (fun p => valOf p.1.2.queue 2)) = some (some 6) := by decide
  cases hd : diamondRun with
  | none => rw [hd] at hrun; cases hrun
  | some p =>
    obtain ⟨cache', r⟩ := p
    rw [hd] at hrun
    have hv : valOf cache'.2.queue 2 = some 6 := by simpa using hrun
    have := h (Sieve × Sieve) (dirCache .outb) (dirRep .outb) (dirCache_lawful .outb) diamond 50
      (Sieve.new 8, Sieve.new 8) [] 3 ⟨Sieve.inv_new 8, Sieve.sub_new 8⟩ (cacheExact_nil _) cache' r hd
    obtain ⟨_, m', hrep, hex⟩ := this
    have hget : m'.get 2 = some 6 := hrep.2 2 6 hv
    have hreach : Reach diamond 2 0 := Reach.tail (Reach.single (by decide : 1 ∈ diamond 2)) (by decide : 0 ∈ diamond 1)
    have := (hex 2 6 hget 0).2 hreach
    exact absurd this (by decide)

/-- PARTIAL for the DFS as the code has it (and for the repaired one): it never reports and never caches a
component that is NOT reachable — every answer and every cached binding contains its key and is a SUBSET of the true
reach set, for any contract-satisfying cache, capacity, history.  (So F5 can only ever lose members, which is the one
defect class the monitor sees on the unchanged tree: `reach-missing`.) -/
theorem reach_cache_sound_partial (fixed : Bool) :
    ∀ (σ : Type) (C : CacheI σ) (Rep : σ → Ideal → Prop), Lawful C Rep →
    ∀ (adjf : Nat → List Nat) (fuel : Nat) (cache : σ) (m : Ideal) (c : Nat),
      Rep cache m → CacheSound adjf m →
      ∀ cache' r, reachDFS C adjf fixed fuel cache c = some (cache', r) →
        SoundBits adjf c r ∧ ∃ m', Rep cache' m' ∧ CacheSound adjf m' :=
  fun _ C Rep hL adjf fuel cache m c hrep hex cache' r h =>
    reachDFS_sound C Rep adjf hL fixed fuel cache m hrep hex c cache' r h

/-- Termination of `componentReachDFS` (either variant): on a digraph whose adjacency stays inside a finite
node list, `2·(|V|+1)²+1` loop iterations always suffice, from every cache state. -/
theorem reach_dfs_terminates {σ : Type} (C : CacheI σ) (g : Digraph) (d : Dir) (fixed : Bool) (cache : σ) (c : Nat) :
    (reachDFS C (g.adj d) fixed (dfsFuel g.nodes.length) cache c).isSome = true :=
  reachDFS_terminates C (g.adj d) g.nodes fixed (g.adj_sub_nodes d) (g.adj_length_le d) cache c

/-! ### 5. answers are independent of the query history (ReachabilityCache level) -/

/-- a fresh `ReachabilityCache` over component graph `cg` with both SIEVE caches of capacity `cap` -/
def freshRC (cg : CompGraph) (cap : Int) (fixed : Bool) : RC :=
  { cg := cg, inC := Sieve.new cap, outC := Sieve.new cap, fixed := fixed }

/-- the answer of `componentReachDFS(c, d)` asked after the query history `hist` -/
def answerAfter (cg : CompGraph) (cap : Int) (fixed : Bool) (hist : List (Nat × Dir)) (c : Nat) (d : Dir) :
    Option Nat :=
  match (freshRC cg cap fixed).runQueries hist with
  | some (rc, _) => (rc.componentReach c d).map (·.2)
  | none => none

/-- FULL STRENGTH: the answer to a query does not depend on which queries were asked before, nor on the cache
capacity (any `Int`; ≤ 0 clamps to 1), and it always arrives. -/
def answers_history_independent (fixed : Bool) : Prop :=
  ∀ (cg : CompGraph) (cap1 cap2 : Int) (h1 h2 : List (Nat × Dir)) (c : Nat) (d : Dir),
    (answerAfter cg cap1 fixed h1 c d).isSome = true ∧
    answerAfter cg cap1 fixed h1 c d = answerAfter cg cap2 fixed h2 c d

/-- After ANY history and for ANY capacity the repaired cache answers with exactly the reach set of the
component graph, and everything stored in both SIEVE caches is exact. -/
theorem reach_answers_exact_fixed (cg : CompGraph) (cap : Int) (hist : List (Nat × Dir)) (c : Nat) (d : Dir) :
    ∃ r, answerAfter cg cap true hist c d = some r ∧ ExactBits (cg.dg.adj d) c r := by
  have h0 : RCInv (freshRC cg cap true) := ⟨sieveExact_new _ cap, sieveExact_new _ cap⟩
  obtain ⟨rc, rs, hrun, hinv, hcg, hf, _, _⟩ := (freshRC cg cap true).runQueries_fixed rfl h0 hist
  obtain ⟨rc', r, hq, hex, _, _, _⟩ := rc.componentReach_fixed hf hinv c d
  refine ⟨r, ?_, ?_⟩
  · simp [answerAfter, hrun, hq]
  · rw [hcg] at hex; exact hex

theorem answers_history_independent_fixed : answers_history_independent true := by
  intro cg cap1 cap2 h1 h2 c d
  obtain ⟨r1, ha1, he1⟩ := reach_answers_exact_fixed cg cap1 h1 c d
  obtain ⟨r2, ha2, he2⟩ := reach_answers_exact_fixed cg cap2 h2 c d
  rw [ha1, ha2, he1.unique he2]
  exact ⟨rfl, rfl⟩

/-- the diamond as a component graph -/
def diamondCG : CompGraph :=
  { comps := [[0], [1], [2], [3]], lookup := [(0, 0), (1, 1), (2, 2), (3, 3)],
    dg := { nodes := [0, 1, 2, 3], edges := [(3, 1), (3, 2), (2, 1), (1, 0)] } }

/-- **history dependence of the current code**: asked first, `reach(2, out)` is `{0,1,2}` (= 7); asked after
`reach(3, out)` it is `{1,2}` (= 6). -/
theorem answers_history_independent_refuted : ¬ answers_history_independent false := by
  intro h
  have := (h diamondCG 8 8 [] [(3, .outb)] 2 .outb).2
  revert this
  decide

/-- PARTIAL for the code as it is: every `componentReachDFS` call returns (no history can make it loop). -/
theorem reach_query_terminates_current (rc : RC) (c : Nat) (d : Dir) : (rc.componentReach c d).isSome = true :=
  rc.componentReach_terminates c d

/-! ### the property at full strength for the live code -/

/-- C15 as stated in properties.jsonl, for the model variant `fixed`: for every well-formed digraph the SCC
decomposition is correct, and for every capacity and every sequence of public calls every answer is what plain
BFS on the original graph gives. -/
def C15_stmt (fixed : Bool) : Prop :=
  ∀ g : Digraph, g.WF →
    (∃ comps lk, tarjan g = some (comps, lk) ∧ IsSCC g comps) ∧
    ∀ (cap : Int) (ops : List Op), ∃ rc answers,
      RC.new g cap fixed = some rc ∧ rc.runOps ops = some answers ∧ acceptsAll g ops answers = true

/-- the live code is the current DFS -/
def C15_full : Prop := C15_stmt false

def f5Graph : Digraph := Digraph.ofEdges [0, 1, 2, 3] [(0, 1), (0, 2), (2, 1), (1, 3)]

theorem f5Graph_wf : f5Graph.WF := by
  refine ⟨by decide, ?_⟩
  intro u v h
  have : (u, v) ∈ [(0, 1), (0, 2), (2, 1), (1, 3)] := h
  simp at this
  rcases this with ⟨rfl, rfl⟩ | ⟨rfl, rfl⟩ | ⟨rfl, rfl⟩ | ⟨rfl, rfl⟩ <;> decide

/-- **F5 on the whole pipeline** (same case as corpus/C15/c15_f5_four_nodes.ops, reproduced on the real code):
graph `0→1, 0→2, 2→1, 1→3`, capacity 8, `reach(0,out)` then `reach(2,out)` answers `[1,2]`; BFS says `[1,2,3]`. -/
theorem c15_full_refuted : ¬ C15_full := by
  intro h
  obtain ⟨rc, answers, h1, h2, h3⟩ := (h f5Graph f5Graph_wf).2 8 [.reach 0 .outb, .reach 2 .outb]
  have e1 : RC.new f5Graph 8 false = some rc → rc.runOps [.reach 0 .outb, .reach 2 .outb] = some answers →
      acceptsAll f5Graph [.reach 0 .outb, .reach 2 .outb] answers = false := by
    intro a b
    have hr : ((RC.new f5Graph 8 false).bind (fun rc => rc.runOps [.reach 0 .outb, .reach 2 .outb])) =
        some [.set [0, 1, 2, 3], .set [1, 2]] := by decide
    rw [a] at hr
    simp only [Option.bind] at hr
    rw [b] at hr
    cases hr
    decide
  rw [e1 h1 h2] at h3
  cases h3

/-- **C15 for the repaired code, per certified graph**: if Tarjan's output for `g` passes the verified certificate
checker (every check run evaluates exactly this on every case), then for EVERY capacity and EVERY sequence of
public calls (CanReach / ReachOf… / ReachSliceOf… / OrReach / XorReach, all three directions, members and
non-members) the repaired ReachabilityCache returns, and every answer is what plain BFS on the original graph gives.
(Chain: certificate ⇒ SCC decomposition; Tarjan's member map = `compIndexOf`; component-graph reachability =
original-graph reachability of members; bidirectional BFS and repaired DFS exact and terminating.) -/
theorem c15_fixed_of_certificate (g : Digraph) (hw : g.WF) (comps : List (List Nat)) (lk : List (Nat × Nat))
    (ht : tarjan g = some (comps, lk)) (hcert : checkSCC g comps = true) (cap : Int) (ops : List Op) :
    ∃ rc answers, RC.new g cap true = some rc ∧ rc.runOps ops = some answers ∧ acceptsAll g ops answers = true := by
  have hc : Cert g comps lk := ⟨hw, checkSCC_sound hcert, tarjan_lookup comps lk ht⟩
  have hnew : RC.new g cap true = some (freshRC (componentGraphOf g comps lk) cap true) := by
    simp [RC.new, newComponentGraph, ht, freshRC]
  obtain ⟨answers, hr, ha⟩ := runOps_correct hc (freshRC (componentGraphOf g comps lk) cap true) rfl rfl
    ⟨sieveExact_new _ cap, sieveExact_new _ cap⟩ ops
  exact ⟨_, answers, hnew, hr, ha⟩

/-- C15 for the repaired code follows from Tarjan's correctness alone. -/
theorem c15_fixed_of_tarjan (ht : tarjan_correct_full) : C15_stmt true := by
  intro g hw
  obtain ⟨comps, lk, h1, h2⟩ := ht g hw
  exact ⟨⟨comps, lk, h1, checkSCC_sound h2⟩, fun cap ops => c15_fixed_of_certificate g hw comps lk h1 h2 cap ops⟩

/-- **C15 holds for the repaired code**, at the full strength of properties.jsonl: every well-formed digraph, every cache
capacity, every sequence of public calls in every direction — the SCC decomposition is correct and every answer is
what plain BFS on the original graph gives.  (For the live code see `c15_full_refuted`; the two variants differ only in
`putCursor`/`exact`, i.e. hooks/C15-fix.patch.) -/
theorem c15_fixed : C15_stmt true := c15_fixed_of_tarjan tarjan_correct

/-! ### 6. refinement to "no cache", node-level history independence -/

/-- Component level: after ANY history, with ANY capacity, the cached `componentReachDFS` returns exactly what a
fresh DFS that never caches anything returns. -/
theorem reach_cache_refines_nocache (cg : CompGraph) (cap : Int) (hist : List (Nat × Dir)) (c : Nat) (d : Dir) :
    answerAfter cg cap true hist c d = some (refReach cg c d) := by
  obtain ⟨r, ha, he⟩ := reach_answers_exact_fixed cg cap hist c d
  rw [ha, he.unique (refReach_exact cg c d)]

/-- Public level: for every well-formed digraph, capacity and sequence of public calls the repaired
ReachabilityCache returns, call by call, `refAns` — the answer computed with no cache and no history
(BFS on the original graph for can-reach / reach / or-reach / xor-reach; the cache-free component reach for the
slices). -/
theorem public_answers_refine_nocache (g : Digraph) (hw : g.WF) (cap : Int) (ops : List Op) :
    ∃ rc, RC.new g cap true = some rc ∧ rc.runOps ops = some (ops.map (refAns g rc.cg)) := by
  obtain ⟨comps, lk, ht, hcert⟩ := tarjan_correct g hw
  have hc : Cert g comps lk := ⟨hw, checkSCC_sound hcert, tarjan_lookup comps lk ht⟩
  refine ⟨freshRC (componentGraphOf g comps lk) cap true, by simp [RC.new, newComponentGraph, ht, freshRC], ?_⟩
  exact runOps_refAns hc _ rfl rfl ⟨sieveExact_new _ cap, sieveExact_new _ cap⟩ ops

/-- **Independence of query order, count and cache capacity, for the public API**: the answer to a call `q` is
the same after any two histories of public calls and under any two capacities (and it always arrives). -/
theorem public_answers_history_independent (g : Digraph) (hw : g.WF) (cap1 cap2 : Int) (h1 h2 : List Op) (q : Op) :
    ∃ rc1 rc2 a, RC.new g cap1 true = some rc1 ∧ RC.new g cap2 true = some rc2 ∧
      (rc1.runOps (h1 ++ [q])).map List.getLast? = some (some a) ∧
      (rc2.runOps (h2 ++ [q])).map List.getLast? = some (some a) := by
  obtain ⟨comps, lk, ht, hcert⟩ := tarjan_correct g hw
  have hc : Cert g comps lk := ⟨hw, checkSCC_sound hcert, tarjan_lookup comps lk ht⟩
  have hnew : ∀ cap, RC.new g cap true = some (freshRC (componentGraphOf g comps lk) cap true) := fun cap => by
    simp [RC.new, newComponentGraph, ht, freshRC]
  have hrun : ∀ cap (h : List Op), ((freshRC (componentGraphOf g comps lk) cap true).runOps (h ++ [q])).map List.getLast? =
      some (some (refAns g (componentGraphOf g comps lk) q)) := by
    intro cap h
    rw [runOps_refAns hc _ rfl rfl ⟨sieveExact_new _ cap, sieveExact_new _ cap⟩]
    simp [freshRC]
  exact ⟨_, _, _, hnew cap1, hnew cap2, hrun cap1 h1, hrun cap2 h2⟩

/-! ### 7. results are fresh values: caller-side edits cannot change later answers -/

abbrev RetRow := String × String × Bool × String × String × Bool
abbrev MutRow := String × String × Bool × String × String × String

/-- What the model assumes about value provenance in algo/*.go, as a decidable condition on the tables the extractor
regenerates from the sources on every run (tools/extract/goext mode c15):
(a) every bitmap RETURNED by an exported method of `ReachabilityCache` is freshly allocated (`NewBitmap64…`, `Clone()`,
    a local only ever assigned such values, or the result of a function with that property, transitively);
(b) per entry point the model's provenance (`modelProvFresh`) is the code's;
(c) the only exported result that shares internal bitmaps is the documented `ReachSliceOfComponentContainingMember`;
(d) every mutating bitmap call edits a parameter of its function, a fresh local, or — inside the DFS — a cursor's own reach;
(e) `OrReach`/`XorReach` are present (the table is not vacuous). -/
def freshnessOK (rets : List RetRow) (muts : List MutRow) : Bool :=
  rets.all (fun r => !(r.2.1 == "ReachabilityCache" && r.2.2.1 && r.2.2.2.1 == "bitmap") || r.2.2.2.2.2) &&
  ["ReachOfComponentContainingMember", "ReachSliceOfComponentContainingMember"].all (fun fn =>
    let rows := rets.filter (fun r => r.1 == fn && r.2.1 == "ReachabilityCache")
    !rows.isEmpty && (rows.all (·.2.2.2.2.2) == modelProvFresh fn)) &&
  rets.all (fun r => !(r.2.1 == "ReachabilityCache" && r.2.2.1 && r.2.2.2.1 == "slice" && !r.2.2.2.2.2) ||
    r.1 == "ReachSliceOfComponentContainingMember") &&
  muts.all (fun m => m.2.2.2.2.1 == "param" || m.2.2.2.2.1 == "freshlocal" ||
    (m.2.2.2.2.1 == "cursor" && (m.1 == "componentReachDFS" || m.1 == "Complete"))) &&
  ["OrReach", "XorReach"].all (fun fn => muts.any (fun m => m.1 == fn && m.2.1 == "ReachabilityCache"))

/-- T-tie: the current sources satisfy the provenance assumptions (re-checked against the regenerated table on every run). -/
theorem results_fresh_fact : freshnessOK Generated.C15Fresh.returns Generated.C15Fresh.mutations = true := by decide

/-- With fresh results, a caller may edit every value it received (results of `ReachOf…`, its own `OrReach`/`XorReach`
accumulators) at any point of any script: all answers are those of the script without the edits — and hence, by
`public_answers_refine_nocache`, the cache-free, history-free answers. -/
theorem caller_edits_noninterference (g : Digraph) (hw : g.WF) (cap : Int) (ops : List OpM) :
    ∃ rc, RC.new g cap true = some rc ∧ rc.runOpsM ops = some ((callsOf ops).map (refAns g rc.cg)) := by
  obtain ⟨rc, h1, h2⟩ := public_answers_refine_nocache g hw cap (callsOf ops)
  exact ⟨rc, h1, by rw [runOpsM_eq_runOps, h2]⟩

/-! ### 8. the component graph the cache works on is acyclic -/

/-- `NewComponentGraph` on Tarjan's output: every edge of the component digraph leads to a strictly smaller component
id (Tarjan emits sinks first), for every well-formed digraph. -/
theorem component_graph_topological (g : Digraph) (hw : g.WF) (comps : List (List Nat)) (lk : List (Nat × Nat))
    (ht : tarjan g = some (comps, lk)) (a b : Nat) (h : b ∈ (componentGraphOf g comps lk).dg.outAdj a) : b < a := by
  have hcert := tarjan_checkSCC hw comps lk ht
  have hc : Cert g comps lk := ⟨hw, checkSCC_sound hcert, tarjan_lookup comps lk ht⟩
  simp only [checkSCC, Bool.and_eq_true] at hcert
  exact compGraph_edge_lt hc hcert.2 h

/-- hence no cycle: no component is reachable from one of its successors -/
theorem component_graph_acyclic (g : Digraph) (hw : g.WF) (comps : List (List Nat)) (lk : List (Nat × Nat))
    (ht : tarjan g = some (comps, lk)) (a b : Nat) (h : b ∈ (componentGraphOf g comps lk).dg.outAdj a) :
    ¬ Reach (componentGraphOf g comps lk).dg.outAdj b a := by
  have hcert := tarjan_checkSCC hw comps lk ht
  have hc : Cert g comps lk := ⟨hw, checkSCC_sound hcert, tarjan_lookup comps lk ht⟩
  simp only [checkSCC, Bool.and_eq_true] at hcert
  intro hr
  have h1 := compGraph_edge_lt hc hcert.2 h
  have h2 := compGraph_reach_le hc hcert.2 hr
  omega

/-! ### non-vacuity -/

-- the certificate checker accepts Tarjan's output on a graph with a 3-cycle, a bridge, a 2-cycle, a self loop
-- and an isolated node; it rejects a merged, a split and a mis-ordered decomposition
def demoGraph : Digraph :=
  Digraph.ofEdges [7] [(1, 2), (2, 3), (3, 1), (3, 4), (4, 5), (5, 4), (6, 6)]
example : (tarjan demoGraph).map (·.1) = some [[7], [5, 4], [3, 2, 1], [6]] := by decide
example : checkSCC demoGraph [[7], [5, 4], [3, 2, 1], [6]] = true := by decide
example : checkSCC demoGraph [[7], [5, 4, 3, 2, 1], [6]] = false := by decide
example : checkSCC demoGraph [[7], [5], [4], [3, 2, 1], [6]] = false := by decide
example : checkSCC demoGraph [[7], [3, 2, 1], [5, 4], [6]] = false := by decide
-- hypotheses of `bidir_reachable_correct` / `C15_stmt` are satisfiable
example : diamondCG.dg.WF := by
  refine ⟨by decide, ?_⟩
  intro u v h
  have : (u, v) ∈ [(3, 1), (3, 2), (2, 1), (1, 0)] := h
  simp at this
  rcases this with ⟨rfl, rfl⟩ | ⟨rfl, rfl⟩ | ⟨rfl, rfl⟩ | ⟨rfl, rfl⟩ <;> decide
example : diamondCG.componentReachable 3 0 .outb = some true ∧ diamondCG.componentReachable 0 3 .outb = some false ∧
    diamondCG.componentReachable 0 3 .inb = some true ∧ diamondCG.componentReachable 1 2 .both = some true := by decide
-- the repaired DFS on the F5 witnesses: exact answers, and the cut cursor 2 is NOT cached
example : answerAfter diamondCG 8 true [(3, .outb)] 2 .outb = some 7 ∧ answerAfter diamondCG 8 true [] 2 .outb = some 7 := by
  decide
example : ((RC.new f5Graph 8 true).bind (fun rc => rc.runOps [.reach 0 .outb, .reach 2 .outb])) =
    some [.set [0, 1, 2, 3], .set [1, 2, 3]] := by decide
-- the certificate hypothesis of `c15_fixed_of_certificate` holds on the F5 graph and on the demo graph
example : (tarjan f5Graph).map (fun p => checkSCC f5Graph p.1) = some true ∧
    (tarjan demoGraph).map (fun p => checkSCC demoGraph p.1) = some true := by decide
-- the provenance condition is not trivially true: it rejects the table of the seeded variant C15-r2-1 (ReachOf… returning the
-- internal membership bitmap of a terminal component, XorReach editing it without Clone)
example : freshnessOK
    [("ReachOfComponentContainingMember", "ReachabilityCache", true, "bitmap", "sharedcall:ComponentMembers", false),
     ("ReachOfComponentContainingMember", "ReachabilityCache", true, "bitmap", "new", true),
     ("ReachSliceOfComponentContainingMember", "ReachabilityCache", true, "slice", "sharedcall:componentReachToMemberReachSlice", false)]
    [("OrReach", "ReachabilityCache", true, "Or", "param", "param:duplex"),
     ("XorReach", "ReachabilityCache", true, "Remove", "other", "local(sharedcall:ReachOfComponentContainingMember)")]
    = false := by decide
-- and sharing is a real hazard: editing the membership bitmap a slice aliases changes a later answer
example : ((RC.new f5Graph 8 true).bind (fun rc => (rc.callerEdit (.members 0) (fun _ => [])).runOps [.reach 1 .outb])) ≠
    ((RC.new f5Graph 8 true).bind (fun rc => rc.runOps [.reach 1 .outb])) := by decide
-- the acceptance predicate is not trivially true
example : accepts f5Graph (.reach 2 .outb) (.set [1, 2]) = false ∧ accepts f5Graph (.reach 2 .outb) (.set [1, 2, 3]) = true ∧
    accepts f5Graph (.canReach 2 3 .outb) (.bool false) = false := by decide

end Dawgs.C15.Props
