import Dawgs.Proofs.C15
namespace Dawgs.C15.Props
open Dawgs.C15

end Dawgs.C15.Props
