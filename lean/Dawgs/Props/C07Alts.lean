/-
C07 — the generator covers every keyword / operator ALTERNATIVE of the grammar: every `a | b | …` group of Cypher.g4 whose
alternatives are made of terminals only (ASCENDING | ASC | DESCENDING | DESC, the dash and arrow-head variants, RELATIONSHIP | REL,
TRUE | FALSE, the reserved words, …) is enumerated here from the regenerated Grammar.lean, and the table the Go generator steers
through (Generated/C07Alts.lean, written by `harness c07 gen -tier alts` from its own reading of Cypher.g4) is proved EQUAL to it.
The harness emits sentences forced through every entry (counter `gen.alt_every_alternative_generated`).
-/
import Dawgs.Model.Grammar
import Dawgs.Generated.Grammar
import Dawgs.Generated.C07Alts
namespace Dawgs.C07.Alts
open Dawgs.Grammar

mutual
/-- the terminals (white space excluded, literals written `'`) of a term that derives terminals only -/
def tokOnly : Term → Option (List String)
  | .tok s => if s == "SP" then some [] else some [if s.front == '\'' then "'" else s]
  | .seq ts => tokOnlyL ts
  | .opt t => match tokOnly t with | some [] => some [] | _ => none
  | _ => none
def tokOnlyL : List Term → Option (List String)
  | [] => some []
  | t :: ts => match tokOnly t, tokOnlyL ts with
    | some a, some b => some (a ++ b)
    | _, _ => none
end

def descs (ts : List Term) : Option (List String) :=
  ts.foldr (fun t acc => match tokOnly t, acc with
    | some (x :: xs), some ds => some ("+".intercalate (x :: xs) :: ds)
    | _, _ => none) (some [])

def entries (rule : String) (n : Nat) (ds : List String) : List String :=
  (List.range ds.length).zip ds |>.map (fun p => rule ++ ":" ++ toString n ++ ":" ++ toString p.1 ++ ":" ++ p.2)

mutual
/-- pre-order walk of a rule body; state: number of groups found so far, entries -/
def groups (rule : String) : Term → Nat × List String → Nat × List String
  | .alt ts, (n, acc) =>
    match (if ts.length ≥ 2 then descs ts else none) with
    | some ds => (n + 1, acc ++ entries rule n ds)
    | none => groupsL rule ts (n, acc)
  | .seq ts, s => groupsL rule ts s
  | .star t, s => groups rule t s
  | .plus t, s => groups rule t s
  | .opt t, s => groups rule t s
  | _, s => s
def groupsL (rule : String) : List Term → Nat × List String → Nat × List String
  | [], s => s
  | t :: ts, s => groupsL rule ts (groups rule t s)
end

/-- every alternative of every terminal-only group, rule by rule -/
def altTable : List String :=
  ((Generated.Grammar.ruleNames.zip Generated.Grammar.rules).map (fun p => (groups p.1 p.2 (0, [])).2)).flatten

/-- the generator's table is exactly the grammar's: no alternative is missing from the generated sentences' targets -/
theorem keyword_alternatives_generated : Generated.C07Alts.generatorAlts = altTable := by decide +kernel

/-- non-vacuity: the four spellings of the sort direction are among them -/
theorem sort_direction_alternatives :
    ["oC_SortItem:0:0:ASCENDING", "oC_SortItem:0:1:ASC", "oC_SortItem:0:2:DESCENDING", "oC_SortItem:0:3:DESC"].all altTable.contains = true := by
  decide +kernel

end Dawgs.C07.Alts
