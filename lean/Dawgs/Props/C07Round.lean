/-
C07 — emit/parse fixed point, PROVED part: `build (treeOf m) = ok m` and `yield (treeOf m) = emit m` for well-formed models,
where `treeOf` is the canonical derivation the emitter follows (Model/C07Tree.lean). Instantiated with the rule and token
tables regenerated from /repo (`names_ok`, kernel-checked).
-/
import Dawgs.Proofs.C07RoundExpr4
import Dawgs.Proofs.C07Yield2
import Dawgs.Proofs.C07RoundPat
import Dawgs.Proofs.C07YieldPat
import Dawgs.Proofs.C07RoundQuery
import Dawgs.Proofs.C07YieldClause
import Dawgs.Spec.C07
namespace Dawgs.C07.Props
open Dawgs.C07 Dawgs.C07.Inst Dawgs.Grammar Dawgs.C08

/-- the regenerated tables resolve every rule and token name the canonical trees use, and distinct token names have
distinct token types -/
theorem names_ok : N.ok = true := by decide +kernel

/-- `emit_build_fixed` on the EXPRESSION layer: every expression model that is well-formed within nesting depth `f`
(literals, variables, parameters, property lookups, label tests, count(*), function calls, quantifiers all/any/none/single(v IN e [WHERE p]), lists, parentheses, unary sign,
map literals with bare, strictly increasing keys, `^`, `* / %`, `+ -`, one string/list/null predicate per operand, comparison chains, NOT, AND, XOR, OR) is rebuilt exactly by the
visitor model from its canonical tree, for any fuel ≥ 2·size + 2 -/
theorem emit_build_fixed_expr (f : Nat) (e : Expr) (hw : wfExpr f e = true) (g : Nat)
    (hg : 2 * size (treeOfExpr N f e) + 2 ≤ g) : bExpr N g (treeOfExpr N f e) = .ok e :=
  treeOfExpr_ok names_ok f e g hw hg

/-- the canonical tree carries exactly the tokens format.go writes for the model, in the same ORDER -/
theorem emit_yield_expr (f : Nat) (e : Expr) (hw : wfExpr f e = true) (G : Nat) (hG : size (treeOfExpr N f e) ≤ G) :
    eExpr G e = yieldT (treeOfExpr N f e) :=
  treeOfExpr_yield N f e G hw hG

/-- `faithful_partial` on the expression layer: a tree that IS the canonical derivation of a well-formed expression model is
rebuilt to that model, and its terminal yield equals the emitted token sequence (ordered) -/
theorem faithful_partial_expr (t : Tree) (f : Nat) (e : Expr) (ht : t = treeOfExpr N f e) (hw : wfExpr f e = true) :
    bExpr N (2 * size t + 2) t = .ok e ∧ yieldT t = eExpr (size t) e := by
  subst ht
  exact ⟨emit_build_fixed_expr f e hw _ (Nat.le_refl _), (emit_yield_expr f e hw _ (Nat.le_refl _)).symm⟩

/-! ### patterns -/

/-- `emit_build_fixed` on PATTERN PARTS: `p = shortestPath((a:K {k: e})-[r:T1|T2*1..3 {…}]->(b))`, i.e. an optional path variable,
optional shortestPath/allShortestPaths wrapper, and a chain node (rel node)* where every node has an optional variable, kinds
and properties (a map literal of well-formed expressions or a parameter) and every relationship has a direction, optional
variable, duplicate-free kinds, optional range with bounds in [0, 2^63) and optional properties — is rebuilt exactly -/
theorem emit_build_fixed_pattern (f : Nat) (p : PatternPart) (hw : wPart (wfExpr f) p = true) (g : Nat)
    (hg : 2 * size (tPart N (treeOfExpr N f) p) + 2 ≤ g) : bPatternPart N g (tPart N (treeOfExpr N f) p) = .ok p :=
  bPatternPart_tPart names_ok _ _ (treeOfExpr_ok names_ok f) p g hw hg

/-- … and its canonical tree carries exactly the tokens format.go writes for the pattern part, in order -/
theorem emit_yield_pattern (f : Nat) (p : PatternPart) (hw : wPart (wfExpr f) p = true)
    (hG : size (tPart N (treeOfExpr N f) p) ≤ bigFuel) : ePatternPart p = yieldT (tPart N (treeOfExpr N f) p) :=
  yield_tPart _ _ (fun e G hw hG => treeOfExpr_yield N f e G hw hG) p hw hG

/-- non-vacuity: `p = (a:User {name: $n})-[r:MemberOf|AdminTo*1..3]->(g:Group)<-[]-()` -/
example : wPart (wfExpr 2) { var := some "p", shortest := false, allShortest := false, els := [
    .node (some "a") ["User"] (some (.map [("name", .param "n")])),
    .rel (some "r") ["MemberOf", "AdminTo"] 1 (some (some 1, some 3)) none,
    .node (some "g") ["Group"] none,
    .rel none [] 0 none none,
    .node none [] none] } = true := by decide +kernel

/-! ### whole queries -/

/-- `emit_build_fixed`: the visitor model `build` (QueryVisitor … ExpressionVisitor, on the regenerated tables) rebuilds EXACTLY the
model `q` from the canonical derivation `tQuery q` the emitter follows, for every well-formed query model: single-part and
multi-part queries made of MATCH / OPTIONAL MATCH (comma-separated pattern parts, WHERE), UNWIND, CREATE, DELETE / DETACH
DELETE, REMOVE, SET (=, +=, labels), MERGE with ON CREATE / ON MATCH actions, WITH (projection body + WHERE) and RETURN
(DISTINCT, items with AS, ORDER BY asc/desc, SKIP, LIMIT), over the proved pattern and expression layers -/
theorem emit_build_fixed (f : Nat) (m : Query) (hw : wfQuery f m = true) : build N (treeOf N f m) = .ok m :=
  build_ok names_ok _ _ (treeOfExpr_ok names_ok f) m hw

/-- the canonical derivation carries exactly the token sequence format.go writes for the model (`emit`), in the same ORDER -/
theorem emit_yield (f : Nat) (m : Query) (hw : wfQuery f m = true) (hs : size (treeOf N f m) ≤ bigFuel) :
    emit m = yieldT (treeOf N f m) :=
  yield_query _ _ (fun e G hw hG => treeOfExpr_yield N f e G hw hG) m hw hs

mutual
theorem treeEq_sound : ∀ a b : Tree, treeEq a b = true → a = b
  | .node r ks, .node r' ks', h => by
    simp only [treeEq, Bool.and_eq_true, beq_iff_eq] at h
    rw [h.1, treeEqL_sound ks ks' h.2]
  | .leaf s, .leaf s', h => by simp only [treeEq, beq_iff_eq] at h; rw [h]
  | .err s, .err s', h => by simp only [treeEq, beq_iff_eq] at h; rw [h]
  | .node _ _, .leaf _, h => by simp [treeEq] at h
  | .node _ _, .err _, h => by simp [treeEq] at h
  | .leaf _, .node _ _, h => by simp [treeEq] at h
  | .leaf _, .err _, h => by simp [treeEq] at h
  | .err _, .node _ _, h => by simp [treeEq] at h
  | .err _, .leaf _, h => by simp [treeEq] at h
theorem treeEqL_sound : ∀ as bs : List Tree, treeEqL as bs = true → as = bs
  | [], [], _ => rfl
  | a :: as, b :: bs, h => by
    simp only [treeEqL, Bool.and_eq_true] at h
    rw [treeEq_sound a b h.1, treeEqL_sound as bs h.2]
  | [], _ :: _, h => by simp [treeEqL] at h
  | _ :: _, [], h => by simp [treeEqL] at h
end

/-- `faithful_partial`: for EVERY tree `t` that satisfies `Represented` and the decidable well-formedness `canonicalAt N f t`
(the visitor model accepts `t`, the model it builds is in the proved sub-grammar, and `t` is the canonical derivation of that
model), the model `m` built from `t` is emitted with exactly the terminal yield of `t`, as an ORDERED sequence — so any content
projection `ct` of the two token sequences agrees as well — and parsing the emitted derivation gives `m` back -/
theorem faithful_partial (t : Tree) (f : Nat) (_hr : C.represented t = true) (hc : canonicalAt N f t = true) (hs : size t ≤ bigFuel) :
    ∃ m, build N t = .ok m ∧ emit m = yieldT t ∧ (∀ ct : List String → List String, ct (yieldT t) = ct (emit m)) ∧
      build N (treeOf N f m) = .ok m := by
  unfold canonicalAt at hc
  cases hb : build N t with
  | error e => rw [hb] at hc; cases hc
  | ok m =>
    rw [hb] at hc
    simp only [Bool.and_eq_true] at hc
    have ht := treeEq_sound _ _ hc.2
    have hy := emit_yield f m hc.1 (by rw [← ht]; exact hs)
    rw [← ht] at hy
    exact ⟨m, rfl, hy, fun ct => by rw [hy], emit_build_fixed f m hc.1⟩

/-- every well-formed model has a canonical tree satisfying the decidable well-formedness: the proved domain is the whole
image of `treeOf` -/
theorem canonical_treeOf (f : Nat) (m : Query) (hw : wfQuery f m = true) : canonicalAt N f (treeOf N f m) = true := by
  have h : ∀ a : Tree, treeEq a a = true := by
    intro a
    induction a using Tree.rec (motive_2 := fun ks => treeEqL ks ks = true) with
    | node r ks ih => simp [treeEq, ih]
    | leaf s => simp [treeEq]
    | err s => simp [treeEq]
    | nil => simp [treeEqL]
    | cons a as iha ihas => simp [treeEqL, iha, ihas]
  unfold canonicalAt
  rw [emit_build_fixed f m hw]
  simp [hw, h]

/-- non-vacuity: `MATCH (a:User)-[r:MemberOf*1..]->(g:Group) WHERE a.name = $n WITH g, count(*) AS c WHERE c > 1
MATCH (g)<-[:AdminTo]-(x) SET x.seen = true RETURN DISTINCT x.name AS name ORDER BY name DESC SKIP 1 LIMIT 10` -/
example : wfQuery 2 (.multi
    [{ reading := [.match_ false [{ var := none, shortest := false, allShortest := false, els := [
          .node (some "a") ["User"] none, .rel (some "r") ["MemberOf"] 1 (some (some 1, none)) none, .node (some "g") ["Group"] none] }]
          (some (.cmp (.prop (.var "a") "name") [("=", .param "n")]))],
       updating := [],
       withProj := { distinct := false, items := [(.var "g", none), (.fn false [] "count" [.star], some "c")], order := none, skip := none, limit := none },
       withWhere := some (.cmp (.var "c") [(">", .lit (.int 1))]) }]
    { reading := [.match_ false [{ var := none, shortest := false, allShortest := false, els := [
          .node (some "g") [] none, .rel none ["AdminTo"] 0 none none, .node (some "x") [] none] }] none],
      updating := [.set [{ left := .prop (.var "x") "seen", op := "=", right := .expr (.lit (.bool true)) }]],
      ret := some { distinct := true, items := [(.prop (.var "x") "name", some "name")], order := some [(false, .var "name")],
                    skip := some (.lit (.int 1)), limit := some (.lit (.int 10)) } }) = true := by decide +kernel

/-- non-vacuity: `n.a = 1 AND NOT (m.b IN [1, 2] OR count(*) > 0)` is well-formed at depth 3 -/
example : wfExpr 3 (.conj [.cmp (.prop (.var "n") "a") [("=", .lit (.int 1))],
    .neg (.paren (.disj [.cmp (.prop (.var "m") "b") [("in", .list [.lit (.int 1), .lit (.int 2)])],
                         .cmp (.fn false [] "count" [.star]) [(">", .lit (.int 0))]]))]) = true := by decide +kernel

/-- non-vacuity for quantifiers: `any(x IN n.list WHERE x > 1) AND none(y IN [2])` -/
example : wfExpr 3 (.conj [.quant "any" "x" (.prop (.var "n") "list") (some (.cmp (.var "x") [(">", .lit (.int 1))])),
    .quant "none" "y" (.list [.lit (.int 2)]) none]) = true := by decide +kernel

/-- non-vacuity for map literals: `{a: 1, b: [x]} = $p` -/
example : wfExpr 3 (.cmp (.map [("a", .lit (.int 1)), ("b", .list [.var "x"])]) [("=", .param "p")]) = true := by decide +kernel

end Dawgs.C07.Props
