/-
C07 — emit/parse fixed point, PROVED part: `build (treeOf m) = ok m` and `yield (treeOf m) = emit m` for well-formed models,
where `treeOf` is the canonical derivation the emitter follows (Model/C07Tree.lean). Instantiated with the rule and token
tables regenerated from /repo (`names_ok`, kernel-checked).
-/
import Dawgs.Proofs.C07RoundExpr4
import Dawgs.Proofs.C07Yield2
import Dawgs.Spec.C07
namespace Dawgs.C07.Props
open Dawgs.C07 Dawgs.C07.Inst Dawgs.Grammar Dawgs.C08

/-- the regenerated tables resolve every rule and token name the canonical trees use, and distinct token names have
distinct token types -/
theorem names_ok : N.ok = true := by decide +kernel

/-- `emit_build_fixed` on the EXPRESSION layer: every expression model that is well-formed within nesting depth `f`
(literals, variables, parameters, property lookups, label tests, count(*), function calls, lists, parentheses, unary sign,
map literals with bare, strictly increasing keys, `^`, `* / %`, `+ -`, one string/list/null predicate per operand, comparison chains, NOT, AND, XOR, OR) is rebuilt exactly by the
visitor model from its canonical tree, for any fuel ≥ 2·size + 2 -/
theorem emit_build_fixed_expr (f : Nat) (e : Expr) (hw : wfExpr f e = true) (g : Nat)
    (hg : 2 * size (treeOfExpr N f e) + 2 ≤ g) : bExpr N g (treeOfExpr N f e) = .ok e :=
  treeOfExpr_ok names_ok f e g hw hg

/-- the canonical tree carries exactly the tokens format.go writes for the model, in the same ORDER -/
theorem emit_yield_expr (f : Nat) (e : Expr) (hw : wfExpr f e = true) (G : Nat) (hG : size (treeOfExpr N f e) ≤ G) :
    eExpr G e = yieldT (treeOfExpr N f e) :=
  treeOfExpr_yield N f e G hw hG

/-- `faithful_partial` on the expression layer: a tree that IS the canonical derivation of a well-formed expression model is
rebuilt to that model, and its terminal yield equals the emitted token sequence (ordered) -/
theorem faithful_partial_expr (t : Tree) (f : Nat) (e : Expr) (ht : t = treeOfExpr N f e) (hw : wfExpr f e = true) :
    bExpr N (2 * size t + 2) t = .ok e ∧ yieldT t = eExpr (size t) e := by
  subst ht
  exact ⟨emit_build_fixed_expr f e hw _ (Nat.le_refl _), (emit_yield_expr f e hw _ (Nat.le_refl _)).symm⟩

/-- non-vacuity: `n.a = 1 AND NOT (m.b IN [1, 2] OR count(*) > 0)` is well-formed at depth 3 -/
example : wfExpr 3 (.conj [.cmp (.prop (.var "n") "a") [("=", .lit (.int 1))],
    .neg (.paren (.disj [.cmp (.prop (.var "m") "b") [("in", .list [.lit (.int 1), .lit (.int 2)])],
                         .cmp (.fn false [] "count" [.star]) [(">", .lit (.int 0))]]))]) = true := by decide +kernel

/-- non-vacuity for map literals: `{a: 1, b: [x]} = $p` -/
example : wfExpr 3 (.cmp (.map [("a", .lit (.int 1)), ("b", .list [.var "x"])]) [("=", .param "p")]) = true := by decide +kernel

end Dawgs.C07.Props
