/-
C01 — Cypher-to-PostgreSQL translation preserves read-query results.

Objects (all Lean definitions; there is no PostgreSQL server in the sandbox, so the meaning of SQL is `Sql.eval`, transcribed from the
PostgreSQL 16 documentation — trusted base):
  `Graph`, `encode : KindMap → Graph → Db`            Model/Graph.lean
  `Cy.eval : Quirks → Graph → Query → …`               Model/CyEval.lean   openCypher reference semantics (`Quirks.none` = no deviation)
  `Sql.eval : Db → Stmt → Params → EM Table`           Model/SqlEval.lean
  `tr : KindMap → Cy.Query → Option (Stmt × Params)`   Model/C01.lean      the MODEL TRANSLATOR, defined on stage S1, `none` elsewhere

PROVED (this file): stage S1 =
  MATCH (n[:K…]) [WHERE p] RETURN items [ORDER BY id(n) [ASC|DESC] [SKIP k] [LIMIT k]]
  p     ::= n.k = 'str' | n.k = int | n.k <> int | n.k IS NULL | n.k IS NOT NULL | id(n) (= <> < <= > >=) int | n:K1:K2… | p AND p | p OR p | NOT p | (p)
  items ::= n [AS a] | n.k [AS a] | id(n) [AS a]
for ALL graphs with unique node ids, an injective kind map and no stored JSON null (`GraphOK`), ALL queries of the stage.
NOT proved (searched only, see the `c01sem` suite): everything else of the Cypher surface — ordered / string-function property
comparisons, DISTINCT, ORDER BY on properties, relationships, WITH, UNWIND, aggregation, expansions, OPTIONAL MATCH, quantifiers
(the design's S1 remainder and S2 … S5). `C01_full` below is the statement at the strength of properties.jsonl; it is NOT proved,
and for the unchanged code it is contradicted by the confirmed deviations listed in known_findings.json (`C01:deviation:*`).
-/
import Dawgs.Proofs.C01Sound
import Dawgs.Proofs.C01Frag
import Dawgs.Proofs.C01S2Sound
import Dawgs.Proofs.C01ChainSound
import Dawgs.Proofs.C01Count
import Dawgs.Proofs.C01CountHop
import Dawgs.Proofs.C01Limit
import Dawgs.Proofs.C01With
import Dawgs.Proofs.C01WithHop
import Dawgs.Proofs.C01Order
import Dawgs.Proofs.C01Distinct
import Dawgs.Proofs.C01Cross
namespace Dawgs.C01.Props
open Dawgs Dawgs.Sql Dawgs.C01.Proofs

/-! ### the full statement (visible, undischarged) -/

/-- client-visible agreement of an SQL result with a Cypher result: same rows in the same order.
(For a query without ORDER BY only the multiset is meaningful; the model's scan order makes the lists equal, which implies it.) -/
def Agree (km : KindMap) (g : Graph) (t : Table) (r : List String × List (List Cy.CVal)) : Prop := sqlRows t = cyRows g km r

/-- FULL STATEMENT for a translator `T`: every statement `T` produces for a read query returns, on the encoding of every well-formed
graph, what openCypher says the query returns — and does not end in an SQL run-time error. -/
def C01_for (T : KindMap → Cy.Query → Option (Stmt × List (String × Val))) : Prop :=
  ∀ (km : KindMap) (g : Graph) (q : Cy.Query) (st : Stmt) (ps : List (String × Val)), GraphOK km g → T km q = some (st, ps) →
    (∀ t, Sql.eval (encode km g) st ps = .ok t → ∃ r, Cy.eval .none g q = .ok r ∧ Agree km g t r) ∧
    (∀ m, Sql.eval (encode km g) st ps ≠ .error (.runtime m))

/-- C01 at the strength of properties.jsonl: `C01_for` the REAL translator. The real translator is Go code; the Lean side knows it
only through tie 1 (`real statement = tr q` on S1, checked on every run) and tie 2 (semantic search). This `Prop` is therefore stated
for an arbitrary total extension `T` of `tr` and stays an undischarged obligation. -/
def C01_full : Prop :=
  ∃ T : KindMap → Cy.Query → Option (Stmt × List (String × Val)),
    (∀ km q r, tr km q = some r → T km q = some r) ∧ (∀ km q, ∃ r, T km q = some r) ∧ C01_for T

/-! ### stage S1 -/

/-- `tr` answers only inside the fragment, with the S1 statement and no parameters -/
theorem tr_some (km : KindMap) (q : Cy.Query) (st : Stmt) (ps : List (String × Val)) (h : tr km q = some (st, ps)) :
    ∃ s : S1.Query, ofCy q = some s ∧ s.toCy = q ∧ s.tr km = some st ∧ ps = [] := by
  unfold tr at h
  cases ho : ofCy q with
  | none => rw [ho] at h; cases h
  | some s =>
    rw [ho] at h
    simp only [Option.map_eq_some_iff] at h
    obtain ⟨st', hst, heq⟩ := h
    cases heq
    exact ⟨s, rfl, ofCy_sound q s ho, hst, rfl⟩

/-- `tr_sound_S1`: whenever the emitted statement evaluates on the encoded graph, the openCypher semantics yields a result and both
show the client the same rows in the same order -/
theorem tr_sound_S1 (km : KindMap) (g : Graph) (q : Cy.Query) (st : Stmt) (ps : List (String × Val)) (hok : GraphOK km g)
    (h : tr km q = some (st, ps)) (t : Table) (ht : Sql.eval (encode km g) st ps = .ok t) :
    ∃ r, Cy.eval .none g q = .ok r ∧ Agree km g t r := by
  obtain ⟨s, _, hq, hst, hps⟩ := tr_some km q st ps h
  subst hps hq
  obtain ⟨r, hr, hsql⟩ := s1_total km g hok s st hst
  refine ⟨r, hr, ?_⟩
  rcases hsql with ⟨t', ht', hag⟩ | ⟨w, hw⟩
  · rw [ht'] at ht; cases ht; exact hag
  · rw [hw] at ht; cases ht

/-- `tr_no_runtime_error`: on S1 the emitted statement never ends in an SQL run-time error, type error or unbound name; the only
way the MODEL evaluation does not produce a table is `unmodelled` (`->>` applied to an array / object valued property, whose text
form the model does not render) -/
theorem tr_no_runtime_error (km : KindMap) (g : Graph) (q : Cy.Query) (st : Stmt) (ps : List (String × Val)) (hok : GraphOK km g)
    (h : tr km q = some (st, ps)) (e : EErr) (he : Sql.eval (encode km g) st ps = .error e) : ∃ w, e = .unmodelled w := by
  obtain ⟨s, _, hq, hst, hps⟩ := tr_some km q st ps h
  subst hps hq
  obtain ⟨r, _, hsql⟩ := s1_total km g hok s st hst
  rcases hsql with ⟨t', ht', _⟩ | ⟨w, hw⟩
  · rw [ht'] at he; cases he
  · rw [hw] at he; cases he; exact ⟨w, rfl⟩

/-- the openCypher side is defined on the whole stage (no `unmodelled`, no nondeterministic cut: node ids are unique sort keys) -/
theorem tr_cypher_defined (km : KindMap) (g : Graph) (q : Cy.Query) (st : Stmt) (ps : List (String × Val)) (hok : GraphOK km g)
    (h : tr km q = some (st, ps)) : ∃ r, Cy.eval .none g q = .ok r := by
  obtain ⟨s, _, hq, hst, hps⟩ := tr_some km q st ps h
  subst hps hq
  obtain ⟨r, hr, _⟩ := s1_total km g hok s st hst
  exact ⟨r, hr⟩

/-- `tr_rejects_or_sound`: the model translator either declines (`none`) or its answer satisfies the full statement's two clauses -/
theorem tr_rejects_or_sound (km : KindMap) (g : Graph) (q : Cy.Query) (hok : GraphOK km g) :
    tr km q = none ∨
    ∃ st ps, tr km q = some (st, ps) ∧
      (∀ t, Sql.eval (encode km g) st ps = .ok t → ∃ r, Cy.eval .none g q = .ok r ∧ Agree km g t r) ∧
      (∀ m, Sql.eval (encode km g) st ps ≠ .error (.runtime m)) := by
  cases h : tr km q with
  | none => exact Or.inl rfl
  | some r =>
    obtain ⟨st, ps⟩ := r
    refine Or.inr ⟨st, ps, rfl, fun t ht => tr_sound_S1 km g q st ps hok h t ht, ?_⟩
    intro m hm
    obtain ⟨w, hw⟩ := tr_no_runtime_error km g q st ps hok h _ hm
    cases hw

/-- THE PROVED PART of `C01_full`: the full statement's body holds for the model translator itself (which is partial: S1 only) -/
theorem c01_partial : C01_for tr := by
  intro km g q st ps hok h
  refine ⟨fun t ht => tr_sound_S1 km g q st ps hok h t ht, ?_⟩
  intro m hm
  obtain ⟨w, hw⟩ := tr_no_runtime_error km g q st ps hok h _ hm
  cases hw

/-! ### stage S2: one directed fixed hop with WHERE — `tr2F flipOf` = S1 ∪ S2, for every join-order choice `flipOf` -/

/-- bag agreement: the SQL rows are a permutation of the Cypher rows (stage S2 has no ORDER BY; S1's equality implies it) -/
def AgreeBag (km : KindMap) (g : Graph) (t : Table) (r : List String × List (List Cy.CVal)) : Prop := (sqlRows t).Perm (cyRows g km r)

/-- `tr2F` answers only inside S1 ∪ S2: with the S1 statement, or with the hop statement in the join order `flipOf` picked -/
theorem tr2_some (flipOf : S2.Query → Bool) (prune : Bool) (km : KindMap) (q : Cy.Query) (st : Stmt) (ps : List (String × Val))
    (h : tr2F flipOf prune km q = some (st, ps)) :
    tr km q = some (st, ps) ∨ (∃ s : S2.Query, ofCy2 q = some s ∧ s.toCy = q ∧ s.trWith km (flipOf s) prune = some st ∧ ps = []) := by
  unfold tr2F at h
  cases h1 : tr km q with
  | some r => rw [h1] at h; cases h; exact Or.inl rfl
  | none =>
    rw [h1] at h
    cases ho : ofCy2 q with
    | none => rw [ho] at h; cases h
    | some s =>
      rw [ho] at h
      simp only [Option.map_eq_some_iff] at h
      obtain ⟨st', hst, heq⟩ := h
      cases heq
      exact Or.inr ⟨s, rfl, ofCy2_sound q s ho, hst, rfl⟩

/-- `tr_sound_S2`: for every graph satisfying `GraphOK2` (GraphOK + unique relationship ids + known relationship kinds + no relationship
property stored as JSON null), every join-order choice and every query on which the model translator answers (stage S1 or S2): whenever
the emitted statement evaluates, the reference semantics yields a result and the SQL rows are a permutation of its rows (equal lists for S1) -/
theorem tr_sound_S2 (flipOf : S2.Query → Bool) (prune : Bool) (km : KindMap) (g : Graph) (q : Cy.Query) (st : Stmt) (ps : List (String × Val))
    (hok : GraphOK2 km g) (h : tr2F flipOf prune km q = some (st, ps)) (t : Table) (ht : Sql.eval (encode km g) st ps = .ok t) :
    ∃ r, Cy.eval .none g q = .ok r ∧ AgreeBag km g t r := by
  rcases tr2_some flipOf prune km q st ps h with h1 | ⟨s, _, hq, hst, hps⟩
  · obtain ⟨r, hr, hag⟩ := tr_sound_S1 km g q st ps hok.toGraphOK h1 t ht
    exact ⟨r, hr, by unfold AgreeBag; rw [show sqlRows t = cyRows g km r from hag]⟩
  · subst hps hq
    obtain ⟨r, names, rows, hr, hsql, hperm⟩ := s2_sound km g hok s (flipOf s) prune st hst
    rcases hsql with hsql | ⟨w, hsql⟩
    · rw [hsql] at ht; cases ht
      exact ⟨r, hr, hperm⟩
    · rw [hsql] at ht; cases ht

/-- `tr_sound_S2b` (the same, said for the hop stage alone and for BOTH join orders at once): the two statements the translator can emit for
a hop query — a-node joined first / b-node joined first — are each a permutation of the Cypher result whenever they evaluate -/
theorem tr_sound_S2b (km : KindMap) (g : Graph) (hok : GraphOK2 km g) (s : S2.Query) (flip prune : Bool) (st : Stmt)
    (h : s.trWith km flip prune = some st) (t : Table) (ht : Sql.eval (encode km g) st [] = .ok t) :
    ∃ r, Cy.eval .none g s.toCy = .ok r ∧ AgreeBag km g t r := by
  obtain ⟨r, names, rows, hr, hsql, hperm⟩ := s2_sound km g hok s flip prune st h
  rcases hsql with hsql | ⟨w, hsql⟩
  · rw [hsql] at ht; cases ht; exact ⟨r, hr, hperm⟩
  · rw [hsql] at ht; cases ht

/-- the reference semantics is defined on every query of the stage (no hypothesis on the SQL side) -/
theorem tr2_cypher_defined (flipOf : S2.Query → Bool) (prune : Bool) (km : KindMap) (g : Graph) (q : Cy.Query) (st : Stmt) (ps : List (String × Val))
    (hok : GraphOK2 km g) (h : tr2F flipOf prune km q = some (st, ps)) : ∃ r, Cy.eval .none g q = .ok r := by
  rcases tr2_some flipOf prune km q st ps h with h1 | ⟨s, _, hq, hst, hps⟩
  · exact tr_cypher_defined km g q st ps hok.toGraphOK h1
  · subst hq
    obtain ⟨r, _, _, hr, _, _⟩ := s2_sound km g hok s (flipOf s) prune st hst
    exact ⟨r, hr⟩

/-- the emitted statement never ends in an SQL run-time / type / name error (only the model's own `unmodelled` for `->>` of array/object
properties under a string comparison) -/
theorem tr2_no_runtime_error (flipOf : S2.Query → Bool) (prune : Bool) (km : KindMap) (g : Graph) (q : Cy.Query) (st : Stmt) (ps : List (String × Val))
    (hok : GraphOK2 km g) (h : tr2F flipOf prune km q = some (st, ps)) (e : EErr) (he : Sql.eval (encode km g) st ps = .error e) :
    ∃ w, e = .unmodelled w := by
  rcases tr2_some flipOf prune km q st ps h with h1 | ⟨s, _, hq, hst, hps⟩
  · exact tr_no_runtime_error km g q st ps hok.toGraphOK h1 e he
  · subst hps hq
    obtain ⟨r, names, rows, _, hsql, _⟩ := s2_sound km g hok s (flipOf s) prune st hst
    rcases hsql with hsql | ⟨w, hsql⟩
    · rw [hsql] at he; cases he
    · rw [hsql] at he; cases he; exact ⟨w, rfl⟩

/-- THE PROVED PART, both stages: the full statement's body (bag form) -/
def C01_bag_for (T : KindMap → Cy.Query → Option (Stmt × List (String × Val))) : Prop :=
  ∀ (km : KindMap) (g : Graph) (q : Cy.Query) (st : Stmt) (ps : List (String × Val)), GraphOK2 km g → T km q = some (st, ps) →
    (∀ t, Sql.eval (encode km g) st ps = .ok t → ∃ r, Cy.eval .none g q = .ok r ∧ AgreeBag km g t r) ∧
    (∀ m, Sql.eval (encode km g) st ps ≠ .error (.runtime m))

/-- … holds for the model translator under EVERY join-order choice -/
theorem c01_partial_S2 (flipOf : S2.Query → Bool) (prune : Bool) : C01_bag_for (tr2F flipOf prune) := by
  intro km g q st ps hok h
  refine ⟨fun t ht => tr_sound_S2 flipOf prune km g q st ps hok h t ht, ?_⟩
  intro m hm
  obtain ⟨w, hw⟩ := tr2_no_runtime_error flipOf prune km g q st ps hok h _ hm
  cases hw

/-! ### stage S2c: chains of two or three directed fixed hops — `tr3F flipOf flipCh` = S1 ∪ S2b ∪ S2c -/

/-- `tr3F` answers only inside S1 ∪ S2b ∪ S2c -/
theorem tr3_some (flipOf : S2.Query → Bool) (flipCh : Ch.Query → Bool) (prune : Bool) (km : KindMap) (q : Cy.Query) (st : Stmt) (ps : List (String × Val))
    (h : tr3F flipOf flipCh prune km q = some (st, ps)) :
    tr2F flipOf prune km q = some (st, ps) ∨ (∃ s : Ch.Query, ofCyChain q = some s ∧ s.toCy = q ∧ s.trWith km (flipCh s) = some st ∧ ps = []) := by
  unfold tr3F at h
  cases h1 : tr2F flipOf prune km q with
  | some r => rw [h1] at h; cases h; exact Or.inl rfl
  | none =>
    rw [h1] at h
    cases ho : ofCyChain q with
    | none => rw [ho] at h; cases h
    | some s =>
      rw [ho] at h
      simp only [Option.map_eq_some_iff] at h
      obtain ⟨st', hst, heq⟩ := h
      cases heq
      exact Or.inr ⟨s, rfl, ofCyChain_sound q s ho, hst, rfl⟩

/-- `tr_sound_S2c`: a chain MATCH (n0)-[e0]->(n1)-[e1]->(n2)[-[e2]->(n3)] RETURN items (kinds optional, every variable read, no WHERE): for
every graph with `GraphOK2` and both join orders of the first hop, whenever the emitted statement (frames s0, s1[, s2] with the `!=`
relationship guards) evaluates, the reference semantics — relationship uniqueness within the MATCH included — yields a result and the
rows are a permutation of each other -/
theorem tr_sound_S2c (km : KindMap) (g : Graph) (hok : GraphOK2 km g) (s : Ch.Query) (flip : Bool) (st : Stmt)
    (h : s.trWith km flip = some st) (t : Table) (ht : Sql.eval (encode km g) st [] = .ok t) :
    ∃ r, Cy.eval .none g s.toCy = .ok r ∧ AgreeBag km g t r := by
  obtain ⟨r, names, rows, hr, hsql, hperm⟩ := chain_sound km g hok s flip st h
  rcases hsql with hsql | ⟨w, hsql⟩
  · rw [hsql] at ht; cases ht; exact ⟨r, hr, hperm⟩
  · rw [hsql] at ht; cases ht

/-- THE PROVED PART over all three stages, for every join-order choice -/
theorem c01_partial_S3 (flipOf : S2.Query → Bool) (flipCh : Ch.Query → Bool) (prune : Bool) : C01_bag_for (tr3F flipOf flipCh prune) := by
  intro km g q st ps hok h
  rcases tr3_some flipOf flipCh prune km q st ps h with h2 | ⟨s, _, hq, hst, hps⟩
  · exact c01_partial_S2 flipOf prune km g q st ps hok h2
  · subst hps hq
    obtain ⟨r, names, rows, hr, hsql, hperm⟩ := chain_sound km g hok s (flipCh s) st hst
    refine ⟨fun t ht => ?_, fun m hm => ?_⟩
    · rcases hsql with hsql | ⟨w, hsql⟩
      · rw [hsql] at ht; cases ht; exact ⟨r, hr, hperm⟩
      · rw [hsql] at ht; cases ht
    · rcases hsql with hsql | ⟨w, hsql⟩
      · rw [hsql] at hm; cases hm
      · rw [hsql] at hm; cases hm

theorem ofCyChain_sound (q : Cy.Query) (s : Ch.Query) (h : ofCyChain q = some s) : s.toCy = q := Proofs.ofCyChain_sound q s h

/-! ### stage S1c: the count aggregate over one node pattern — `tr4F flipOf flipCh fast` = S1 ∪ S2b ∪ S2c ∪ S1c -/

/-- `tr4F` answers only inside S1 ∪ S2b ∪ S2c ∪ S1c -/
theorem tr4_some (flipOf : S2.Query → Bool) (flipCh : Ch.Query → Bool) (fast prune : Bool) (km : KindMap) (q : Cy.Query) (st : Stmt) (ps : List (String × Val))
    (h : tr4F flipOf flipCh fast prune km q = some (st, ps)) :
    tr3F flipOf flipCh prune km q = some (st, ps) ∨ (∃ s : S1c.Query, ofCyCount1 q = some s ∧ s.toCy = q ∧ s.trWith km fast = some st ∧ ps = []) := by
  unfold tr4F at h
  cases h1 : tr3F flipOf flipCh prune km q with
  | some r => rw [h1] at h; cases h; exact Or.inl rfl
  | none =>
    rw [h1] at h
    cases ho : ofCyCount1 q with
    | none => rw [ho] at h; cases h
    | some s =>
      rw [ho] at h
      simp only [Option.map_eq_some_iff] at h
      obtain ⟨st', hst, heq⟩ := h
      cases heq
      exact Or.inr ⟨s, rfl, ofCyCount1_sound q s ho, hst, rfl⟩

/-- `tr_sound_S1c`: MATCH (n[:K…]) [WHERE p] RETURN count(n) [AS c] — for every graph with `GraphOK` and BOTH statement shapes (count-store
fast path `select count(*)::int8 from node n0 [where kinds]` when there is no user predicate and the optimiser is on; otherwise the node
frame and `select count(s0.n0)::int8 from s0`): whenever the statement evaluates, the reference semantics yields the same single row, the
number of matching nodes -/
theorem tr_sound_S1c (km : KindMap) (g : Graph) (hok : GraphOK km g) (s : S1c.Query) (fast : Bool) (st : Stmt)
    (h : s.trWith km fast = some st) (t : Table) (ht : Sql.eval (encode km g) st [] = .ok t) :
    ∃ r, Cy.eval .none g s.toCy = .ok r ∧ Agree km g t r := by
  obtain ⟨r, names, rows, hr, hsql, hrows⟩ := count_sound km g hok s fast st h
  rcases hsql with hsql | ⟨w, hsql⟩
  · rw [hsql] at ht; cases ht; exact ⟨r, hr, hrows⟩
  · rw [hsql] at ht; cases ht

/-- THE PROVED PART over all four stages, for every join-order choice and with the fast path / projection pruning on or off -/
theorem c01_partial_S4 (flipOf : S2.Query → Bool) (flipCh : Ch.Query → Bool) (fast prune : Bool) : C01_bag_for (tr4F flipOf flipCh fast prune) := by
  intro km g q st ps hok h
  rcases tr4_some flipOf flipCh fast prune km q st ps h with h3 | ⟨s, _, hq, hst, hps⟩
  · exact c01_partial_S3 flipOf flipCh prune km g q st ps hok h3
  · subst hps hq
    obtain ⟨r, names, rows, hr, hsql, hrows⟩ := count_sound km g hok.toGraphOK s fast st hst
    refine ⟨fun t ht => ?_, fun m hm => ?_⟩
    · rcases hsql with hsql | ⟨w, hsql⟩
      · rw [hsql] at ht; cases ht
        exact ⟨r, hr, by unfold AgreeBag; rw [hrows]⟩
      · rw [hsql] at ht; cases ht
    · rcases hsql with hsql | ⟨w, hsql⟩
      · rw [hsql] at hm; cases hm
      · rw [hsql] at hm; cases hm

theorem ofCyCount1_sound (q : Cy.Query) (s : S1c.Query) (h : ofCyCount1 q = some s) : s.toCy = q := Proofs.ofCyCount1_sound q s h

/-! ### stage S2n: the count aggregate over one directed hop — `tr5F` = all proved stages -/

theorem tr5_some (flipOf : S2.Query → Bool) (flipCh : Ch.Query → Bool) (flipN : S2n.Query → Bool) (fast prune : Bool) (km : KindMap) (q : Cy.Query)
    (st : Stmt) (ps : List (String × Val)) (h : tr5F flipOf flipCh flipN fast prune km q = some (st, ps)) :
    tr4F flipOf flipCh fast prune km q = some (st, ps) ∨
    (∃ s : S2n.Query, ofCyCount2 q = some s ∧ s.toCy = q ∧ s.trWith km (flipN s) prune = some st ∧ ps = []) := by
  unfold tr5F at h
  cases h1 : tr4F flipOf flipCh fast prune km q with
  | some r => rw [h1] at h; cases h; exact Or.inl rfl
  | none =>
    rw [h1] at h
    cases ho : ofCyCount2 q with
    | none => rw [ho] at h; cases h
    | some s =>
      rw [ho] at h
      simp only [Option.map_eq_some_iff] at h
      obtain ⟨st', hst, heq⟩ := h
      cases heq
      exact Or.inr ⟨s, rfl, ofCyCount2_sound q s ho, hst, rfl⟩

/-- `tr_sound_S2n`: MATCH (a)-[r]->(b) [WHERE single-variable conjuncts] RETURN count(x) [AS c] — for every graph with `GraphOK2`, both join
orders and the hop frame pruned (to x and the variables of the WHERE conjuncts) or complete: whenever the statement evaluates, the reference
semantics yields the same single row, the number of matches -/
theorem tr_sound_S2n (km : KindMap) (g : Graph) (hok : GraphOK2 km g) (s : S2n.Query) (flip prune : Bool) (st : Stmt)
    (h : s.trWith km flip prune = some st) (t : Table) (ht : Sql.eval (encode km g) st [] = .ok t) :
    ∃ r, Cy.eval .none g s.toCy = .ok r ∧ Agree km g t r := by
  obtain ⟨r, names, rows, hr, hsql, hrows⟩ := count_hop_sound km g hok s flip prune st h
  rcases hsql with hsql | ⟨w, hsql⟩
  · rw [hsql] at ht; cases ht; exact ⟨r, hr, hrows⟩
  · rw [hsql] at ht; cases ht

/-- THE PROVED PART over all five stages, for every join-order choice and with the fast path / projection pruning on or off -/
theorem c01_partial_S5 (flipOf : S2.Query → Bool) (flipCh : Ch.Query → Bool) (flipN : S2n.Query → Bool) (fast prune : Bool) :
    C01_bag_for (tr5F flipOf flipCh flipN fast prune) := by
  intro km g q st ps hok h
  rcases tr5_some flipOf flipCh flipN fast prune km q st ps h with h4 | ⟨s, _, hq, hst, hps⟩
  · exact c01_partial_S4 flipOf flipCh fast prune km g q st ps hok h4
  · subst hps hq
    obtain ⟨r, names, rows, hr, hsql, hrows⟩ := count_hop_sound km g hok s (flipN s) prune st hst
    refine ⟨fun t ht => ?_, fun m hm => ?_⟩
    · rcases hsql with hsql | ⟨w, hsql⟩
      · rw [hsql] at ht; cases ht
        exact ⟨r, hr, by unfold AgreeBag; rw [hrows]⟩
      · rw [hsql] at ht; cases ht
    · rcases hsql with hsql | ⟨w, hsql⟩
      · rw [hsql] at hm; cases hm
      · rw [hsql] at hm; cases hm

/-! ### stage S2L: one directed hop with LIMIT k, no ORDER BY, no SKIP — `tr6F` = all proved stages

openCypher does not say WHICH k rows such a query returns. `Cy.eval` refuses it (`nondeterministic-limit-inside-ties`) exactly when the
choice is not forced (`limit_refused_iff`); the soundness statement is therefore made against the rows of the BASE query (no LIMIT). -/

theorem ofCyLimit2_sound (q : Cy.Query) (s : S2L.Query) (h : ofCyLimit2 q = some s) : s.toCy = q := Proofs.ofCyLimit2_sound q s h

theorem tr6_some (flipOf : S2.Query → Bool) (flipCh : Ch.Query → Bool) (flipN : S2n.Query → Bool) (fast prune push : Bool) (km : KindMap) (q : Cy.Query)
    (st : Stmt) (ps : List (String × Val)) (h : tr6F flipOf flipCh flipN fast prune push km q = some (st, ps)) :
    (ofCyLimit2 q = none ∧ tr5F flipOf flipCh flipN fast prune km q = some (st, ps)) ∨
    (∃ s : S2L.Query, ofCyLimit2 q = some s ∧ s.toCy = q ∧ s.trWith km (flipOf s.base) prune push = some st ∧ ps = []) :=
  Proofs.tr6_some flipOf flipCh flipN fast prune push km q st ps h

/-- `limit_refused_iff`: the reference semantics refuses MATCH (a)-[r]->(b) [WHERE …] RETURN items LIMIT k exactly when the LIMIT would have
to choose among the rows of the base query (0 < k < number of base rows); otherwise its result is the first k (all, or none) of them -/
theorem limit_refused_iff (km : KindMap) (g : Graph) (hok : GraphOK2 km g) (s : S2L.Query) (hwf : s.base.wf = true) :
    ∃ names rows, Cy.eval .none g s.base.toCy = .ok (names, rows) ∧
      Cy.eval .none g s.toCy = (if 0 < s.k ∧ s.k < rows.length then .error "nondeterministic-limit-inside-ties" else .ok (names, rows.take s.k)) := by
  have hn : ∀ n ∈ g.nodes, g.node? n.id = some n := find_of_nodup g.nodes hok.nodup
  have he : ∀ e ∈ g.edges, g.edge? e.id = some e := fun e hm => hok.edge? e hm
  refine ⟨_, _, cy_side2 g s.base hwf hn he, ?_⟩
  rw [cy_side2_lim g s hwf hn he, List.length_map, List.map_take]

/-- `tr_sound_S2L`: MATCH (a)-[r]->(b) [WHERE single-variable conjuncts] RETURN items LIMIT k — for every graph with `GraphOK2`, both join
orders, the hop frame pruned or complete, the LIMIT also written into the hop frame (limit pushdown) or not: whenever the statement
evaluates to a table `t`, the BASE query (without LIMIT) has a reference result `r`, and
  * the client-visible rows of `t` are a sub-bag of the rows of `r`,
  * `t` has exactly min(k, number of rows of r) rows,
  * the rows of `t` are the first k of a list that depends on the join order only and is a permutation of the rows of `r`. -/
theorem tr_sound_S2L (km : KindMap) (g : Graph) (hok : GraphOK2 km g) (s : S2L.Query) (flip prune push : Bool) (st : Stmt)
    (h : s.trWith km flip prune push = some st) (t : Table) (ht : Sql.eval (encode km g) st [] = .ok t) :
    ∃ r, Cy.eval .none g s.base.toCy = .ok r ∧ SubBag (sqlRows t) (cyRows g km r) ∧ t.rows.length = min s.k r.2.length ∧
      sqlRows t = ((hopM g s.base flip).take s.k).map (rowOf2 km g s.base) ∧
      ((hopM g s.base flip).map (rowOf2 km g s.base)).Perm (cyRows g km r) := by
  obtain ⟨r, names, rows, hr, hsql, hrows, hperm, hsub, hlen⟩ := s2l_sound km g hok s flip prune push st h
  rcases hsql with hsql | ⟨w, hsql⟩
  · rw [hsql] at ht; cases ht; exact ⟨r, hr, hsub, hlen, hrows, hperm⟩
  · rw [hsql] at ht; cases ht

/-- the statement never ends in an SQL run-time / type / name error of the model (only `unmodelled` is possible besides a table) -/
theorem tr_noerr_S2L (km : KindMap) (g : Graph) (hok : GraphOK2 km g) (s : S2L.Query) (flip prune push : Bool) (st : Stmt)
    (h : s.trWith km flip prune push = some st) (m : String) (hm : Sql.eval (encode km g) st [] = .error (.runtime m)) : False := by
  obtain ⟨r, names, rows, hr, hsql, _⟩ := s2l_sound km g hok s flip prune push st h
  rcases hsql with hsql | ⟨w, hsql⟩
  · rw [hsql] at hm; cases hm
  · rw [hsql] at hm; cases hm

/-- `tr_sound_S2L_forced`: when the reference semantics DOES define the result of the LIMIT query itself (k = 0, or k at least the number
of base rows), the statement's rows agree with it as a bag — the contract of `C01_bag_for` on this stage -/
theorem tr_sound_S2L_forced (km : KindMap) (g : Graph) (hok : GraphOK2 km g) (s : S2L.Query) (hwf : s.base.wf = true) (flip prune push : Bool) (st : Stmt)
    (h : s.trWith km flip prune push = some st) (t : Table) (ht : Sql.eval (encode km g) st [] = .ok t)
    (r' : List String × List (List Cy.CVal)) (hr' : Cy.eval .none g s.toCy = .ok r') : AgreeBag km g t r' := by
  obtain ⟨r, hr, _, _, hrows, hperm⟩ := tr_sound_S2L km g hok s flip prune push st h t ht
  obtain ⟨names, rows, hb, hl⟩ := limit_refused_iff km g hok s hwf
  rw [hb] at hr; cases hr
  rw [hl] at hr'
  unfold AgreeBag
  rw [hrows]
  have hlenM : (hopM g s.base flip).length = rows.length := by
    have := hperm.length_eq
    simpa [cyRows] using this
  split at hr'
  · cases hr'
  · rename_i hk
    cases hr'
    by_cases h0 : s.k = 0
    · simp [h0, cyRows]
    · have hge : rows.length ≤ s.k := by
        have : ¬ (s.k < rows.length) := fun hh => hk ⟨by omega, hh⟩
        omega
      rw [List.take_of_length_le (by omega), List.take_of_length_le hge]
      exact hperm

/-- the stage is inhabited: MATCH (a)-[r]->(b) RETURN a.name LIMIT 2 is recognised as itself and translated, with and without the pushdown -/
def exLimQ : S2L.Query := ⟨⟨"a", "r", "b", [], [], [], [], [.prop .a "name" none]⟩, 2⟩
example : (ofCyLimit2 exLimQ.toCy == some exLimQ) = true := by decide +kernel
example : (exLimQ.trWith [("K", 1)] false true true).isSome = true ∧ (exLimQ.trWith [("K", 1)] false true false).isSome = true := by decide +kernel

/-! ### stage S3a: one WITH between a node MATCH and the RETURN, plain projection items — `tr7F` -/

theorem ofCyWith_sound (q : Cy.Query) (s : S3.Query) (h : ofCyWith q = some s) : s.toCy = q := Proofs.ofCyWith_sound q s h

theorem ofCyWithHop_sound (q : Cy.Query) (s : S3b.Query) (h : ofCyWithHop q = some s) : s.toCy = q := Proofs.ofCyWithHop_sound q s h

theorem tr7_some (flipOf : S2.Query → Bool) (flipCh : Ch.Query → Bool) (flipN : S2n.Query → Bool) (fast prune push : Bool) (km : KindMap) (q : Cy.Query)
    (st : Stmt) (ps : List (String × Val)) (h : tr7F flipOf flipCh flipN fast prune push km q = some (st, ps)) :
    (ofCyWith q = none ∧ ofCyWithHop q = none ∧ tr6F flipOf flipCh flipN fast prune push km q = some (st, ps)) ∨
    (∃ s : S3.Query, ofCyWith q = some s ∧ s.toCy = q ∧ s.tr km = some st ∧ ps = []) ∨
    (∃ s : S3b.Query, ofCyWithHop q = some s ∧ s.toCy = q ∧ s.tr km = some st ∧ ps = []) := by
  unfold tr7F at h
  cases ho : ofCyWith q with
  | some s =>
    rw [ho] at h
    simp only [Option.map_eq_some_iff] at h
    obtain ⟨st', hst, heq⟩ := h
    cases heq
    exact Or.inr (Or.inl ⟨s, rfl, ofCyWith_sound q s ho, hst, rfl⟩)
  | none =>
    rw [ho] at h
    cases ho2 : ofCyWithHop q with
    | some s =>
      rw [ho2] at h
      simp only [Option.map_eq_some_iff] at h
      obtain ⟨st', hst, heq⟩ := h
      cases heq
      exact Or.inr (Or.inr ⟨s, rfl, ofCyWithHop_sound q s ho2, hst, rfl⟩)
    | none => rw [ho2] at h; exact Or.inl ⟨rfl, rfl, h⟩

/-- `tr_sound_S3a`: MATCH (n[:K…]) [WHERE p] WITH w1, …, wk RETURN r1, …, rm with wi ::= n | n AS m | n.k AS x and rj ::= m | m.k | id(m) | x
[AS a] over the exported names — for every graph with `GraphOK`: whenever the nested statement
`with s0 as (with s1 as (<node frame>) select <wi> from s1) select <rj> from s0` evaluates, the reference semantics yields a result and both
show the client the same rows in the same order -/
theorem tr_sound_S3a (km : KindMap) (g : Graph) (hok : GraphOK km g) (s : S3.Query) (st : Stmt) (h : s.tr km = some st) (t : Table)
    (ht : Sql.eval (encode km g) st [] = .ok t) : ∃ r, Cy.eval .none g s.toCy = .ok r ∧ Agree km g t r := by
  obtain ⟨r, names, rows, hr, hsql, hrows⟩ := s3_sound km g hok s st h
  rcases hsql with hsql | ⟨w, hsql⟩
  · rw [hsql] at ht; cases ht; exact ⟨r, hr, hrows⟩
  · rw [hsql] at ht; cases ht

/-- the reference semantics is defined on every query of the stage, and the statement never ends in an SQL run-time error of the model -/
theorem tr_total_S3a (km : KindMap) (g : Graph) (hok : GraphOK km g) (s : S3.Query) (st : Stmt) (h : s.tr km = some st) :
    (∃ r, Cy.eval .none g s.toCy = .ok r) ∧ (∀ m, Sql.eval (encode km g) st [] ≠ .error (.runtime m)) := by
  obtain ⟨r, names, rows, hr, hsql, _⟩ := s3_sound km g hok s st h
  refine ⟨⟨r, hr⟩, fun m hm => ?_⟩
  rcases hsql with hsql | ⟨w, hsql⟩
  · rw [hsql] at hm; cases hm
  · rw [hsql] at hm; cases hm

/-- `tr_sound_S3b`: MATCH (n[:K…]) [WHERE p] WITH n MATCH (n)-[r[:T|…]]->(b[:K…]) RETURN items (items over n, r, b, each read) — for every graph
with `GraphOK2`: whenever the statement `with s0 as (<hand-over of n>), s2 as (<step frame from s0>) select <items> from s2` evaluates, the
reference semantics yields a result and both show the client the same rows in the same order -/
theorem tr_sound_S3b (km : KindMap) (g : Graph) (hok : GraphOK2 km g) (s : S3b.Query) (st : Stmt) (h : s.tr km = some st) (t : Table)
    (ht : Sql.eval (encode km g) st [] = .ok t) : ∃ r, Cy.eval .none g s.toCy = .ok r ∧ Agree km g t r := by
  obtain ⟨r, names, rows, hr, hsql, hrows⟩ := s3b_sound km g hok s st h
  rcases hsql with hsql | ⟨w, hsql⟩
  · rw [hsql] at ht; cases ht; exact ⟨r, hr, hrows⟩
  · rw [hsql] at ht; cases ht

theorem tr_total_S3b (km : KindMap) (g : Graph) (hok : GraphOK2 km g) (s : S3b.Query) (st : Stmt) (h : s.tr km = some st) :
    (∃ r, Cy.eval .none g s.toCy = .ok r) ∧ (∀ m, Sql.eval (encode km g) st [] ≠ .error (.runtime m)) := by
  obtain ⟨r, names, rows, hr, hsql, _⟩ := s3b_sound km g hok s st h
  refine ⟨⟨r, hr⟩, fun m hm => ?_⟩
  rcases hsql with hsql | ⟨w, hsql⟩
  · rw [hsql] at hm; cases hm
  · rw [hsql] at hm; cases hm

def exWithHopQ : S3b.Query := ⟨"n", ["K"], none, none, ⟨"r", [], "b", []⟩, [.ent (.node 0) none, .idOf (.rel 0) none, .prop (.node 1) "name" none]⟩
example : (ofCyWithHop exWithHopQ.toCy == some exWithHopQ) = true := by decide +kernel
example : (exWithHopQ.tr [("K", 1)]).isSome = true := by decide +kernel

/-- the stage is inhabited: MATCH (n:K) WHERE n.a = 1 WITH n AS m, n.name AS x RETURN m, x, id(m) is recognised as itself and translated -/
def exWithQ : S3.Query := ⟨"n", ["K"], some (.propEqInt false "a" 1), [.node (some "m"), .prop "name" "x"], [.node 0 none, .val 1 none, .id 0 none]⟩
example : (ofCyWith exWithQ.toCy == some exWithQ) = true := by decide +kernel
example : (exWithQ.tr [("K", 1)]).isSome = true := by decide +kernel

/-! ### stage S1o: ORDER BY on a property — `tr8F`. The jsonb order of the sort key and openCypher's order coincide exactly under `KeyOK` -/

theorem ofCyOrder_sound (q : Cy.Query) (s : S1o.Query) (h : ofCyOrder q = some s) : s.toCy = q := Proofs.ofCyOrder_sound q s h

theorem keyOK_of_check (g : Graph) (k : String) (h : keyOKb g k = true) : KeyOK k g.nodes := keyOKb_sound g k h

theorem tr8_some (flipOf : S2.Query → Bool) (flipCh : Ch.Query → Bool) (flipN : S2n.Query → Bool) (fast prune push : Bool) (km : KindMap) (q : Cy.Query)
    (st : Stmt) (ps : List (String × Val)) (h : tr8F flipOf flipCh flipN fast prune push km q = some (st, ps)) :
    (ofCyOrder q = none ∧ tr7F flipOf flipCh flipN fast prune push km q = some (st, ps)) ∨
    (∃ s : S1o.Query, ofCyOrder q = some s ∧ s.toCy = q ∧ s.tr km = some st ∧ ps = []) := by
  unfold tr8F at h
  cases ho : ofCyOrder q with
  | none => rw [ho] at h; exact Or.inl ⟨rfl, h⟩
  | some s =>
    rw [ho] at h
    simp only [Option.map_eq_some_iff] at h
    obtain ⟨st', hst, heq⟩ := h
    cases heq
    exact Or.inr ⟨s, rfl, ofCyOrder_sound q s ho, hst, rfl⟩

/-- `tr_sound_S1o`: MATCH (n[:K…]) [WHERE p] RETURN items ORDER BY n.k [ASC|DESC] [SKIP i] [LIMIT j] — for every graph with `GraphOK` whose values
of property k are scalars with no boolean value meeting a number value (`KeyOK`, the hypothesis that makes the KNOWN DEVIATION
order-by-uses-jsonb-cross-type-order explicit: outside it the statement sorts Number < Boolean where openCypher sorts Boolean < Number, and
arrays / objects differ again): whenever the statement yields a table and the reference semantics answers, both show the client the same rows
in the same order -/
theorem tr_sound_S1o (km : KindMap) (g : Graph) (hok : GraphOK km g) (s : S1o.Query) (hK : KeyOK s.key g.nodes) (st : Stmt) (h : s.tr km = some st)
    (t : Table) (ht : Sql.eval (encode km g) st [] = .ok t) (r : List String × List (List Cy.CVal)) (hr : Cy.eval .none g s.toCy = .ok r) :
    Agree km g t r := by
  obtain ⟨names, rows, hsql, hagree⟩ := s1o_sound km g hok s hK st h
  rcases hsql with hsql | ⟨w, hsql⟩
  · rw [hsql] at ht; cases ht; exact hagree r hr
  · rw [hsql] at ht; cases ht

/-- the statement never ends in an SQL run-time / type error of the model; the reference semantics refuses a query of the stage only when its
SKIP / LIMIT cuts inside a block of equal sort keys (then openCypher does not determine the result) -/
theorem tr_total_S1o (km : KindMap) (g : Graph) (hok : GraphOK km g) (s : S1o.Query) (hK : KeyOK s.key g.nodes) (st : Stmt) (h : s.tr km = some st) :
    (∀ m, Sql.eval (encode km g) st [] ≠ .error (.runtime m)) ∧ (∀ m, Sql.eval (encode km g) st [] ≠ .error (.typing m)) ∧
    ((∃ r, Cy.eval .none g s.toCy = .ok r) ∨ Cy.eval .none g s.toCy = .error "nondeterministic-skip-inside-ties" ∨
      Cy.eval .none g s.toCy = .error "nondeterministic-limit-inside-ties") := by
  obtain ⟨names, rows, hsql, _⟩ := s1o_sound km g hok s hK st h
  have hwf : s.wf = true := by
    unfold S1o.Query.tr at h
    cases hwf : s.wf with
    | true => rfl
    | false => simp [hwf] at h
  refine ⟨fun m hm => ?_, fun m hm => ?_, ?_⟩
  · rcases hsql with hsql | ⟨w, hsql⟩
    · rw [hsql] at hm; cases hm
    · rw [hsql] at hm; cases hm
  · rcases hsql with hsql | ⟨w, hsql⟩
    · rw [hsql] at hm; cases hm
    · rw [hsql] at hm; cases hm
  · exact cy_refuses_only_ties g hok.nodup s hwf (keyOK_sub s.key g.nodes _ (fun n hn => (List.mem_filter.mp hn).1) hK)

def exOrdQ : S1o.Query := ⟨⟨"n", ["K"], none, [.prop "name" none, .id none], none⟩, "a", false, some 1, some 2⟩
example : (ofCyOrder exOrdQ.toCy == some exOrdQ) = true := by decide +kernel
example : (exOrdQ.tr [("K", 1)]).isSome = true := by decide +kernel

/-! ### stage S1d: RETURN DISTINCT over a node match — `tr9F`. jsonb equality of the returned property values and openCypher's equivalence
coincide when those values are scalars (`KeysScalar`) -/

theorem ofCyDistinct_sound (q : Cy.Query) (s : S1d.Query) (h : ofCyDistinct q = some s) : s.toCy = q := (Proofs.ofCyDistinct_sound q s h).1

theorem keysScalar_of_check (g : Graph) (keys : List String) (h : keys.all (scalarKeyB g) = true) : KeysScalar keys g.nodes :=
  keysScalarB_sound g keys h

theorem tr9_some (flipOf : S2.Query → Bool) (flipCh : Ch.Query → Bool) (flipN : S2n.Query → Bool) (fast prune push : Bool) (km : KindMap) (q : Cy.Query)
    (st : Stmt) (ps : List (String × Val)) (h : tr9F flipOf flipCh flipN fast prune push km q = some (st, ps)) :
    (ofCyDistinct q = none ∧ tr8F flipOf flipCh flipN fast prune push km q = some (st, ps)) ∨
    (∃ s : S1d.Query, ofCyDistinct q = some s ∧ s.toCy = q ∧ s.tr km = some st ∧ ps = []) := by
  unfold tr9F at h
  cases ho : ofCyDistinct q with
  | none => rw [ho] at h; exact Or.inl ⟨rfl, h⟩
  | some s =>
    rw [ho] at h
    simp only [Option.map_eq_some_iff] at h
    obtain ⟨st', hst, heq⟩ := h
    cases heq
    exact Or.inr ⟨s, rfl, ofCyDistinct_sound q s ho, hst, rfl⟩

/-- `tr_sound_S1d`: MATCH (n[:K…]) [WHERE p] RETURN DISTINCT items — for every graph with `GraphOK` in which the property keys the RETURN reads
hold JSON scalars (string, number, boolean) or are absent (`KeysScalar`; outside it `select distinct` compares arrays / objects as jsonb where the
reference semantics compares lists element-wise with null propagation and leaves map equivalence undefined): whenever the statement yields a table
and the reference semantics answers, both show the client the same rows in the same order (the first row of every class of equal rows, in scan
order — that is the order of BOTH models; without ORDER BY neither PostgreSQL nor openCypher promises a row order, so only the bag of rows is a claim
about the real systems) -/
theorem tr_sound_S1d (km : KindMap) (g : Graph) (hok : GraphOK km g) (s : S1d.Query) (hK : KeysScalar s.keys g.nodes) (st : Stmt) (h : s.tr km = some st)
    (t : Table) (ht : Sql.eval (encode km g) st [] = .ok t) (r : List String × List (List Cy.CVal)) (hr : Cy.eval .none g s.toCy = .ok r) :
    Agree km g t r := by
  obtain ⟨names, rows, hsql, hagree⟩ := s1d_sound km g hok s hK st h
  rcases hsql with hsql | ⟨w, hsql⟩
  · rw [hsql] at ht; cases ht; exact hagree r hr
  · rw [hsql] at ht; cases ht

/-- the statement never ends in an SQL run-time / type error of the model, and the reference semantics answers every query of the stage -/
theorem tr_total_S1d (km : KindMap) (g : Graph) (hok : GraphOK km g) (s : S1d.Query) (hK : KeysScalar s.keys g.nodes) (st : Stmt) (h : s.tr km = some st) :
    (∀ m, Sql.eval (encode km g) st [] ≠ .error (.runtime m)) ∧ (∀ m, Sql.eval (encode km g) st [] ≠ .error (.typing m)) ∧
    (∃ r, Cy.eval .none g s.toCy = .ok r) := by
  obtain ⟨names, hsql⟩ := sql_side_d km g hok s st h
  have hwf : s.wf = true := by
    unfold S1d.Query.tr at h
    cases hwf : s.wf with
    | true => rfl
    | false => simp [hwf] at h
  refine ⟨fun m hm => ?_, fun m hm => ?_, ?_⟩
  · rcases hsql with hsql | ⟨w, hsql⟩
    · rw [hsql] at hm; cases hm
    · rw [hsql] at hm; cases hm
  · rcases hsql with hsql | ⟨w, hsql⟩
    · rw [hsql] at hm; cases hm
    · rw [hsql] at hm; cases hm
  · exact ⟨_, cy_side_d km g hok.nodup s hwf (fun k hk n hn => hK k hk n (List.mem_filter.mp hn).1)⟩

def exDistQ : S1d.Query := ⟨⟨"n", ["K"], some (.propEqInt false "a" 1), [.prop "name" none, .id none], none⟩⟩
example : (ofCyDistinct exDistQ.toCy == some exDistQ) = true := by decide +kernel
example : (exDistQ.tr [("K", 1)]).isSome = true := by decide +kernel

/-! ### stage S2x: a hop whose WHERE compares a property of `a` with a property of `b` — `tr10F`. jsonb `=` / `<>` of the stored values and
openCypher's `=` / `<>` coincide when those values are scalars (`CrossScalar`) -/

theorem ofCyCross_sound (q : Cy.Query) (s : S2x.Query) (h : ofCyCross q = some s) : s.toCy = q := (Proofs.ofCyCross_sound q s h).1

theorem crossScalar_of_check (g : Graph) (q : S2x.Query) (h : q.keys.all (scalarKeyB g) = true) : CrossScalar q g.nodes :=
  crossScalarB_sound g q h

theorem tr10_some (flipOf : S2.Query → Bool) (flipCh : Ch.Query → Bool) (flipN : S2n.Query → Bool) (flipX : S2x.Query → Bool) (fast prune push : Bool)
    (km : KindMap) (q : Cy.Query) (st : Stmt) (ps : List (String × Val)) (h : tr10F flipOf flipCh flipN flipX fast prune push km q = some (st, ps)) :
    (ofCyCross q = none ∧ tr9F flipOf flipCh flipN fast prune push km q = some (st, ps)) ∨
    (∃ s : S2x.Query, ofCyCross q = some s ∧ s.toCy = q ∧ s.stmtWith km (flipX s) prune = some st ∧ ps = []) := by
  unfold tr10F at h
  cases ho : ofCyCross q with
  | none => rw [ho] at h; exact Or.inl ⟨rfl, h⟩
  | some s =>
    rw [ho] at h
    simp only [Option.map_eq_some_iff] at h
    obtain ⟨st', hst, heq⟩ := h
    cases heq
    exact Or.inr ⟨s, rfl, ofCyCross_sound q s ho, hst, rfl⟩

/-- `tr_sound_S2x`: MATCH (a[:K…])-[r[:T|…]]->(b[:K…]) WHERE c1 AND … AND cn RETURN items, every ci a single-variable S1 predicate or
`x.k = y.k'` / `x.k <> y.k'` with {x, y} = {a, b}, at least one of the latter — for every graph with `GraphOK2` in which the compared property
keys hold JSON scalars (string, number, boolean) or are absent on every node (`CrossScalar`; outside it the statement compares arrays / objects
as jsonb where the reference semantics compares lists element-wise with null propagation and leaves map equality undefined), both join orders,
pruned or complete frame: the reference semantics answers, and whenever the statement yields a table the client-visible rows are a PERMUTATION
of the reference rows (a bag, as in stage S2b) -/
theorem tr_sound_S2x (km : KindMap) (g : Graph) (hok : GraphOK2 km g) (s : S2x.Query) (hS : CrossScalar s g.nodes) (flip prune : Bool) (st : Stmt)
    (h : s.stmtWith km flip prune = some st) :
    ∃ r, Cy.eval .none g s.toCy = .ok r ∧
      ∀ t, Sql.eval (encode km g) st [] = .ok t → (sqlRows t).Perm (cyRows g km r) := by
  obtain ⟨r, names, rows, hcy, hsql, hperm⟩ := s2x_sound km g hok s hS flip prune st h
  refine ⟨r, hcy, fun t ht => ?_⟩
  rcases hsql with hsql | ⟨w, hsql⟩
  · rw [hsql] at ht; cases ht; exact hperm
  · rw [hsql] at ht; cases ht

/-- the statement never ends in an SQL run-time / type error of the model -/
theorem tr_noerr_S2x (km : KindMap) (g : Graph) (hok : GraphOK2 km g) (s : S2x.Query) (hS : CrossScalar s g.nodes) (flip prune : Bool) (st : Stmt)
    (h : s.stmtWith km flip prune = some st) :
    (∀ m, Sql.eval (encode km g) st [] ≠ .error (.runtime m)) ∧ (∀ m, Sql.eval (encode km g) st [] ≠ .error (.typing m)) := by
  obtain ⟨r, names, rows, _, hsql, _⟩ := s2x_sound km g hok s hS flip prune st h
  refine ⟨fun m hm => ?_, fun m hm => ?_⟩
  · rcases hsql with hsql | ⟨w, hsql⟩
    · rw [hsql] at hm; cases hm
    · rw [hsql] at hm; cases hm
  · rcases hsql with hsql | ⟨w, hsql⟩
    · rw [hsql] at hm; cases hm
    · rw [hsql] at hm; cases hm

def exCrossQ : S2x.Query := ⟨"a", "r", "b", ["K"], [], [], [.two ⟨false, .a, "x", .b, "y"⟩, .one .b (.propEqInt false "a" 1), .two ⟨true, .b, "x", .a, "x"⟩],
  [.ent .r none, .prop .a "name" none]⟩
example : (ofCyCross exCrossQ.toCy == some exCrossQ) = true := by decide +kernel
example : (exCrossQ.stmtWith [("K", 1)] true true).isSome = true := by decide +kernel
example : (exCrossQ.stmtWith [("K", 1)] false false).isSome = true := by decide +kernel

theorem ofCyCount2_sound (q : Cy.Query) (s : S2n.Query) (h : ofCyCount2 q = some s) : s.toCy = q := Proofs.ofCyCount2_sound q s h

theorem ofCy2_sound (q : Cy.Query) (s : S2.Query) (h : ofCy2 q = some s) : s.toCy = q := Proofs.ofCy2_sound q s h

theorem graphOK2_of_check (km : KindMap) (g : Graph) (h : graphOK2b km g = true) : GraphOK2 km g := graphOK2b_sound km g h

/-! ### key lemmas -/

/-- `kind_match_encode`: under `encode`, `kind_ids @> ARRAY[ids of ks]` is exactly "the node carries every kind in ks"
(needs the kind map to be injective; unknown stored kinds are harmless) -/
theorem kind_match_encode (km : KindMap) (hinj : ∀ a b i, km.id? a = some i → km.id? b = some i → a = b)
    (kinds ks : List String) (ids : List Nat) (h : ks.mapM km.id? = some ids) :
    (ids.map (fun i => Val.int (Int.ofNat i))).all (arrHas (kindIdsOf km kinds)) = Cy.kindsAllOf kinds ks :=
  Proofs.kind_match_encode km hinj kinds ks ids h

/-- `string_eq_guard`: `jsonb_typeof(p -> k) = 'string' and (p ->> k) = s` evaluates to Cypher's `n.k = 's'`: true exactly for a
string property equal to s, false for every other stored scalar (a number printing as the same text does NOT match), null when the
property is missing -/
theorem string_eq_guard (km : KindMap) (n : NodeRec) (E : EEnv) (k s : String) (hnn : Json.lookup k n.props ≠ some .null)
    (v : Val) (e : Expr) (he : S1.Pred.tr km (.propEqStr k s) = some e) (h : evalExpr (E.push (nodeLvl km n)) e = .ok v) :
    v = triVal (sem n (.propEqStr k s)) :=
  Proofs.string_eq_guard km n E k s hnn v e he h

/-- the lowered WHERE predicate computes the three-valued meaning of the Cypher predicate on every node row -/
theorem where_pred_sound (km : KindMap) (n : NodeRec) (E : EEnv) (hinj : ∀ a b i, km.id? a = some i → km.id? b = some i → a = b)
    (hnn : ∀ k, Json.lookup k n.props ≠ some .null) (p : S1.Pred) (e : Expr) (he : S1.Pred.tr km p = some e) :
    Benign (evalExpr (E.push (nodeLvl km n)) e) (sem n p) :=
  sql_pred km n E hinj hnn p e he

/-- the recogniser of the fragment is sound -/
theorem ofCy_sound (q : Cy.Query) (s : S1.Query) (h : ofCy q = some s) : s.toCy = q := Proofs.ofCy_sound q s h

/-! ### hypotheses are witnessed, the fragment is inhabited -/

def exKm : KindMap := [("User", 1), ("Group", 2)]
def exG : Graph :=
  { nodes := [⟨1, ["User"], [("name", .str "a"), ("n", .num ⟨3, 0⟩)]⟩, ⟨2, ["User", "Group"], [("name", .num ⟨7, 0⟩)]⟩, ⟨3, ["Group"], []⟩],
    edges := [] }

/-- `GraphOK` is decidable through `graphOKb`; the driver evaluates it on every generated graph and reports how many satisfy it -/
theorem graphOK_of_check (km : KindMap) (g : Graph) (h : graphOKb km g = true) : GraphOK km g := graphOKb_sound km g h

theorem exG_ok : GraphOK exKm exG := graphOKb_sound exKm exG (by decide)

def exS : S1.Query :=
  { var := "n", kinds := ["User"], wh := some (.or (.propEqStr "name" "a") (.not (.propIsNull "n"))),
    items := [.node none, .prop "name" (some "x")], order := some ⟨false, some 0, some 5⟩ }

/-- the stage is inhabited: `tr` answers on this query, and the theorems' hypotheses hold on `exG` -/
example : (tr exKm exS.toCy).isSome = true := by decide +kernel

def exE1 : EdgeRec := { id := 10, start := 1, stop := 2, kind := "MemberOf", props := [("w", .num ⟨1, 0⟩)] }
def exE2 : EdgeRec := { id := 11, start := 2, stop := 2, kind := "MemberOf", props := [] }
def exG2 : Graph := { nodes := exG.nodes, edges := [exE1, exE2] }
def exKm2 : KindMap := exKm ++ [("MemberOf", 3)]
def exS2 : S2.Query := { a := "a", r := "r", b := "b", akinds := ["User"], rkinds := ["MemberOf"], bkinds := [], wh := [(.b, .propEqStr "name" "x"), (.r, .idCmp .gt 3)], items := [.ent .a none, .prop .r "w" (some "w"), .idOf .b none] }

theorem exG2_ok : GraphOK2 exKm2 exG2 := graphOK2b_sound exKm2 exG2 (by decide)
example : (tr2 exKm2 exS2.toCy).isSome = true := by decide +kernel

end Dawgs.C01.Props
