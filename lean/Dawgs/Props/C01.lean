/- C01 — placeholder while the model translator and the stage theorems are being built. -/
import Dawgs.Model.CyEval
import Dawgs.Model.SqlEval
namespace Dawgs.C01.Props
end Dawgs.C01.Props
