/-
C16 — caches are bounded, coherent and safe under concurrent use.
ONLY property statements and non-vacuity examples live here; lemmas are in Proofs/C16.lean.
Sequential part (all histories, all capacities, both implementations). The interleaving part is in
Props/C16Conc.lean.
-/
import Dawgs.Proofs.C16
namespace Dawgs.C16.Props
open Dawgs.C16

/-- effective capacity of `NewSieve(c)` -/
def sieveCap (c : Int) : Nat := if c ≤ 0 then 1 else c.toNat

/-- SIEVE: after any history from any constructor argument the cache holds at most `capacity`
entries, one per key, the hand points into the queue, and the size statistic equals the number of
stored entries. -/
theorem sieve_inv (c : Int) (ops : List Op) :
    let s := (Sieve.new c).run ops
    (keys s.queue).Nodup ∧ s.queue.length ≤ sieveCap c ∧ s.size = s.queue.length ∧
    (∀ h, s.hand = some h → h ∈ keys s.queue) := by
  have hi := Sieve.run_inv (Sieve.inv_new c) ops
  have hc : ∀ (s : Sieve) (ops : List Op), (s.run ops).cap = s.cap := by
    intro s ops
    induction ops generalizing s with
    | nil => rfl
    | cons o ops ih =>
      show ((s.step o).1.run ops).cap = s.cap
      rw [ih]
      cases o with
      | put k v =>
        show (s.put k v).cap = s.cap
        unfold Sieve.put; split
        · rfl
        · unfold Sieve.putEntry Sieve.evict; split
          · simp only; split
            · rfl
            · split <;> rfl
          · rfl
      | get k => show (s.get k).1.cap = s.cap; unfold Sieve.get; split <;> rfl
      | del k => show (s.delete k).cap = s.cap; unfold Sieve.delete; split <;> rfl
  refine ⟨hi.nodup, ?_, hi.size, hi.hand⟩
  have := hi.bounded; rw [hc] at this; exact this

/-- SIEVE refines the ideal map: every lookup in every history is a miss or the value of the most
recent put of that key that was not deleted since. -/
theorem sieve_refines_map (c : Int) (ops : List Op) :
    acceptsTrace [] ((Sieve.new c).trace ops) = true :=
  Sieve.trace_accepted (Sieve.inv_new c) (Sieve.sub_new c) ops

/-- The eviction sweep terminates: with `length + 1` iterations of fuel it always finds a victim,
from every state reachable by any history (a dangling hand or an endless sweep would make
`sweep` return `none`). -/
theorem sieve_evict_terminates (c : Int) (ops : List Op) :
    let s := (Sieve.new c).run ops
    s.queue ≠ [] → ∃ h0, s.handOrBack = some h0 ∧ (sweep (s.queue.length + 1) s.queue h0).isSome := by
  intro s hne
  have hi : s.Inv := Sieve.run_inv (Sieve.inv_new c) ops
  have ⟨h0, hh0, hm0⟩ : ∃ h0, s.handOrBack = some h0 ∧ h0 ∈ keys s.queue := by
    unfold Sieve.handOrBack
    cases hh : s.hand with
    | some h => exact ⟨h, rfl, hi.hand h hh⟩
    | none =>
      obtain ⟨p, hb⟩ := backKey_isSome hne
      exact ⟨p, hb, backKey_mem hb⟩
  exact ⟨h0, hh0, sweep_fuel_sufficient_aux hi.nodup hm0 (by have := countVisited_le s.queue; omega)⟩

/-- A completed put is visible to the next lookup of that key (rules out "always miss"). -/
theorem sieve_put_then_get (s : Sieve) (k v : Nat) : ((s.put k v).get k).2 = some v :=
  Sieve.get_after_put s k v

/-- Map cache: bounded by `max capacity 0`, one entry per key, size statistic exact. -/
theorem nemap_inv (c : Int) (ops : List Op) :
    let s := (NeMap.new c).run ops
    (skeys s.store).Nodup ∧ (s.store.length : Int) ≤ max c 0 ∧ s.size = s.store.length := by
  have hi := NeMap.run_inv (NeMap.inv_new c) ops
  have hc : ∀ (s : NeMap) (ops : List Op), (s.run ops).cap = s.cap := by
    intro s ops
    induction ops generalizing s with
    | nil => rfl
    | cons o ops ih =>
      show ((s.step o).1.run ops).cap = s.cap
      rw [ih]
      cases o with
      | put k v =>
        show (s.put k v).cap = s.cap
        unfold NeMap.put; split
        · rfl
        · split <;> rfl
      | get k => show (s.get k).1.cap = s.cap; unfold NeMap.get; split <;> rfl
      | del k => show (s.delete k).cap = s.cap; unfold NeMap.delete; split <;> rfl
  refine ⟨hi.nodup, ?_, hi.size⟩
  have := hi.bounded; rw [hc] at this; exact this

theorem nemap_refines_map (c : Int) (ops : List Op) :
    acceptsTrace [] ((NeMap.new c).trace ops) = true :=
  NeMap.trace_accepted (NeMap.sub_new c) ops

/-- `Stats.Combined` (used by `algo.ReachabilityCache.Stats`): the combined size figure of two caches after any
histories is the number of entries the two caches store, and the combined capacity is the sum of the capacities.
Being a function of two readings, it cannot disturb either cache — the tie checks that the Go method is such a function
(repeated readings agree, later cache behaviour is unchanged). -/
theorem combined_stats_exact (c1 c2 : Int) (ops1 ops2 : List Op) :
    let a := (Sieve.new c1).run ops1
    let b := (NeMap.new c2).run ops2
    (a.stats.combined b.stats).size = (a.queue.length : Int) + b.store.length ∧
    (b.stats.combined a.stats).size = (a.queue.length : Int) + b.store.length ∧
    (a.stats.combined b.stats).cap = (a.cap : Int) + b.cap := by
  have h1 := (sieve_inv c1 ops1).2.2.1
  have h2 := (nemap_inv c2 ops2).2.2
  intro a b
  refine ⟨?_, ?_, rfl⟩
  · show a.size + b.size = _
    have : a.size = a.queue.length := h1
    have : b.size = b.store.length := h2
    omega
  · show b.size + a.size = _
    have : a.size = a.queue.length := h1
    have : b.size = b.store.length := h2
    omega

/-- The sequential part of C16 at full strength. -/
def C16_seq_full : Prop :=
  (∀ (c : Int) (ops : List Op),
      let s := (Sieve.new c).run ops
      (keys s.queue).Nodup ∧ s.queue.length ≤ sieveCap c ∧ s.size = s.queue.length ∧
      acceptsTrace [] ((Sieve.new c).trace ops) = true) ∧
  (∀ (c : Int) (ops : List Op),
      let s := (NeMap.new c).run ops
      (skeys s.store).Nodup ∧ (s.store.length : Int) ≤ max c 0 ∧ s.size = s.store.length ∧
      acceptsTrace [] ((NeMap.new c).trace ops) = true)

theorem c16_seq : C16_seq_full :=
  ⟨fun c ops => ⟨(sieve_inv c ops).1, (sieve_inv c ops).2.1, (sieve_inv c ops).2.2.1, sieve_refines_map c ops⟩,
   fun c ops => ⟨(nemap_inv c ops).1, (nemap_inv c ops).2.1, (nemap_inv c ops).2.2, nemap_refines_map c ops⟩⟩

/-! Non-vacuity: a cap-2 cache driven through a hit, a full sweep with wrap-around, an eviction and a
delete-at-hand; the monitor is not trivially true (it rejects a stale value). -/
example :
    let ops := [Op.put 1 10, .put 2 20, .get 1, .get 2, .put 3 30, .get 1, .del 2, .put 4 40, .get 3]
    ((Sieve.new 2).run ops).queue.map (·.key) = [4, 3] ∧
    ((Sieve.new 2).trace ops).map (·.2) =
      [Out.unit, Out.unit, Out.hit 10, Out.hit 20, Out.unit, Out.miss, Out.unit, Out.unit, Out.hit 30] := by
  decide
example : acceptsTrace [] [(.put 1 10, .unit), (.put 1 11, .unit), (.get 1, .hit 10)] = false := by decide
example : acceptsTrace [] [(.put 1 10, .unit), (.del 1, .unit), (.get 1, .hit 10)] = false := by decide
example : acceptsTrace [] [(.put 1 10, .unit), (.put 2 20, .unit), (.get 2, .hit 10)] = false := by decide

end Dawgs.C16.Props
