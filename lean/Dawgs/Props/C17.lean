/-
C17 — parallel traversal delivers every result exactly once and always terminates.
ONLY property statements and non-vacuity examples live here; lemmas are in Proofs/C17*.lean.

"For all schedules" = for all paths of the labelled transition systems of Model/C17.lean
(`Pipe.Reach`, `BF.Reach`): every theorem below is an invariant proved by induction over paths,
for every worker count `cfg.n`, every finite driver tree `cfg.root`, every fault point (the error /
cancel actions are enabled at every driver call).

Status summary (see `C17_full` at the end). The LIVE model is the repaired worker error branch
(`cfg.fixed = true`, hooks/C17-fix.patch; the order-fact tie accepts only that shape):
  proved, all schedules      : pipe_fifo, pipe_complete, pipe_writer_never_waits_on_reader,
                               bf_pipe_refines, bf_counter_inv, bf_no_early_exit, bf_exactly_once,
                               bf_error_cancels, bf_return_joins_workers, bf_return_no_goroutine_left,
                               bf_live_ctx_error_recorded,
                               bf_measure (every step decreases the bound), bf_terminates, bf_reaches_return,
                               limit_skip_window, range_partition_exact
  about the OLD protocol     : bf_terminates_refuted_old (witness of finding F14: the hang that was
                               reproduced on the code before the repair), bf_terminates_partial_old,
                               c17_full_old_refuted
  sequential helpers         : seq_helper_eq_spec and its instances traversePaths_eq_spec, terminals_eq_spec,
                               acyclicNodes_eq_spec, acyclicNodes_reachable_spec, terminals_reachable_spec,
                               terminals_not_only_sinks, intermediaryPaths_eq_spec (result = skip/limit window
                               of the FILTERED DFS candidate sequence, all graphs/filters/skip/limit)
                               traversePaths_order_eq_spec, paths_fit_finite, c17_seq_paths (the DFS candidate
                               order of TraversePaths = the recursive path definition on every finite graph)
  full statement             : c17_full : C17_full (unconditional)
  outside the LTS (observed) : goroutine exit of the pipe after return, wall-clock promptness,
                               the unsynchronised PathSegment.size roll-up
-/
import Dawgs.Proofs.C17BF
import Dawgs.Proofs.C17Seq
import Dawgs.Spec.C17
namespace Dawgs.C17.Props
open Dawgs.C17

/-! ## (a) BufferedPipe -/

/-- FIFO, exactly once: along every schedule the delivered sequence is a prefix of the submitted
sequence (same order; position k of `delivered` is position k of `submitted`, so nothing is
duplicated or reordered), and what is not yet delivered is exactly the buffer. -/
theorem pipe_fifo {α : Type} (p : Pipe α) (h : Pipe.Reach p) :
    p.delivered <+: p.submitted ∧ p.submitted = p.delivered ++ p.buf :=
  ⟨⟨p.buf, (Pipe.reach_inv h).hist.symm⟩, (Pipe.reach_inv h).hist⟩

/-- Completeness: (1) if the goroutine has returned and the context was never cancelled, everything
submitted was delivered; (2) once the writer has closed, `buf.length` reader steps and the loop exit
are all enabled and end in that state; (3) in the flush loop every step other than a cancellation
decreases the distance to it (the goroutine cannot linger). -/
theorem pipe_complete {α : Type} (p : Pipe α) (h : Pipe.Reach p) :
    (p.phase = .done → p.cancelled = false → p.delivered = p.submitted) ∧
    (p.phase = .flush → ∃ p', p.run (List.replicate p.buf.length .send ++ [.exit]) = some p' ∧
        p'.phase = .done ∧ p'.delivered = p.submitted ∧ p'.cancelled = p.cancelled) ∧
    (p.phase = .flush → ∀ a p', p.step a = some p' →
        (∃ b, p' = { p with cancelled := b }) ∨ Pipe.flushMeasure p' < Pipe.flushMeasure p) := by
  have hi := Pipe.reach_inv h
  refine ⟨?_, ?_, ?_⟩
  · intro hd hc
    rcases hi.done hd with h1 | h1
    · rw [hc] at h1; cases h1
    · rw [hi.hist, h1, List.append_nil]
  · intro hf
    have hnd : p.phase ≠ .done := by rw [hf]; intro h; cases h
    have h1 := Pipe.run_sends p hnd p.buf [] (by simp)
    refine ⟨{ p with buf := [], delivered := p.delivered ++ p.buf, phase := .done }, ?_, rfl, ?_, rfl⟩
    · rw [Pipe.run_append, h1]
      simp [Pipe.run, Pipe.step, hf]
    · show p.delivered ++ p.buf = p.submitted
      exact hi.hist.symm
  · intro hf a p' hs
    cases a with
    | recv v => have := (Pipe.step_recv hs).1; rw [hf] at this; cases this
    | send =>
      obtain ⟨_, v, rest, hb, rfl⟩ := Pipe.step_send hs
      right; simp [Pipe.flushMeasure, hf, hb]
    | close => have := (Pipe.step_close hs).1; rw [hf] at this; cases this
    | cancel => left; exact ⟨true, Pipe.step_cancel hs⟩
    | observeCancel =>
      obtain ⟨_, _, rfl⟩ := Pipe.step_observe hs
      right; simp [Pipe.flushMeasure, hf]
    | exit =>
      obtain ⟨_, _, rfl⟩ := Pipe.step_exit hs
      right; simp [Pipe.flushMeasure, hf]

/-- The writer never waits for the reader: in every reachable state of the main loop the `recv`
action is enabled for every value, whatever the buffer holds and however little the reader has
taken; hence any number of submissions goes through with no reader step at all. -/
theorem pipe_writer_never_waits_on_reader {α : Type} (p : Pipe α) (_h : Pipe.Reach p) (hl : p.phase = .loop) :
    (∀ v, (p.step (.recv v)).isSome = true) ∧
    (∀ vs : List α, ∃ p', p.run (vs.map .recv) = some p' ∧ p'.buf = p.buf ++ vs ∧
        p'.delivered = p.delivered ∧ p'.phase = .loop) := by
  refine ⟨fun v => by simp [Pipe.step, hl], fun vs => ⟨_, Pipe.run_recvs p hl vs, rfl, rfl, hl⟩⟩

/-! ## (b) BreadthFirst -/

/-- The segment pipe inside BreadthFirst IS the BufferedPipe LTS of part (a) (every BreadthFirst step
is a pipe step or leaves the pipe alone), so `pipe_fifo` holds for it along every schedule: the
segments received by workers are a prefix, in order, of the segments submitted. -/
theorem bf_pipe_refines (cfg : Cfg) (s : BF) (h : BF.Reach cfg s) :
    Pipe.Reach s.sh.pipe ∧ s.sh.pipe.delivered <+: s.sh.pipe.submitted :=
  ⟨reach_pipe h, (pipe_fifo _ (reach_pipe h)).1⟩

/-- `descentCount` = segments in the pipe + segments being expanded by a worker (+1 for a child
that is counted but not yet submitted) + the coordinator's root between `Add(1)` and `Submit`
+ units orphaned by a `Submit` that failed because the context was done. Without cancellation the
last term is 0. Holds for the code as it is and for the repaired variant. -/
theorem bf_counter_inv (cfg : Cfg) (s : BF) (h : BF.Reach cfg s) :
    s.sh.count = ((s.sh.pipe.buf.length + wtSum s.ws + cwt s.coord + s.sh.dropUnits : Nat) : Int) ∧
    (s.sh.cancelled = false → s.sh.dropUnits = 0) := by
  refine ⟨(reach_inv h).cnt, fun hc => ?_⟩
  rcases Nat.eq_zero_or_pos s.sh.dropUnits with h0 | h0
  · exact h0
  · have := (reach_inv2 h).du h0; rw [hc] at this; cases this

/-- The coordinator reads 0 only when all work is done: if its `Load()` returns 0 (state `load`,
or any later state reached through that exit) then the pipe is empty, no worker holds a segment,
nothing was dropped or lost, and the driver was called on exactly the nodes of the tree. -/
theorem bf_no_early_exit (cfg : Cfg) (s : BF) (h : BF.Reach cfg s)
    (hz : (s.coord = .load ∧ s.sh.count = 0) ∨ viaZero s.coord = true) :
    s.sh.pipe.buf = [] ∧ wtSum s.ws = 0 ∧ s.sh.dropUnits = 0 ∧ s.sh.lost = [] ∧
    s.sh.expanded.Perm cfg.root.nodes := by
  rcases hz with ⟨hc, h0⟩ | hv
  · exact zero_means_done (reach_inv h) (by rw [hc]; intro h; cases h) h0
  · exact zero_means_done (reach_inv h) (by intro hc; rw [hc] at hv; cases hv) (reach_invz h hv)

/-- Exactly once: along every schedule (faults and cancellation included) the segments handed to
the driver form a sub-multiset of the tree's nodes (nothing twice, nothing foreign), and when
BreadthFirst returns through `descentCount = 0` they are exactly the tree's nodes. -/
theorem bf_exactly_once (cfg : Cfg) (s : BF) (h : BF.Reach cfg s) :
    s.sh.expanded.Subperm cfg.root.nodes ∧
    (s.coord = .ret true → s.sh.expanded.Perm cfg.root.nodes) := by
  refine ⟨?_, fun hc => (bf_no_early_exit cfg s h (Or.inr (by rw [hc]; rfl))).2.2.2.2⟩
  have ht := (reach_inv h).tree
  rw [← Multiset.coe_le, ht]
  simp only [add_assoc]
  exact Multiset.le_add_right _ _

/-- The bound: `BF.μ` (remaining atomic actions) strictly decreases with EVERY step of EVERY
component from EVERY state — so no step increases it, there is no livelock, and every run from the
initial state has at most `μ(init)` steps. -/
theorem bf_measure (cfg : Cfg) :
    (∀ s a s', BF.step cfg s a = some s' → s'.μ cfg < s.μ cfg) ∧
    (∀ as s', BF.run cfg (BF.init cfg) as = some s' → as.length ≤ (BF.init cfg).μ cfg) :=
  ⟨fun _ _ _ h => measure_step h, fun as s' h => by have := run_length_le h; omega⟩

/-- Termination (LIVE statement: the repaired protocol, `doneFunc()` on every worker error), all
N ≥ 1, all trees, all schedules, a fault of any class at any driver call: every reachable state in which BreadthFirst has not returned has an enabled
non-environment step; together with `bf_measure` every maximal run is finite and ends with
BreadthFirst returned. Weak fairness is only needed to say that an enabled step is eventually
taken by the Go scheduler; no fairness between components is required. -/
theorem bf_terminates (cfg : Cfg) (hn : 1 ≤ cfg.n) (hf : cfg.fixed = true) (s : BF) (h : BF.Reach cfg s)
    (hnr : ∀ z, s.coord ≠ .ret z) :
    ∃ a s', Act.isEnv a = false ∧ s.step cfg a = some s' ∧ s'.μ cfg < s.μ cfg := by
  obtain ⟨a, s', he, hs⟩ := progress hn hf (reach_inv h) (reach_inv2 h) hnr
  exact ⟨a, s', he, hs, measure_step hs⟩

/-- Termination, packaged: from EVERY reachable state of the live protocol (whatever has happened so far:
success path, a driver / visitor / memory-limit error at any call, a cancellation at any point) there
is a continuation using no environment action that ends with BreadthFirst returned; by `bf_measure`
every run is finite, so every maximal run is such a continuation. -/
theorem bf_reaches_return (cfg : Cfg) (hn : 1 ≤ cfg.n) (hf : cfg.fixed = true) :
    ∀ s, BF.Reach cfg s → ∃ acts s', acts.all (fun a => !Act.isEnv a) = true ∧ BF.run cfg s acts = some s' ∧
      ∃ z, s'.coord = .ret z := by
  have key : ∀ m s, s.μ cfg = m → BF.Reach cfg s → ∃ acts s', acts.all (fun a => !Act.isEnv a) = true ∧
      BF.run cfg s acts = some s' ∧ ∃ z, s'.coord = .ret z := by
    intro m
    induction m using Nat.strong_induction_on with
    | _ m ih =>
      intro s hm hr
      by_cases hret : ∃ z, s.coord = .ret z
      · exact ⟨[], s, rfl, rfl, hret⟩
      · have hnr : ∀ z, s.coord ≠ .ret z := fun z hz => hret ⟨z, hz⟩
        obtain ⟨a, s1, he, hs, hlt⟩ := bf_terminates cfg hn hf s hr hnr
        obtain ⟨acts, s', hall, hrun, hz⟩ := ih (s1.μ cfg) (by omega) s1 rfl (BF.Reach.step hr hs)
        refine ⟨a :: acts, s', ?_, ?_, hz⟩
        · simp [List.all_cons, he, hall]
        · simp [BF.run, hs, hrun]
  intro s hr
  exact key _ s rfl hr

/-- The protocol BEFORE the repair (`cfg.fixed` arbitrary, in particular `false`) terminates along
schedules in which the driver never returns an error that `errors.Is` context.Canceled /
graph.ErrContextTimedOut while the traversal context is live (`BF.ReachNS`). -/
theorem bf_terminates_partial_old (cfg : Cfg) (hn : 1 ≤ cfg.n) (s : BF) (h : BF.ReachNS cfg s)
    (hnr : ∀ z, s.coord ≠ .ret z) :
    ∃ a s', Act.isEnv a = false ∧ s.step cfg a = some s' ∧ s'.μ cfg < s.μ cfg := by
  obtain ⟨hfs, hr⟩ := reachNS_repaired h
  obtain ⟨a, s', he, hs⟩ := progress (cfg := cfg.repaired) hn rfl (reach_inv hr) (reach_inv2 hr) hnr
  rw [step_repaired cfg s a hfs] at hs
  exact ⟨a, s', he, hs, measure_step hs⟩

/-- witness configuration of the hang: one worker, a single-node tree -/
def hangCfg : Cfg := { n := 1, root := .node 0 [], fixed := false }
def hangActs : List Act := [.cInc, .cSubmitRoot, .w 0 .recv, .w 0 .driverErrSilent, .w 0 .failSilent]
def hangState : BF :=
  { sh := { pipe := { buf := [], phase := .loop, cancelled := false, submitted := [.node 0 []], delivered := [.node 0 []] },
            count := 1, compl := 0, err := false, expanded := [.node 0 []], lost := [], dropUnits := 0 },
    coord := .wait, ws := [.exitedFailed] }

/-- Finding F14 as a theorem about the OLD definition (`fixed := false`): after a swallowed driver
error the only worker has exited, the coordinator waits on `completionC` for ever, the context is
live, and no action except an external cancellation is enabled. This hang was reproduced on the code
before the repair (corpus/C17/c17bf_swallowed.ops is now the regression case). -/
theorem bf_terminates_refuted_old :
    BF.run hangCfg (BF.init hangCfg) hangActs = some hangState ∧
    hangState.coord = .wait ∧ hangState.sh.cancelled = false ∧
    ∀ a s', hangState.step hangCfg a = some s' → a = .cancel := by
  refine ⟨rfl, rfl, rfl, ?_⟩
  intro a s' h
  cases a with
  | w i a =>
    exfalso
    cases i with
    | zero => cases a <;> simp [BF.step, hangState, wstep] at h
    | succ j => simp [BF.step, hangState] at h
  | cancel => rfl
  | _ => simp [BF.step, hangState, Pipe.step, Shared.cancelled] at h

/-- Recorded-error semantics of the repair: a context.Canceled / ErrContextTimedOut-class worker
error always cancels the traversal; it is recorded iff the traversal context was still live (or an
error was recorded already). -/
theorem bf_live_ctx_error_recorded (cfg : Cfg) (hf : cfg.fixed = true) (sh sh' : Shared) (w' : WState)
    (h : wstep cfg sh .failedSilent .failSilent = some (sh', w')) :
    sh'.cancelled = true ∧ sh'.err = (sh.err || !sh.cancelled) ∧ w' = .exitedFailed := by
  simp only [wstep, hf, if_true, Option.some.injEq, Prod.mk.injEq] at h
  obtain ⟨rfl, rfl⟩ := h
  exact ⟨rfl, rfl, rfl⟩

/-- the repaired protocol on the F14 schedule: the error is recorded, the context cancelled, and the
run goes on to return (contrast `bf_terminates_refuted_old`) -/
example : (BF.run { hangCfg with fixed := true } (BF.init hangCfg)
      (hangActs ++ [.cRecvCancel, .cCancel, .pipeExit, .cReturn])).map
      (fun s => (s.coord, s.sh.err, s.sh.cancelled)) = some (.ret false, true, true) := by decide

/-- Errors cancel and are reported: in every reachable state a recorded error implies the traversal
context is cancelled; the error flag is never cleared; BreadthFirst returns only after every worker
has returned; and (repaired protocol, by `bf_terminates`) it does return. -/
theorem bf_error_cancels (cfg : Cfg) (s : BF) (h : BF.Reach cfg s) :
    (s.sh.err = true → s.sh.cancelled = true) ∧
    (∀ a s', s.step cfg a = some s' → s.sh.err = true → s'.sh.err = true) ∧
    (∀ z, s.coord = .ret z → s.sh.cancelled = true) := by
  refine ⟨(reach_inv2 h).errc, ?_, fun z hc => (reach_inv2 h).jn (by rw [hc]; rfl)⟩
  intro a s' hs he
  cases a with
  | w i a =>
    obtain ⟨w, sh', w', hw, hws, rfl⟩ := step_w_inv hs
    show sh'.err = true
    cases hws <;> simp_all [Shared.setPipe]
  | cInc => simp only [BF.step] at hs; split at hs <;> try cases hs
            exact he
  | cSubmitRoot => simp only [BF.step] at hs; split at hs <;> try cases hs
                   exact he
  | cSubmitRootCancel =>
    simp only [BF.step] at hs; split at hs <;> try cases hs
    split at hs <;> try cases hs
    exact he
  | cRecv =>
    simp only [BF.step] at hs; split at hs <;> try cases hs
    split at hs <;> try cases hs
    exact he
  | cRecvCancel =>
    simp only [BF.step] at hs; split at hs <;> try cases hs
    split at hs <;> try cases hs
    exact he
  | cLoad =>
    simp only [BF.step] at hs; split at hs <;> try cases hs
    split at hs <;> cases hs <;> exact he
  | cCancel => simp only [BF.step] at hs; split at hs <;> try cases hs
               exact he
  | cReturn =>
    simp only [BF.step] at hs; split at hs <;> try cases hs
    split at hs <;> try cases hs
    exact he
  | pipeExit => simp only [BF.step] at hs; split at hs <;> try cases hs
                exact he
  | cancel => simp only [BF.step] at hs; split at hs <;> try cases hs
              exact he

/-- BreadthFirst returns only when every worker goroutine has returned (`workerWG.Wait()`). -/
theorem bf_return_joins_workers (cfg : Cfg) (s : BF) (h : BF.Reach cfg s) :
    ∀ z, s.coord = .ret z → s.ws.all WState.isExited = true := by
  induction h with
  | init => intro z hc; cases hc
  | @step s s' a hr hs ih =>
    intro z hc
    cases a with
    | w i a =>
      obtain ⟨w, sh', w', hw, hws, rfl⟩ := step_w_inv hs
      have hall := ih z hc
      -- a returned worker has no step
      have : w.isExited = true := by
        have := List.all_eq_true.mp hall w (List.mem_of_getElem? hw)
        exact this
      cases hws <;> simp [WState.isExited] at this
    | cReturn =>
      simp only [BF.step] at hs; split at hs <;> try cases hs
      split at hs <;> try cases hs
      next hall => exact hall
    | cInc => simp only [BF.step] at hs; split at hs <;> try cases hs
              cases hc
    | cSubmitRoot => simp only [BF.step] at hs; split at hs <;> try cases hs
                     cases hc
    | cSubmitRootCancel =>
      simp only [BF.step] at hs; split at hs <;> try cases hs
      split at hs <;> try cases hs
      cases hc
    | cRecv =>
      simp only [BF.step] at hs; split at hs <;> try cases hs
      split at hs <;> try cases hs
      cases hc
    | cRecvCancel =>
      simp only [BF.step] at hs; split at hs <;> try cases hs
      split at hs <;> try cases hs
      cases hc
    | cLoad =>
      simp only [BF.step] at hs; split at hs <;> try cases hs
      split at hs <;> cases hs <;> cases hc
    | cCancel => simp only [BF.step] at hs; split at hs <;> try cases hs
                 cases hc
    | pipeExit => simp only [BF.step] at hs; split at hs <;> try cases hs
                  exact ih z hc
    | cancel => simp only [BF.step] at hs; split at hs <;> try cases hs
                exact ih z hc

/-- No goroutine is left behind by the protocol: when BreadthFirst has returned, every worker has
returned (`bf_return_joins_workers`) and the pipe goroutine has either returned already or its
`ctx.Done()` case is enabled — it needs no further input from anyone to exit, and taking that step
puts it in its final state. (The Go runtime actually scheduling that step is observed by the harness:
goroutine count settles, class `goroutine-leak` otherwise.) -/
theorem bf_return_no_goroutine_left (cfg : Cfg) (s : BF) (h : BF.Reach cfg s) (z : Bool) (hc : s.coord = .ret z) :
    s.ws.all WState.isExited = true ∧
    (s.sh.pipe.phase = .done ∨
      ∃ s', s.step cfg .pipeExit = some s' ∧ s'.sh.pipe.phase = .done ∧ s'.ws = s.ws ∧ s'.coord = s.coord) := by
  refine ⟨bf_return_joins_workers cfg s h z hc, ?_⟩
  have hcan : s.sh.cancelled = true := (reach_inv2 h).jn (by rw [hc]; rfl)
  rcases (reach_inv2 h).ph with hp | ⟨hp, _⟩
  · right
    have hcan' : s.sh.pipe.cancelled = true := hcan
    refine ⟨{ s with sh := s.sh.setPipe { s.sh.pipe with phase := .done } }, ?_, rfl, rfl, rfl⟩
    simp [BF.step, Pipe.step, hcan', hp]
  · exact Or.inl hp

/-! ## (c) sequential helpers -/

/-- LimitSkipTracker: offering any candidate sequence to a fresh tracker collects exactly the
window "drop `skip`, then keep `limit` (all if `limit ≤ 0`)" — for all skip/limit (negative too). -/
theorem limit_skip_window {α : Type} (skip limit : Int) (xs : List α) :
    (({ limit := limit, skip := skip } : Seq.Tracker).offer xs).2 = Seq.window skip limit xs :=
  Seq.offer_window _ rfl xs

/-- parallelNodeQuery range producer: for every `max` and every stride `s > 0` the floors
`0, s, 2s, … ≤ max` with half-open windows `[f, f+s)` cover every id in `[0, max]` exactly once, and
no floor exceeds `max`. -/
theorem range_partition_exact (max stride : Nat) (hs : 0 < stride) :
    (∀ id, id ≤ max → (Seq.floors max stride).countP (Seq.inWindow stride id) = 1) ∧
    (∀ f ∈ Seq.floors max stride, f ≤ max) :=
  ⟨fun id hid => Seq.floorsLoop_cover max stride id hs (max + 1) 0 (Nat.zero_le _) hid (by omega),
   Seq.floorsLoop_le max stride (max + 1) 0⟩

/-- Every sequential helper of ops/traversal.go (TraversePaths, AcyclicTraverseTerminals,
AcyclicTraverseNodes, TraverseIntermediaryPaths — `p.helper`), on every ordered adjacency, with any
node / descent / path filters, any skip and limit (negative too): what the stack loop of
`ops.Traversal` collects (model `Seq.loop`, a call-by-call transcription with the `break` at the limit)
is exactly the plan-defined result `Seq.specOut`: the DFS candidate sequence with the FILTERS APPLIED
FIRST, and THEN the skip/limit window over that filtered sequence. In particular a node the filter
rejects never consumes skip or limit budget. -/
theorem seq_helper_eq_spec (p : Seq.Plan) (root : Nat) (skip limit : Int) (fuel : Nat) :
    (Seq.loop p fuel (Seq.start root skip limit)).out = Seq.specOut p root skip limit fuel := by
  have h := Seq.loop_out p fuel (Seq.start root skip limit) (by intro h; cases h)
  rw [h]
  show [] ++ _ = _
  rw [List.nil_append, Seq.offer_window _ rfl]
  rfl

/-- TraversePaths: the returned paths, in order -/
theorem traversePaths_eq_spec (p : Seq.Plan) (_hp : p.helper = .paths) (root : Nat) (skip limit : Int) (fuel : Nat) :
    (Seq.loop p fuel (Seq.start root skip limit)).out.map (fun s => (s.pathNodes, s.pathEdges)) =
      (Seq.specOut p root skip limit fuel).map (fun s => (s.pathNodes, s.pathEdges)) := by
  rw [seq_helper_eq_spec]

/-- AcyclicTraverseTerminals: the collected terminal nodes (a set in Go; here the sequence that is added to it) -/
theorem terminals_eq_spec (p : Seq.Plan) (_hp : p.helper = .terminals) (root : Nat) (skip limit : Int) (fuel : Nat) :
    (Seq.loop p fuel (Seq.start root skip limit)).out.map Seq.Seg.node =
      (Seq.specOut p root skip limit fuel).map Seq.Seg.node := by
  rw [seq_helper_eq_spec]

/-- AcyclicTraverseNodes: the root (tested against the node filter outside skip/limit) plus the collected
nodes; every collected node passed the node filter BEFORE it was counted. -/
theorem acyclicNodes_eq_spec (p : Seq.Plan) (hp : p.helper = .nodes) (root : Nat) (skip limit : Int) (fuel : Nat) :
    Seq.rootIncluded p root ++ (Seq.loop p fuel (Seq.start root skip limit)).out.map Seq.Seg.node =
      Seq.rootIncluded p root ++ (Seq.specOut p root skip limit fuel).map Seq.Seg.node ∧
    (∀ (c : Seq.Core) (f : Nat), ∀ s ∈ Seq.events p f c, Seq.optAccept p.nodeFilter s.node = true) := by
  refine ⟨by rw [seq_helper_eq_spec], ?_⟩
  intro c f
  induction f generalizing c with
  | zero => intro s hs; cases hs
  | succ n ih =>
    intro s hs
    unfold Seq.events at hs
    cases hc : Seq.iterCore p c with
    | none => rw [hc] at hs; cases hs
    | some r =>
      obtain ⟨c', off⟩ := r
      rw [hc] at hs
      rcases List.mem_append.mp hs with h | h
      · unfold Seq.iterCore at hc
        cases hst : c.stack with
        | nil => rw [hst] at hc; cases hc
        | cons next below =>
          rw [hst] at hc
          simp only [Option.some.injEq, Prod.mk.injEq] at hc
          rw [← hc.2] at h
          have hv : Seq.offeredByVisit p next
              (List.filter (Seq.pushOK p) (Seq.expandNext p c.visited next).2).isEmpty = false := by
            simp [Seq.offeredByVisit, hp]
          rw [hv] at h
          simp only [Bool.false_eq_true, if_false, List.append_nil, List.mem_filter] at h
          have := h.2
          simp only [Seq.offeredByDescent, Bool.and_eq_true] at this
          exact this.2
      · exact ih c' s h

/-- AcyclicTraverseNodes, independent characterisation of its candidate set (no user descent filter): once
the DFS has emptied its stack, a node is a candidate iff the node filter accepts it and it is reachable
from the root over at least one edge (a successor of a reachable node). With `acyclicNodes_eq_spec` the
returned set is the root (if accepted) plus the skip/limit window of that candidate sequence; without
skip/limit it is exactly the accepted reachable node set.
HYPOTHESIS `hdone`: the tracker-free DFS finished within `fuel` (true on every finite graph; the tie
reports `model-out-of-fuel` otherwise). -/
theorem acyclicNodes_reachable_spec (p : Seq.Plan) (hp : p.helper = .nodes) (hd : p.descentFilter = none)
    (root fuel : Nat)
    (hdone : (Seq.accRun p fuel { stack := [{ root := root, steps := [] }], visited := [] } []).1.stack = []) :
    ∀ v, v ∈ (Seq.events p fuel { stack := [{ root := root, steps := [] }], visited := [] }).map Seq.Seg.node ↔
      (Seq.optAccept p.nodeFilter v = true ∧ ∃ u, Seq.Reachable p.adj root u ∧ v ∈ Seq.succs p.adj u) := by
  have h0 : Seq.NInv p root { stack := [{ root := root, steps := [] }], visited := [] } [] := by
    refine ⟨?_, ?_, ?_, ?_, ?_⟩
    · intro s hs; simp at hs; subst hs; exact Seq.Reachable.refl
    · intro u hu; cases hu
    · intro u hu; cases hu
    · intro v; simp
    · right; exact ⟨_, List.mem_singleton.mpr rfl, rfl⟩
  have hi := Seq.ninv_run p hp hd root fuel _ _ h0
  have hacc := Seq.accRun_events p fuel { stack := [{ root := root, steps := [] }], visited := [] } []
  simp only [List.nil_append] at hacc
  -- with an empty stack the visited set is closed under successors and contains the root
  have hclosed : ∀ u, Seq.Reachable p.adj root u →
      u ∈ (Seq.accRun p fuel { stack := [{ root := root, steps := [] }], visited := [] } []).1.visited := by
    intro u hu
    induction hu with
    | refl =>
      rcases hi.root with h | ⟨s, hs, _⟩
      · exact h
      · rw [hdone] at hs; cases hs
    | step _ hv ih =>
      rcases hi.closed _ ih _ hv with h | ⟨s, hs, _⟩
      · exact h
      · rw [hdone] at hs; cases hs
  intro v
  rw [← hacc, hi.offers v]
  constructor
  · rintro ⟨ha, u, hu, hv⟩; exact ⟨ha, u, hi.reachV u hu, hv⟩
  · rintro ⟨ha, u, hu, hv⟩; exact ⟨ha, u, hclosed u hu, hv⟩

/-- non-vacuity: a cycle with a tail, node filter rejecting 2: candidates = accepted nodes reachable over >= 1 edge -/
example :
    let p : Seq.Plan := { adj := fun n => if n = 0 then [(1, 1)] else if n = 1 then [(2, 2)] else if n = 2 then [(3, 0), (4, 3)] else [],
                          helper := .nodes, nodeFilter := some (fun n => n != 2) }
    (Seq.accRun p 10 { stack := [{ root := 0, steps := [] }], visited := [] } []).1.stack = [] ∧
    (Seq.events p 10 { stack := [{ root := 0, steps := [] }], visited := [] }).map Seq.Seg.node = [1, 0, 3] := by decide

/-- AcyclicTraverseTerminals, independent and ORDER-FREE characterisation (no user DescentFilter / PathFilter,
DFS finished within the fuel; `R` any duplicate-free enumeration of the nodes reachable from the root,
`indeg R v` = number of edges into `v` out of reachable nodes, with multiplicity):
a node `v` is reported as a terminal iff
  * `v` is the root and some reachable node has an edge into it, or
  * `v` is not the root and either at least two edges out of reachable nodes lead into it (it is reached
    again after it was expanded — whatever successors it has), or one such edge does and `v` has no successor.
So "terminal = reachable node without successor" is what holds exactly when every node is reached over
at most one edge (trees); on DAGs and cyclic graphs re-reached nodes are reported too, independently of
the DFS order (see `terminals_not_only_sinks`). -/
theorem terminals_reachable_spec (p : Seq.Plan) (hp : p.helper = .terminals) (hd : p.descentFilter = none)
    (hpf : p.pathFilter = none) (root fuel : Nat)
    (hdone : (Seq.accRun p fuel { stack := [{ root := root, steps := [] }], visited := [] } []).1.stack = [])
    (R : List Nat) (hR : R.Nodup) (hmem : ∀ u, u ∈ R ↔ Seq.Reachable p.adj root u) :
    ∀ v, v ∈ (Seq.events p fuel { stack := [{ root := root, steps := [] }], visited := [] }).map Seq.Seg.node ↔
      ((v = root ∧ 1 ≤ Seq.indeg p.adj R v) ∨
       (v ≠ root ∧ (2 ≤ Seq.indeg p.adj R v ∨ (1 ≤ Seq.indeg p.adj R v ∧ p.adj v = [])))) := by
  let c0 : Seq.Core := { stack := [{ root := root, steps := [] }], visited := [] }
  -- counting invariant of the terminals run
  have h0 : Seq.TermInv p root c0 [] := by
    refine ⟨?_, List.nodup_nil, Or.inl ⟨rfl, rfl, rfl⟩⟩
    intro v
    by_cases hv : v = root
    · subst hv; simp [Seq.indeg, Seq.b2n, Seq.Seg.node, c0]
    · have : ¬ root = v := fun h => hv h.symm
      simp [Seq.indeg, Seq.b2n, Seq.Seg.node, hv, this, c0]
  have hi := Seq.terminv_run p hp hd hpf root fuel c0 [] h0
  have haccV := Seq.term_acc_visited p hp fuel c0 [] (fun s hs => by cases hs)
  have hacc := Seq.accRun_events p fuel c0 []
  simp only [List.nil_append] at hacc
  -- the visited set is the reachable set (via the node-set helper's invariant on the same core)
  have hcore := Seq.accRun_core_eq p hp fuel c0 [] []
  have hn0 : Seq.NInv (Seq.asNodes p) root c0 [] := by
    refine ⟨?_, ?_, ?_, ?_, ?_⟩
    · intro s hs; simp [c0] at hs; subst hs; exact Seq.Reachable.refl
    · intro u hu; cases hu
    · intro u hu; cases hu
    · intro v; simp [c0]
    · right; exact ⟨_, List.mem_singleton.mpr rfl, rfl⟩
  have hni := Seq.ninv_run (Seq.asNodes p) rfl hd root fuel c0 [] hn0
  rw [← hcore] at hni
  have hVreach : ∀ u, u ∈ (Seq.accRun p fuel c0 []).1.visited ↔ Seq.Reachable p.adj root u := by
    intro u
    constructor
    · exact hni.reachV u
    · intro hu
      induction hu with
      | refl =>
        rcases hni.root with h | ⟨s, hs, _⟩
        · exact h
        · rw [hdone] at hs; cases hs
      | step _ hv ih =>
        rcases hni.closed _ ih _ hv with h | ⟨s, hs, _⟩
        · exact h
        · rw [hdone] at hs; cases hs
  have hperm : (Seq.accRun p fuel c0 []).1.visited.Perm R :=
    (List.perm_ext_iff_of_nodup hi.nodup hR).mpr (fun u => by rw [hVreach, hmem])
  have hind : ∀ v, Seq.indeg p.adj (Seq.accRun p fuel c0 []).1.visited v = Seq.indeg p.adj R v := by
    intro v; exact (hperm.flatMap_right _).count_eq v
  have hrootV : root ∈ (Seq.accRun p fuel c0 []).1.visited := by
    rcases hi.phase with ⟨h1, _, _⟩ | ⟨h1, _⟩
    · rw [hdone] at h1; cases h1
    · exact h1
  intro v
  have heq := hi.eqn v
  rw [hdone, hind v, hacc] at heq
  simp only [List.map_nil, List.count_nil, Nat.add_zero] at heq
  have hpos : v ∈ (Seq.events p fuel c0).map Seq.Seg.node ↔ 1 ≤ ((Seq.events p fuel c0).map Seq.Seg.node).count v := by
    rw [← List.count_pos_iff]; exact Iff.rfl
  have hTV : 1 ≤ ((Seq.events p fuel c0).map Seq.Seg.node).count v → v ∈ (Seq.accRun p fuel c0 []).1.visited := by
    intro h1
    obtain ⟨s, hs, rfl⟩ := List.mem_map.mp (List.count_pos_iff.mp h1)
    exact haccV s (by rw [hacc]; exact hs)
  rw [hpos]
  by_cases hvV : v ∈ (Seq.accRun p fuel c0 []).1.visited
  · by_cases hvr : v = root
    · subst hvr
      simp [Seq.b2n, hvV] at heq
      constructor
      · intro h; left; exact ⟨rfl, by omega⟩
      · rintro (⟨_, h⟩ | ⟨h, _⟩)
        · omega
        · exact absurd rfl h
    · by_cases hsink : p.adj v = []
      · simp [Seq.b2n, hvV, hvr, hsink] at heq
        constructor
        · intro h; right; exact ⟨hvr, Or.inr ⟨by omega, hsink⟩⟩
        · rintro (⟨h, _⟩ | ⟨_, h | ⟨h, _⟩⟩)
          · exact absurd h hvr
          · omega
          · omega
      · simp [Seq.b2n, hvV, hvr, hsink] at heq
        constructor
        · intro h; right; exact ⟨hvr, Or.inl (by omega)⟩
        · rintro (⟨h, _⟩ | ⟨_, h | ⟨_, h⟩⟩)
          · exact absurd h hvr
          · omega
          · exact absurd h hsink
  · have hvr : v ≠ root := fun h => hvV (h ▸ hrootV)
    have hT0 : ((Seq.events p fuel c0).map Seq.Seg.node).count v = 0 := by
      by_contra hne; exact hvV (hTV (by omega))
    simp [Seq.b2n, hvV, hvr, hT0] at heq
    constructor
    · intro h; omega
    · rintro (⟨h, _⟩ | ⟨_, h | ⟨h, _⟩⟩)
      · exact absurd h hvr
      · omega
      · omega

/-- diamond with a tail 0→1, 0→2, 1→3, 2→3, 3→4 (a DAG) -/
def diamondAdj : Nat → List (Nat × Nat) := fun n =>
  if n = 0 then [(1, 1), (2, 2)] else if n = 1 then [(3, 3)] else if n = 2 then [(4, 3)] else if n = 3 then [(5, 4)] else []

/-- "terminal = reachable node without successor" is FALSE already on DAGs: in the diamond the join node 3 is
reported (it is reached a second time) although it has the successor 4; 4 is the only sink. In agreement with
`terminals_reachable_spec`: indeg 3 = 2, indeg 4 = 1 and 4 has no successor. -/
theorem terminals_not_only_sinks :
    let p : Seq.Plan := { adj := diamondAdj, helper := .terminals }
    (Seq.accRun p 12 { stack := [{ root := 0, steps := [] }], visited := [] } []).1.stack = [] ∧
    (Seq.events p 12 { stack := [{ root := 0, steps := [] }], visited := [] }).map Seq.Seg.node = [4, 3] ∧
    diamondAdj 3 ≠ [] ∧ Seq.indeg diamondAdj [0, 1, 2, 3, 4] 3 = 2 ∧ Seq.indeg diamondAdj [0, 1, 2, 3, 4] 4 = 1 := by decide

/-- TraverseIntermediaryPaths: the returned paths, in order -/
theorem intermediaryPaths_eq_spec (p : Seq.Plan) (_hp : p.helper = .intermediary) (root : Nat) (skip limit : Int) (fuel : Nat) :
    (Seq.loop p fuel (Seq.start root skip limit)).out.map (fun s => (s.pathNodes, s.pathEdges)) =
      (Seq.specOut p root skip limit fuel).map (fun s => (s.pathNodes, s.pathEdges)) := by
  rw [seq_helper_eq_spec]

/-! ## the full statement, and what is proved of it -/

def PipeSpec : Prop :=
  ∀ (α : Type) (p : Pipe α), Pipe.Reach p →
    (p.delivered <+: p.submitted) ∧
    (p.phase = .done → p.cancelled = false → p.delivered = p.submitted) ∧
    (p.phase = .flush → ∃ p', p.run (List.replicate p.buf.length .send ++ [.exit]) = some p' ∧
        p'.phase = .done ∧ p'.delivered = p.submitted) ∧
    (p.phase = .loop → ∀ v, (p.step (.recv v)).isSome = true)

def BFSafe (cfg : Cfg) : Prop :=
  ∀ s, BF.Reach cfg s →
    s.sh.count = ((s.sh.pipe.buf.length + wtSum s.ws + cwt s.coord + s.sh.dropUnits : Nat) : Int) ∧
    s.sh.expanded.Subperm cfg.root.nodes ∧
    (s.coord = .load → s.sh.count = 0 → s.sh.pipe.buf = [] ∧ wtSum s.ws = 0 ∧ s.sh.expanded.Perm cfg.root.nodes) ∧
    (s.coord = .ret true → s.sh.expanded.Perm cfg.root.nodes) ∧
    (s.sh.err = true → s.sh.cancelled = true) ∧
    (∀ z, s.coord = .ret z → s.ws.all WState.isExited = true)

def BFLive (cfg : Cfg) : Prop :=
  (∀ s a s', BF.step cfg s a = some s' → s'.μ cfg < s.μ cfg) ∧
  (∀ s, BF.Reach cfg s → (∀ z, s.coord ≠ .ret z) → ∃ a s', Act.isEnv a = false ∧ s.step cfg a = some s')

def SeqCore : Prop :=
  (∀ (skip limit : Int) (xs : List Nat),
      (({ limit := limit, skip := skip } : Seq.Tracker).offer xs).2 = Seq.window skip limit xs) ∧
  (∀ max stride, 0 < stride → ∀ id, id ≤ max → (Seq.floors max stride).countP (Seq.inWindow stride id) = 1) ∧
  (∀ (p : Seq.Plan) (root : Nat) (skip limit : Int) (fuel : Nat),
      (Seq.loop p fuel (Seq.start root skip limit)).out = Seq.specOut p root skip limit fuel)

/-- TraversePaths returns the plan-defined paths: on every finite graph (node ids below `N`), with any
descent / path filters, any skip and limit, once the loop has enough fuel to finish, the collected
paths are the skip/limit window of `Seq.pathsSpec` — the maximal acyclic filtered paths defined by
recursion on the path tree, last fetched branch first. -/
def C17_seq_paths_full : Prop :=
  ∀ (p : Seq.Plan), p.helper = .paths → ∀ (root N : Nat), (∀ n, ∀ e ∈ p.adj n, e.2 < N) → root < N →
    ∀ (skip limit : Int), ∃ f0, ∀ f, f0 ≤ f →
      (Seq.loop p f (Seq.start root skip limit)).out =
        Seq.window skip limit (Seq.pathsSpec p N { root := root, steps := [] })

/-- The candidate order of TraversePaths (stack DFS, `Seq.events`) is the recursive path definition:
whenever the path tree below the root is lower than `d` (`Seq.Fits`), from some fuel on the DFS event
sequence equals `Seq.pathsSpec p d root`. -/
theorem traversePaths_order_eq_spec (p : Seq.Plan) (hp : p.helper = .paths) (root d : Nat)
    (hfit : Seq.Fits p d { root := root, steps := [] }) :
    ∃ f0, ∀ f, f0 ≤ f →
      Seq.events p f { stack := [{ root := root, steps := [] }], visited := [] } =
        Seq.pathsSpec p d { root := root, steps := [] } := by
  obtain ⟨n, hn⟩ := Seq.events_subtree p hp d _ hfit
  refine ⟨n, fun f hf => ?_⟩
  have e : f = n + (f - n) := by omega
  rw [e, hn (f - n) [] [], Seq.events_nil, List.append_nil]

/-- every finite graph fits: acyclic paths over node ids `< N` have at most `N` nodes -/
theorem paths_fit_finite (p : Seq.Plan) (root N : Nat) (hadj : ∀ n, ∀ e ∈ p.adj n, e.2 < N) (hr : root < N) :
    Seq.Fits p N { root := root, steps := [] } :=
  Seq.fits_of_bounded p N hadj N _ (by simp [Seq.Seg.pathNodes]) (by simp [Seq.Seg.pathNodes, hr])
    (by simp [Seq.Seg.depth])

/-- TraversePaths = the plan-defined paths (closes the former gap `C17_seq_paths_full`) -/
theorem c17_seq_paths : C17_seq_paths_full := by
  intro p hp root N hadj hr skip limit
  obtain ⟨f0, h0⟩ := traversePaths_order_eq_spec p hp root N (paths_fit_finite p root N hadj hr)
  refine ⟨f0, fun f hf => ?_⟩
  rw [seq_helper_eq_spec, Seq.specOut, h0 f hf]

/-- C17 at full strength on the LIVE model (repaired worker error branch, `fixed = true`). -/
def C17_full : Prop :=
  PipeSpec ∧ (∀ cfg : Cfg, 1 ≤ cfg.n → cfg.fixed = true → BFSafe cfg ∧ BFLive cfg) ∧ SeqCore ∧ C17_seq_paths_full

/-- the same statement for the protocol before the repair -/
def C17_full_old : Prop :=
  PipeSpec ∧ (∀ cfg : Cfg, 1 ≤ cfg.n → cfg.fixed = false → BFSafe cfg ∧ BFLive cfg) ∧ SeqCore ∧ C17_seq_paths_full

/-- `C17_full` without the TraversePaths = recursive definition clause; safety for both protocol variants. -/
def C17_partial : Prop :=
  PipeSpec ∧ (∀ cfg : Cfg, BFSafe cfg) ∧ (∀ cfg : Cfg, 1 ≤ cfg.n → cfg.fixed = true → BFLive cfg) ∧ SeqCore

theorem c17_partial : C17_partial := by
  refine ⟨?_, ?_, ?_, ?_⟩
  · intro α p h
    exact ⟨(pipe_fifo p h).1, (pipe_complete p h).1,
      fun hf => by obtain ⟨p', h1, h2, h3, _⟩ := (pipe_complete p h).2.1 hf; exact ⟨p', h1, h2, h3⟩,
      fun hl => (pipe_writer_never_waits_on_reader p h hl).1⟩
  · intro cfg s h
    refine ⟨(bf_counter_inv cfg s h).1, (bf_exactly_once cfg s h).1, ?_, (bf_exactly_once cfg s h).2,
      (bf_error_cancels cfg s h).1, bf_return_joins_workers cfg s h⟩
    intro hc h0
    have := bf_no_early_exit cfg s h (Or.inl ⟨hc, h0⟩)
    exact ⟨this.1, this.2.1, this.2.2.2.2⟩
  · intro cfg hn hf
    refine ⟨(bf_measure cfg).1, fun s h hnr => ?_⟩
    obtain ⟨a, s', he, hs, _⟩ := bf_terminates cfg hn hf s h hnr
    exact ⟨a, s', he, hs⟩
  · exact ⟨fun skip limit xs => limit_skip_window skip limit xs, fun max stride hs => (range_partition_exact max stride hs).1,
      seq_helper_eq_spec⟩

/-- C17 at full strength on the protocol / helper models: unconditional. -/
theorem c17_full : C17_full :=
  ⟨c17_partial.1, fun cfg hn hf => ⟨c17_partial.2.1 cfg, c17_partial.2.2.1 cfg hn hf⟩, c17_partial.2.2.2, c17_seq_paths⟩

/-- The full statement was false for the protocol before the repair: the swallowed-error hang (F14). -/
theorem c17_full_old_refuted : ¬ C17_full_old := by
  intro h
  obtain ⟨_, hbf, _, _⟩ := h
  obtain ⟨_, _, hlive⟩ := hbf hangCfg (by decide) rfl
  obtain ⟨hrun, hw, _, hstuck⟩ := bf_terminates_refuted_old
  have hr : BF.Reach hangCfg hangState := reach_run BF.Reach.init hrun
  obtain ⟨a, s', he, hs⟩ := hlive hangState hr (by intro z hc; rw [hw] at hc; cases hc)
  rw [hstuck a s' hs] at he
  cases he

/-! ## non-vacuity -/

/-- a 5-node tree: 0 → (1 → (3), 2 → (4)) -/
def exTree : T := .node 0 [.node 1 [.node 3 []], .node 2 [.node 4 []]]
def exCfg : Cfg := { n := 2, root := exTree, fixed := true }

/-- two workers interleaved: a complete run that returns through `descentCount = 0`
(produced by the model driver's scheduler, seed 5) -/
def exRun : List Act :=
  [.cInc, .cSubmitRoot, .w 0 .recv, .w 0 .driverOk, .w 0 .inc, .w 0 .submit, .w 1 .recv, .w 0 .inc, .w 1 .driverOk,
   .w 1 .inc, .w 0 .submit, .w 1 .submit, .w 1 .dec, .w 0 .dec, .w 1 .compl, .w 1 .recv, .w 1 .driverOk, .cRecv,
   .w 0 .compl, .w 1 .inc, .w 0 .recv, .w 0 .driverOk, .w 0 .dec, .w 1 .submit, .w 1 .dec, .w 1 .compl, .w 1 .recv,
   .w 0 .compl, .cLoad, .cRecv, .w 1 .driverOk, .cLoad, .w 1 .dec, .cRecv, .w 1 .compl, .cLoad, .cCancel, .pipeExit,
   .w 0 .exitIdle, .w 1 .exitIdle, .cReturn]

/-- the hypotheses of `bf_exactly_once` / `bf_no_early_exit` / `bf_terminates` are met on a
non-trivial reachable state: N = 2, five nodes, exit through zero with two completions still queued -/
example : ∃ s, BF.Reach exCfg s ∧ s.coord = .ret true ∧ s.visited = [0, 1, 2, 3, 4] ∧ s.sh.compl = 2 := by
  have key : (BF.run exCfg (BF.init exCfg) exRun).map (fun s => (s.coord, s.visited, s.sh.compl)) =
      some (.ret true, [0, 1, 2, 3, 4], 2) := by decide
  cases hr : BF.run exCfg (BF.init exCfg) exRun with
  | none => rw [hr] at key; cases key
  | some s =>
    rw [hr] at key
    simp only [Option.map_some, Option.some.injEq, Prod.mk.injEq] at key
    exact ⟨s, reach_run BF.Reach.init hr, key.1, key.2.1, key.2.2⟩

/-- a worker error with N = 2: the run ends with the error recorded, the context cancelled, every
worker returned, not through zero -/
example : (BF.run exCfg (BF.init exCfg)
      [.cInc, .cSubmitRoot, .w 1 .recv, .w 1 .driverOk, .w 1 .inc, .w 1 .submit, .w 0 .recv, .w 0 .driverErr, .w 0 .fail,
       .cRecvCancel, .w 1 .inc, .w 1 .submitDrop, .w 1 .dec, .cCancel, .w 1 .complCancel, .cReturn]).map
      (fun s => (s.coord, s.visited, s.sh.err, s.sh.cancelled, s.sh.dropUnits)) =
    some (.ret false, [0, 1], true, true, 1) := by decide

/-- pipe: interleaved writer/reader schedule, then close and flush; and a cancelled pipe that drops
its tail (the prefix property still holds, completeness does not apply) -/
example : ((Pipe.init : Pipe Nat).run [.recv 1, .recv 2, .send, .recv 3, .close, .send, .send, .exit]).map
    (fun p => (p.delivered, p.submitted, p.phase)) = some ([1, 2, 3], [1, 2, 3], .done) := by decide
example : ((Pipe.init : Pipe Nat).run [.recv 1, .recv 2, .send, .cancel, .observeCancel]).map
    (fun p => (p.delivered, p.submitted, p.buf, p.phase)) = some ([1], [1, 2], [2], .done) := by decide
/-- the nil-channel guard: `send` is not enabled on an empty buffer -/
example : ((Pipe.init : Pipe Nat).step .send).isNone = true := by decide

/-- the monitors are not trivially true -/
example : (({ submitted := [1, 2, 3], delivered := 1 } : FifoMon).deliver 3).2 matches .reject "reordered" _ := by decide
example : (({ submitted := [1, 2, 3], delivered := 2 } : FifoMon).deliver 1).2 matches .reject "duplicate" _ := by decide
example : ({ submitted := [1, 2], delivered := 1, closed := true } : FifoMon).sawClosed matches .reject "lost" _ := by decide
example : callsOk (parentsOf exTree) [0, 1, 3, 2, 4] matches .ok := by decide
example : callsOk (parentsOf exTree) [0, 3, 1] matches .reject "orphan" _ := by decide
example : callsOk (parentsOf exTree) [0, 1, 1] matches .reject "duplicate" _ := by decide
example : callsComplete (parentsOf exTree) [0, 1, 2, 3] matches .reject "lost" _ := by decide

/-- AcyclicTraverseNodes on 1→2, 1→3, 1→4, 1→5 with a node filter rejecting 3 (the regression seeded in
review): Limit = 2 must give {2,4} and Skip = 1 must give {4,5}: the rejected node consumes no budget -/
def exAdj : Nat → List (Nat × Nat) := fun n => if n = 1 then [(10, 2), (11, 3), (12, 4), (13, 5)] else []
def exPlan : Seq.Plan := { adj := exAdj, helper := .nodes, nodeFilter := some (fun n => n != 3) }
example : (Seq.loop exPlan 10 (Seq.start 1 0 2)).out.map Seq.Seg.node = [2, 4] := by decide
example : (Seq.loop exPlan 10 (Seq.start 1 1 0)).out.map Seq.Seg.node = [4, 5] := by decide
example : (Seq.specOut exPlan 1 0 2 10).map Seq.Seg.node = [2, 4] := by decide

/-- sequential helpers on samples (tests, not proofs) -/
example : (({ limit := 2, skip := 1 } : Seq.Tracker).offer [10, 11, 12, 13, 14]).2 = [11, 12] := by decide
example : Seq.floors 100 30 = [0, 30, 60, 90] := by decide
example : Seq.floors 90 30 = [0, 30, 60, 90] := by decide

end Dawgs.C17.Props
