/-
C02 — query optimisation never changes what a translated query returns.

The optimiser (cypher/models/pgsql/optimize) rewrites the Cypher AST (pattern reordering, traversal reversal, predicate attachment) and
plans SQL-level lowerings the translator consumes (projection pruning, limit pushdown, count fast paths, …).
PROVED here, on Lean models of the transformations (Model/C02.lean): each named transformation preserves the result under its stated
side condition; for limit pushdown the side condition is EXACTLY the Go guard (tied to the sources by `decide` over an extracted table);
for the count-store fast path the two REAL statement shapes are evaluated by `Sql.eval` on every encoded graph.
NOT PROVED: `C02_full` — that the Go code implements these transformations (and the remaining lowerings) is checked by the search suite
`c02` on the real translator's two outputs, not proved.
-/
import Dawgs.Proofs.C02
import Dawgs.Proofs.C01S2Sound
import Dawgs.Proofs.C01ChainSound
import Dawgs.Proofs.C01Count
import Dawgs.Proofs.C01CountHop
import Dawgs.Proofs.C01Limit
import Dawgs.Proofs.C01Pred
import Dawgs.Proofs.C01Cross
import Dawgs.Generated.C02Guard
namespace Dawgs.C02.Props
open Dawgs Dawgs.Sql Dawgs.C02 Dawgs.C02.Proofs Dawgs.C01.Proofs

/-! ### the full statement (visible, undischarged) -/

/-- FULL STATEMENT for a pair of translators (optimised / unoptimised): on every well-formed graph both statements evaluate to the
same multiset of rows (the same list under ORDER BY), or both fail. Stated for arbitrary translator functions because the real
translator is Go code; it stays an undischarged obligation. -/
def C02_full (Topt Tunopt : KindMap → Cy.Query → Option (Stmt × List (String × Val))) : Prop :=
  ∀ (km : KindMap) (g : Graph) (q : Cy.Query) (so su : Stmt) (po pu : List (String × Val)),
    C01.Proofs.GraphOK2 km g → Topt km q = some (so, po) → Tunopt km q = some (su, pu) →
    ∀ to tu, Sql.eval (encode km g) so po = .ok to → Sql.eval (encode km g) su pu = .ok tu →
      (to.rows.map valsToR).Perm (tu.rows.map valsToR)

/-! ### limit pushdown, under exactly the code's guard -/

/-- T-tie: the guard table lists exactly the early-return conditions of `translate.limitPushdownTailSource` in the current sources -/
theorem limit_guard_tie : Generated.C02Guard.tailGuard = tailGuardTable.map (·.1) := by decide

/-- T-tie: the same for `optimize.queryPartAllowsLimitPushdown` -/
theorem plan_guard_tie : Generated.C02Guard.planGuard = planGuardTable.map (·.1) := by decide

/-- what the guard establishes, field by field -/
theorem tailGuard_spec (s : TailShape) (h : tailGuard s = true) :
    s.hasLimit = true ∧ s.hasSkip = false ∧ s.hasSort = false ∧ s.distinct = false ∧ s.groupBy = false ∧ s.having = false ∧
    s.aggregate = false ∧ s.whereTransparent = true := by
  unfold tailGuard tailGuardTable at h
  simp only [List.all_cons, List.all_nil, Bool.and_true, Bool.and_eq_true, Bool.not_eq_eq_eq_not, Bool.not_true, Bool.not_not] at h
  obtain ⟨h1, h2, h3, _, _, _, _, h8, h9, h10, h11, _, _, _, _, h16⟩ := h
  exact ⟨h1, h2, h3, h8, h9, h10, h11, h16⟩

/-- `limit_pushdown_preserves`: when the guard holds, cutting the source frame to k rows before the tail runs gives the same rows as
running the tail on all rows (for the same scan order of the source) -/
theorem limit_pushdown_preserves {α β : Type} [BEq β] (s : TailShape) (h : tailGuard s = true) (p : α → Bool) (f : α → β)
    (agg : List β → List β) (le : β → β → Bool) (skip k : Nat) (rows : List α) :
    runTail s p f agg le skip k (rows.take k) = runTail s p f agg le skip k rows := by
  obtain ⟨h1, h2, h3, h4, h5, h6, h7, h8⟩ := tailGuard_spec s h
  simp only [runTail, h1, h2, h3, h4, h5, h6, h7, h8, Bool.or_self, Bool.false_eq_true, if_false, if_true, List.map_take, List.take_take, Nat.min_self]

/-- `limit_pushdown_needs_guard`: each semantic conjunct of the guard is necessary — without it there are rows on which the pushdown
changes the result (SKIP, ORDER BY, DISTINCT, aggregation, a filtering WHERE) -/
theorem limit_pushdown_needs_guard :
    let base : TailShape := ⟨true, false, false, 1, 0, false, false, false, false, false, false, 1, 0, true, 1, true⟩
    let le : Nat → Nat → Bool := fun a b => a ≤ b
    tailGuard base = true ∧
    runTail { base with hasSkip := true } (fun _ => true) id id le 1 1 ([1, 2, 3].take 1) ≠ runTail { base with hasSkip := true } (fun _ => true) id id le 1 1 [1, 2, 3] ∧
    runTail { base with hasSort := true } (fun _ => true) id id le 0 1 ([2, 1].take 1) ≠ runTail { base with hasSort := true } (fun _ => true) id id le 0 1 [2, 1] ∧
    runTail { base with distinct := true } (fun _ => true) id id le 0 2 ([1, 1, 2].take 2) ≠ runTail { base with distinct := true } (fun _ => true) id id le 0 2 [1, 1, 2] ∧
    runTail { base with aggregate := true } (fun _ => true) id (fun r => [r.length]) le 0 1 ([1, 2].take 1) ≠
      runTail { base with aggregate := true } (fun _ => true) id (fun r => [r.length]) le 0 1 [1, 2] ∧
    runTail { base with whereTransparent := false } (fun x => x == 2) id id le 0 1 ([1, 2].take 1) ≠
      runTail { base with whereTransparent := false } (fun x => x == 2) id id le 0 1 [1, 2] := by
  decide

/-- the plan-level guard (`queryPartAllowsLimitPushdown`) does not look at aggregation — the translator-level guard above does;
the plan guard alone would admit `RETURN count(r) LIMIT 1` -/
example : planGuard ⟨false, true, false, false, false, 1, 0⟩ = true := by decide

/-- T-tie: `selectContainsAggregate` is the analysed visitor (descends everywhere, never consumes) -/
theorem aggregate_helper_tie : Generated.C02Guard.aggregateHelper = aggregateHelperFacts := by decide +kernel

/-- what `TailShape.aggregate` means on the Lean AST: an aggregate at ANY depth — collect(x)'s lowering is found -/
example : hasAggL [.cast (.call "array_remove" [.call "coalesce" [.cast (.call "array_agg" [.compound ["s0", "n1"]] false false "") "nodecomposite[]",
    .array [] "nodecomposite[]"] false false "", .lit .null ""] false false "") "nodecomposite[]"] = true := by decide

/-! ### aggregate traversal count: the depth-bound guard -/

theorem depth_guard_tie : Generated.C02Guard.depthBounds = depthBoundsFacts := by decide

/-- `agg_count_depth_preserves`: under the code's guard (lower bound ≥ 1) the CTE that starts at depth 1 enumerates the same terminals as
the general expansion -/
theorem agg_count_depth_preserves {α : Type} (lo hi : Nat) (h : depthGuard lo hi = true) (W : Nat → List α) :
    loweredDepths lo hi W = generalDepths lo hi W := by
  unfold depthGuard at h
  simp only [Bool.and_eq_true, Bool.not_eq_true', decide_eq_false_iff_not, Nat.not_lt] at h
  unfold loweredDepths generalDepths
  congr 1
  apply List.filter_congr
  intro d _
  have : (1 ≤ d) ∨ ¬ (lo ≤ d) := by omega
  rcases this with h1 | h1 <;> simp [h1]

/-- without the guard (lower bound 0) the zero-length matches are lost -/
theorem agg_count_depth_needs_guard : loweredDepths 0 1 (fun d => [d]) ≠ generalDepths 0 1 (fun d => [d]) := by decide

/-! ### aggregate traversal count: the recognisers of the shape -/

/-- the planner's recogniser of the final projection is, condition by condition, the analysed one (descending order on the count alias only,
one or two plain items, LIMIT literal, no SKIP / DISTINCT): dropping or weakening a conjunct breaks this tie -/
theorem agg_final_projection_tie : Generated.C02Guard.aggFinalProjection = aggFinalProjectionFacts := by decide +kernel

/-- … and so is the recogniser of the source MATCH (single named node, NO inline property map, WHERE over the source only) -/
theorem agg_source_match_tie : Generated.C02Guard.aggSourceMatch = aggSourceMatchFacts := by decide +kernel

/-! ### limit pushdown: the tail WHERE must be transparent -/

/-- the helper that decides `whereTransparent` is, condition by condition and return by return, the analysed one: a new early
`return true` (or a dropped check) in `shortestPathLimitPushdownTransparentWhere` breaks this tie -/
theorem transparent_where_tie : Generated.C02Guard.transparentWhere = transparentWhereFacts := by decide

/-- why the guard is needed: cutting to k rows BEFORE a filter is not cutting AFTER it — on the two-row frame [blocked, free] with the
filter "not blocked" and k = 1 the pushed-down form returns nothing, the written form returns the free row -/
theorem limit_below_filter_loses_rows :
    (([true, false] : List Bool).take 1).filter (fun blocked => !blocked) = [] ∧
    (([true, false] : List Bool).filter (fun blocked => !blocked)).take 1 = [false] := by decide

/-! ### collect-id membership: the declaration test -/

theorem alias_declaration_tie : Generated.C02Guard.aliasDeclaration = aliasDeclarationFacts := by decide

/-- `collect_id_lowering_blocked_by_reprojection`: with the declaration recognised by node identity, re-projecting the collection under
its own name (`RETURN c, xs AS xs` — another `… AS xs` node) is a different occurrence… of the ALIAS position only; the read `xs` on its
left is an `other` read, so the id lowering is not chosen and the collection keeps its nodes -/
theorem collect_id_lowering_blocked_by_reprojection (decl reproj read : Nat) (hne : reproj ≠ decl) (occs : List Occ) :
    idLoweringChosen decl (occs ++ [(read, .other), (reproj, .aliasOfProjection)]) = false := by
  unfold idLoweringChosen
  simp only [List.filter_append, List.all_append, Bool.and_eq_false_iff]
  right; right
  have h2 : (reproj == decl) = false := by simpa using hne
  simp [h2]

/-- recognising the declaration by symbol would take the re-projected alias for the declaration; when the projected read is not counted
either (the seeded defect), the lowering is chosen although the collection is returned -/
theorem collect_id_by_symbol_differs :
    idLoweringChosen 0 [(0, .aliasOfProjection), (1, .membershipOperand), (2, .aliasOfProjection)] = false ∧
    idLoweringChosenBySymbol [(0, .aliasOfProjection), (1, .membershipOperand), (2, .aliasOfProjection)] = true := by decide

/-! ### projection pruning -/

theorem lookup_prune (used : List String) (c : String) (hc : c ∈ used) : ∀ (r : Row), (prune used r).lookup c = r.lookup c
  | [] => rfl
  | (k, v) :: r => by
    unfold prune
    rw [List.filter_cons]
    by_cases hk : used.contains k = true
    · simp only [hk, if_true, List.lookup_cons]
      cases c == k
      · exact lookup_prune used c hc r
      · rfl
    · have hk' : used.contains k = false := by simpa using hk
      simp only [hk', Bool.false_eq_true, if_false, List.lookup_cons]
      have hne : (c == k) = false := by
        cases hck : c == k with
        | false => rfl
        | true =>
          have := eq_of_beq hck
          subst this
          have : used.contains c = true := List.contains_iff_mem.mpr hc
          rw [this] at hk'; cases hk'
      rw [hne]
      exact lookup_prune used c hc r

/-- `prune_preserves`: an expression that reads only columns in `used` evaluates the same on the pruned row -/
theorem prune_expr (used : List String) (r : Row) : ∀ (e : PExpr), (∀ c ∈ e.cols, c ∈ used) → e.eval (prune used r) = e.eval r
  | .col c, h => by simp only [PExpr.eval]; exact lookup_prune used c (h c (by simp [PExpr.cols])) r
  | .lit _, _ => rfl
  | .add a b, h => by
    simp only [PExpr.eval, prune_expr used r a (fun c hc => h c (by simp [PExpr.cols, hc])),
      prune_expr used r b (fun c hc => h c (by simp [PExpr.cols, hc]))]
  | .eq a b, h => by
    simp only [PExpr.eval, prune_expr used r a (fun c hc => h c (by simp [PExpr.cols, hc])),
      prune_expr used r b (fun c hc => h c (by simp [PExpr.cols, hc]))]
  | .ite c t e, h => by
    simp only [PExpr.eval, prune_expr used r c (fun x hx => h x (by simp [PExpr.cols, hx])),
      prune_expr used r t (fun x hx => h x (by simp [PExpr.cols, hx])),
      prune_expr used r e (fun x hx => h x (by simp [PExpr.cols, hx]))]

/-- a tail (projection list) over a frame returns the same rows when the frame carries only the columns the tail references -/
theorem prune_preserves (used : List String) (tail : List PExpr) (h : ∀ e ∈ tail, ∀ c ∈ e.cols, c ∈ used) (rows : List Row) :
    (rows.map (prune used)).map (fun r => tail.map (fun e => e.eval r)) = rows.map (fun r => tail.map (fun e => e.eval r)) := by
  rw [List.map_map]
  apply List.map_congr_left
  intro r _
  apply List.map_congr_left
  intro e he
  exact prune_expr used r e (h e he)

/-! ### predicate attachment and pattern reordering (bag joins of binding tables) -/

/-- `attach_preserves`: a WHERE conjunct that reads only the left operand of a join may be applied to the left operand first
(the list is the same, order included) -/
theorem attach_preserves {α β : Type} (p : α → Bool) (J : α → β → Bool) : ∀ (A : List α) (B : List β),
    (join J A B).filter (fun ab => p ab.1) = join J (A.filter p) B
  | [], _ => rfl
  | a :: A, B => by
    have ih := attach_preserves p J A B
    unfold join at ih ⊢
    rw [List.flatMap_cons, List.filter_append, ih, List.filter_cons]
    cases hp : p a
    · simp [List.filter_map, Function.comp_def, hp]
    · simp [List.filter_map, Function.comp_def, hp, List.flatMap_cons]

theorem flatMap_append_perm {α β : Type} (f g : α → List β) : ∀ (l : List α),
    (l.flatMap (fun x => f x ++ g x)).Perm (l.flatMap f ++ l.flatMap g)
  | [] => List.Perm.refl _
  | x :: l => by
    simp only [List.flatMap_cons]
    have ih := flatMap_append_perm f g l
    have h1 : (f x ++ g x ++ List.flatMap (fun x => f x ++ g x) l).Perm (f x ++ g x ++ (l.flatMap f ++ l.flatMap g)) :=
      List.Perm.append_left _ ih
    refine h1.trans ?_
    rw [List.append_assoc, List.append_assoc]
    apply List.Perm.append_left
    rw [← List.append_assoc, ← List.append_assoc]
    exact List.Perm.append_right _ List.perm_append_comm

theorem flatMap_ite_single {β γ : Type} (c : β → Bool) (mk : β → γ) : ∀ (B : List β),
    B.flatMap (fun b => if c b then [mk b] else []) = (B.filter c).map mk
  | [] => rfl
  | b :: B => by
    rw [List.flatMap_cons, flatMap_ite_single c mk B, List.filter_cons]
    cases c b <;> rfl

/-- `reorder_preserves`: the bag join of two pattern parts does not depend on which part drives it — the two row lists are
permutations of each other (pairs swapped back) -/
theorem reorder_preserves {α β : Type} (J : α → β → Bool) : ∀ (A : List α) (B : List β),
    (join J A B).Perm ((join (fun b a => J a b) B A).map (fun ba => (ba.2, ba.1)))
  | [], B => by
    unfold join
    simp
  | a :: A, B => by
    have ih := reorder_preserves J A B
    unfold join at *
    rw [List.flatMap_cons]
    have hsplit : ∀ b, (List.filter (fun a' => J a' b) (a :: A)).map (fun a' => (b, a')) =
        (if J a b then [(b, a)] else []) ++ (List.filter (fun a' => J a' b) A).map (fun a' => (b, a')) := by
      intro b
      rw [List.filter_cons]
      cases J a b <;> rfl
    simp only [hsplit]
    have hp := flatMap_append_perm (fun b => if J a b then [(b, a)] else []) (fun b => (List.filter (fun a' => J a' b) A).map (fun a' => (b, a'))) B
    have hp' := hp.map (fun ba => (ba.2, ba.1))
    refine List.Perm.trans ?_ hp'.symm
    rw [List.map_append, flatMap_ite_single (fun b => J a b) (fun b => (b, a)) B, List.map_map]
    exact List.Perm.append_left _ ih

/-! ### traversal reversal -/

theorem relOk_flip (g : Graph) (rp : RelP) (e a b : Int) : relOk g rp.flip e b a = relOk g rp e a b := by
  unfold relOk RelP.flip
  cases g.edge? e with
  | none => rfl
  | some ed => cases rp.dir <;> simp [Dir.flip, Bool.and_comm]

theorem reverse_zip' {α β : Type} {l : List α} {l' : List β} (h : l.length = l'.length) : (l.zip l').reverse = l.reverse.zip l'.reverse :=
  List.reverse_zipWith h

theorem nodup_reverse' {α : Type} (l : List α) : l.reverse.Nodup ↔ l.Nodup := by
  unfold List.Nodup
  rw [List.pairwise_reverse]
  constructor <;> (intro h; exact h.imp (fun hab => Ne.symm hab))

/-- flipping every relationship pattern and swapping the endpoints of every step is the same test -/
theorem steps_flip (g : Graph) : ∀ (X : List RelP) (Y U V : List Int),
    (((X.map RelP.flip).zip Y).zip (V.zip U)).all (fun p => relOk g p.1.1 p.1.2 p.2.1 p.2.2) =
    ((X.zip Y).zip (U.zip V)).all (fun p => relOk g p.1.1 p.1.2 p.2.1 p.2.2)
  | [], _, _, _ => by simp
  | _ :: _, [], _, _ => by simp
  | _ :: _, _ :: _, [], V => by cases V <;> simp
  | _ :: _, _ :: _, _ :: _, [] => by simp
  | x :: X, y :: Y, u :: U, v :: V => by
    simp only [List.map_cons, List.zip_cons_cons, List.all_cons, relOk_flip, steps_flip g X Y U V]

/-- `reversal_preserves`: a chain pattern matches a walk iff the reversed pattern (elements in reverse order, every relationship
direction flipped — what `InboundTraversalReversal` does) matches the reversed walk; relationship uniqueness included -/
theorem reversal_preserves (g : Graph) (nps : List (List String)) (rps : List RelP) (ns rs : List Int) :
    chainOk g nps.reverse (rps.reverse.map RelP.flip) ns.reverse rs.reverse = chainOk g nps rps ns rs := by
  unfold chainOk
  simp only [List.length_reverse, List.length_map]
  cases hlen : (nps.length == ns.length && rps.length == rs.length && ns.length == rs.length + 1) with
  | false => simp only [Bool.false_and]
  | true =>
    simp only [Bool.and_eq_true, beq_iff_eq] at hlen
    obtain ⟨⟨h1, h2⟩, h3⟩ := hlen
    have e1 : (nps.reverse.zip ns.reverse).all (fun p => nodeOk g p.1 p.2) = (nps.zip ns).all (fun p => nodeOk g p.1 p.2) := by
      rw [← reverse_zip' h1, List.all_reverse]
    have hl1 : ns.tail.length = ns.dropLast.length := by simp
    have hl2 : (rps.map RelP.flip).length = rs.length := by simp [h2]
    have hl3 : ((rps.map RelP.flip).zip rs).length = (ns.tail.zip ns.dropLast).length := by
      simp only [List.length_zip, List.length_map, List.length_dropLast, List.length_tail]
      omega
    have e2 : (((rps.reverse.map RelP.flip).zip rs.reverse).zip (ns.reverse.dropLast.zip ns.reverse.tail)).all
          (fun p => relOk g p.1.1 p.1.2 p.2.1 p.2.2) =
        ((rps.zip rs).zip (ns.dropLast.zip ns.tail)).all (fun p => relOk g p.1.1 p.1.2 p.2.1 p.2.2) := by
      rw [List.dropLast_reverse, List.tail_reverse, List.map_reverse, ← reverse_zip' hl1, ← reverse_zip' hl2, ← reverse_zip' hl3,
        List.all_reverse]
      exact steps_flip g rps rs ns.dropLast ns.tail
    have e3 : decide rs.reverse.Nodup = decide rs.Nodup := by
      rw [decide_eq_decide]; exact nodup_reverse' rs
    rw [e1, e2, e3]

/-! ### count-store fast path: the two real statement shapes under `Sql.eval` -/

/-- the model statements are the shapes the real translator emits (compared with the reflection S-expressions on every run by the driver) -/
theorem count_fast_path_tie : cfpOptW none = cfpOpt ∧ cfpUnoptW none = cfpUnopt := by
  constructor
  · rfl
  · unfold cfpUnoptW cfpUnopt s1Stmt C01.S1.nodeComposite C01.S1.innerCol; rfl

/-- `count_fast_path_preserves`: on every encoded graph `select count(*)::int8 from node n0 [where kind_ids @> …]` returns the same single
row as the two-frame statement without the fast path — the number of nodes (carrying the kinds); `w` is any frame predicate that
computes a three-valued node predicate (`WOK`), in particular none and the kind constraint -/
theorem count_fast_path_preserves (km : KindMap) (g : Graph) (w : Option Expr) (wsem : Option (NodeRec → Cy.Tri))
    (hw : WOK km g (E0 (encode km g)) w wsem) :
    BenignT (Sql.eval (encode km g) (cfpOptW w) []) (⟨["count"], [[.int (passing g wsem)]]⟩ : Table) ∧
    BenignT (Sql.eval (encode km g) (cfpUnoptW w) []) (⟨["count"], [[.int (passing g wsem)]]⟩ : Table) :=
  ⟨cfpOpt_eval km g w wsem hw, cfpUnopt_eval km g w wsem hw⟩

/-- the hypothesis is satisfiable: no predicate, and the kind constraint the translator emits (any injective kind map) -/
theorem count_fast_path_hyp_none (km : KindMap) (g : Graph) : WOK km g (E0 (encode km g)) none none := trivial

theorem count_fast_path_hyp_kinds (km : KindMap) (g : Graph) (hinj : ∀ a b i, km.id? a = some i → km.id? b = some i → a = b)
    (ks : List String) (e : Expr) (he : C01.S1.Pred.tr km (.kinds ks) = some e) :
    WOK km g (E0 (encode km g)) (some e) (some (fun n => sem n (.kinds ks))) := by
  intro n _
  exact ben_kinds km n _ hinj ks e he

/-! ### `opt_equiv`: the full statement's body for the model translator pair on the proved fragment -/

theorem countOptW_eq (w : Option Expr) : countOptW w = cfpOptW w := rfl
theorem countUnoptW_eq (w : Option Expr) : countUnoptW w = cfpUnoptW w := rfl

/-- the frame predicate of the count fragment computes a node predicate -/
theorem countWhere_ok (km : KindMap) (g : Graph) (hinj : ∀ a b i, km.id? a = some i → km.id? b = some i → a = b) (ks : List String)
    (w : Option Expr) (h : countWhere km ks = some w) : ∃ wsem, WOK km g (E0 (encode km g)) w wsem := by
  unfold countWhere at h
  cases hk : ks.isEmpty with
  | true => simp only [hk, if_true, Option.some.injEq] at h; subst h; exact ⟨none, trivial⟩
  | false =>
    simp only [hk, Bool.false_eq_true, if_false, Option.map_eq_some_iff] at h
    obtain ⟨e, he, hw⟩ := h
    subst hw
    exact ⟨_, count_fast_path_hyp_kinds km g hinj ks e he⟩

theorem ofCyChain_wf (q : Cy.Query) (s : C01.Ch.Query) (h3 : C01.ofCyChain q = some s) : s.wf = true := by
  unfold C01.ofCyChain at h3
  split at h3
  · split at h3
    · cases h3
    · simp only [bind, Option.bind_eq_some_iff, pure] at h3
      obtain ⟨_, _, _, _, _, _, h3⟩ := h3
      split at h3
      · rename_i hw; cases h3; exact hw
      · cases h3
  · cases h3

/-- a one-hop query has no chain reading (a chain has two or three hops) -/
theorem hop_not_chain (s : C01.S2.Query) : C01.ofCyChain s.toCy = none := by
  cases h3 : C01.ofCyChain s.toCy with
  | none => rfl
  | some c =>
    exfalso
    have hc := C01.Proofs.ofCyChain_sound _ c h3
    have hwf := ofCyChain_wf _ c h3
    have hcl := congrArg Cy.Query.clauses hc
    simp only [C01.Ch.Query.toCy, C01.S2.Query.toCy, List.cons.injEq, Cy.Clause.match.injEq, Cy.PatternPart.mk.injEq, and_true, true_and] at hcl
    have hlen : c.hops.length = 1 := by
      have := congrArg List.length hcl.1.2
      simpa using this
    unfold C01.Ch.Query.wf at hwf
    simp [hlen] at hwf

/-- a count query has no plain-S1 / hop / chain reading (its only RETURN item is an aggregate) — used to order the case analysis -/
theorem count_readings (q : Cy.Query) (s : C01.S1c.Query) (h : C01.ofCyCount1 q = some s) :
    C01.ofCy q = none ∧ C01.ofCy2 q = none ∧ C01.ofCyChain q = none := by
  have hq := C01.Proofs.ofCyCount1_sound q s h
  subst hq
  refine ⟨?_, ?_, ?_⟩
  · simp [C01.ofCy, C01.S1c.Query.toCy, C01.itemOf, bind, Option.bind]
    cases s.wh <;> simp [C01.itemOf]
    split <;> rfl
  · simp [C01.ofCy2, C01.S1c.Query.toCy]
  · cases h3 : C01.ofCyChain s.toCy with
    | none => rfl
    | some c =>
      exfalso
      have hc := C01.Proofs.ofCyChain_sound _ c h3
      have hwf := ofCyChain_wf _ c h3
      have hcl := congrArg Cy.Query.clauses hc
      simp only [C01.Ch.Query.toCy, C01.S1c.Query.toCy, List.cons.injEq, Cy.Clause.match.injEq, Cy.PatternPart.mk.injEq, and_true, true_and] at hcl
      have hlen : c.hops.length = 0 := by
        have := congrArg List.length hcl.1.2
        simpa using this
      unfold C01.Ch.Query.wf at hwf
      simp [hlen] at hwf

/-- a count-over-hop query has no other reading -/
theorem countHop_readings (q : Cy.Query) (s : C01.S2n.Query) (h : C01.ofCyCount2 q = some s) :
    C01.ofCy q = none ∧ C01.ofCy2 q = none ∧ C01.ofCyChain q = none ∧ C01.ofCyCount1 q = none := by
  have hq := C01.Proofs.ofCyCount2_sound q s h
  subst hq
  refine ⟨?_, ?_, ?_, ?_⟩
  · simp [C01.ofCy, C01.S2n.Query.toCy, C01.S2.Query.toCy]
  · simp [C01.ofCy2, C01.S2n.Query.toCy, C01.S2.Query.toCy, C01.itemOf2, bind, Option.bind]
    split <;> rfl
  · cases h3 : C01.ofCyChain s.toCy with
    | none => rfl
    | some c =>
      exfalso
      have hc := C01.Proofs.ofCyChain_sound _ c h3
      have hwf := ofCyChain_wf _ c h3
      have hcl := congrArg Cy.Query.clauses hc
      simp only [C01.Ch.Query.toCy, C01.S2n.Query.toCy, C01.S2.Query.toCy, List.cons.injEq, Cy.Clause.match.injEq, Cy.PatternPart.mk.injEq, and_true, true_and] at hcl
      have hlen : c.hops.length = 1 := by
        have := congrArg List.length hcl.1.2
        simpa using this
      unfold C01.Ch.Query.wf at hwf
      simp [hlen] at hwf
  · simp [C01.ofCyCount1, C01.S2n.Query.toCy, C01.S2.Query.toCy]

/-- two variants of the model translator answer together: either with the SAME S1 statement (the optimiser changes nothing there), or with
the hop / chain statement of the same S2b / S2c query in the join order each variant picked, or with the count statements of the same S1c
query with the fast path on / off -/
theorem tr4_cases (fo fu : C01.S2.Query → Bool) (co cu : C01.Ch.Query → Bool) (km : KindMap) (q : Cy.Query) (so su : Stmt) (po pu : List (String × Val))
    (ho : C01.tr4F fo co true true km q = some (so, po)) (hu : C01.tr4F fu cu false false km q = some (su, pu)) :
    (C01.tr km q = some (so, po) ∧ su = so ∧ pu = po) ∨
    (∃ s : C01.S2.Query, s.toCy = q ∧ s.trWith km (fo s) true = some so ∧ s.trWith km (fu s) false = some su ∧ po = [] ∧ pu = []) ∨
    (∃ s : C01.Ch.Query, s.toCy = q ∧ s.trWith km (co s) = some so ∧ s.trWith km (cu s) = some su ∧ po = [] ∧ pu = []) ∨
    (∃ s : C01.S1c.Query, s.toCy = q ∧ s.trWith km true = some so ∧ s.trWith km false = some su ∧ po = [] ∧ pu = []) := by
  unfold C01.tr4F at ho hu
  unfold C01.tr3F at ho hu
  unfold C01.tr2F at ho hu
  cases h1 : C01.tr km q with
  | some r =>
    rw [h1] at ho hu
    cases ho; cases hu
    exact Or.inl ⟨rfl, rfl, rfl⟩
  | none =>
    rw [h1] at ho hu
    dsimp only at ho hu
    cases h2 : C01.ofCy2 q with
    | some s =>
      rw [h2] at ho hu
      dsimp only at ho hu
      have hq := C01.Proofs.ofCy2_sound q s h2
      have hnoch : C01.ofCyChain q = none := by rw [← hq]; exact hop_not_chain s
      have hnoc : C01.ofCyCount1 q = none := by
        cases hc : C01.ofCyCount1 q with
        | none => rfl
        | some c => have := (count_readings q c hc).2.1; rw [h2] at this; cases this
      cases hso : s.trWith km (fo s) true with
      | none =>
        rw [hso] at ho
        simp only [Option.map_none, hnoch, hnoc] at ho
        cases ho
      | some st =>
        rw [hso] at ho
        simp only [Option.map_some] at ho
        cases ho
        cases hsu : s.trWith km (fu s) false with
        | none =>
          exfalso
          unfold C01.S2.Query.trWith C01.S2.Query.stmtWith at hso hsu
          cases hwf : s.wf <;> simp [hwf] at hso hsu
          cases hka : C01.S2.kindIds? km s.akinds <;> cases hkr : C01.S2.kindIds? km s.rkinds <;> cases hkb : C01.S2.kindIds? km s.bkinds <;>
            cases hpa : C01.S2.predsE km "n0" false (s.preds .a) <;> cases hpr : C01.S2.predsE km "e0" true (s.preds .r) <;>
            cases hpb : C01.S2.predsE km "n1" false (s.preds .b) <;> simp [hka, hkr, hkb, hpa, hpr, hpb] at hso hsu
        | some st' =>
          rw [hsu] at hu
          simp only [Option.map_some] at hu
          cases hu
          exact Or.inr (Or.inl ⟨s, hq, hso, hsu, rfl, rfl⟩)
    | none =>
      rw [h2] at ho hu
      dsimp only at ho hu
      cases h3 : C01.ofCyChain q with
      | some s =>
        rw [h3] at ho hu
        dsimp only at ho hu
        have hq := C01.Proofs.ofCyChain_sound q s h3
        have hnoc : C01.ofCyCount1 q = none := by
          cases hc : C01.ofCyCount1 q with
          | none => rfl
          | some c => have := (count_readings q c hc).2.2; rw [h3] at this; cases this
        cases hso : s.trWith km (co s) with
        | none =>
          rw [hso] at ho
          simp only [Option.map_none, hnoc] at ho
          cases ho
        | some st =>
          rw [hso] at ho
          simp only [Option.map_some] at ho
          cases ho
          cases hsu : s.trWith km (cu s) with
          | none =>
            exfalso
            unfold C01.Ch.Query.trWith at hso hsu
            cases hwf : s.wf <;> simp [hwf] at hso hsu
            cases hh : s.hops with
            | nil => simp [hh] at hso
            | cons h0 hs =>
              simp only [hh] at hso hsu
              cases hka : C01.S2.kindIds? km s.akinds <;> cases hk0 : C01.Ch.hopKinds km h0 <;>
                cases hpa : C01.S2.predsE km "n0" false (s.preds (.node 0)) <;> cases hsp : C01.Ch.stepPreds km s 0 <;>
                cases hr : C01.Ch.stepCtes km s 1 hs <;>
                simp [hka, hk0, hpa, hsp, hr, bind, Option.bind] at hso hsu
          | some st' =>
            rw [hsu] at hu
            simp only [Option.map_some] at hu
            cases hu
            exact Or.inr (Or.inr (Or.inl ⟨s, hq, hso, hsu, rfl, rfl⟩))
      | none =>
        rw [h3] at ho hu
        dsimp only at ho hu
        cases hc : C01.ofCyCount1 q with
        | none => rw [hc] at ho; cases ho
        | some s =>
          rw [hc] at ho hu
          dsimp only at ho hu
          obtain ⟨so', hso, heq⟩ := Option.map_eq_some_iff.mp ho
          obtain ⟨su', hsu, heq'⟩ := Option.map_eq_some_iff.mp hu
          cases heq; cases heq'
          exact Or.inr (Or.inr (Or.inr ⟨s, C01.Proofs.ofCyCount1_sound q s hc, hso, hsu, rfl, rfl⟩))

/-- the same over all five stages: the fifth case is the count over a hop, translated by each variant in its own join order, the optimised
one with the pruned frame -/
theorem trVariant_cases (fo fu : C01.S2.Query → Bool) (co cu : C01.Ch.Query → Bool) (no nu : C01.S2n.Query → Bool) (km : KindMap) (q : Cy.Query)
    (so su : Stmt) (po pu : List (String × Val))
    (ho : trVariant fo co no true km q = some (so, po)) (hu : trVariant fu cu nu false km q = some (su, pu)) :
    (C01.tr4F fo co true true km q = some (so, po) ∧ C01.tr4F fu cu false false km q = some (su, pu)) ∨
    (∃ s : C01.S2n.Query, s.toCy = q ∧ s.trWith km (no s) true = some so ∧ s.trWith km (nu s) false = some su ∧ po = [] ∧ pu = []) := by
  unfold trVariant at ho hu
  unfold C01.tr5F at ho hu
  cases hc : C01.ofCyCount2 q with
  | none =>
    rw [hc] at ho hu
    left
    cases h1 : C01.tr4F fo co true true km q with
    | none => rw [h1] at ho; cases ho
    | some r =>
      rw [h1] at ho; cases ho
      cases h2 : C01.tr4F fu cu false false km q with
      | none => rw [h2] at hu; cases hu
      | some r' => rw [h2] at hu; cases hu; exact ⟨rfl, rfl⟩
  | some s =>
    obtain ⟨r1, r2, r3, r4⟩ := countHop_readings q s hc
    have hno : ∀ (f : C01.S2.Query → Bool) (c : C01.Ch.Query → Bool) (a b : Bool), C01.tr4F f c a b km q = none := by
      intro f c a b
      simp [C01.tr4F, C01.tr3F, C01.tr2F, C01.tr, r1, r2, r3, r4]
    rw [hno, hc] at ho hu
    dsimp only at ho hu
    obtain ⟨so', hso, heq⟩ := Option.map_eq_some_iff.mp ho
    obtain ⟨su', hsu, heq'⟩ := Option.map_eq_some_iff.mp hu
    cases heq; cases heq'
    exact Or.inr ⟨s, C01.Proofs.ofCyCount2_sound q s hc, hso, hsu, rfl, rfl⟩

/-- `opt_equiv`: `C02_full` holds for every pair of variants of the model translator (`trVariant fo co no true`, `trVariant fu cu nu false`) —
for every graph with `GraphOK2` and every query of the proved fragment (C01 stages S1, S1c, S2b, S2c, S2n), whenever both statements evaluate
they return the same bag of rows. Content: (1) a hop, the first hop of a chain, or the hop under a count may be translated in either join
order by either variant (lowering TraversalDirectionSelection vs. the selectivity balance) and with the frame PRUNED to the bindings that are
read (lowering ProjectionPruning) or complete: all are permutations of the Cypher result, hence of each other; (2) the count-store fast path
`select count(*)::int8 from node n0 [where kinds]` against the node frame + `count(s0.n0)`: both return the Cypher count; (3) on S1 the
statements are identical. That the REAL translator's two outputs are these statements is checked on every run (driver outcome `frag-tie`). -/
theorem opt_equiv (fo fu : C01.S2.Query → Bool) (co cu : C01.Ch.Query → Bool) (no nu : C01.S2n.Query → Bool) :
    C02_full (trVariant fo co no true) (trVariant fu cu nu false) := by
  intro km g q so su po pu hok ho hu to tu hto htu
  have hfin : ∀ (r : List String × List (List Cy.CVal)) (n1 n2 : List String) (rows1 rows2 : List (List Val)),
      C01.Proofs.BenignT (Sql.eval (encode km g) so po) (⟨n1, rows1⟩ : Table) → C01.Proofs.BenignT (Sql.eval (encode km g) su pu) (⟨n2, rows2⟩ : Table) →
      (C01.Proofs.sqlRows ⟨n1, rows1⟩).Perm (C01.Proofs.cyRows g km r) → (C01.Proofs.sqlRows ⟨n2, rows2⟩).Perm (C01.Proofs.cyRows g km r) →
      (to.rows.map valsToR).Perm (tu.rows.map valsToR) := by
    intro r n1 n2 rows1 rows2 hb1 hb2 hp1 hp2
    have e1 : to = ⟨n1, rows1⟩ := by
      rcases hb1 with h | ⟨u, h⟩
      · rw [h] at hto; cases hto; rfl
      · rw [h] at hto; cases hto
    have e2 : tu = ⟨n2, rows2⟩ := by
      rcases hb2 with h | ⟨u, h⟩
      · rw [h] at htu; cases htu; rfl
      · rw [h] at htu; cases htu
    subst e1 e2
    exact hp1.trans hp2.symm
  rcases trVariant_cases fo fu co cu no nu km q so su po pu ho hu with ⟨ho4, hu4⟩ | ⟨s, hq, hso, hsu, hpo, hpu⟩
  · rcases tr4_cases fo fu co cu km q so su po pu ho4 hu4 with ⟨_, hs, hp⟩ | ⟨s, hq, hso, hsu, hpo, hpu⟩ | ⟨s, hq, hso, hsu, hpo, hpu⟩ |
      ⟨s, hq, hso, hsu, hpo, hpu⟩
    · subst hs hp
      rw [hto] at htu; cases htu
      exact List.Perm.refl _
    · subst hpo hpu
      obtain ⟨r1, n1, rows1, hr1, hb1, hp1⟩ := C01.Proofs.s2_sound km g hok s (fo s) true so hso
      obtain ⟨r2, n2, rows2, hr2, hb2, hp2⟩ := C01.Proofs.s2_sound km g hok s (fu s) false su hsu
      rw [hr1] at hr2; cases hr2
      exact hfin r1 n1 n2 rows1 rows2 hb1 hb2 hp1 hp2
    · subst hpo hpu
      obtain ⟨r1, n1, rows1, hr1, hb1, hp1⟩ := C01.Proofs.chain_sound km g hok s (co s) so hso
      obtain ⟨r2, n2, rows2, hr2, hb2, hp2⟩ := C01.Proofs.chain_sound km g hok s (cu s) su hsu
      rw [hr1] at hr2; cases hr2
      exact hfin r1 n1 n2 rows1 rows2 hb1 hb2 hp1 hp2
    · subst hpo hpu
      obtain ⟨r1, n1, rows1, hr1, hb1, hp1⟩ := C01.Proofs.count_sound km g hok.toGraphOK s true so hso
      obtain ⟨r2, n2, rows2, hr2, hb2, hp2⟩ := C01.Proofs.count_sound km g hok.toGraphOK s false su hsu
      rw [hr1] at hr2; cases hr2
      exact hfin r1 n1 n2 rows1 rows2 hb1 hb2 (by rw [hp1]) (by rw [hp2])
  · subst hpo hpu
    obtain ⟨r1, n1, rows1, hr1, hb1, hp1⟩ := C01.Proofs.count_hop_sound km g hok s (no s) true so hso
    obtain ⟨r2, n2, rows2, hr2, hb2, hp2⟩ := C01.Proofs.count_hop_sound km g hok s (nu s) false su hsu
    rw [hr1] at hr2; cases hr2
    exact hfin r1 n1 n2 rows1 rows2 hb1 hb2 (by rw [hp1]) (by rw [hp2])

/-- the instance for the model's own direction approximations -/
theorem opt_equiv_default : C02_full trOpt trUnopt := opt_equiv C01.flipOpt C01.flipUnopt (fun _ => false) (fun _ => false) (fun _ => false) (fun _ => false)

/-! ### the stages whose statement no optimiser switch touches: S1o, S1d, S3a, S3b -/

/-- on a query that has one of the four readings both variants emit THE SAME statement (the stage translators `S1o.Query.tr`, `S1d.Query.tr`,
`S3.Query.tr`, `S3b.Query.tr` take no optimiser switch: no join order to choose, nothing to prune, no fast path, no LIMIT to push), so equivalence is
reflexivity; elsewhere `withStages T` is `T`. Hence `C02_full` lifts from any pair of translators to the pair read through `withStages` -/
theorem withStages_full (To Tu : KindMap → Cy.Query → Option (Stmt × List (String × Val))) (h : C02_full To Tu) :
    C02_full (withStages To) (withStages Tu) := by
  intro km g q so su po pu hok ho hu to tu hto htu
  have same : ∀ (r : Option Stmt), r.map (fun st => (st, ([] : List (String × Val)))) = some (so, po) →
      r.map (fun st => (st, ([] : List (String × Val)))) = some (su, pu) → (to.rows.map valsToR).Perm (tu.rows.map valsToR) := by
    intro r h1 h2
    rw [h1] at h2
    cases h2
    rw [hto] at htu
    cases htu
    exact List.Perm.refl _
  unfold withStages at ho hu
  cases hd : C01.ofCyDistinct q with
  | some s => rw [hd] at ho hu; exact same _ ho hu
  | none =>
    rw [hd] at ho hu
    cases hor : C01.ofCyOrder q with
    | some s => rw [hor] at ho hu; exact same _ ho hu
    | none =>
      rw [hor] at ho hu
      cases hw : C01.ofCyWith q with
      | some s => rw [hw] at ho hu; exact same _ ho hu
      | none =>
        rw [hw] at ho hu
        cases hh : C01.ofCyWithHop q with
        | some s => rw [hh] at ho hu; exact same _ ho hu
        | none =>
          rw [hh] at ho hu
          exact h km g q so su po pu hok ho hu to tu hto htu

/-- `opt_equiv_stages`: `C02_full` for every pair of variants of the model translator over the stages S1, S1c, S1o, S1d, S2b, S2c, S2n, S3a and S3b
(`trVariantS` = the four switch-free stages read first, else `trVariant`). That the REAL translator's two outputs are these statements —
in particular that they are IDENTICAL on S1o / S1d / S3a / S3b queries — is checked on every run (families fragment:s1o / s1d / s3a / s3b, outcome `frag-tie`) -/
theorem opt_equiv_stages (fo fu : C01.S2.Query → Bool) (co cu : C01.Ch.Query → Bool) (no nu : C01.S2n.Query → Bool) :
    C02_full (trVariantS fo co no true) (trVariantS fu cu nu false) :=
  withStages_full _ _ (opt_equiv fo fu co cu no nu)

/-! ### stage S2x: a hop whose WHERE compares a property of `a` with a property of `b` -/

/-- `opt_equiv_cross`: on stage S2x the optimised statement (frame pruned to the bindings that are read, join order `fo`) and the unoptimised one
(complete frame, join order `fu`) return the same bag of rows on every `GraphOK2` graph in which the compared property keys hold scalars
(`CrossScalar` — the hypothesis of C01's `tr_sound_S2x`: both statements are shown to be permutations of the reference rows, hence of each
other; WITHOUT it the two statements still compare the same jsonb values, but that needs an SQL-to-SQL argument that is not proved) -/
theorem opt_equiv_cross (km : KindMap) (g : Graph) (hok : GraphOK2 km g) (s : C01.S2x.Query) (hS : CrossScalar s g.nodes) (fo fu : Bool)
    (so su : Stmt) (ho : s.stmtWith km fo true = some so) (hu : s.stmtWith km fu false = some su)
    (to tu : Table) (hto : Sql.eval (encode km g) so [] = .ok to) (htu : Sql.eval (encode km g) su [] = .ok tu) :
    (to.rows.map valsToR).Perm (tu.rows.map valsToR) := by
  obtain ⟨r1, n1, rows1, hr1, hb1, hp1⟩ := C01.Proofs.s2x_sound km g hok s hS fo true so ho
  obtain ⟨r2, n2, rows2, hr2, hb2, hp2⟩ := C01.Proofs.s2x_sound km g hok s hS fu false su hu
  rw [hr1] at hr2; cases hr2
  have e1 : to = ⟨n1, rows1⟩ := by
    rcases hb1 with h | ⟨u, h⟩
    · rw [h] at hto; cases hto; rfl
    · rw [h] at hto; cases hto
  have e2 : tu = ⟨n2, rows2⟩ := by
    rcases hb2 with h | ⟨u, h⟩
    · rw [h] at htu; cases htu; rfl
    · rw [h] at htu; cases htu
  subst e1 e2
  exact hp1.trans hp2.symm

/-- the model pair read through `withCross`: on an S2x query it is the pair of `opt_equiv_cross` -/
theorem withCross_cases (fo fu : C01.S2x.Query → Bool) (To Tu : KindMap → Cy.Query → Option (Stmt × List (String × Val))) (km : KindMap) (q : Cy.Query)
    (so su : Stmt) (po pu : List (String × Val)) (ho : withCross fo true To km q = some (so, po)) (hu : withCross fu false Tu km q = some (su, pu)) :
    (C01.ofCyCross q = none ∧ To km q = some (so, po) ∧ Tu km q = some (su, pu)) ∨
    (∃ s : C01.S2x.Query, C01.ofCyCross q = some s ∧ s.toCy = q ∧ s.stmtWith km (fo s) true = some so ∧ s.stmtWith km (fu s) false = some su ∧ po = [] ∧ pu = []) := by
  unfold withCross at ho hu
  cases hc : C01.ofCyCross q with
  | none => rw [hc] at ho hu; exact Or.inl ⟨rfl, ho, hu⟩
  | some s =>
    rw [hc] at ho hu
    obtain ⟨so', hso, heq⟩ := Option.map_eq_some_iff.mp ho
    obtain ⟨su', hsu, heq'⟩ := Option.map_eq_some_iff.mp hu
    cases heq; cases heq'
    exact Or.inr ⟨s, rfl, (C01.Proofs.ofCyCross_sound q s hc).1, hso, hsu, rfl, rfl⟩

/-! ### limit pushdown on the proved fragment (stage S2L of C01: one hop, LIMIT k, no ORDER BY, no SKIP)

The two variants no longer return the same bag: without ORDER BY, `LIMIT k` keeps whichever k rows the scan delivers first, and the two
variants may scan in different join orders. What IS preserved — and all openCypher promises for such a query — is stated by `CutEquiv`. -/

/-- equality of client-visible values, needed only to TYPE `runTail` (its DISTINCT branch, which the guard excludes) -/
local instance : BEq RVal := ⟨RVal.beq⟩

/-- two results of a `LIMIT k` query without ORDER BY are equivalent when both are sub-bags of the rows of the same base query and both have
exactly min(k, number of base rows) rows -/
def CutEquiv (k : Nat) (full xs ys : List (List RVal)) : Prop :=
  SubBag xs full ∧ SubBag ys full ∧ xs.length = min k full.length ∧ ys.length = min k full.length

/-- the code's guard on the shapes of the fragment: the pushdown fires on the hop with LIMIT, and on nothing else of the fragment (no LIMIT:
S2b, S2c, S2n; an aggregate in the tail: count over a hop with LIMIT) -/
theorem limit_guard_on_fragment :
    tailGuard hopLimitShape = true ∧ tailGuard hopShape = false ∧ tailGuard hopCountLimitShape = false ∧
    tailGuard { hopLimitShape with hasSkip := true } = false ∧ tailGuard { hopLimitShape with hasSort := true } = false ∧
    tailGuard { hopLimitShape with distinct := true } = false := by decide

/-- on the shape of stage S2L the tail is: project every source row, keep the first k -/
theorem runTail_hopLimit {α β : Type} [BEq β] (p : α → Bool) (f : α → β) (agg : List β → List β) (le : β → β → Bool) (skip k : Nat) (rows : List α) :
    runTail hopLimitShape p f agg le skip k rows = (rows.map f).take k := rfl

/-- `trVariantL` answers with the S2L statements (LIMIT pushed into the frame iff optimised) where the query has the S2L reading — the same
reading for both variants — and like `trVariant` elsewhere -/
theorem trVariantL_cases (fo fu : C01.S2.Query → Bool) (co cu : C01.Ch.Query → Bool) (no nu : C01.S2n.Query → Bool) (km : KindMap) (q : Cy.Query)
    (so su : Stmt) (po pu : List (String × Val))
    (ho : trVariantL fo co no true km q = some (so, po)) (hu : trVariantL fu cu nu false km q = some (su, pu)) :
    (trVariant fo co no true km q = some (so, po) ∧ trVariant fu cu nu false km q = some (su, pu)) ∨
    (∃ s : C01.S2L.Query, s.toCy = q ∧ s.trWith km (fo s.base) true true = some so ∧ s.trWith km (fu s.base) false false = some su ∧ po = [] ∧ pu = []) := by
  rcases C01.Proofs.tr6_some fo co no true true true km q so po ho with ⟨hn, h5⟩ | ⟨s, hs, hq, hst, hp⟩
  · rcases C01.Proofs.tr6_some fu cu nu false false false km q su pu hu with ⟨_, h5'⟩ | ⟨s', hs', _⟩
    · exact Or.inl ⟨h5, h5'⟩
    · rw [hn] at hs'; cases hs'
  · rcases C01.Proofs.tr6_some fu cu nu false false false km q su pu hu with ⟨hn', _⟩ | ⟨s', hs', _, hst', hp'⟩
    · rw [hn'] at hs; cases hs
    · rw [hs] at hs'; cases hs'
      exact Or.inr ⟨s, hq, hst, hst', hp, hp'⟩

/-- `opt_equiv_limit`: LIMIT PUSHDOWN on the proved fragment. For every graph with `GraphOK2`, every S2L query (one directed hop, optional
WHERE of single-variable conjuncts, LIMIT k, no ORDER BY / SKIP), every join order `fo` / `fu` of the two variants, the optimised statement
(frame pruned, LIMIT on the frame AND on the statement) and the unoptimised one (complete frame, LIMIT on the statement only): whenever both
evaluate, the base query (no LIMIT) has a reference result `r` and
  (1) the two row lists are `CutEquiv`: sub-bags of the rows of `r`, each of exactly min(k, |r|) rows;
  (2) each is the tail of `runTail` on the guard's shape over the frame rows — the optimised one over the frame CUT to k rows, the
      unoptimised one over the whole frame — so `limit_pushdown_preserves` applies literally;
  (3) if both variants picked the same join order, the two row lists are EQUAL (same rows, same order). -/
theorem opt_equiv_limit (km : KindMap) (g : Graph) (hok : GraphOK2 km g) (s : C01.S2L.Query) (fo fu : Bool) (so su : Stmt)
    (ho : s.trWith km fo true true = some so) (hu : s.trWith km fu false false = some su)
    (to tu : Table) (hto : Sql.eval (encode km g) so [] = .ok to) (htu : Sql.eval (encode km g) su [] = .ok tu) :
    ∃ r, Cy.eval .none g s.base.toCy = .ok r ∧
      CutEquiv s.k (cyRows g km r) (sqlRows to) (sqlRows tu) ∧
      sqlRows to = runTail hopLimitShape (fun _ => true) (rowOf2 km g s.base) id (fun _ _ => true) 0 s.k ((hopM g s.base fo).take s.k) ∧
      sqlRows tu = runTail hopLimitShape (fun _ => true) (rowOf2 km g s.base) id (fun _ _ => true) 0 s.k (hopM g s.base fu) ∧
      (fo = fu → sqlRows to = sqlRows tu) := by
  obtain ⟨r, n1, rows1, hr, hb1, hrows1, hperm1, hsub1, hlen1⟩ := C01.Proofs.s2l_sound km g hok s fo true true so ho
  obtain ⟨r', n2, rows2, hr', hb2, hrows2, _, hsub2, hlen2⟩ := C01.Proofs.s2l_sound km g hok s fu false false su hu
  have e1 : to = ⟨n1, rows1⟩ := by
    rcases hb1 with h | ⟨u, h⟩
    · rw [h] at hto; cases hto; rfl
    · rw [h] at hto; cases hto
  have e2 : tu = ⟨n2, rows2⟩ := by
    rcases hb2 with h | ⟨u, h⟩
    · rw [h] at htu; cases htu; rfl
    · rw [h] at htu; cases htu
  subst e1 e2
  rw [hr] at hr'; cases hr'
  have hlen : (cyRows g km r).length = r.2.length := by simp [cyRows]
  refine ⟨r, hr, ⟨hsub1, hsub2, ?_, ?_⟩, ?_, ?_, ?_⟩
  · rw [hlen]; simpa [sqlRows] using hlen1
  · rw [hlen]; simpa [sqlRows] using hlen2
  · rw [limit_pushdown_preserves hopLimitShape limit_guard_on_fragment.1, runTail_hopLimit, hrows1, List.map_take]
  · rw [runTail_hopLimit, hrows2, List.map_take]
  · intro hf; subst hf; rw [hrows1, hrows2]

/-- the instance `limit_pushdown_preserves` gives on this stage, spelled out: cutting the frame first does not change the tail's rows -/
theorem limit_pushdown_on_hop (km : KindMap) (g : Graph) (s : C01.S2L.Query) (flip : Bool) :
    runTail hopLimitShape (fun _ => true) (rowOf2 km g s.base) id (fun _ _ => true) 0 s.k ((hopM g s.base flip).take s.k) =
      runTail hopLimitShape (fun _ => true) (rowOf2 km g s.base) id (fun _ _ => true) 0 s.k (hopM g s.base flip) :=
  limit_pushdown_preserves hopLimitShape limit_guard_on_fragment.1 _ _ _ _ _ _ _

/-- the fragment is inhabited on both branches -/
def exCountRet : Cy.Projection :=
  { distinct := false, all := false, items := [⟨.fn "count" false [.var "n"], none⟩], orderBy := [], skip := none, limit := none }
def exCount : Cy.Query := { parts := [], clauses := [.match false [.mk none false false (.mk (some "n") ["User"] []) []] none], ret := exCountRet }
example : (trOpt [("User", 1)] exCount).isSome = true := by decide +kernel

end Dawgs.C02.Props
