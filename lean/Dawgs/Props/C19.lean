/-
C19 — an interrupted dump resumes to the same result or refuses; never a partial dump.
ONLY property statements and non-vacuity examples live here; lemmas are in Proofs/C19.lean.

All theorems quantify over every database (list of graphs with distinct names, any entities), every
identity whose targets are those graphs with ShardSize ≥ 1 (`Setting`), every crash point (every prefix of
the operation list) and every sequence of further crashes during resumes (`Reach`).
Power loss (no fsync) is out of scope: a crash loses no completed file-system step.
-/
import Dawgs.Proofs.C19
namespace Dawgs.C19.Props
open Dawgs.C18 Dawgs.C19

set_option linter.unusedSectionVars false
variable {P : Type} [DecidableEq P]

/-- files that are not temporary: checkpoint, manifest, fragments, foreign files -/
def isFinalPath : FPath → Prop
  | .ckptTmp => False
  | .manifestTmp => False
  | .fragTmp _ => False
  | _ => True

/-- No manifest before the end: `manifest.json` appears only with the second-to-last step of the dump
(the rename of its temp), after which only the checkpoint removal remains; in every directory a crash
leaves before that step there is no manifest. (At the one remaining crash point — manifest renamed,
checkpoint not yet removed — the dump is complete: its directory is the final one plus the stale
checkpoint, by the shape of the last step.) -/
theorem no_manifest_before_end (db : List (Graph P)) (ident : Identity) :
    (∃ (pre : List (FsOp P)) (v : Ckpt P), dumpOps db ident = pre ++ [.rename .manifestTmp .manifest (.manifest v.done), .remove .ckpt]) ∧
    ∀ k, k + 2 ≤ (dumpOps db ident).length →
      (applyOps ((dumpOps db ident).take k) ([] : FS P)).get .manifest = none := by
  obtain ⟨pre, v', hc, hpre⟩ := contOps_shape db (measure db (V0 (P := P) ident)) (V0 ident)
  have hops : dumpOps db ident = ([FsOp.mkdir] ++ ckOps (V0 ident) ++ pre ++ [FsOp.writeTmp .manifestTmp]) ++
      [.rename .manifestTmp .manifest (.manifest v'.done), .remove .ckpt] := by
    unfold dumpOps; rw [hc]; simp [finalOps, List.append_assoc]
  refine ⟨⟨_, v', hops⟩, ?_⟩
  intro k hk
  rw [hops] at hk ⊢
  have hlen : k ≤ ([FsOp.mkdir] ++ ckOps (V0 ident) ++ pre ++ [FsOp.writeTmp (P := P) .manifestTmp]).length := by
    simp only [List.length_append, List.length_cons, List.length_nil] at hk ⊢; omega
  rw [List.take_append_of_le_length hlen]
  rw [get_manifest_applyOps]
  · rfl
  · intro op hop
    have hop := List.mem_of_mem_take hop
    simp only [List.mem_append, List.mem_cons, List.not_mem_nil, or_false, ckOps] at hop
    rcases hop with ((h | h | h) | h) | h
    · subst h; rfl
    · subst h; rfl
    · subst h; rfl
    · exact hpre op h
    · subst h; rfl

/-- Resume completes or refuses — closed under repeated crashes. From every directory reachable by
crashing the dump at any step and crashing any number of subsequent resumes at any step, resume either
* refuses, having touched nothing but temporary files (checkpoint, manifest, every fragment and every
  foreign file are exactly as before), or
* completes, and the directory then equals the directory of an uninterrupted dump (same fragments, same
  manifest), with no checkpoint left. -/
theorem resume_complete_or_refuse (db : List (Graph P)) (ident : Identity) (hset : Setting db ident) (fs : FS P)
    (hr : Reach db ident fs) :
    (∃ e, (resume db ident fs).outcome = .refused e ∧
        ∀ q, isFinalPath q → (applyOps (resume db ident fs).ops fs).get q = fs.get q) ∨
    ((resume db ident fs).outcome = .ok ∧
        Equiv (applyOps (resume db ident fs).ops fs) (applyOps (dumpOps db ident) []) ∧
        (applyOps (resume db ident fs).ops fs).get .ckpt = none ∧
        (applyOps (resume db ident fs).ops fs).get .manifest ≠ none) := by
  have untouched : ∀ (v : Ckpt P) (q : FPath), isFinalPath q →
      (applyOps ((knownTemps ident v).map FsOp.remove) fs).get q = fs.get q := by
    intro v q hq
    rw [get_removeAll]
    have : q ∉ knownTemps ident v := by
      intro hm
      rcases knownTemps_kinds ident v q hm with h | h | ⟨p, h⟩ <;> (subst h; exact hq)
    rw [if_neg this]
  cases reach_cls db ident hset fs hr with
  | pre hc hm _ =>
    left; rw [resume_pre db ident fs hm hc]; exact ⟨_, rfl, fun _ _ => rfl⟩
  | pub v f hg hp =>
    left; rw [resume_pub db ident hset v (hg.shape hset) f fs hp]
    exact ⟨_, rfl, untouched v⟩
  | complete v hg hn hc =>
    left
    have : fs.get .manifest ≠ none := by rw [hc.rest .manifest (by simp)]; simp [finalGet]
    rw [resume_manifest db ident fs this]; exact ⟨_, rfl, fun _ _ => rfl⟩
  | near v hg hn =>
    right
    rw [resume_near db ident hset v (hg.shape hset) fs hn]
    obtain ⟨_, t, hrt, ht, hfin⟩ := cont_states db ident hset _ v rfl hg _ hn.removeAll
    obtain ⟨_, t0, hg0, ht0, hfin0⟩ := dump_states db ident hset
    have htt : t = t0 := Reaches.terminal_unique (hg.trans hrt) ht hg0 ht0
    refine ⟨rfl, ?_, ?_, ?_⟩
    · intro q; rw [applyOps_append, hfin q, hfin0 q, htt]
    · rw [applyOps_append, hfin]; rfl
    · rw [applyOps_append, hfin]; simp [finalGet]

/-- The completing branch is not vacuous: in every directory that holds a genuine checkpoint version,
its fragments and at most the known temp files, resume succeeds. -/
theorem resume_completes_from_clean (db : List (Graph P)) (ident : Identity) (hset : Setting db ident)
    (v : Ckpt P) (hg : Genuine db ident v) (fs : FS P) (hn : Near ident v fs) :
    (resume db ident fs).outcome = .ok := by
  rw [resume_near db ident hset v (hg.shape hset) fs hn]

/-- The one window between publishing a fragment and recording it: resume refuses ("unexpected file"),
removing only the known temp files. -/
theorem window_publish_before_record (db : List (Graph P)) (ident : Identity) (hset : Setting db ident)
    (v : Ckpt P) (hg : Genuine db ident v) (f : Frag P) (fs : FS P) (hp : Pub v f fs) :
    resume db ident fs = ⟨(knownTemps ident v).map FsOp.remove, .refused .unexpectedFile⟩ :=
  resume_pub db ident hset v (hg.shape hset) f fs hp

/-- Changed options (driver, graphs, codec, shard, batch — the identity): resume refuses and touches nothing. -/
theorem resume_refuses_on_identity_change (db : List (Graph P)) (ident : Identity) (fs : FS P) (v : Ckpt P)
    (hm : fs.get .manifest = none) (hc : fs.get .ckpt = some (.ckpt v)) (hid : v.identity ≠ ident) :
    resume db ident fs = ⟨[], .refused .identityChanged⟩ := by
  unfold resume
  simp [hm, hc, hid]

/-- Changed source: if the counts recorded for a completed graph or for the current graph's snapshot differ
from the source's, resume never succeeds. -/
theorem resume_refuses_on_source_count_change (db : List (Graph P)) (ident : Identity) (fs : FS P) (v : Ckpt P)
    (hc : fs.get .ckpt = some (.ckpt v)) (hsrc : sourceOk db v = false) :
    (resume db ident fs).outcome ≠ .ok := by
  unfold resume
  split
  · simp
  · rw [hc]
    simp only
    split
    · simp
    · split
      · simp
      · split
        · simp
        · split
          · simp
          · simp [hsrc]

/-- Unexpected file: if the directory holds a file that is neither the checkpoint, nor a fragment the
checkpoint records, nor one of the temp files resume knows, resume never succeeds. -/
theorem resume_refuses_on_unexpected_file (db : List (Graph P)) (ident : Identity) (fs : FS P) (v : Ckpt P)
    (hc : fs.get .ckpt = some (.ckpt v)) (q : FPath) (hq : fs.get q ≠ none) (h1 : q ≠ .ckpt)
    (h2 : q ∉ knownTemps ident v) (h3 : ∀ f ∈ committed v, FPath.frag f.path ≠ q) :
    (resume db ident fs).outcome ≠ .ok := by
  have hun : noUnexpected (applyOps ((knownTemps ident v).map FsOp.remove) fs) v = false := by
    have hget : (applyOps ((knownTemps ident v).map FsOp.remove) fs).get q ≠ none := by
      rw [get_removeAll, if_neg h2]; exact hq
    obtain ⟨d, hd⟩ := (get_isSome_iff_mem _ _).mp hget
    rw [Bool.eq_false_iff]
    intro hall
    unfold noUnexpected at hall
    rw [List.all_eq_true] at hall
    have := hall _ hd
    simp only [Bool.or_eq_true, beq_iff_eq, List.any_eq_true] at this
    rcases this with h | ⟨f, hf, he⟩
    · exact h1 h
    · exact h3 f hf he
  unfold resume
  split
  · simp
  · rw [hc]
    simp only
    split
    · simp
    · split
      · simp
      · split
        · simp
        · simp [hun]

/-- C19 at the strength of properties.jsonl on the file-system model. -/
def C19_full : Prop :=
  ∀ (P : Type) [DecidableEq P] (db : List (Graph P)) (ident : Identity), Setting db ident →
    -- never a partial dump: no manifest in any directory a crash leaves before the manifest rename
    (∀ k, k + 2 ≤ (dumpOps db ident).length → (applyOps ((dumpOps db ident).take k) ([] : FS P)).get .manifest = none) ∧
    -- resume completes to the uninterrupted result or refuses without damage, under repeated crashes
    (∀ fs : FS P, Reach db ident fs →
      (∃ e, (resume db ident fs).outcome = .refused e ∧
          ∀ q, isFinalPath q → (applyOps (resume db ident fs).ops fs).get q = fs.get q) ∨
      ((resume db ident fs).outcome = .ok ∧
          Equiv (applyOps (resume db ident fs).ops fs) (applyOps (dumpOps db ident) []) ∧
          (applyOps (resume db ident fs).ops fs).get .ckpt = none ∧
          (applyOps (resume db ident fs).ops fs).get .manifest ≠ none)) ∧
    -- a resume never succeeds with changed options, a changed source, or unaccounted files
    (∀ (fs : FS P) (v : Ckpt P), fs.get .ckpt = some (.ckpt v) →
      (v.identity ≠ ident → (resume db ident fs).outcome ≠ .ok) ∧
      (sourceOk db v = false → (resume db ident fs).outcome ≠ .ok) ∧
      (∀ q, fs.get q ≠ none → q ≠ .ckpt → q ∉ knownTemps ident v → (∀ f ∈ committed v, FPath.frag f.path ≠ q) →
        (resume db ident fs).outcome ≠ .ok))

theorem c19_full : C19_full := by
  intro P _ db ident hset
  refine ⟨(no_manifest_before_end db ident).2, fun fs hr => resume_complete_or_refuse db ident hset fs hr, ?_⟩
  intro fs v hc
  refine ⟨?_, resume_refuses_on_source_count_change db ident fs v hc,
    fun q hq h1 h2 h3 => resume_refuses_on_unexpected_file db ident fs v hc q hq h1 h2 h3⟩
  intro hid
  cases hm : fs.get .manifest with
  | none => rw [resume_refuses_on_identity_change db ident fs v hm hc hid]; simp
  | some d => rw [resume_manifest db ident fs (by rw [hm]; simp)]; simp

/-! ### Non-vacuity -/

/-- a two-graph database with distinct names and ShardSize 2 is a `Setting`; every crash prefix of its
dump is reachable, so the theorems apply to it -/
def sampleDb : List (Graph String) :=
  [ { name := "default", nodes := [⟨5, ["A"], "{}"⟩, ⟨1, [], "{}"⟩, ⟨9, ["B"], "{}"⟩], edges := [⟨2, 1, 5, "R", "{}"⟩] },
    { name := "g2", nodes := [], edges := [] } ]

def sampleIdent : Identity := { graphs := ["default", "g2"], codec := "none", batch := 2, shard := 2 }

example : Setting sampleDb sampleIdent := ⟨rfl, by decide, by decide⟩

example (k : Nat) : Reach sampleDb sampleIdent (applyOps ((dumpOps sampleDb sampleIdent).take k) []) := Reach.crashDump k

/-- a directory with a checkpoint of another run's options is refused without touching anything -/
example : (resume sampleDb sampleIdent [(FPath.ckpt, FData.ckpt (V0 { sampleIdent with shard := 3 }))]).outcome
    = .refused .identityChanged := by decide

end Dawgs.C19.Props
