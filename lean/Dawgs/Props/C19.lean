/-
C19 — an interrupted dump resumes to the same result or refuses; never a partial dump.
ONLY property statements and non-vacuity examples live here; lemmas are in Proofs/C19.lean.

All theorems quantify over every database (list of graphs with distinct names, any entities), every
identity whose targets are those graphs with ShardSize ≥ 1 (`Setting`), every crash point (every prefix of
the operation list) and every sequence of further crashes during resumes (`Reach`).
Power loss (no fsync) is out of scope: a crash loses no completed file-system step.
-/
import Dawgs.Proofs.C19
import Dawgs.Proofs.C19Content
import Dawgs.Model.C19Scrub
namespace Dawgs.C19.Props
open Dawgs.C18 Dawgs.C19

set_option linter.unusedSectionVars false
set_option linter.unusedSimpArgs false
variable {P : Type} [DecidableEq P]

/-- files that are not temporary: checkpoint, manifest, fragments, foreign files -/
def isFinalPath : FPath → Prop
  | .ckptTmp => False
  | .manifestTmp => False
  | .fragTmp _ => False
  | _ => True

/-- No manifest before the end: `manifest.json` appears only with the second-to-last step of the dump
(the rename of its temp), after which only the checkpoint removal remains; in every directory a crash
leaves before that step there is no manifest. (At the one remaining crash point — manifest renamed,
checkpoint not yet removed — the dump is complete: its directory is the final one plus the stale
checkpoint, by the shape of the last step.) -/
theorem no_manifest_before_end (db : List (Graph P)) (ident : Identity) :
    (∃ (pre : List (FsOp P)) (v : Ckpt P), dumpOps db ident = pre ++ [.rename .manifestTmp .manifest (.manifest v.done), .remove .ckpt]) ∧
    ∀ k, k + 2 ≤ (dumpOps db ident).length →
      (applyOps ((dumpOps db ident).take k) ([] : FS P)).get .manifest = none := by
  obtain ⟨pre, v', hc, hpre⟩ := contOps_shape db (measure db (V0 (P := P) ident)) (V0 ident)
  have hops : dumpOps db ident = ([FsOp.mkdir] ++ ckOps (V0 ident) ++ pre ++ [FsOp.writeTmp .manifestTmp]) ++
      [.rename .manifestTmp .manifest (.manifest v'.done), .remove .ckpt] := by
    unfold dumpOps; rw [hc]; simp [finalOps, List.append_assoc]
  refine ⟨⟨_, v', hops⟩, ?_⟩
  intro k hk
  rw [hops] at hk ⊢
  have hlen : k ≤ ([FsOp.mkdir] ++ ckOps (V0 ident) ++ pre ++ [FsOp.writeTmp (P := P) .manifestTmp]).length := by
    simp only [List.length_append, List.length_cons, List.length_nil] at hk ⊢; omega
  rw [List.take_append_of_le_length hlen]
  rw [get_manifest_applyOps]
  · rfl
  · intro op hop
    have hop := List.mem_of_mem_take hop
    simp only [List.mem_append, List.mem_cons, List.not_mem_nil, or_false, ckOps] at hop
    rcases hop with ((h | h | h) | h) | h
    · subst h; rfl
    · subst h; rfl
    · subst h; rfl
    · exact hpre op h
    · subst h; rfl

/-- Resume completes or refuses — closed under repeated crashes. From every directory reachable by
crashing the dump at any step and crashing any number of subsequent resumes at any step, resume either
* refuses, having touched nothing but temporary files (checkpoint, manifest, every fragment and every
  foreign file are exactly as before), or
* completes, and the directory then equals the directory of an uninterrupted dump (same fragments, same
  manifest), with no checkpoint left. -/
theorem resume_complete_or_refuse (db : List (Graph P)) (ident : Identity) (hset : Setting db ident) (fs : FS P)
    (hr : Reach db ident fs) :
    (∃ e, (resume db ident fs).outcome = .refused e ∧
        ∀ q, isFinalPath q → (applyOps (resume db ident fs).ops fs).get q = fs.get q) ∨
    ((resume db ident fs).outcome = .ok ∧
        Equiv (applyOps (resume db ident fs).ops fs) (applyOps (dumpOps db ident) []) ∧
        (applyOps (resume db ident fs).ops fs).get .ckpt = none ∧
        (applyOps (resume db ident fs).ops fs).get .manifest ≠ none) := by
  have untouched : ∀ (v : Ckpt P) (q : FPath), isFinalPath q →
      (applyOps ((knownTemps ident v).map FsOp.remove) fs).get q = fs.get q := by
    intro v q hq
    rw [get_removeAll]
    have : q ∉ knownTemps ident v := by
      intro hm
      rcases knownTemps_kinds ident v q hm with h | h | ⟨p, h⟩ <;> (subst h; exact hq)
    rw [if_neg this]
  cases reach_cls db ident hset fs hr with
  | pre hc hm _ =>
    left; rw [resume_pre db ident fs hm hc]; exact ⟨_, rfl, fun _ _ => rfl⟩
  | pub v f hg hp =>
    left; rw [resume_pub db ident hset v (hg.shape hset) f fs hp]
    exact ⟨_, rfl, untouched v⟩
  | complete v hg hn hc =>
    left
    have : fs.get .manifest ≠ none := by rw [hc.rest .manifest (by simp)]; simp [finalGet]
    rw [resume_manifest db ident fs this]; exact ⟨_, rfl, fun _ _ => rfl⟩
  | near v hg hn =>
    right
    rw [resume_near db ident hset v (hg.shape hset) fs hn]
    obtain ⟨_, t, hrt, ht, hfin⟩ := cont_states db ident hset _ v rfl hg _ hn.removeAll
    obtain ⟨_, t0, hg0, ht0, hfin0⟩ := dump_states db ident hset
    have htt : t = t0 := Reaches.terminal_unique (hg.trans hrt) ht hg0 ht0
    refine ⟨rfl, ?_, ?_, ?_⟩
    · intro q; rw [applyOps_append, hfin q, hfin0 q, htt]
    · rw [applyOps_append, hfin]; rfl
    · rw [applyOps_append, hfin]; simp [finalGet]

/-- Every entity exactly once, consistent manifest. The directory of an uninterrupted dump, and therefore (by
`resume_complete_or_refuse`) the directory every completing resume produces after any sequence of crashes, is
exactly `finalGet t` for a version `t`: the manifest lists `t.done`, the fragments are the committed ones, there is
no checkpoint, no temp file and nothing else. `t.done` has one entry per graph of the database, in order, with the
graph's name and counts, and the entry's fragments hold every node and every relationship of the graph exactly
once, in id order (`HoldsGraph`). Hypotheses: `Setting` and distinct node ids / relationship ids per graph. -/
theorem completed_resume_holds_every_entity_once (db : List (Graph P)) (ident : Identity) (hset : Setting db ident)
    (hids : IdsDistinct db) :
    ∃ t : Ckpt P,
      (∀ q, (applyOps (dumpOps db ident) ([] : FS P)).get q = finalGet t q) ∧
      (∀ fs : FS P, Reach db ident fs → (resume db ident fs).outcome = .ok →
        ∀ q, (applyOps (resume db ident fs).ops fs).get q = finalGet t q) ∧
      t.done.length = db.length ∧
      ∀ (j : Nat) (g : Graph P), db[j]? = some g → ∃ d : Done P, t.done[j]? = some d ∧ d.name = g.name ∧
        (d.nodeCount, d.edgeCount) = counts g ∧ HoldsGraph d.files g := by
  obtain ⟨_, t, hg, ht, hfin⟩ := dump_states db ident hset
  obtain ⟨hlen, hall⟩ := terminal_holds_every_entity db ident hset.shard hids t hg ht
  refine ⟨t, hfin, ?_, hlen, hall⟩
  intro fs hr hok q
  rcases resume_complete_or_refuse db ident hset fs hr with ⟨e, he, _⟩ | ⟨_, heq, _, _⟩
  · rw [he] at hok; cases hok
  · rw [heq q, hfin q]

/-- The completing branch is not vacuous: in every directory that holds a genuine checkpoint version,
its fragments and at most the known temp files, resume succeeds. -/
theorem resume_completes_from_clean (db : List (Graph P)) (ident : Identity) (hset : Setting db ident)
    (v : Ckpt P) (hg : Genuine db ident v) (fs : FS P) (hn : Near ident v fs) :
    (resume db ident fs).outcome = .ok := by
  rw [resume_near db ident hset v (hg.shape hset) fs hn]

/-- The one window between publishing a fragment and recording it: resume refuses ("unexpected file"),
removing only the known temp files. -/
theorem window_publish_before_record (db : List (Graph P)) (ident : Identity) (hset : Setting db ident)
    (v : Ckpt P) (hg : Genuine db ident v) (f : Frag P) (fs : FS P) (hp : Pub v f fs) :
    resume db ident fs = ⟨(knownTemps ident v).map FsOp.remove, .refused .unexpectedFile⟩ :=
  resume_pub db ident hset v (hg.shape hset) f fs hp

/-- A checkpoint written under another identity: resume refuses and touches nothing. -/
theorem resume_refuses_on_identity_mismatch (db : List (Graph P)) (ident : Identity) (fs : FS P) (v : Ckpt P)
    (hm : fs.get .manifest = none) (hc : fs.get .ckpt = some (.ckpt v)) (hid : v.identity ≠ ident) :
    resume db ident fs = ⟨[], .refused .identityChanged⟩ := by
  unfold resume
  simp [hm, hc, hid]

/-- The identity binds every bound field of the call, and nothing else: two calls have the same identity
exactly when they agree on driver, targets (names and order), compression, compression level, scrub mode,
shard size, batch size and — when scrubbing — salt and scrub configuration. -/
theorem identity_binds_every_field (a b : Opts) : identityOf a = identityOf b ↔ SameBound a b := by
  unfold identityOf SameBound
  constructor
  · intro h
    injection h with h1 h2 h3 h4 h5 h6 h7 h8 h9 h10
    refine ⟨h1, h2, h3, h4, h5, h9, h10, ?_⟩
    intro hs
    have hb : b.scrub = true := by rw [← h5]; exact hs
    rw [hs, hb] at h7 h8
    simp only [if_true, Option.some.injEq] at h7 h8
    exact ⟨h8, h7⟩
  · rintro ⟨h1, h2, h3, h4, h5, h6, h7, h8⟩
    cases hs : a.scrub with
    | true =>
      have hb : b.scrub = true := by rw [← h5]; exact hs
      obtain ⟨e1, e2⟩ := h8 hs
      simp [h1, h2, h3, h4, h6, h7, hs, hb, e1, e2]
    | false =>
      have hb : b.scrub = false := by rw [← h5]; exact hs
      simp [h1, h2, h3, h4, h6, h7, hs, hb]

/-- changing any single bound field breaks `SameBound` -/
theorem changed_field_not_same (a b : Opts)
    (h : a.driver ≠ b.driver ∨ a.targets ≠ b.targets ∨ a.compression ≠ b.compression ∨ a.zstdLevel ≠ b.zstdLevel ∨
         a.scrub ≠ b.scrub ∨ a.shardSize ≠ b.shardSize ∨ a.batchSize ≠ b.batchSize ∨
         (a.scrub = true ∧ (a.salt ≠ b.salt ∨ a.scrubConfig ≠ b.scrubConfig))) : ¬ SameBound a b := by
  rintro ⟨h1, h2, h3, h4, h5, h6, h7, h8⟩
  rcases h with h | h | h | h | h | h | h | ⟨hs, h⟩
  · exact h h1
  · exact h h2
  · exact h h3
  · exact h h4
  · exact h h5
  · exact h h6
  · exact h h7
  · obtain ⟨e1, e2⟩ := h8 hs
    rcases h with h | h
    · exact h e1
    · exact h e2

/-- Changed options: a dump interrupted under options `o` and resumed under options `o'` that differ in ANY
bound field (driver, a target or the target order, compression, compression level, scrub mode, shard size,
batch size, and — when scrubbing — the salt or any part of the scrub configuration) is refused, and nothing
is touched. -/
theorem resume_refuses_on_identity_change (db : List (Graph P)) (o o' : Opts) (fs : FS P) (v : Ckpt P)
    (hm : fs.get .manifest = none) (hc : fs.get .ckpt = some (.ckpt v)) (hv : v.identity = identityOf o)
    (hdiff : ¬ SameBound o o') :
    resume db (identityOf o') fs = ⟨[], .refused .identityChanged⟩ := by
  apply resume_refuses_on_identity_mismatch db _ fs v hm hc
  rw [hv]
  intro h
  exact hdiff ((identity_binds_every_field o o').mp h)

/-- The exempt fields (output directory, force, resume, progress interval, progress callback) do not
influence resume: calls that agree on the bound fields resume identically. -/
theorem resume_ignores_exempt_fields (db : List (Graph P)) (o o' : Opts) (fs : FS P) (h : SameBound o o') :
    resume db (identityOf o') fs = resume db (identityOf o) fs := by
  rw [(identity_binds_every_field o o').mpr h]

/-- Changed source: if the counts recorded for a completed graph or for the current graph's snapshot differ
from the source's, resume never succeeds. -/
theorem resume_refuses_on_source_count_change (db : List (Graph P)) (ident : Identity) (fs : FS P) (v : Ckpt P)
    (hc : fs.get .ckpt = some (.ckpt v)) (hsrc : sourceOk db v = false) :
    (resume db ident fs).outcome ≠ .ok := by
  unfold resume
  split
  · simp
  · rw [hc]
    simp only
    split
    · simp
    · split
      · simp
      · split
        · simp
        · split
          · simp
          · simp [hsrc]

theorem doneSourceOk_get : ∀ (ds : List (Done P)) (gs : List (Graph P)), doneSourceOk ds gs = true →
    ∀ (j : Nat) (d : Done P) (g : Graph P), ds[j]? = some d → gs[j]? = some g → counts g = (d.nodeCount, d.edgeCount) := by
  intro ds
  induction ds with
  | nil => intro gs _ j d g hd _; simp at hd
  | cons d0 ds ih =>
    intro gs h j d g hd hg
    cases gs with
    | nil => simp at hg
    | cons g0 gs =>
      simp only [doneSourceOk, Bool.and_eq_true, beq_iff_eq] at h
      cases j with
      | zero => simp at hd hg; subst hd; subst hg; exact h.1
      | succ j => exact ih gs h.2 j d g (by simpa using hd) (by simpa using hg)

/-- Changed source of an ALREADY COMPLETED graph: if the source of any graph the checkpoint records as completed
differs from the recorded pair (node count, relationship count) in AT LEAST ONE of the two dimensions — a node
added with the relationships unchanged, a relationship added with the nodes unchanged, … — resume never succeeds. -/
theorem resume_refuses_on_completed_source_change (db : List (Graph P)) (ident : Identity) (fs : FS P) (v : Ckpt P)
    (hc : fs.get .ckpt = some (.ckpt v)) (j : Nat) (d : Done P) (g : Graph P)
    (hd : v.done[j]? = some d) (hg : db[j]? = some g)
    (hne : g.nodes.length ≠ d.nodeCount ∨ g.edges.length ≠ d.edgeCount) :
    (resume db ident fs).outcome ≠ .ok := by
  apply resume_refuses_on_source_count_change db ident fs v hc
  cases hs : sourceOk db v with
  | false => rfl
  | true =>
    unfold sourceOk at hs
    rw [Bool.and_eq_true] at hs
    have := doneSourceOk_get v.done db hs.1 j d g hd hg
    unfold counts at this
    simp only [Prod.mk.injEq] at this
    rcases hne with h | h
    · exact absurd this.1 h
    · exact absurd this.2 h

/-- Changed source of the graph IN PROGRESS: if its counts differ from the snapshot the checkpoint took, in at
least one dimension, resume never succeeds. -/
theorem resume_refuses_on_current_source_change (db : List (Graph P)) (ident : Identity) (fs : FS P) (v : Ckpt P)
    (hc : fs.get .ckpt = some (.ckpt v)) (c : Cur P) (s : Nat × Nat) (g : Graph P)
    (hcur : v.current = some c) (hs : c.snapshot = some s) (hg : db[c.index]? = some g)
    (hne : g.nodes.length ≠ s.1 ∨ g.edges.length ≠ s.2) :
    (resume db ident fs).outcome ≠ .ok := by
  apply resume_refuses_on_source_count_change db ident fs v hc
  unfold sourceOk
  rw [hcur]
  simp only [hs, hg]
  have : (counts g == s) = false := by
    rw [beq_eq_false_iff_ne]
    intro h
    unfold counts at h
    rcases hne with h' | h'
    · exact h' (by rw [← h])
    · exact h' (by rw [← h])
  simp [this]

/-- Unexpected file: if the directory holds a file that is neither the checkpoint, nor a fragment the
checkpoint records, nor one of the temp files resume knows, resume never succeeds. -/
theorem resume_refuses_on_unexpected_file (db : List (Graph P)) (ident : Identity) (fs : FS P) (v : Ckpt P)
    (hc : fs.get .ckpt = some (.ckpt v)) (q : FPath) (hq : fs.get q ≠ none) (h1 : q ≠ .ckpt)
    (h2 : q ∉ knownTemps ident v) (h3 : ∀ f ∈ committed v, FPath.frag f.path ≠ q) :
    (resume db ident fs).outcome ≠ .ok := by
  have hun : noUnexpected (applyOps ((knownTemps ident v).map FsOp.remove) fs) v = false := by
    have hget : (applyOps ((knownTemps ident v).map FsOp.remove) fs).get q ≠ none := by
      rw [get_removeAll, if_neg h2]; exact hq
    obtain ⟨d, hd⟩ := (get_isSome_iff_mem _ _).mp hget
    rw [Bool.eq_false_iff]
    intro hall
    unfold noUnexpected at hall
    rw [List.all_eq_true] at hall
    have := hall _ hd
    simp only [Bool.or_eq_true, beq_iff_eq, List.any_eq_true] at this
    rcases this with h | ⟨f, hf, he⟩
    · exact h1 h
    · exact h3 f hf he
  unfold resume
  split
  · simp
  · rw [hc]
    simp only
    split
    · simp
    · split
      · simp
      · split
        · simp
        · simp [hun]

/-- Foreign files, both directions. In a directory that holds a genuine checkpoint version, no manifest and that
version's fragments intact, resume succeeds EXACTLY when every file in the directory is the checkpoint, one of the
three temporaries resume knows (checkpoint temp, manifest temp, the next fragment's temp) or a fragment the
checkpoint records — a single other regular file anywhere (any name: `*.tmp`, fragment-like beyond the cursor,
hidden, …) makes it refuse. Directories are not files. -/
theorem resume_ok_iff_no_foreign_file (db : List (Graph P)) (ident : Identity) (hset : Setting db ident) (v : Ckpt P)
    (hg : Genuine db ident v) (fs : FS P) (hc : fs.get .ckpt = some (.ckpt v)) (hm : fs.get .manifest = none)
    (hfr : ∀ f ∈ committed v, fs.get (.frag f.path) = some (.frag f.content)) :
    (resume db ident fs).outcome = .ok ↔
      ∀ q, fs.get q ≠ none → q = .ckpt ∨ q ∈ knownTemps ident v ∨ ∃ f ∈ committed v, FPath.frag f.path = q := by
  constructor
  · intro hok q hq
    by_cases h1 : q = FPath.ckpt
    · exact Or.inl h1
    · by_cases h2 : q ∈ knownTemps ident v
      · exact Or.inr (Or.inl h2)
      · by_cases h3 : ∃ f ∈ committed v, FPath.frag f.path = q
        · exact Or.inr (Or.inr h3)
        · exfalso
          exact resume_refuses_on_unexpected_file db ident fs v hc q hq h1 h2
            (fun f hf he => h3 ⟨f, hf, he⟩) hok
  · intro hall
    have hnd := committed_nodup db ident hset v (hg.shape hset)
    have notKnown : ∀ q, q ∈ knownTemps ident v → (∀ p, q ≠ FPath.frag p) ∧ (∀ n, q ≠ FPath.stray n) := by
      intro q hq
      rcases knownTemps_kinds ident v q hq with h | h | ⟨p, h⟩ <;>
        (subst h; exact ⟨fun _ e => FPath.noConfusion e, fun _ e => FPath.noConfusion e⟩)
    have hnear : Near ident v fs := by
      refine ⟨hc, hm, ?_, ?_, ?_⟩
      · intro p
        cases hget : fs.get (.frag p) with
        | none =>
          cases hfg : fragGet v p with
          | none => rfl
          | some d =>
            obtain ⟨f, hf, hfp⟩ := fragGet_some_mem v p d hfg
            have := hfr f hf
            rw [hfp, hget] at this
            cases this
        | some d =>
          rcases hall (.frag p) (by rw [hget]; simp) with h | h | ⟨f, hf, he⟩
          · cases h
          · exact absurd rfl ((notKnown _ h).1 p)
          · have hp : f.path = p := by injection he
            rw [← hp, fragGet_of_mem v hnd f hf, ← hfr f hf, hp, hget]
      · intro n
        cases hget : fs.get (.stray n) with
        | none => rfl
        | some d =>
          rcases hall (.stray n) (by rw [hget]; simp) with h | h | ⟨f, _, he⟩
          · cases h
          · exact absurd rfl ((notKnown _ h).2 n)
          · cases he
      · intro p hp
        rcases hall (.fragTmp p) hp with h | h | ⟨f, _, he⟩
        · cases h
        · exact h
        · cases he
    rw [resume_near db ident hset v (hg.shape hset) fs hnear]

/-! ### The scrubber's plan cache is unobservable

With scrubbing on, every property is treated according to the plan of its key, memoised per graph under the
normalised key; a resumed dump starts with an empty cache. -/

/-- a cache holds only what `compute` would produce -/
def CacheOk {K V : Type} (compute : K → V) (cache : List (K × V)) : Prop := ∀ k v, (k, v) ∈ cache → v = compute k

/-- If the cached plan is computed from the cache key (the normalised key) only, memoisation is unobservable: from
ANY consistent cache — the one an uninterrupted dump has built up, or the empty one a resumed dump starts with —
the plans used for any sequence of raw keys are `compute (norm raw)`, independent of which spellings came first. -/
theorem scrub_plan_cache_unobservable {K V : Type} [BEq K] [LawfulBEq K] (norm : String → K) (compute : K → V) :
    ∀ (raws : List String) (cache : List (K × V)), CacheOk compute cache →
      planAll norm compute cache raws = raws.map (fun r => compute (norm r)) := by
  intro raws
  induction raws with
  | nil => intro _ _; rfl
  | cons raw raws ih =>
    intro cache hc
    have hlook : ∀ v, cache.lookup (norm raw) = some v → v = compute (norm raw) := by
      intro v hv
      induction cache with
      | nil => simp at hv
      | cons e t iht =>
        rw [List.lookup_cons] at hv
        by_cases he : norm raw == e.1
        · rw [he] at hv
          have hk : norm raw = e.1 := by simpa using he
          rw [hk]
          cases hv
          exact hc e.1 e.2 List.mem_cons_self
        · have : (norm raw == e.1) = false := by simpa using he
          rw [this] at hv
          exact iht (fun k v h => hc k v (List.mem_cons_of_mem _ h)) hv
    simp only [planAll, List.map_cons]
    unfold planKey
    cases hl : cache.lookup (norm raw) with
    | some v =>
      simp only
      rw [hlook v hl, ih cache hc]
    | none =>
      simp only
      rw [ih _ (by
        intro k v hmem
        rcases List.mem_cons.mp hmem with h | h
        · cases h; rfl
        · exact hc k v h)]

/-- The defective shape is observable: when the stored plan is computed from the raw spelling, the plan used for
`Description` depends on whether `description` was seen before (uninterrupted dump) or not (resumed dump). -/
theorem scrub_plan_from_raw_key_observable :
    let norm : String → String := fun raw => if raw == "Description" then "description" else raw
    let freeText : String → Bool := fun raw => raw == "description"
    (planKeyRaw norm freeText (planKeyRaw norm freeText [] "description").2 "Description").1 ≠
    (planKeyRaw norm freeText [] "Description").1 := by
  decide

/-- C19 at the strength of properties.jsonl on the file-system model. -/
def C19_full : Prop :=
  ∀ (P : Type) [DecidableEq P] (db : List (Graph P)) (ident : Identity), Setting db ident →
    -- never a partial dump: no manifest in any directory a crash leaves before the manifest rename
    (∀ k, k + 2 ≤ (dumpOps db ident).length → (applyOps ((dumpOps db ident).take k) ([] : FS P)).get .manifest = none) ∧
    -- resume completes to the uninterrupted result or refuses without damage, under repeated crashes
    (∀ fs : FS P, Reach db ident fs →
      (∃ e, (resume db ident fs).outcome = .refused e ∧
          ∀ q, isFinalPath q → (applyOps (resume db ident fs).ops fs).get q = fs.get q) ∨
      ((resume db ident fs).outcome = .ok ∧
          Equiv (applyOps (resume db ident fs).ops fs) (applyOps (dumpOps db ident) []) ∧
          (applyOps (resume db ident fs).ops fs).get .ckpt = none ∧
          (applyOps (resume db ident fs).ops fs).get .manifest ≠ none)) ∧
    -- a resume never succeeds with changed options, a changed source, or unaccounted files
    (∀ (fs : FS P) (v : Ckpt P), fs.get .ckpt = some (.ckpt v) →
      (v.identity ≠ ident → (resume db ident fs).outcome ≠ .ok) ∧
      (∀ o o' : Opts, v.identity = identityOf o → ident = identityOf o' → ¬ SameBound o o' → (resume db ident fs).outcome ≠ .ok) ∧
      (sourceOk db v = false → (resume db ident fs).outcome ≠ .ok) ∧
      (∀ q, fs.get q ≠ none → q ≠ .ckpt → q ∉ knownTemps ident v → (∀ f ∈ committed v, FPath.frag f.path ≠ q) →
        (resume db ident fs).outcome ≠ .ok))

theorem c19_full : C19_full := by
  intro P _ db ident hset
  refine ⟨(no_manifest_before_end db ident).2, fun fs hr => resume_complete_or_refuse db ident hset fs hr, ?_⟩
  intro fs v hc
  have hmis : v.identity ≠ ident → (resume db ident fs).outcome ≠ .ok := by
    intro hid
    cases hm : fs.get .manifest with
    | none => rw [resume_refuses_on_identity_mismatch db ident fs v hm hc hid]; simp
    | some d => rw [resume_manifest db ident fs (by rw [hm]; simp)]; simp
  refine ⟨hmis, ?_, resume_refuses_on_source_count_change db ident fs v hc,
    fun q hq h1 h2 h3 => resume_refuses_on_unexpected_file db ident fs v hc q hq h1 h2 h3⟩
  intro o o' hv hi hdiff
  apply hmis
  rw [hv, hi]
  intro h
  exact hdiff ((identity_binds_every_field o o').mp h)

/-! ### Non-vacuity -/

/-- a two-graph database with distinct names and ShardSize 2 is a `Setting`; every crash prefix of its
dump is reachable, so the theorems apply to it -/
def sampleDb : List (Graph String) :=
  [ { name := "default", nodes := [⟨5, ["A"], "{}"⟩, ⟨1, [], "{}"⟩, ⟨9, ["B"], "{}"⟩], edges := [⟨2, 1, 5, "R", "{}"⟩] },
    { name := "g2", nodes := [], edges := [] } ]

def sampleOpts : Opts :=
  { driver := "pg", targets := ["default", "g2"], outputDir := "/out", force := false, resume := false, scrub := true, salt := "s1",
    scrubConfig := "default", compression := "none", zstdLevel := 3, shardSize := 2, batchSize := 2, progressInterval := 0,
    progressSet := false }

def sampleIdent : Identity := identityOf sampleOpts

example : Setting sampleDb sampleIdent := ⟨rfl, by decide, by decide⟩

example (k : Nat) : Reach sampleDb sampleIdent (applyOps ((dumpOps sampleDb sampleIdent).take k) []) := Reach.crashDump k

/-- a directory with a checkpoint of another run's options is refused without touching anything -/
example : (resume sampleDb sampleIdent [(FPath.ckpt, FData.ckpt (V0 { sampleIdent with shard := 3 }))]).outcome
    = .refused .identityChanged := by decide

/-- resuming with a different salt (everything else identical) is a change of a bound field … -/
example : ¬ SameBound sampleOpts { sampleOpts with salt := "s2" } :=
  changed_field_not_same _ _ (Or.inr (Or.inr (Or.inr (Or.inr (Or.inr (Or.inr (Or.inr ⟨rfl, Or.inl (by decide)⟩)))))))

/-- … while another output directory, progress interval or callback is not -/
example : SameBound sampleOpts { sampleOpts with outputDir := "/elsewhere", resume := true, progressInterval := 7, progressSet := true } :=
  ⟨rfl, rfl, rfl, rfl, rfl, rfl, rfl, fun _ => ⟨rfl, rfl⟩⟩

end Dawgs.C19.Props
