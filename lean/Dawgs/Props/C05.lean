/-
C05 — translation is a total, deterministic, side-effect-free function. What Lean carries (DESIGN §4 C05 (i)–(iii));
panic-freedom and bounded time of the 22k-line translator are NOT proved here: they are covered by the search of
the harness suite `c05` only, and the MANIFEST says so (category "other", partial).

(i)  walk.Generic — model in Model/C05.lean, SHARED WITH C11 — terminates on every finite AST for every visitor and
     never invokes a callback after one that left an error; the error is what it returns.
(ii) a deep copy lives at fresh addresses: whatever Optimize writes into Copy(query) cannot reach the caller's AST
     (SHARED WITH C11: the field-by-field deepness of `Copy` is C11's `copy_equal_and_fresh` over the regenerated schema).
(iii) iteration order of a Go map is immaterial for every loop shape the translator uses: generic `fold_perm_invariant`
     and its instances per classification of Generated/C05_ranges.lean (side conditions in Props/C05Facts.lean).
-/
import Dawgs.Proofs.C05
namespace Dawgs.C05.Props
open Dawgs.C05

/-! ### (i) walk.Generic -/

/-- **generic_terminates**: for every finite AST, every visitor (arbitrary callbacks, arbitrary use of Consume / SetDone /
SetError) and every set of nodes the cursor constructor refuses, the loop of `walk.Generic` finishes within
`2 + weight(kids)` iterations (two per node). -/
theorem generic_terminates {υ : Type} (v : Visitor υ) (bad : Nat → Bool) (label : Nat) (kids : Forest) (u : υ) :
    (generic v bad label kids u).1 ≠ .outOfFuel := by
  unfold generic
  split
  · intro h; cases h
  · exact runFuel_terminates v bad _ _ (by simp [stackWeight, cursorWeight]; try omega)

/-- **generic_stops_at_first_error**: in the log of callbacks of a finished walk, an entry whose handler carries an error
can only be the LAST one, and exactly then the walk returns that error; if the walk returns anything else no callback
ever left an error. So `SetError` stops the walk at once and is never lost. -/
theorem generic_stops_at_first_error {υ : Type} (v : Visitor υ) (bad : Nat → Bool) (label : Nat) (kids : Forest) (u : υ) :
    FinOK (generic v bad label kids u).1 (generic v bad label kids u).2 := by
  unfold generic
  split
  · intro e he; cases he
  · exact runFuel_log v bad _ _ (fun _ h => nomatch h)

/-- non-vacuity: a visitor that sets an error on entering node 3 stops there: 1 → 2 → 3 are entered, nothing after -/
def errAt3 : Visitor Unit :=
  { enter := fun s l => if l = 3 then (s.1, { s.2 with err := some 7, done := true }) else s,
    visit := fun s _ => s, exit := fun s _ => s }
def sampleKids : Forest := .cons 2 (.cons 3 .nil (.cons 4 .nil .nil)) (.cons 5 .nil .nil)

example : (generic errAt3 (fun _ => false) 1 sampleKids ()).1 = .err 7 := by decide
example : ((generic errAt3 (fun _ => false) 1 sampleKids ()).2.log.map (fun e => (e.ev, e.label))) =
    [(.enter, 3), (.enter, 2), (.enter, 1)] := by decide
/-- and a visitor that never cancels sees every node entered and exited (9 = 5 enters + 4 … ) -/
def quiet : Visitor Unit := { enter := fun s _ => s, visit := fun s _ => s, exit := fun s _ => s }
example : (generic quiet (fun _ => false) 1 sampleKids ()).1 = .ok ∧
    ((generic quiet (fun _ => false) 1 sampleKids ()).2.log.filter (fun e => e.ev == .enter)).length = 5 ∧
    ((generic quiet (fun _ => false) 1 sampleKids ()).2.log.filter (fun e => e.ev == .exit)).length = 5 := by decide

/-! ### (ii) Optimize works on Copy(query) -/

/-- **copy_equal_and_fresh** (minimal form): the copy has the same shape and labels, and all of its cells are new. -/
theorem copy_equal_and_fresh (t : AForest) (n : Nat) (hn : ∀ a ∈ t.addrs, a < n) :
    (t.copy n).1.erase = t.erase ∧ ∀ a ∈ (t.copy n).1.addrs, a ∉ t.addrs := by
  refine ⟨copy_erase t n, ?_⟩
  intro a ha hmem
  have := (copy_fresh t n a ha).1
  have := hn a hmem
  omega

/-- **optimize_isolated**: any sequence of writes through pointers into the copy (what the optimizer rules do to
`plan.Query`) leaves the caller's tree exactly as it was. -/
theorem optimize_isolated (t : AForest) (n : Nat) (hn : ∀ a ∈ t.addrs, a < n) (ws : List (Nat × Nat))
    (hws : ∀ w ∈ ws, w.1 ∈ (t.copy n).1.addrs) : t.writes ws = t :=
  writes_not_mem t ws (fun w hw => (copy_equal_and_fresh t n hn).2 w.1 (hws w hw))

/-- non-vacuity: writes into the copy do change the copy -/
def sampleTree : AForest := .cons 0 10 (.cons 1 11 .nil (.cons 2 12 .nil .nil)) .nil
example : (sampleTree.copy 3).1.addrs = [3, 4, 5] := by decide
example : ((sampleTree.copy 3).1.writes [(4, 99)]).erase ≠ sampleTree.erase ∧ sampleTree.writes [(4, 99)] = sampleTree := by decide

/-! ### (iii) iteration order of a map does not matter -/

/-- **fold_perm_invariant**: a fold whose step is right-commutative on the elements actually present gives the same
result for every order of the elements (core `List.Perm.foldl_eq'`, restated). A Go `for k, v := range m` is such
a fold over SOME permutation of the entries. -/
theorem fold_perm_invariant {α β : Type} (f : β → α → β) {l₁ l₂ : List α} (p : l₁.Perm l₂)
    (comm : ∀ x ∈ l₁, ∀ y ∈ l₁, ∀ z, f (f z x) y = f (f z y) x) (init : β) :
    l₁.foldl f init = l₂.foldl f init :=
  List.Perm.foldl_eq' p comm init

/-- Go maps as functions; entries of one map have pairwise different keys -/
def insertEntry {K V : Type} [DecidableEq K] (m : K → Option V) (kv : K × V) : K → Option V :=
  fun k => if k = kv.1 then some kv.2 else m k

theorem eq_of_key_eq {K V : Type} : ∀ {l : List (K × V)}, (l.map (·.1)).Nodup → ∀ x ∈ l, ∀ y ∈ l, x.1 = y.1 → x = y
  | [], _, _, hx, _, _, _ => nomatch hx
  | a :: t, hnd, x, hx, y, hy, e => by
    simp only [List.map_cons, List.nodup_cons] at hnd
    cases hx with
    | head =>
      cases hy with
      | head => rfl
      | tail _ hy => exact absurd (List.mem_map.2 ⟨y, hy, e.symm⟩) hnd.1
    | tail _ hx =>
      cases hy with
      | head => exact absurd (List.mem_map.2 ⟨x, hx, e⟩) hnd.1
      | tail _ hy => exact eq_of_key_eq hnd.2 x hx y hy e

/-- **map_insert_order_free** (class map-insert: `dst[k] = v` per entry, copies, per-key updates) -/
theorem map_insert_order_free {K V : Type} [DecidableEq K] {l₁ l₂ : List (K × V)} (p : l₁.Perm l₂)
    (hk : (l₁.map (·.1)).Nodup) (m : K → Option V) : l₁.foldl insertEntry m = l₂.foldl insertEntry m := by
  refine fold_perm_invariant insertEntry p ?_ m
  intro x hx y hy z
  by_cases e : x.1 = y.1
  · rw [eq_of_key_eq hk x hx y hy e]
  · funext k
    unfold insertEntry
    by_cases h1 : k = y.1
    · by_cases h2 : k = x.1
      · exact absurd (h2.symm.trans h1) e
      · simp [h1, Ne.symm e]
    · by_cases h2 : k = x.1
      · simp [h2, e]
      · simp [h1, h2]

/-- **set_insert_order_free** (class set-insert: `set[k] = struct{}{}`, `Add`, `delete`) — sets as predicates -/
theorem set_insert_order_free {K : Type} [DecidableEq K] {l₁ l₂ : List K} (p : l₁.Perm l₂) (s : K → Bool) :
    l₁.foldl (fun s k => fun x => x = k || s x) s = l₂.foldl (fun s k => fun x => x = k || s x) s := by
  refine fold_perm_invariant _ p ?_ s
  intro x _ y _ z
  funext k
  simp only [Bool.or_left_comm]

/-- **lookup_order_free** (class lookup-only: `for … { if bad(k) { return false } }; return true` and its dual) -/
theorem lookup_order_free {α : Type} (q : α → Bool) {l₁ l₂ : List α} (p : l₁.Perm l₂) :
    l₁.all q = l₂.all q ∧ l₁.any q = l₂.any q := by
  constructor
  · rw [Bool.eq_iff_iff]; simp only [List.all_eq_true]
    exact ⟨fun h x hx => h x (p.symm.subset hx), fun h x hx => h x (p.subset hx)⟩
  · rw [Bool.eq_iff_iff]; simp only [List.any_eq_true]
    exact ⟨fun ⟨x, hx, hq⟩ => ⟨x, p.subset hx, hq⟩, fun ⟨x, hx, hq⟩ => ⟨x, p.symm.subset hx, hq⟩⟩

/-- **max_fold_order_free** (class commutative-fold: `if v > acc { acc = v }`, counters) -/
theorem max_fold_order_free {l₁ l₂ : List Nat} (p : l₁.Perm l₂) (init : Nat) :
    l₁.foldl Nat.max init = l₂.foldl Nat.max init := by
  refine fold_perm_invariant _ p ?_ init
  intro x _ y _ z
  show Nat.max (Nat.max z x) y = Nat.max (Nat.max z y) x
  simp only [Nat.max_def]
  repeat' split
  all_goals omega

/-- **sorted_order_free** (class sorted-before-use: keys collected into a slice that is sorted before anything reads
it): sorting erases the collection order. `le` is any total order on the keys (Go: `sort.Strings`, `slices.Sort`). -/
theorem sorted_order_free {α : Type} (le : α → α → Bool) (htrans : ∀ a b c, le a b → le b c → le a c)
    (htotal : ∀ a b, le a b || le b a) (hanti : ∀ a b, le a b → le b a → a = b) {l₁ l₂ : List α} (p : l₁.Perm l₂) :
    l₁.mergeSort le = l₂.mergeSort le := by
  have p' : (l₁.mergeSort le).Perm (l₂.mergeSort le) :=
    (List.mergeSort_perm l₁ le).trans (p.trans (List.mergeSort_perm l₂ le).symm)
  exact List.Perm.eq_of_pairwise (le := fun a b => le a b = true)
    (fun a b _ _ h1 h2 => hanti a b h1 h2)
    (List.pairwise_mergeSort (fun a b c => htrans a b c) (fun a b => htotal a b) l₁)
    (List.pairwise_mergeSort (fun a b c => htrans a b c) (fun a b => htotal a b) l₂) p'

/-! ### (iv) the kind mapper's contract under concurrency -/

/-- the ids registered for a kind -/
def idsOf (g : KM) (k : Nat) : List Nat := (g.table.filter (fun p => p.1 == k)).map (·.2)

theorem idsOf_length_one : ∀ {t : List (Nat × Nat)} {next : Nat} {k : Nat}, (t.map (·.1)).Nodup → k ∈ t.map (·.1) →
    (idsOf ⟨t, next⟩ k).length = 1
  | [], _, _, _, h => nomatch h
  | p :: t, next, k, hnd, hm => by
    simp only [List.map_cons, List.nodup_cons] at hnd
    simp only [List.map_cons, List.mem_cons] at hm
    unfold idsOf
    by_cases e : p.1 = k
    · have hnot : ∀ q ∈ t, ¬ q.1 = k := fun q hq eq => hnd.1 (List.mem_map.2 ⟨q, hq, eq.trans e.symm⟩)
      have hf : t.filter (fun q => q.1 == k) = [] := List.filter_eq_nil_iff.2 (fun q hq => by simpa using hnot q hq)
      simp [List.filter_cons, e, hf]
    · have hk : k ∈ t.map (·.1) := by
        rcases hm with h | h
        · exact absurd h.symm e
        · exact h
      have ih := idsOf_length_one (next := next) hnd.2 hk
      unfold idsOf at ih
      simpa [List.filter_cons, e] using ih

/-- **assert_kinds_idempotent**: start from any consistent mapper and let any number of goroutines run
`AssertKinds` with any kind lists (repetitions and overlaps allowed). For EVERY interleaving of their critical sections
(`mapKinds` snapshot, then one `Put` per missing kind, where `Put` checks and allocates inside ONE lock acquisition):
the table keeps one entry per kind, ids stay pairwise distinct and dense, and once a goroutine's `AssertKinds(ks)` has
returned every `k ∈ ks` has exactly one id. -/
theorem assert_kinds_idempotent (g0 : KM) (h0 : KMInv g0) (threads : List (List Nat)) (sched : List Nat) :
    KMInv (kmRun true ⟨g0, threads.map KMPC.start⟩ sched).g ∧
    ∀ ks, KMPC.done ks ∈ (kmRun true ⟨g0, threads.map KMPC.start⟩ sched).pcs →
      ∀ k ∈ ks, (idsOf (kmRun true ⟨g0, threads.map KMPC.start⟩ sched).g k).length = 1 := by
  have h := kmRun_inv sched ⟨g0, threads.map KMPC.start⟩ h0 (by
    intro pc hpc
    obtain ⟨ks, _, e⟩ := List.mem_map.1 hpc
    subst e; trivial)
  refine ⟨h.1, ?_⟩
  intro ks hd k hk
  have hhas : (kmRun true ⟨g0, threads.map KMPC.start⟩ sched).g.has k = true := h.2 _ hd k hk
  exact idsOf_length_one h.1.keys (has_iff.1 hhas)

/-- the check is necessary: if the allocating section does not re-check, two goroutines asserting the same new
kind can both find it missing and register it twice (schedule: both snapshots first) — and a single goroutine does so
for a repeated label `(n:New:New)`. -/
theorem unchecked_put_registers_twice :
    (idsOf (kmRun false ⟨KM.new, [.start [5], .start [5]]⟩ [0, 1, 0, 1, 0, 1]).g 5).length = 2 ∧
    (idsOf (kmRun false ⟨KM.new, [.start [5, 5]]⟩ [0, 0, 0, 0]).g 5).length = 2 ∧
    (idsOf (kmRun true ⟨KM.new, [.start [5], .start [5, 5]]⟩ [0, 1, 0, 1, 0, 1, 1]).g 5).length = 1 := by decide

/-- **assert_kinds_repeatable** (LIVE definition, `ids[i] = Put(kinds[i])`): whatever the mapper's history, the ids
`AssertKinds(ks)` returns are the table's ids of `ks` IN THE ORDER OF `ks`, and calling it again — now that every kind is
registered — changes nothing and returns the very same list. So the kind-id array of a CREATE is byte-identical on the
registering call and on every later call. -/
theorem assert_kinds_repeatable (g : KM) (ks : List Nat) :
    (g.assertKinds ks).2 = ks.map (g.assertKinds ks).1.idOf
    ∧ ((g.assertKinds ks).1.assertKinds ks).1 = (g.assertKinds ks).1
    ∧ ((g.assertKinds ks).1.assertKinds ks).2 = (g.assertKinds ks).2 := by
  have hnoop := assertKinds_noop ks (g.assertKinds ks).1 (assertKinds_all_present ks g)
  refine ⟨assertKinds_ids ks g, hnoop, ?_⟩
  rw [assertKinds_ids ks (g.assertKinds ks).1, hnoop, assertKinds_ids ks g]

/-- **assert_kinds_old_order_depends_on_state** (OLD definition: found ids first, newly registered ids after): with kind
7 registered and kind 9 not, `AssertKinds([9, 7])` returns `[id 7, id 9]` on the registering call and `[id 9, id 7]` on
the next one — `CREATE (n:Fresh:User)` emitted `array [1, 51]` first and `array [51, 1]` afterwards. -/
theorem assert_kinds_old_order_depends_on_state :
    (KM.assertKinds_old ⟨[(7, 1)], 2⟩ [9, 7]).2 = [1, 2]
    ∧ ((KM.assertKinds_old ⟨[(7, 1)], 2⟩ [9, 7]).1.assertKinds_old [9, 7]).2 = [2, 1]
    ∧ (KM.assertKinds ⟨[(7, 1)], 2⟩ [9, 7]).2 = [2, 1]
    ∧ ((KM.assertKinds ⟨[(7, 1)], 2⟩ [9, 7]).1.assertKinds [9, 7]).2 = [2, 1] := by decide

/-- **kind_ids_never_change**: once a kind has an id (it was registered by anyone, or `AssertKinds` returned it to some
goroutine), EVERY continuation of the history — any number of other goroutines, any kind lists, any interleaving of their
critical sections — leaves that kind registered under the very same id. So the kind-id array one translation was handed
is what every concurrent and every later translation of the same query is handed (with `assert_kinds_repeatable`: in
the same positions). -/
theorem kind_ids_never_change (g : KM) (pcs : List KMPC) (sched : List Nat) (k : Nat) (h : g.has k = true) :
    (kmRun true ⟨g, pcs⟩ sched).g.has k = true ∧ (kmRun true ⟨g, pcs⟩ sched).g.idOf k = g.idOf k :=
  kmRun_stable sched ⟨g, pcs⟩ k h

/-- non-vacuity: two goroutines race for kinds 5 and 6; whatever id 5 received is still its id three more calls later -/
example : (kmRun true ⟨KM.new, [.start [5, 6], .start [6, 5]]⟩ [0, 1, 0, 1, 0, 1, 0, 1]).g.idOf 5 = 1 ∧
    (kmRun true ⟨(kmRun true ⟨KM.new, [.start [5, 6], .start [6, 5]]⟩ [0, 1, 0, 1, 0, 1, 0, 1]).g, [.start [9, 6, 5]]⟩ [0, 0, 0, 0]).g.idOf 5 = 1 := by decide

/-! ### the full statement -/

/-- what a caller can observe of one call -/
structure Observed (Out AST Params : Type) where
  result : Out          -- status, error text, SQL bytes, result parameters
  astAfter : AST        -- the caller's AST after the call
  paramsAfter : Params  -- the caller's parameter map after the call

/-- **C05_full** — the whole property, stated over an abstract implementation `runAll σ km q ps n`: `n` invocations of
`Translate(q, ps)` (sequential repeats and concurrent goroutines alike) under the interleaving `σ` against one kind
mapper that starts in the consistent state `km`; `none` = some invocation panicked or did not return.

NOT PROVED for the Go translator (there is no Lean model of its 22k lines). What carries each conjunct:
* `∃ obs … = some obs` (total, bounded): SEARCHED; proved only for walk.Generic (`generic_terminates`,
  `generic_stops_at_first_error`), narrowed by `Facts.unguarded_partial_sites_known`;
* `astAfter = q`: `optimize_isolated` + `Facts.caller_query_only_copied` + `Facts.inputs_not_written` + one trusted step;
* `paramsAfter = ps`: `Facts.parameter_map_copied` + `Facts.inputs_not_written` + `Facts.library_values_not_written` + the same step;
* equal results: `fold_perm_invariant` and instances + `Facts.no_order_sensitive_range` + `Facts.sort_comparators_total` +
  `Facts.no_nondeterminism_sources` + `Facts.no_shared_mutable_state` + one trusted step (a sequential Go program without
  these constructs is a function of its inputs), and for the one shared object `assert_kinds_idempotent`,
  `assert_kinds_repeatable`, `kind_ids_never_change` + `Facts.kind_mapper_locked` / `…_check_then_act` /
  `kinds_interned_atomically` / `assert_kinds_order`. -/
def C05_full {Sched KMS AST Params Out : Type} (consistent : KMS → Prop)
    (runAll : Sched → KMS → AST → Params → Nat → Option (List (Observed Out AST Params))) : Prop :=
  ∀ σ km q ps n, consistent km →
    ∃ obs, runAll σ km q ps n = some obs ∧ obs.length = n
      ∧ (∀ o ∈ obs, o.astAfter = q ∧ o.paramsAfter = ps)
      ∧ (∀ o ∈ obs, ∀ o' ∈ obs, o.result = o'.result)

end Dawgs.C05.Props
