/-
C04, T-tie: where text enters the emitted SQL, as tables regenerated from the sources on every run
(`tools/extract/goext c04` → `Dawgs/Generated/C04Sites.lean`), checked by the kernel against the quoting functions
the theorems of `Props/C04.lean` are about.

(1) `writeSites`: every argument of every `Write`/`WriteString`/`WriteByte`/`WriteRune` call of
    cypher/models/pgsql/format with its provenance class. Obligation `format_write_sites_covered`: an argument is a
    benign constant, a formatted number, the string value wrapped exactly as `pgQuote` (`"'" , ReplaceAll(v,"'","''"), "'"`),
    the identifier helper `formatIdentifier` (model `emitIdent`), or one of the few verbatim writes listed below WITH the
    reason why no user text can be in it. A new emission path (e.g. CTE column names written with `builder.Write(column)`,
    a `fmt.Sprintf` into the builder, a second quoting routine) is not on the list and turns the obligation red.
(2) `sites`: the places of cypher/models/pgsql/{translate,optimize,.} that build identifiers from strings, result
    aliases, verbatim fragments, LIKE patterns, nested SQL text, parameter values and column lists. Obligations: every site
    is classified by a row of `rows` (`translate_sites_classified`), no row is stale (`rows_all_live`), every row carrying
    user text names the escaping that applies or the known finding it is (`user_text_rows_escaped`), and the findings named
    by rows are exactly the known C04 findings (`known_findings_are_rows`). Literal constructions (`pgsql.NewLiteral`,
    `AsLiteral`, `pgsql.Literal{}`) need no row: whatever their value is, it is written by `formatValue` (part 1).
-/
import Dawgs.Generated.C04Sites
import Dawgs.Props.C04
import Dawgs.Spec.C04
namespace Dawgs.C04.Sites
open Dawgs.Generated.C04Sites

/-! ## (1) the formatter's writes -/

/-- a constant fragment cannot open a string, quoted identifier, dollar quote, comment, escape or placeholder -/
def benignChars : List Char → Bool
  | [] => true
  | '-' :: '-' :: _ => false
  | '/' :: '*' :: _ => false
  | c :: cs => c != '\'' && c != '"' && c != '\\' && c != '$' && c != '`' && c != '@' && c != '\x00' && benignChars cs

def constBenign (s : String) : Bool := benignChars s.toList

/-- verbatim writes (class raw / stringer) that are allowed, with the reason -/
def exemptVerbatim : List (String × String × String × String) := [
  ("formatNode", "typedNextExpr", "pgsql.FormattingLiteral",
    "FormattingLiteral values are created from string constants or pgsql.DataType values only (rows `fmtlit` of part 2; every other FormattingLiteral conversion is a constant and not listed)"),
  ("formatNode", "typedNextExpr.String()", "pgsql.Operator",
    "operators come from the fixed operator tokens of the grammar / the pgsql.Operator constants"),
  ("formatSlice", "dataType.String()", "",
    "pgsql.DataType constant chosen by the Go type of the slice"),
  ("formatTableAlias", "tableAlias.Name", "",
    "CTE / frame names are generated identifiers (C06 generated_names_never_user_keyed, generator_matches_model) or constants of the translator"),
  ("formatInsertStatement", "column", "range insert.Shape.Columns",
    "INSERT column lists are constant column names (rows `shape` of part 2 for create.go / expansion.go)")]

def wsiteOK (s : WSite) : Bool :=
  match s.cls with
  | 0 => (s.wrapped && (s.arg == 0 || s.arg == 2) && s.expr == "'") || constBenign s.expr
  | 1 => true
  | 2 => s.wrapped && s.arg == 1
  | 3 => true
  | 4 => exemptVerbatim.any (fun e => e.1 == s.fn && e.2.1 == s.expr && e.2.2.1 == s.ctx)
  | 5 => exemptVerbatim.any (fun e => e.1 == s.fn && e.2.1 == s.expr && e.2.2.1 == s.ctx)
  | 7 => s.fn == "Write"
  | _ => false

/-- the sites that fail (empty on a tree whose emission paths are all modelled) -/
def uncoveredWrites : List WSite := writeSites.filter (fun s => !wsiteOK s)

-- printed into the build log: on a red obligation this names the write that is not covered
#eval uncoveredWrites

theorem format_write_sites_covered : uncoveredWrites = [] := by decide +kernel

/-- the two modelled helpers are where the model says they are: the quote-doubling write is the `case string` of
`formatValue`, `formatIdentifier` is what `formatNode` writes for a `pgsql.Identifier`, and there is no second one -/
theorem format_helpers_in_place :
    (writeSites.filter (fun s => s.cls == 2)).map (fun s => (s.fn, s.wrapped)) = [("formatValue", true)]
    ∧ (writeSites.filter (fun s => s.cls == 3)).map (·.fn) = ["formatNode"]
    ∧ (writeSites.filter (fun s => s.cls == 7)).map (·.fn) = ["Write", "Write"] := by decide +kernel

theorem format_table_nonempty : 100 ≤ writeSites.length := by decide +kernel

/-! ## (2) construction sites of the translator -/

structure Row where
  kind : String
  file : String
  fn : String
  expr : String
  aux : String        -- compared for `like` rows only (guards: which operators, which operand shape)
  prov : String       -- const | generated | user-symbol | user-value | derived-sql
  esc : String        -- what applies before the text reaches the server
  finding : String    -- key of the known finding this row is, or ""
  why : String
deriving Repr, DecidableEq

def rows : List Row := [
  ⟨"alias", "projection.go", "translateProjectionItem", "boundSelectItem.Aliased()", "", "user-symbol", "emitIdent", "C04:projection.variable:case-folded-identifier",
    "implicit alias of a returned variable = its Cypher symbol; written through formatIdentifier"⟩,
  ⟨"alias", "projection.go", "translateProjectionItem", "alias", "", "user-symbol", "emitIdent", "C04:projection.alias:case-folded-identifier",
    "explicit result alias of the final RETURN; written through formatIdentifier"⟩,
  ⟨"fmtlit", "format.go", "formatNode", "arrayCastType.String()", "", "const", "datatype-constant", "",
    "a pgsql.DataType (constants of pgtypes.go and their array forms); no user text"⟩,
  ⟨"fmtlit", "format.go", "formatNode", "typedNextExpr.String()", "", "const", "datatype-constant", "",
    "a pgsql.DataType (constants of pgtypes.go and their array forms); no user text"⟩,
  ⟨"fmtlit", "format.go", "formatNode", "typedNextExpr.CastType", "", "const", "datatype-constant", "",
    "a pgsql.DataType (constants of pgtypes.go and their array forms); no user text"⟩,
  ⟨"ident", "aggregate_traversal_count.go", "aggregateTraversalCountQuery", "shape.ReturnSourceAlias", "", "user-symbol", "emitIdent", "C04:aggregate_traversal_count.alias:case-folded-identifier",
    "alias / source variable of the aggregate traversal count lowering; written through formatIdentifier (CTE column list, projection alias, ORDER BY)"⟩,
  ⟨"ident", "aggregate_traversal_count.go", "aggregateTraversalCountQuery", "shape.CountAlias", "", "user-symbol", "emitIdent", "C04:aggregate_traversal_count.alias:case-folded-identifier",
    "alias / source variable of the aggregate traversal count lowering; written through formatIdentifier (CTE column list, projection alias, ORDER BY)"⟩,
  ⟨"ident", "aggregate_traversal_count.go", "aggregateTraversalCountQuery", "shape.ReturnCountAlias", "", "user-symbol", "emitIdent", "C04:aggregate_traversal_count.alias:case-folded-identifier",
    "alias / source variable of the aggregate traversal count lowering; written through formatIdentifier (CTE column list, projection alias, ORDER BY)"⟩,
  ⟨"ident", "aggregate_traversal_count.go", "buildAggregateRankedCTE", "shape.CountAlias", "", "user-symbol", "emitIdent", "C04:aggregate_traversal_count.alias:case-folded-identifier",
    "alias / source variable of the aggregate traversal count lowering; written through formatIdentifier (CTE column list, projection alias, ORDER BY)"⟩,
  ⟨"ident", "aggregate_traversal_count.go", "aggregateBindingPredicate", "symbol", "", "user-symbol", "lookup-key", "",
    "used as a key of the scope / of a set or map only; what is emitted is the generated binding it resolves to (C06 user_ids_only_via_aliased_lookup); the symbol itself reaches the SQL AST only through the alias rows"⟩,
  ⟨"ident", "collect_id_membership.go", "collectIDMembershipCandidates", "projectionItem.Alias.Symbol", "", "user-symbol", "lookup-key", "",
    "used as a key of the scope / of a set or map only; what is emitted is the generated binding it resolves to (C06 user_ids_only_via_aliased_lookup); the symbol itself reaches the SQL AST only through the alias rows"⟩,
  ⟨"ident", "collect_id_membership.go", "Enter", "variable.Symbol", "", "user-symbol", "lookup-key", "",
    "used as a key of the scope / of a set or map only; what is emitted is the generated binding it resolves to (C06 user_ids_only_via_aliased_lookup); the symbol itself reaches the SQL AST only through the alias rows"⟩,
  ⟨"ident", "count_fast_path.go", "translateCountStoreFastPath", "shape.Alias", "", "user-symbol", "emitIdent", "C04:count_fast_path.alias:case-folded-identifier",
    "RETURN count(n) AS alias on the count-store fast path; written through formatIdentifier"⟩,
  ⟨"ident", "create.go", "createIDIdentifier", "binding.Identifier.String() + \"_id\"", "", "generated", "generated", "",
    "derived from a generated binding identifier / the identifier generator (C06 generated_names_never_user_keyed, generator_matches_model)"⟩,
  ⟨"ident", "expansion.go", "expansionSeedIdentifier", "string(expansionIdentifier) + \"_seed\"", "", "generated", "generated", "",
    "derived from a generated binding identifier / the identifier generator (C06 generated_names_never_user_keyed, generator_matches_model)"⟩,
  ⟨"ident", "expansion.go", "newExpansionNodeFilterSeed", "string(identifier) + \"_filter\"", "", "generated", "generated", "",
    "derived from a generated binding identifier / the identifier generator (C06 generated_names_never_user_keyed, generator_matches_model)"⟩,
  ⟨"ident", "model.go", "extractIdentifierFromCypherExpression", "variableExpression.Symbol", "", "user-symbol", "lookup-key", "",
    "used as a key of the scope / of a set or map only; what is emitted is the generated binding it resolves to (C06 user_ids_only_via_aliased_lookup); the symbol itself reaches the SQL AST only through the alias rows"⟩,
  ⟨"ident", "predicate_placement.go", "bindingConstraintConsumed", "symbol", "", "user-symbol", "lookup-key", "",
    "used as a key of the scope / of a set or map only; what is emitted is the generated binding it resolves to (C06 user_ids_only_via_aliased_lookup); the symbol itself reaches the SQL AST only through the alias rows"⟩,
  ⟨"ident", "references.go", "addVariable", "variable.Symbol", "", "user-symbol", "lookup-key", "",
    "used as a key of the scope / of a set or map only; what is emitted is the generated binding it resolves to (C06 user_ids_only_via_aliased_lookup); the symbol itself reaches the SQL AST only through the alias rows"⟩,
  ⟨"ident", "references.go", "addMatchPatternDeclaration", "variable.Symbol", "", "user-symbol", "lookup-key", "",
    "used as a key of the scope / of a set or map only; what is emitted is the generated binding it resolves to (C06 user_ids_only_via_aliased_lookup); the symbol itself reaches the SQL AST only through the alias rows"⟩,
  ⟨"ident", "references.go", "ReferencesSourceIdentifier", "cypher.TokenLiteralAsterisk", "", "const", "generated", "",
    "the constant *"⟩,
  ⟨"ident", "tracking.go", "NewIdentifier", "prefixStr + nextIDStr", "", "generated", "generated", "",
    "derived from a generated binding identifier / the identifier generator (C06 generated_names_never_user_keyed, generator_matches_model)"⟩,
  ⟨"ident", "tracking.go", "LookupString", "identifierString", "", "user-symbol", "lookup-key", "",
    "used as a key of the scope / of a set or map only; what is emitted is the generated binding it resolves to (C06 user_ids_only_via_aliased_lookup); the symbol itself reaches the SQL AST only through the alias rows"⟩,
  ⟨"ident", "translator.go", "Enter", "typedExpression.Symbol", "", "user-symbol", "lookup-key", "",
    "used as a key of the scope / of a set or map only; what is emitted is the generated binding it resolves to (C06 user_ids_only_via_aliased_lookup); the symbol itself reaches the SQL AST only through the alias rows"⟩,
  ⟨"ident", "translator.go", "Enter", "typedExpression.Alias.Symbol", "", "user-symbol", "lookup-key", "",
    "used as a key of the scope / of a set or map only; what is emitted is the generated binding it resolves to (C06 user_ids_only_via_aliased_lookup); the symbol itself reaches the SQL AST only through the alias rows"⟩,
  ⟨"ident", "translator.go", "Exit", "typedExpression.Alias.Symbol", "", "user-symbol", "lookup-key", "",
    "used as a key of the scope / of a set or map only; what is emitted is the generated binding it resolves to (C06 user_ids_only_via_aliased_lookup); the symbol itself reaches the SQL AST only through the alias rows"⟩,
  ⟨"ident", "unwind.go", "prepareUnwindTarget", "variable.Symbol", "", "user-symbol", "lookup-key", "",
    "used as a key of the scope / of a set or map only; what is emitted is the generated binding it resolves to (C06 user_ids_only_via_aliased_lookup); the symbol itself reaches the SQL AST only through the alias rows"⟩,
  ⟨"like", "expression.go", "rewritePropertyLookupOperands", "expression.ROperand", "rewriteStringWildCardLiteral ; if hasLeftPropertyLookup ; case pgsql.OperatorCypherStartsWith,pgsql.OperatorCypherEndsWith,pgsql.OperatorCypherContains,pgsql.OperatorRegexMatch", "user-value", "likeEsc", "C04:regex_operand:like-escaped-value",
    "LIKE escaping of a literal right operand, only when the left operand is a property lookup, for STARTS WITH / ENDS WITH / CONTAINS and also for the regular expression operator"⟩,
  ⟨"like", "expression.go", "rewriteBinaryExpression", "\"%\" + stringValue + \"%\"", "concat ; case pgsql.OperatorCypherContains ; case pgsql.Literal", "user-value", "none-here", "C04:like_operand.function_lhs:unescaped-like-pattern",
    "the % wildcards are concatenated to the literal as it is; LIKE escaping happened earlier only under `if hasLeftPropertyLookup` (row above), so with a function on the left the pattern is unescaped"⟩,
  ⟨"like", "expression.go", "rewriteBinaryExpression", "stringValue + \"%\"", "concat ; case pgsql.OperatorCypherStartsWith ; case pgsql.Literal", "user-value", "none-here", "C04:like_operand.function_lhs:unescaped-like-pattern",
    "the % wildcards are concatenated to the literal as it is; LIKE escaping happened earlier only under `if hasLeftPropertyLookup` (row above), so with a function on the left the pattern is unescaped"⟩,
  ⟨"like", "expression.go", "rewriteBinaryExpression", "\"%\" + stringValue", "concat ; case pgsql.OperatorCypherEndsWith ; case pgsql.Literal", "user-value", "none-here", "C04:like_operand.function_lhs:unescaped-like-pattern",
    "the % wildcards are concatenated to the literal as it is; LIKE escaping happened earlier only under `if hasLeftPropertyLookup` (row above), so with a function on the left the pattern is unescaped"⟩,
  ⟨"nested", "expansion.go", "boundEndpointFilterParameters", "pairFilterStatement", "", "derived-sql", "formatter", "",
    "inner statement formatted by the same formatter with materialised parameters (values through formatValue); its text becomes a bound parameter or a pgQuote-d literal (theorem nested_sql_param_bound)"⟩,
  ⟨"nested", "expansion.go", "boundEndpointFilterParameters", "rootFilterStatement", "", "derived-sql", "formatter", "",
    "inner statement formatted by the same formatter with materialised parameters (values through formatValue); its text becomes a bound parameter or a pgQuote-d literal (theorem nested_sql_param_bound)"⟩,
  ⟨"nested", "expansion.go", "boundEndpointFilterParameters", "terminalFilterStatement", "", "derived-sql", "formatter", "",
    "inner statement formatted by the same formatter with materialised parameters (values through formatValue); its text becomes a bound parameter or a pgQuote-d literal (theorem nested_sql_param_bound)"⟩,
  ⟨"nested", "expansion.go", "shortestPathsParameters", "nextFrontInsert(query)", "", "derived-sql", "formatter", "",
    "inner statement formatted by the same formatter with materialised parameters (values through formatValue); its text becomes a bound parameter or a pgQuote-d literal (theorem nested_sql_param_bound)"⟩,
  ⟨"nested", "expansion.go", "bidirectionalAllShortestPathsParameters", "nextFrontInsert(query)", "", "derived-sql", "formatter", "",
    "inner statement formatted by the same formatter with materialised parameters (values through formatValue); its text becomes a bound parameter or a pgQuote-d literal (theorem nested_sql_param_bound)"⟩,
  ⟨"nested", "format.go", "Translated", "translation.Statement", "", "derived-sql", "formatter", "",
    "the statement itself"⟩,
  ⟨"nested", "format.go", "FromCypher", "translation.Statement", "", "derived-sql", "formatter", "",
    "the statement itself"⟩,
  ⟨"param", "aggregate_traversal_count.go", "mergeAggregatePredicateParameters", "value", "", "user-value", "bound", "",
    "parameter value sent as a bound parameter (never part of the SQL text)"⟩,
  ⟨"param", "expansion.go", "shortestPathsParameters", "formattedQuery", "", "derived-sql", "bound", "",
    "inner SQL text handed over as a bound parameter"⟩,
  ⟨"param", "expansion.go", "bidirectionalAllShortestPathsParameters", "formattedQuery", "", "derived-sql", "bound", "",
    "inner SQL text handed over as a bound parameter"⟩,
  ⟨"param", "translator.go", "NewTranslator", "value", "", "user-value", "bound", "",
    "parameter value sent as a bound parameter (never part of the SQL text)"⟩,
  ⟨"param", "translator.go", "Enter", "negotiatedValue", "", "user-value", "bound", "",
    "parameter value sent as a bound parameter (never part of the SQL text)"⟩,
  ⟨"shape", "aggregate_traversal_count.go", "buildAggregateCandidateSourcesCTE", "aggregateRootID", "", "const", "generated", "",
    "constant column names of the translator / schema"⟩,
  ⟨"shape", "aggregate_traversal_count.go", "buildAggregateTraversalCTE", "aggregateRootID,aggregateNextID,aggregateDepth,aggregatePath", "", "const", "generated", "",
    "constant column names of the translator / schema"⟩,
  ⟨"shape", "aggregate_traversal_count.go", "buildAggregateTerminalHitsCTE", "aggregateRootID", "", "const", "generated", "",
    "constant column names of the translator / schema"⟩,
  ⟨"shape", "aggregate_traversal_count.go", "buildAggregateTerminalNodesCTE", "aggregateNodeID", "", "const", "generated", "",
    "constant column names of the translator / schema"⟩,
  ⟨"shape", "aggregate_traversal_count.go", "buildAggregateRankedCTE", "aggregateRootID,countAlias", "", "user-symbol", "emitIdent", "C04:aggregate_traversal_count.alias:case-folded-identifier",
    "CTE column list containing the user count alias; CTE column lists are written by formatNode -> formatIdentifier"⟩,
  ⟨"shape", "create.go", "buildNodeCreations", "pgsql.ColumnGraphID,pgsql.ColumnID,pgsql.ColumnKindIDs,pgsql.ColumnProperties", "", "const", "generated", "",
    "constant column names of the translator / schema"⟩,
  ⟨"shape", "create.go", "buildEdgeCreations", "pgsql.ColumnGraphID,pgsql.ColumnID,pgsql.ColumnStartID,pgsql.ColumnEndID,pgsql.ColumnKindID,pgsql.ColumnProperties", "", "const", "generated", "",
    "constant column names of the translator / schema"⟩,
  ⟨"shape", "expansion.go", "expansionSeedColumns", "expansionRootID", "", "const", "generated", "",
    "constant column names of the translator / schema"⟩,
  ⟨"shape", "expansion.go", "boundNodeIDsFilterStatement", "pgsql.ColumnID", "", "const", "generated", "",
    "constant column names of the translator / schema"⟩,
  ⟨"shape", "expansion.go", "nodeIDsFilterStatement", "pgsql.ColumnID", "", "const", "generated", "",
    "constant column names of the translator / schema"⟩,
  ⟨"shape", "expansion.go", "boundEndpointPairFilterStatement", "expansionRootID,expansionTerminalID", "", "const", "generated", "",
    "constant column names of the translator / schema"⟩,
  ⟨"shape", "expansion.go", "materializedEndpointPairFilterStatement", "expansionRootID,expansionTerminalID", "", "const", "generated", "",
    "constant column names of the translator / schema"⟩,
  ⟨"shape", "model.go", "expansionColumns", "expansionRootID,expansionNextID,expansionDepth,expansionSatisfied,expansionIsCycle,expansionPath", "", "const", "generated", "",
    "constant column names of the translator / schema"⟩,
  -- (3) entry points that do not pass the Cypher lexer: query/v2, query, the pg driver's statement builders
  ⟨"guard", "query/v2/query.go", "validateRuntimeIdentifiers", "alias.value", "validateCypherSymbol ; \"scope alias \" + alias.role", "const", "generated", "",
    "call of the builder's guard (the site that protects the symbol rows)"⟩,
  ⟨"guard", "query/v2/query.go", "Build", "matchIdentifiers", "validateKnownIdentifiers", "const", "generated", "",
    "call of the builder's guard (the site that protects the symbol rows)"⟩,
  ⟨"guard", "query/v2/util.go", "prepareNodePattern", "seen", "validateBoundIdentifiers", "const", "generated", "",
    "call of the builder's guard (the site that protects the symbol rows)"⟩,
  ⟨"guard", "query/v2/util.go", "prepareRelationshipPattern", "seen", "validateBoundIdentifiers", "const", "generated", "",
    "call of the builder's guard (the site that protects the symbol rows)"⟩,
  ⟨"guard", "query/v2/util.go", "prepareCreateRelationshipMatch", "seen", "validateBoundIdentifiers", "const", "generated", "",
    "call of the builder's guard (the site that protects the symbol rows)"⟩,
  ⟨"guard", "query/v2/util.go", "projectionItemFromValue", "projectionItem.Alias.Symbol", "validateCypherSymbol ; \"projection alias\"", "const", "generated", "",
    "call of the builder's guard (the site that protects the symbol rows)"⟩,
  ⟨"guard", "query/v2/util.go", "Enter", "parameter.Symbol", "validateCypherSymbol ; \"parameter\"", "const", "generated", "",
    "call of the builder's guard (the site that protects the symbol rows)"⟩,
  ⟨"pgraw", "drivers/pg/model/format.go", "IndexName", "table", "", "schema-config", "none", "",
    "index / constraint names and the indexed field come from the graph schema definition given to AssertSchema (deployment-time configuration, not query text): written without quoting; outside the quantifier of C04 (accepted queries), listed so that a change here is seen"⟩,
  ⟨"pgraw", "drivers/pg/model/format.go", "IndexName", "index.Field", "", "schema-config", "none", "",
    "index / constraint names and the indexed field come from the graph schema definition given to AssertSchema (deployment-time configuration, not query text): written without quoting; outside the quantifier of C04 (accepted queries), listed so that a change here is seen"⟩,
  ⟨"pgraw", "drivers/pg/model/format.go", "ConstraintName", "table", "", "schema-config", "none", "",
    "index / constraint names and the indexed field come from the graph schema definition given to AssertSchema (deployment-time configuration, not query text): written without quoting; outside the quantifier of C04 (accepted queries), listed so that a change here is seen"⟩,
  ⟨"pgraw", "drivers/pg/model/format.go", "ConstraintName", "constraint.Field", "", "schema-config", "none", "",
    "index / constraint names and the indexed field come from the graph schema definition given to AssertSchema (deployment-time configuration, not query text): written without quoting; outside the quantifier of C04 (accepted queries), listed so that a change here is seen"⟩,
  ⟨"pgraw", "drivers/pg/query/format.go", "formatDropPropertyIndex", "indexName", "", "schema-config", "none", "",
    "index / constraint names and the indexed field come from the graph schema definition given to AssertSchema (deployment-time configuration, not query text): written without quoting; outside the quantifier of C04 (accepted queries), listed so that a change here is seen"⟩,
  ⟨"pgraw", "drivers/pg/query/format.go", "formatDropPropertyConstraint", "constraintName", "", "schema-config", "none", "",
    "index / constraint names and the indexed field come from the graph schema definition given to AssertSchema (deployment-time configuration, not query text): written without quoting; outside the quantifier of C04 (accepted queries), listed so that a change here is seen"⟩,
  ⟨"pgraw", "drivers/pg/query/format.go", "formatCreatePropertyConstraint", "constraintName", "", "schema-config", "none", "",
    "index / constraint names and the indexed field come from the graph schema definition given to AssertSchema (deployment-time configuration, not query text): written without quoting; outside the quantifier of C04 (accepted queries), listed so that a change here is seen"⟩,
  ⟨"pgraw", "drivers/pg/query/format.go", "formatCreatePropertyConstraint", "tableName", "", "schema-config", "none", "",
    "index / constraint names and the indexed field come from the graph schema definition given to AssertSchema (deployment-time configuration, not query text): written without quoting; outside the quantifier of C04 (accepted queries), listed so that a change here is seen"⟩,
  ⟨"pgraw", "drivers/pg/query/format.go", "formatCreatePropertyConstraint", "pgIndexType", "", "const", "generated", "",
    "constant of the driver / text assembled from the rows above"⟩,
  ⟨"pgraw", "drivers/pg/query/format.go", "formatCreatePropertyConstraint", "pgPropertiesColumn", "", "const", "generated", "",
    "constant of the driver / text assembled from the rows above"⟩,
  ⟨"pgraw", "drivers/pg/query/format.go", "formatCreatePropertyConstraint", "fieldName", "", "schema-config", "none", "",
    "index / constraint names and the indexed field come from the graph schema definition given to AssertSchema (deployment-time configuration, not query text): written without quoting; outside the quantifier of C04 (accepted queries), listed so that a change here is seen"⟩,
  ⟨"pgraw", "drivers/pg/query/format.go", "formatCreatePropertyIndex", "indexName", "", "schema-config", "none", "",
    "index / constraint names and the indexed field come from the graph schema definition given to AssertSchema (deployment-time configuration, not query text): written without quoting; outside the quantifier of C04 (accepted queries), listed so that a change here is seen"⟩,
  ⟨"pgraw", "drivers/pg/query/format.go", "formatCreatePropertyIndex", "tableName", "", "schema-config", "none", "",
    "index / constraint names and the indexed field come from the graph schema definition given to AssertSchema (deployment-time configuration, not query text): written without quoting; outside the quantifier of C04 (accepted queries), listed so that a change here is seen"⟩,
  ⟨"pgraw", "drivers/pg/query/format.go", "formatCreatePropertyIndex", "pgIndexType", "", "const", "generated", "",
    "constant of the driver / text assembled from the rows above"⟩,
  ⟨"pgraw", "drivers/pg/query/format.go", "formatCreatePropertyIndex", "pgPropertiesColumn", "", "const", "generated", "",
    "constant of the driver / text assembled from the rows above"⟩,
  ⟨"pgraw", "drivers/pg/query/format.go", "formatCreatePropertyIndex", "fieldName", "", "schema-config", "none", "",
    "index / constraint names and the indexed field come from the graph schema definition given to AssertSchema (deployment-time configuration, not query text): written without quoting; outside the quantifier of C04 (accepted queries), listed so that a change here is seen"⟩,
  ⟨"pgraw", "drivers/pg/query/format.go", "formatCreatePropertyIndex", "queryPartial", "", "const", "generated", "",
    "constant of the driver / text assembled from the rows above"⟩,
  ⟨"pgraw", "drivers/pg/query/format.go", "formatCreatePartitionTable", "name", "", "const", "generated", "",
    "partition / staging table names are derived by the driver: node_<graph id>, edge_<graph id>, node_update_staging"⟩,
  ⟨"pgraw", "drivers/pg/query/format.go", "formatCreatePartitionTable", "parent", "", "const", "generated", "",
    "partition / staging table names are derived by the driver: node_<graph id>, edge_<graph id>, node_update_staging"⟩,
  ⟨"pgraw", "drivers/pg/query/format.go", "formatCreatePartitionTable", "strconv.FormatInt(int64(graphID), 10)", "", "const", "generated", "",
    "formatted number"⟩,
  ⟨"pgraw", "drivers/pg/query/format.go", "formatConflictMatcher", "propertyName", "", "outside-quantifier", "none", "",
    "outside-quantifier: driver batch API, not query text — the identity property names of graph.NodeUpdate / RelationshipUpdate batches are concatenated between two apostrophes (properties->>'NAME') without quote doubling; C04 quantifies over the positions of an accepted query, so nothing is demanded here; what the lexer sees is recorded as evidence observations.outside_quantifier"⟩,
  ⟨"pgraw", "drivers/pg/query/format.go", "formatConflictMatcher", "defaultOnConflict", "", "const", "generated", "",
    "constant of the driver / text assembled from the rows above"⟩,
  ⟨"pgraw", "drivers/pg/query/format.go", "FormatNodesUpdate", "graphTarget.Partitions.Node.Name", "", "const", "generated", "",
    "partition / staging table names are derived by the driver: node_<graph id>, edge_<graph id>, node_update_staging"⟩,
  ⟨"pgraw", "drivers/pg/query/format.go", "FormatCreateNodeUpdateStagingTable", "stagingTable", "", "const", "generated", "",
    "partition / staging table names are derived by the driver: node_<graph id>, edge_<graph id>, node_update_staging"⟩,
  ⟨"pgraw", "drivers/pg/query/format.go", "FormatMergeNodeLargeUpdate", "graphTarget.Partitions.Node.Name", "", "const", "generated", "",
    "partition / staging table names are derived by the driver: node_<graph id>, edge_<graph id>, node_update_staging"⟩,
  ⟨"pgraw", "drivers/pg/query/format.go", "FormatMergeNodeLargeUpdate", "stagingTable", "", "const", "generated", "",
    "partition / staging table names are derived by the driver: node_<graph id>, edge_<graph id>, node_update_staging"⟩,
  ⟨"pgraw", "drivers/pg/query/format.go", "FormatNodeUpsert", "graphTarget.Partitions.Node.Name", "", "const", "generated", "",
    "partition / staging table names are derived by the driver: node_<graph id>, edge_<graph id>, node_update_staging"⟩,
  ⟨"pgraw", "drivers/pg/query/format.go", "FormatNodeUpsert", "formatConflictMatcher(identityProperties, \"id, graph_id\")", "", "const", "generated", "",
    "constant of the driver / text assembled from the rows above"⟩,
  ⟨"pgraw", "drivers/pg/query/format.go", "FormatRelationshipPartitionUpsert", "graphTarget.Partitions.Edge.Name", "", "const", "generated", "",
    "partition / staging table names are derived by the driver: node_<graph id>, edge_<graph id>, node_update_staging"⟩,
  ⟨"pgraw", "drivers/pg/query/format.go", "FormatRelationshipPartitionUpsert", "formatConflictMatcher(identityProperties, \"start_id, end_id, kind_id, graph_id\")", "", "const", "generated", "",
    "constant of the driver / text assembled from the rows above"⟩,
  ⟨"symbol", "query/builder.go", "prepareMatch", "NodeSymbol", "", "const", "generated", "",
    "one of the v1 builder's fixed symbols n/s/r/e/p"⟩,
  ⟨"symbol", "query/builder.go", "prepareMatch", "EdgeStartSymbol", "", "const", "generated", "",
    "one of the v1 builder's fixed symbols n/s/r/e/p"⟩,
  ⟨"symbol", "query/builder.go", "prepareMatch", "EdgeSymbol", "", "const", "generated", "",
    "one of the v1 builder's fixed symbols n/s/r/e/p"⟩,
  ⟨"symbol", "query/builder.go", "prepareMatch", "EdgeEndSymbol", "", "const", "generated", "",
    "one of the v1 builder's fixed symbols n/s/r/e/p"⟩,
  ⟨"symbol", "query/builder.go", "prepareMatch", "PathSymbol", "", "const", "generated", "",
    "one of the v1 builder's fixed symbols n/s/r/e/p"⟩,
  ⟨"symbol", "query/identifiers.go", "Variable", "name", "", "caller-name", "guard:scope-resolution", "",
    "v1 has no aliases: a variable name that is not one of n/s/r/e/p is bound by no pattern and the translator refuses it (unable to resolve identifier); measured by the builder.v1.variable cases"⟩,
  ⟨"symbol", "query/model.go", "HasRelationships", "reference.Symbol", "", "caller-name", "guard:scope-resolution", "",
    "copy of the symbol of a caller-made variable; same resolution rule"⟩,
  ⟨"symbol", "query/model.go", "NodePattern", "NodeSymbol", "", "const", "generated", "",
    "one of the v1 builder's fixed symbols n/s/r/e/p"⟩,
  ⟨"symbol", "query/model.go", "StartNodePattern", "EdgeStartSymbol", "", "const", "generated", "",
    "one of the v1 builder's fixed symbols n/s/r/e/p"⟩,
  ⟨"symbol", "query/model.go", "EndNodePattern", "EdgeEndSymbol", "", "const", "generated", "",
    "one of the v1 builder's fixed symbols n/s/r/e/p"⟩,
  ⟨"symbol", "query/model.go", "RelationshipPattern", "EdgeSymbol", "", "const", "generated", "",
    "one of the v1 builder's fixed symbols n/s/r/e/p"⟩,
  ⟨"symbol", "query/model.go", "Create", "typedElement.Symbol", "", "caller-name", "guard:scope-resolution", "",
    "copy of the symbol of a caller-made variable; same resolution rule"⟩,
  ⟨"symbol", "query/v2/compat.go", "Variable", "name", "", "caller-name", "guard:known-identifiers", "",
    "free variable name; Build refuses every variable that is not one of the scope's five identifiers (validateKnownIdentifiers / validateBoundIdentifiers)"⟩,
  ⟨"symbol", "query/v2/compat.go", "HasRelationships", "variable.Symbol", "", "caller-name", "guard:known-identifiers", "",
    "copy of the symbol of a variable that was already checked as a known identifier"⟩,
  ⟨"symbol", "query/v2/query.go", "Path", "s.path", "", "caller-name", "guard:validateCypherSymbol", "C04:builder.v2.scope:case-folded-identifier",
    "scope alias given to NewScope; every scope alias is checked by validateRuntimeIdentifiers -> validateCypherSymbol (guard row query.go validateRuntimeIdentifiers) and Build refuses a scope with errors; an accepted name is a bare name, written verbatim (case-folded by the server)"⟩,
  ⟨"symbol", "query/v2/query.go", "Node", "s.node", "", "caller-name", "guard:validateCypherSymbol", "C04:builder.v2.scope:case-folded-identifier",
    "scope alias given to NewScope; every scope alias is checked by validateRuntimeIdentifiers -> validateCypherSymbol (guard row query.go validateRuntimeIdentifiers) and Build refuses a scope with errors; an accepted name is a bare name, written verbatim (case-folded by the server)"⟩,
  ⟨"symbol", "query/v2/query.go", "Start", "s.start", "", "caller-name", "guard:validateCypherSymbol", "C04:builder.v2.scope:case-folded-identifier",
    "scope alias given to NewScope; every scope alias is checked by validateRuntimeIdentifiers -> validateCypherSymbol (guard row query.go validateRuntimeIdentifiers) and Build refuses a scope with errors; an accepted name is a bare name, written verbatim (case-folded by the server)"⟩,
  ⟨"symbol", "query/v2/query.go", "Relationship", "s.relationship", "", "caller-name", "guard:validateCypherSymbol", "C04:builder.v2.scope:case-folded-identifier",
    "scope alias given to NewScope; every scope alias is checked by validateRuntimeIdentifiers -> validateCypherSymbol (guard row query.go validateRuntimeIdentifiers) and Build refuses a scope with errors; an accepted name is a bare name, written verbatim (case-folded by the server)"⟩,
  ⟨"symbol", "query/v2/query.go", "End", "s.end", "", "caller-name", "guard:validateCypherSymbol", "C04:builder.v2.scope:case-folded-identifier",
    "scope alias given to NewScope; every scope alias is checked by validateRuntimeIdentifiers -> validateCypherSymbol (guard row query.go validateRuntimeIdentifiers) and Build refuses a scope with errors; an accepted name is a bare name, written verbatim (case-folded by the server)"⟩,
  ⟨"symbol", "query/v2/query.go", "NamedParameter", "symbol", "", "caller-name", "guard:validateCypherSymbol", "",
    "parameter symbol; checked by validateCypherSymbol (guard row util.go Enter) and renamed to a generated pN by the translator (C06)"⟩,
  ⟨"symbol", "query/v2/query.go", "As", "alias", "", "caller-name", "guard:validateCypherSymbol", "C04:builder.v2.alias:case-folded-identifier",
    "projection alias given to As; checked by projectionItemFromValue -> validateCypherSymbol when the projection is prepared; an accepted name is a bare name, written verbatim (case-folded by the server)"⟩,
  ⟨"symbol", "query/v2/query.go", "buildCreates", "typedExpression.Symbol", "", "caller-name", "guard:known-identifiers", "",
    "copy of the symbol of a variable that was already checked as a known identifier"⟩
]

def Row.covers (r : Row) (s : Site) : Bool :=
  r.kind == s.kind && r.file == s.file && r.fn == s.fn && r.expr == s.expr
    && ((s.kind != "like" && s.kind != "guard") || r.aux == s.aux)

def classified (s : Site) : Bool := s.kind == "literal" || rows.any (·.covers s)

def unclassifiedSites : List Site := sites.filter (fun s => !classified s)

def staleRows : List Row := rows.filter (fun r => !sites.any (r.covers ·))

-- printed into the build log: the sites without a row / the rows without a site
#eval unclassifiedSites
#eval staleRows.map (fun r => (r.kind, r.file, r.fn, r.expr))

/-- every construction site is classified: a new place that turns Cypher text into an identifier, alias, verbatim
fragment, LIKE pattern, nested SQL text, parameter or column list has no row and turns this red -/
theorem translate_sites_classified : unclassifiedSites = [] := by decide +kernel

/-- `formatIdentifier` decides quoting from the raw symbol's back-ticks: nothing in translate/optimize applies a
`strings.*` function or a slice to a Cypher symbol on the way (seeded change C04-r2-1 did, in count_fast_path.go) -/
theorem symbols_never_rewritten : sites.filter (fun s => s.kind == "symop") = [] := by decide +kernel

/-- no row is stale: when a site disappears or its guards change (e.g. the regular-expression operator is taken out
of the LIKE-escaping case) the row has to be revisited -/
theorem rows_all_live : staleRows = [] := by decide +kernel

/-- escapings the theorems of Props/C04 are about, or that keep the text out of the SQL text altogether -/
def modelledEsc : List String := ["emitIdent", "lookup-key", "bound", "formatter", "generated", "datatype-constant",
  -- guards of the entry points that do not pass the Cypher lexer:
  "guard:validateCypherSymbol",   -- modelled: builderAccepts, theorem builder_name_one_token
  "guard:known-identifiers",      -- query/v2 Build refuses variables outside the scope's five (guarded) identifiers
  "guard:scope-resolution"]       -- query (v1): only the fixed symbols are ever bound; anything else is refused by the translator

/-- every row that carries user text says which modelled escaping applies, or is a named known finding -/
theorem user_text_rows_escaped :
    rows.filter (fun r => (r.prov == "user-symbol" || r.prov == "user-value" || r.prov == "derived-sql" || r.prov == "caller-name")
      && !(modelledEsc.contains r.esc) && r.finding == "") = [] := by decide +kernel

/-- rows without user text carry none of the user escapings by accident -/
theorem const_rows_are_const :
    rows.filter (fun r => (r.prov == "const" || r.prov == "generated") && !(r.esc == "generated" || r.esc == "datatype-constant")) = [] := by decide +kernel

/-- the findings named by rows are exactly the known C04 findings (known_findings.json, status known) -/
theorem known_findings_are_rows :
    ((rows.map (·.finding)).filter (· != "")).eraseDups =
      ["C04:projection.variable:case-folded-identifier", "C04:projection.alias:case-folded-identifier",
       "C04:aggregate_traversal_count.alias:case-folded-identifier", "C04:count_fast_path.alias:case-folded-identifier",
       "C04:regex_operand:like-escaped-value", "C04:like_operand.function_lhs:unescaped-like-pattern",
       "C04:builder.v2.scope:case-folded-identifier", "C04:builder.v2.alias:case-folded-identifier"] := by decide +kernel

/-- the LIKE rows as regenerated facts: escaping is applied under `if hasLeftPropertyLookup` only, and its operator case
still contains the regular-expression operator (both findings, read off the source) -/
theorem like_guards :
    (sites.filter (fun s => s.kind == "like")).map (·.aux) =
      ["rewriteStringWildCardLiteral ; if hasLeftPropertyLookup ; case pgsql.OperatorCypherStartsWith,pgsql.OperatorCypherEndsWith,pgsql.OperatorCypherContains,pgsql.OperatorRegexMatch",
       "concat ; case pgsql.OperatorCypherContains ; case pgsql.Literal",
       "concat ; case pgsql.OperatorCypherStartsWith ; case pgsql.Literal",
       "concat ; case pgsql.OperatorCypherEndsWith ; case pgsql.Literal"] := by decide +kernel

theorem sites_table_nonempty : 100 ≤ sites.length := by decide +kernel

/-- the only unguarded rows are known findings (the LIKE concatenations) or text that is not part of any query: the
deployment-time schema names and the identity property names of the driver's update batches -/
theorem unguarded_rows_named :
    (rows.filter (fun r => r.esc == "none")).all
      (fun r => r.finding != "" || r.prov == "schema-config" || r.prov == "outside-quantifier") = true := by decide +kernel

/-- rows outside the quantifier name no finding -/
theorem outside_rows_no_finding :
    (rows.filter (fun r => r.prov == "schema-config" || r.prov == "outside-quantifier")).all (fun r => r.finding == "") = true := by
  decide +kernel

/-- every guard the rows rely on is called where the rows say: scope aliases, projection aliases and parameter symbols
go through validateCypherSymbol; variables through the known/bound identifier checks -/
theorem guard_calls_in_place :
    ((sites.filter (fun s => s.kind == "guard")).map (fun s => (s.fn, s.expr, s.aux))) =
      [("validateRuntimeIdentifiers", "alias.value", "validateCypherSymbol ; \"scope alias \" + alias.role"),
       ("Build", "matchIdentifiers", "validateKnownIdentifiers"),
       ("prepareNodePattern", "seen", "validateBoundIdentifiers"),
       ("prepareRelationshipPattern", "seen", "validateBoundIdentifiers"),
       ("prepareCreateRelationshipMatch", "seen", "validateBoundIdentifiers"),
       ("projectionItemFromValue", "projectionItem.Alias.Symbol", "validateCypherSymbol ; \"projection alias\""),
       ("Enter", "parameter.Symbol", "validateCypherSymbol ; \"parameter\"")] := by decide +kernel

/-! ## (5) number formatting calls -/

def numberCallOK (c : Nat × String × String × List String) : Bool :=
  match c.2.2.1, c.2.2.2 with
  | "strconv.FormatFloat", [_, fmt, prec, bits] => fmt == "'f'" && prec == "-1" && bits == "64"
  | "strconv.FormatInt", [_, base] => base == "10"
  | "strconv.FormatUint", [_, base] => base == "10"
  | "strconv.FormatBool", [_] => true
  | "fmt.Sprintf", _ => c.2.1 == "Write"     -- the panic message of OutputBuilder.Write, never written to the builder
  | _, _ => false

-- printed into the build log: the number-formatting calls that are not the modelled ones
#eval formatCalls.filter (fun c => !numberCallOK c)

/-- THE deterministic catch for number precision: every `strconv.FormatFloat` call of the formatter is
`(v, 'f', -1, 64)` — positional notation (the token class the lexer theorem is about, `renderF`), shortest digits,
at 64 bits (the premise of `number_literal_value_round_trip`) — and every integer is formatted in base 10. Seeded
change C01-r4-1 (bitSize 32) turns this red. -/
theorem format_number_calls : formatCalls.filter (fun c => !numberCallOK c) = [] := by decide +kernel

theorem format_float_calls_present :
    (formatCalls.filter (fun c => c.2.2.1 == "strconv.FormatFloat")).map (fun c => c.2.2.2.head?) =
      [some "float64(typedValue)", some "typedValue"] := by decide +kernel

/-! ## (4) option parameters of the entry points -/

/-- parameters that are data, not options (name, type) -/
def dataParameters : List (String × String) := [
  ("ctx", "context.Context"), ("regularQuery", "*cypher.RegularQuery"), ("cypherQuery", "*cypher.RegularQuery"), ("query", "*cypher.RegularQuery"),
  ("kindMapper", "pgsql.KindMapper"), ("parameters", "map[string]any"), ("graphID", "int32"), ("translation", "Result"),
  ("statement", "pgsql.Statement"), ("expression", "pgsql.SyntaxNode"), ("node", "pgsql.SyntaxNode"), ("builder", "*OutputBuilder")]

def optionCovered (o : String × String × String) : Bool :=
  if o.2.2 == "bool" then Dawgs.C04.Spec.exercisedOptions.contains (o.1, o.2.1, ["false", "true"])
  else dataParameters.contains (o.2.1, o.2.2)

-- printed into the build log: the options the suite does not exercise under every value
#eval entryOptions.filter (fun o => !optionCovered o)

/-- every boolean option parameter / field of the entry points through which a query becomes SQL text (translate.FromCypher,
Translate, Translated, the pgsql formatter's OutputBuilder, the Cypher emitter) is run by the suite under BOTH values for
every case that reaches the entry point (`Spec.exercisedOptions`, which the `o` op compares with the harness's own table);
every other parameter is one of the known data parameters. A new option (a bool, a mode string, a new With… method)
turns this red until the suite exercises it. Seeded change C04-r4-2 manifested under stripLiterals = true only. -/
theorem entry_options_exercised : entryOptions.filter (fun o => !optionCovered o) = [] := by decide +kernel

theorem exercised_options_exist :
    Dawgs.C04.Spec.exercisedOptions.all (fun e => entryOptions.contains (e.1, e.2.1, "bool")) = true := by decide +kernel

/-! ## (3) the query builder's symbol guard, as regenerated rune classes -/

/-- ASCII members of the Unicode range tables / predicates of Go's `unicode` package (non-ASCII runes are identifier
characters for PostgreSQL whatever their class, so only the ASCII part of a class matters). `none` = a name this table
does not know: treated as admitting every ASCII character. -/
def asciiClass (name : String) : Option (Nat → Bool) :=
  let letter := fun n => (65 ≤ n && n ≤ 90) || (97 ≤ n && n ≤ 122)
  let digit := fun n => 48 ≤ n && n ≤ 57
  let among := fun (cs : List Char) (n : Nat) => cs.any (fun c => c.toNat == n)
  let sm := among ['+', '<', '=', '>', '|', '~']
  let sk := among ['^', '`']
  let sc := among ['$']
  let po := among ['!', '"', '#', '%', '&', '\'', '*', ',', '.', '/', ':', ';', '?', '@', '\\']
  let ps := among ['(', '[', '{']
  let pe := among [')', ']', '}']
  let pd := among ['-']
  let pc := among ['_']
  let none_ := fun (_ : Nat) => false
  let table : List (String × (Nat → Bool)) := [
    ("unicode.IsLetter", letter), ("unicode.Letter", letter), ("unicode.L", letter),
    ("unicode.Lu", fun n => 65 ≤ n && n ≤ 90), ("unicode.Upper", fun n => 65 ≤ n && n ≤ 90), ("unicode.IsUpper", fun n => 65 ≤ n && n ≤ 90),
    ("unicode.Ll", fun n => 97 ≤ n && n ≤ 122), ("unicode.Lower", fun n => 97 ≤ n && n ≤ 122), ("unicode.IsLower", fun n => 97 ≤ n && n ≤ 122),
    ("unicode.Lt", none_), ("unicode.Lm", none_), ("unicode.Lo", none_), ("unicode.IsTitle", none_),
    ("unicode.IsMark", none_), ("unicode.Mark", none_), ("unicode.M", none_), ("unicode.Mn", none_), ("unicode.Mc", none_), ("unicode.Me", none_),
    ("unicode.IsDigit", digit), ("unicode.Digit", digit), ("unicode.Nd", digit), ("unicode.IsNumber", digit), ("unicode.Number", digit), ("unicode.N", digit),
    ("unicode.Nl", none_), ("unicode.No", none_),
    ("unicode.Pc", pc), ("unicode.Pd", pd), ("unicode.Ps", ps), ("unicode.Pe", pe), ("unicode.Pi", none_), ("unicode.Pf", none_), ("unicode.Po", po),
    ("unicode.IsPunct", fun n => pc n || pd n || ps n || pe n || po n), ("unicode.Punct", fun n => pc n || pd n || ps n || pe n || po n),
    ("unicode.P", fun n => pc n || pd n || ps n || pe n || po n),
    ("unicode.Sm", sm), ("unicode.Sc", sc), ("unicode.Sk", sk), ("unicode.So", none_),
    ("unicode.IsSymbol", fun n => sm n || sc n || sk n), ("unicode.Symbol", fun n => sm n || sc n || sk n), ("unicode.S", fun n => sm n || sc n || sk n),
    ("unicode.Zs", fun n => n == 32), ("unicode.Zl", none_), ("unicode.Zp", none_),
    ("unicode.IsSpace", fun n => n == 32 || (9 ≤ n && n ≤ 13)), ("unicode.White_Space", fun n => n == 32 || (9 ≤ n && n ≤ 13)),
    ("unicode.IsControl", fun n => n < 32 || n == 127), ("unicode.Cc", fun n => n < 32 || n == 127),
    ("unicode.Other_ID_Start", none_), ("unicode.Other_ID_Continue", none_)]
  table.lookup name

/-- one disjunct of a guard predicate on the ASCII code `n` -/
def atomOK (start : Nat → Bool) (atom : String) (n : Nat) : Bool :=
  match atom.toList with
  | ['@', 's', 't', 'a', 'r', 't'] => start n
  | 'e' :: 'q' :: ':' :: rest => rest == [Char.ofNat n]
  | _ => match asciiClass atom with
    | some f => f n
    | none => true

def startAscii (n : Nat) : Bool := guardStart.any (atomOK (fun _ => false) · n)
def partAscii (n : Nat) : Bool := guardPart.any (atomOK startAscii · n)

/-- the builder's guard `validateCypherSymbol` (over-approximated on non-ASCII runes: all accepted): non-empty, first
rune in the start class, the others in the part class -/
def builderStart (c : Char) : Bool := 128 ≤ c.toNat || startAscii c.toNat
def builderPart (c : Char) : Bool := 128 ≤ c.toNat || partAscii c.toNat
def builderAccepts (name : Dawgs.C04.Str) : Bool :=
  match name with
  | [] => false
  | c :: cs => builderStart c && cs.all builderPart

-- printed into the build log: the ASCII characters the guard admits that are not PostgreSQL identifier characters
#eval ((List.range 128).filter (fun n => (startAscii n && !Dawgs.C04.isIdentStart (Char.ofNat n)) || (partAscii n && !Dawgs.C04.isIdentCont (Char.ofNat n)))).map Char.ofNat

/-- THE obligation that goes red when the guard's rune classes are widened (seeded change C04-r3-2: Sc -> Symbol lets
`+ < = > | ~ ^` and the back-tick through): every ASCII character of the regenerated start / part class is a PostgreSQL
identifier-start / identifier character -/
theorem guard_ascii_table :
    ∀ n : Fin 128, (startAscii n = true → Dawgs.C04.isIdentStart (Char.ofNat n) = true)
      ∧ (partAscii n = true → Dawgs.C04.isIdentCont (Char.ofNat n) = true) := by decide +kernel

theorem guard_shape :
    guardBody.contains "idx == 0" ∧ guardBody.contains "isCypherSymbolStart" ∧ guardBody.contains "isCypherSymbolPart"
      ∧ guardBody.contains "utf8.ValidString" := by decide +kernel

theorem builderStart_identStart (c : Char) (h : builderStart c = true) : Dawgs.C04.isIdentStart c = true := by
  by_cases hlt : c.toNat < 128
  · have ht := (guard_ascii_table ⟨c.toNat, hlt⟩).1
    simp only [Char.ofNat_toNat] at ht
    have : startAscii c.toNat = true := by
      simp only [builderStart, Bool.or_eq_true, decide_eq_true_eq] at h
      rcases h with h | h
      · omega
      · exact h
    exact ht this
  · simp only [Dawgs.C04.isIdentStart, Bool.or_eq_true, decide_eq_true_eq]
    exact Or.inr (by omega)

theorem builderPart_identCont (c : Char) (h : builderPart c = true) : Dawgs.C04.isIdentCont c = true := by
  by_cases hlt : c.toNat < 128
  · have ht := (guard_ascii_table ⟨c.toNat, hlt⟩).2
    simp only [Char.ofNat_toNat] at ht
    have : partAscii c.toNat = true := by
      simp only [builderPart, Bool.or_eq_true, decide_eq_true_eq] at h
      rcases h with h | h
      · omega
      · exact h
    exact ht this
  · simp only [Dawgs.C04.isIdentCont, Dawgs.C04.isIdentStart, Bool.or_eq_true, decide_eq_true_eq]
    exact Or.inl (Or.inl (Or.inr (by omega)))

/-- a name the builder's guard accepts is a bare name -/
theorem builder_accepts_bare (name : Dawgs.C04.Str) (h : builderAccepts name = true) : Dawgs.C04.cypherBare name = true := by
  cases name with
  | nil => simp [builderAccepts] at h
  | cons c cs =>
    simp only [builderAccepts, Bool.and_eq_true, List.all_eq_true] at h
    simp only [Dawgs.C04.cypherBare, Bool.and_eq_true, List.all_eq_true]
    exact ⟨builderStart_identStart c h.1, fun d hd => builderPart_identCont d (h.2 d hd)⟩

/-- `identifier_bare` extended from the Cypher grammar's symbol class to the builder's class: a name accepted by
`validateCypherSymbol` (projection alias, scope alias, parameter symbol of query/v2), written by `formatIdentifier`,
lexes as exactly ONE PostgreSQL identifier token in identifier context -/
theorem builder_name_one_token (name pre post : Dawgs.C04.Str) (h : builderAccepts name = true)
    (hpre : Dawgs.C04.Props.Clean pre) (hpost : Dawgs.C04.identFollow post = true) :
    Dawgs.C04.lex (pre ++ Dawgs.C04.emitIdent name ++ post)
      = (Dawgs.C04.run .top pre).1 ++ Dawgs.C04.Tok.word name :: Dawgs.C04.lex post :=
  Dawgs.C04.Props.identifier_bare name pre post (builder_accepts_bare name h) hpre hpost

example : builderAccepts "total_$".toList = true ∧ builderAccepts "a||b".toList = false ∧ builderAccepts "1a".toList = false
    ∧ builderAccepts "a`b".toList = false ∧ builderAccepts "bad name".toList = false := by decide +kernel

end Dawgs.C04.Sites
