/-
C04, T-tie: where text enters the emitted SQL, as tables regenerated from the sources on every run
(`tools/extract/goext c04` → `Dawgs/Generated/C04Sites.lean`), checked by the kernel against the quoting functions
the theorems of `Props/C04.lean` are about.

(1) `writeSites`: every argument of every `Write`/`WriteString`/`WriteByte`/`WriteRune` call of
    cypher/models/pgsql/format with its provenance class. Obligation `format_write_sites_covered`: an argument is a
    benign constant, a formatted number, the string value wrapped exactly as `pgQuote` (`"'" , ReplaceAll(v,"'","''"), "'"`),
    the identifier helper `formatIdentifier` (model `emitIdent`), or one of the few verbatim writes listed below WITH the
    reason why no user text can be in it. A new emission path (e.g. CTE column names written with `builder.Write(column)`,
    a `fmt.Sprintf` into the builder, a second quoting routine) is not on the list and turns the obligation red.
(2) `sites`: the places of cypher/models/pgsql/{translate,optimize,.} that build identifiers from strings, result
    aliases, verbatim fragments, LIKE patterns, nested SQL text, parameter values and column lists. Obligations: every site
    is classified by a row of `rows` (`translate_sites_classified`), no row is stale (`rows_all_live`), every row carrying
    user text names the escaping that applies or the known finding it is (`user_text_rows_escaped`), and the findings named
    by rows are exactly the six known C04 findings (`known_findings_are_rows`). Literal constructions (`pgsql.NewLiteral`,
    `AsLiteral`, `pgsql.Literal{}`) need no row: whatever their value is, it is written by `formatValue` (part 1).
-/
import Dawgs.Generated.C04Sites
namespace Dawgs.C04.Sites
open Dawgs.Generated.C04Sites

/-! ## (1) the formatter's writes -/

/-- a constant fragment cannot open a string, quoted identifier, dollar quote, comment, escape or placeholder -/
def benignChars : List Char → Bool
  | [] => true
  | '-' :: '-' :: _ => false
  | '/' :: '*' :: _ => false
  | c :: cs => c != '\'' && c != '"' && c != '\\' && c != '$' && c != '`' && c != '@' && c != '\x00' && benignChars cs

def constBenign (s : String) : Bool := benignChars s.toList

/-- verbatim writes (class raw / stringer) that are allowed, with the reason -/
def exemptVerbatim : List (String × String × String × String) := [
  ("formatNode", "typedNextExpr", "pgsql.FormattingLiteral",
    "FormattingLiteral values are created from string constants or pgsql.DataType values only (rows `fmtlit` of part 2; every other FormattingLiteral conversion is a constant and not listed)"),
  ("formatNode", "typedNextExpr.String()", "pgsql.Operator",
    "operators come from the fixed operator tokens of the grammar / the pgsql.Operator constants"),
  ("formatSlice", "dataType.String()", "",
    "pgsql.DataType constant chosen by the Go type of the slice"),
  ("formatTableAlias", "tableAlias.Name", "",
    "CTE / frame names are generated identifiers (C06 generated_names_never_user_keyed, generator_matches_model) or constants of the translator"),
  ("formatInsertStatement", "column", "range insert.Shape.Columns",
    "INSERT column lists are constant column names (rows `shape` of part 2 for create.go / expansion.go)")]

def wsiteOK (s : WSite) : Bool :=
  match s.cls with
  | 0 => (s.wrapped && (s.arg == 0 || s.arg == 2) && s.expr == "'") || constBenign s.expr
  | 1 => true
  | 2 => s.wrapped && s.arg == 1
  | 3 => true
  | 4 => exemptVerbatim.any (fun e => e.1 == s.fn && e.2.1 == s.expr && e.2.2.1 == s.ctx)
  | 5 => exemptVerbatim.any (fun e => e.1 == s.fn && e.2.1 == s.expr && e.2.2.1 == s.ctx)
  | 7 => s.fn == "Write"
  | _ => false

/-- the sites that fail (empty on a tree whose emission paths are all modelled) -/
def uncoveredWrites : List WSite := writeSites.filter (fun s => !wsiteOK s)

-- printed into the build log: on a red obligation this names the write that is not covered
#eval uncoveredWrites

theorem format_write_sites_covered : uncoveredWrites = [] := by decide +kernel

/-- the two modelled helpers are where the model says they are: the quote-doubling write is the `case string` of
`formatValue`, `formatIdentifier` is what `formatNode` writes for a `pgsql.Identifier`, and there is no second one -/
theorem format_helpers_in_place :
    (writeSites.filter (fun s => s.cls == 2)).map (fun s => (s.fn, s.wrapped)) = [("formatValue", true)]
    ∧ (writeSites.filter (fun s => s.cls == 3)).map (·.fn) = ["formatNode"]
    ∧ (writeSites.filter (fun s => s.cls == 7)).map (·.fn) = ["Write", "Write"] := by decide +kernel

theorem format_table_nonempty : 100 ≤ writeSites.length := by decide +kernel

/-! ## (2) construction sites of the translator -/

structure Row where
  kind : String
  file : String
  fn : String
  expr : String
  aux : String        -- compared for `like` rows only (guards: which operators, which operand shape)
  prov : String       -- const | generated | user-symbol | user-value | derived-sql
  esc : String        -- what applies before the text reaches the server
  finding : String    -- key of the known finding this row is, or ""
  why : String
deriving Repr, DecidableEq

def rows : List Row := [
  ⟨"alias", "projection.go", "translateProjectionItem", "boundSelectItem.Aliased()", "", "user-symbol", "emitIdent", "C04:projection.variable:case-folded-identifier",
    "implicit alias of a returned variable = its Cypher symbol; written through formatIdentifier"⟩,
  ⟨"alias", "projection.go", "translateProjectionItem", "alias", "", "user-symbol", "emitIdent", "C04:projection.alias:case-folded-identifier",
    "explicit result alias of the final RETURN; written through formatIdentifier"⟩,
  ⟨"fmtlit", "format.go", "formatNode", "arrayCastType.String()", "", "const", "datatype-constant", "",
    "a pgsql.DataType (constants of pgtypes.go and their array forms); no user text"⟩,
  ⟨"fmtlit", "format.go", "formatNode", "typedNextExpr.String()", "", "const", "datatype-constant", "",
    "a pgsql.DataType (constants of pgtypes.go and their array forms); no user text"⟩,
  ⟨"fmtlit", "format.go", "formatNode", "typedNextExpr.CastType", "", "const", "datatype-constant", "",
    "a pgsql.DataType (constants of pgtypes.go and their array forms); no user text"⟩,
  ⟨"ident", "aggregate_traversal_count.go", "aggregateTraversalCountQuery", "shape.ReturnSourceAlias", "", "user-symbol", "emitIdent", "C04:aggregate_traversal_count.alias:case-folded-identifier",
    "alias / source variable of the aggregate traversal count lowering; written through formatIdentifier (CTE column list, projection alias, ORDER BY)"⟩,
  ⟨"ident", "aggregate_traversal_count.go", "aggregateTraversalCountQuery", "shape.CountAlias", "", "user-symbol", "emitIdent", "C04:aggregate_traversal_count.alias:case-folded-identifier",
    "alias / source variable of the aggregate traversal count lowering; written through formatIdentifier (CTE column list, projection alias, ORDER BY)"⟩,
  ⟨"ident", "aggregate_traversal_count.go", "aggregateTraversalCountQuery", "shape.ReturnCountAlias", "", "user-symbol", "emitIdent", "C04:aggregate_traversal_count.alias:case-folded-identifier",
    "alias / source variable of the aggregate traversal count lowering; written through formatIdentifier (CTE column list, projection alias, ORDER BY)"⟩,
  ⟨"ident", "aggregate_traversal_count.go", "buildAggregateRankedCTE", "shape.CountAlias", "", "user-symbol", "emitIdent", "C04:aggregate_traversal_count.alias:case-folded-identifier",
    "alias / source variable of the aggregate traversal count lowering; written through formatIdentifier (CTE column list, projection alias, ORDER BY)"⟩,
  ⟨"ident", "aggregate_traversal_count.go", "aggregateBindingPredicate", "symbol", "", "user-symbol", "lookup-key", "",
    "used as a key of the scope / of a set or map only; what is emitted is the generated binding it resolves to (C06 user_ids_only_via_aliased_lookup); the symbol itself reaches the SQL AST only through the alias rows"⟩,
  ⟨"ident", "collect_id_membership.go", "collectIDMembershipCandidates", "projectionItem.Alias.Symbol", "", "user-symbol", "lookup-key", "",
    "used as a key of the scope / of a set or map only; what is emitted is the generated binding it resolves to (C06 user_ids_only_via_aliased_lookup); the symbol itself reaches the SQL AST only through the alias rows"⟩,
  ⟨"ident", "collect_id_membership.go", "Enter", "variable.Symbol", "", "user-symbol", "lookup-key", "",
    "used as a key of the scope / of a set or map only; what is emitted is the generated binding it resolves to (C06 user_ids_only_via_aliased_lookup); the symbol itself reaches the SQL AST only through the alias rows"⟩,
  ⟨"ident", "count_fast_path.go", "translateCountStoreFastPath", "shape.Alias", "", "user-symbol", "emitIdent", "C04:count_fast_path.alias:case-folded-identifier",
    "RETURN count(n) AS alias on the count-store fast path; written through formatIdentifier"⟩,
  ⟨"ident", "create.go", "createIDIdentifier", "binding.Identifier.String() + \"_id\"", "", "generated", "generated", "",
    "derived from a generated binding identifier / the identifier generator (C06 generated_names_never_user_keyed, generator_matches_model)"⟩,
  ⟨"ident", "expansion.go", "expansionSeedIdentifier", "string(expansionIdentifier) + \"_seed\"", "", "generated", "generated", "",
    "derived from a generated binding identifier / the identifier generator (C06 generated_names_never_user_keyed, generator_matches_model)"⟩,
  ⟨"ident", "expansion.go", "newExpansionNodeFilterSeed", "string(identifier) + \"_filter\"", "", "generated", "generated", "",
    "derived from a generated binding identifier / the identifier generator (C06 generated_names_never_user_keyed, generator_matches_model)"⟩,
  ⟨"ident", "model.go", "extractIdentifierFromCypherExpression", "variableExpression.Symbol", "", "user-symbol", "lookup-key", "",
    "used as a key of the scope / of a set or map only; what is emitted is the generated binding it resolves to (C06 user_ids_only_via_aliased_lookup); the symbol itself reaches the SQL AST only through the alias rows"⟩,
  ⟨"ident", "predicate_placement.go", "bindingConstraintConsumed", "symbol", "", "user-symbol", "lookup-key", "",
    "used as a key of the scope / of a set or map only; what is emitted is the generated binding it resolves to (C06 user_ids_only_via_aliased_lookup); the symbol itself reaches the SQL AST only through the alias rows"⟩,
  ⟨"ident", "references.go", "addVariable", "variable.Symbol", "", "user-symbol", "lookup-key", "",
    "used as a key of the scope / of a set or map only; what is emitted is the generated binding it resolves to (C06 user_ids_only_via_aliased_lookup); the symbol itself reaches the SQL AST only through the alias rows"⟩,
  ⟨"ident", "references.go", "addMatchPatternDeclaration", "variable.Symbol", "", "user-symbol", "lookup-key", "",
    "used as a key of the scope / of a set or map only; what is emitted is the generated binding it resolves to (C06 user_ids_only_via_aliased_lookup); the symbol itself reaches the SQL AST only through the alias rows"⟩,
  ⟨"ident", "references.go", "ReferencesSourceIdentifier", "cypher.TokenLiteralAsterisk", "", "const", "generated", "",
    "the constant *"⟩,
  ⟨"ident", "tracking.go", "NewIdentifier", "prefixStr + nextIDStr", "", "generated", "generated", "",
    "derived from a generated binding identifier / the identifier generator (C06 generated_names_never_user_keyed, generator_matches_model)"⟩,
  ⟨"ident", "tracking.go", "LookupString", "identifierString", "", "user-symbol", "lookup-key", "",
    "used as a key of the scope / of a set or map only; what is emitted is the generated binding it resolves to (C06 user_ids_only_via_aliased_lookup); the symbol itself reaches the SQL AST only through the alias rows"⟩,
  ⟨"ident", "translator.go", "Enter", "typedExpression.Symbol", "", "user-symbol", "lookup-key", "",
    "used as a key of the scope / of a set or map only; what is emitted is the generated binding it resolves to (C06 user_ids_only_via_aliased_lookup); the symbol itself reaches the SQL AST only through the alias rows"⟩,
  ⟨"ident", "translator.go", "Enter", "typedExpression.Alias.Symbol", "", "user-symbol", "lookup-key", "",
    "used as a key of the scope / of a set or map only; what is emitted is the generated binding it resolves to (C06 user_ids_only_via_aliased_lookup); the symbol itself reaches the SQL AST only through the alias rows"⟩,
  ⟨"ident", "translator.go", "Exit", "typedExpression.Alias.Symbol", "", "user-symbol", "lookup-key", "",
    "used as a key of the scope / of a set or map only; what is emitted is the generated binding it resolves to (C06 user_ids_only_via_aliased_lookup); the symbol itself reaches the SQL AST only through the alias rows"⟩,
  ⟨"ident", "unwind.go", "prepareUnwindTarget", "variable.Symbol", "", "user-symbol", "lookup-key", "",
    "used as a key of the scope / of a set or map only; what is emitted is the generated binding it resolves to (C06 user_ids_only_via_aliased_lookup); the symbol itself reaches the SQL AST only through the alias rows"⟩,
  ⟨"like", "expression.go", "rewritePropertyLookupOperands", "expression.ROperand", "rewriteStringWildCardLiteral ; if hasLeftPropertyLookup ; case pgsql.OperatorCypherStartsWith,pgsql.OperatorCypherEndsWith,pgsql.OperatorCypherContains,pgsql.OperatorRegexMatch", "user-value", "likeEsc", "C04:regex_operand:like-escaped-value",
    "LIKE escaping of a literal right operand, only when the left operand is a property lookup, for STARTS WITH / ENDS WITH / CONTAINS and also for the regular expression operator"⟩,
  ⟨"like", "expression.go", "rewriteBinaryExpression", "\"%\" + stringValue + \"%\"", "concat ; case pgsql.OperatorCypherContains ; case pgsql.Literal", "user-value", "none-here", "C04:like_operand.function_lhs:unescaped-like-pattern",
    "the % wildcards are concatenated to the literal as it is; LIKE escaping happened earlier only under `if hasLeftPropertyLookup` (row above), so with a function on the left the pattern is unescaped"⟩,
  ⟨"like", "expression.go", "rewriteBinaryExpression", "stringValue + \"%\"", "concat ; case pgsql.OperatorCypherStartsWith ; case pgsql.Literal", "user-value", "none-here", "C04:like_operand.function_lhs:unescaped-like-pattern",
    "the % wildcards are concatenated to the literal as it is; LIKE escaping happened earlier only under `if hasLeftPropertyLookup` (row above), so with a function on the left the pattern is unescaped"⟩,
  ⟨"like", "expression.go", "rewriteBinaryExpression", "\"%\" + stringValue", "concat ; case pgsql.OperatorCypherEndsWith ; case pgsql.Literal", "user-value", "none-here", "C04:like_operand.function_lhs:unescaped-like-pattern",
    "the % wildcards are concatenated to the literal as it is; LIKE escaping happened earlier only under `if hasLeftPropertyLookup` (row above), so with a function on the left the pattern is unescaped"⟩,
  ⟨"nested", "expansion.go", "boundEndpointFilterParameters", "pairFilterStatement", "", "derived-sql", "formatter", "",
    "inner statement formatted by the same formatter with materialised parameters (values through formatValue); its text becomes a bound parameter or a pgQuote-d literal (theorem nested_sql_param_bound)"⟩,
  ⟨"nested", "expansion.go", "boundEndpointFilterParameters", "rootFilterStatement", "", "derived-sql", "formatter", "",
    "inner statement formatted by the same formatter with materialised parameters (values through formatValue); its text becomes a bound parameter or a pgQuote-d literal (theorem nested_sql_param_bound)"⟩,
  ⟨"nested", "expansion.go", "boundEndpointFilterParameters", "terminalFilterStatement", "", "derived-sql", "formatter", "",
    "inner statement formatted by the same formatter with materialised parameters (values through formatValue); its text becomes a bound parameter or a pgQuote-d literal (theorem nested_sql_param_bound)"⟩,
  ⟨"nested", "expansion.go", "shortestPathsParameters", "nextFrontInsert(query)", "", "derived-sql", "formatter", "",
    "inner statement formatted by the same formatter with materialised parameters (values through formatValue); its text becomes a bound parameter or a pgQuote-d literal (theorem nested_sql_param_bound)"⟩,
  ⟨"nested", "expansion.go", "bidirectionalAllShortestPathsParameters", "nextFrontInsert(query)", "", "derived-sql", "formatter", "",
    "inner statement formatted by the same formatter with materialised parameters (values through formatValue); its text becomes a bound parameter or a pgQuote-d literal (theorem nested_sql_param_bound)"⟩,
  ⟨"nested", "format.go", "Translated", "translation.Statement", "", "derived-sql", "formatter", "",
    "the statement itself"⟩,
  ⟨"nested", "format.go", "FromCypher", "translation.Statement", "", "derived-sql", "formatter", "",
    "the statement itself"⟩,
  ⟨"param", "aggregate_traversal_count.go", "mergeAggregatePredicateParameters", "value", "", "user-value", "bound", "",
    "parameter value sent as a bound parameter (never part of the SQL text)"⟩,
  ⟨"param", "expansion.go", "shortestPathsParameters", "formattedQuery", "", "derived-sql", "bound", "",
    "inner SQL text handed over as a bound parameter"⟩,
  ⟨"param", "expansion.go", "bidirectionalAllShortestPathsParameters", "formattedQuery", "", "derived-sql", "bound", "",
    "inner SQL text handed over as a bound parameter"⟩,
  ⟨"param", "translator.go", "NewTranslator", "value", "", "user-value", "bound", "",
    "parameter value sent as a bound parameter (never part of the SQL text)"⟩,
  ⟨"param", "translator.go", "Enter", "negotiatedValue", "", "user-value", "bound", "",
    "parameter value sent as a bound parameter (never part of the SQL text)"⟩,
  ⟨"shape", "aggregate_traversal_count.go", "buildAggregateCandidateSourcesCTE", "aggregateRootID", "", "const", "generated", "",
    "constant column names of the translator / schema"⟩,
  ⟨"shape", "aggregate_traversal_count.go", "buildAggregateTraversalCTE", "aggregateRootID,aggregateNextID,aggregateDepth,aggregatePath", "", "const", "generated", "",
    "constant column names of the translator / schema"⟩,
  ⟨"shape", "aggregate_traversal_count.go", "buildAggregateTerminalHitsCTE", "aggregateRootID", "", "const", "generated", "",
    "constant column names of the translator / schema"⟩,
  ⟨"shape", "aggregate_traversal_count.go", "buildAggregateTerminalNodesCTE", "aggregateNodeID", "", "const", "generated", "",
    "constant column names of the translator / schema"⟩,
  ⟨"shape", "aggregate_traversal_count.go", "buildAggregateRankedCTE", "aggregateRootID,countAlias", "", "user-symbol", "emitIdent", "C04:aggregate_traversal_count.alias:case-folded-identifier",
    "CTE column list containing the user count alias; CTE column lists are written by formatNode -> formatIdentifier"⟩,
  ⟨"shape", "create.go", "buildNodeCreations", "pgsql.ColumnGraphID,pgsql.ColumnID,pgsql.ColumnKindIDs,pgsql.ColumnProperties", "", "const", "generated", "",
    "constant column names of the translator / schema"⟩,
  ⟨"shape", "create.go", "buildEdgeCreations", "pgsql.ColumnGraphID,pgsql.ColumnID,pgsql.ColumnStartID,pgsql.ColumnEndID,pgsql.ColumnKindID,pgsql.ColumnProperties", "", "const", "generated", "",
    "constant column names of the translator / schema"⟩,
  ⟨"shape", "expansion.go", "expansionSeedColumns", "expansionRootID", "", "const", "generated", "",
    "constant column names of the translator / schema"⟩,
  ⟨"shape", "expansion.go", "boundNodeIDsFilterStatement", "pgsql.ColumnID", "", "const", "generated", "",
    "constant column names of the translator / schema"⟩,
  ⟨"shape", "expansion.go", "nodeIDsFilterStatement", "pgsql.ColumnID", "", "const", "generated", "",
    "constant column names of the translator / schema"⟩,
  ⟨"shape", "expansion.go", "boundEndpointPairFilterStatement", "expansionRootID,expansionTerminalID", "", "const", "generated", "",
    "constant column names of the translator / schema"⟩,
  ⟨"shape", "expansion.go", "materializedEndpointPairFilterStatement", "expansionRootID,expansionTerminalID", "", "const", "generated", "",
    "constant column names of the translator / schema"⟩,
  ⟨"shape", "model.go", "expansionColumns", "expansionRootID,expansionNextID,expansionDepth,expansionSatisfied,expansionIsCycle,expansionPath", "", "const", "generated", "",
    "constant column names of the translator / schema"⟩
]

def Row.covers (r : Row) (s : Site) : Bool :=
  r.kind == s.kind && r.file == s.file && r.fn == s.fn && r.expr == s.expr && (s.kind != "like" || r.aux == s.aux)

def classified (s : Site) : Bool := s.kind == "literal" || rows.any (·.covers s)

def unclassifiedSites : List Site := sites.filter (fun s => !classified s)

def staleRows : List Row := rows.filter (fun r => !sites.any (r.covers ·))

-- printed into the build log: the sites without a row / the rows without a site
#eval unclassifiedSites
#eval staleRows.map (fun r => (r.kind, r.file, r.fn, r.expr))

/-- every construction site is classified: a new place that turns Cypher text into an identifier, alias, verbatim
fragment, LIKE pattern, nested SQL text, parameter or column list has no row and turns this red -/
theorem translate_sites_classified : unclassifiedSites = [] := by decide +kernel

/-- `formatIdentifier` decides quoting from the raw symbol's back-ticks: nothing in translate/optimize applies a
`strings.*` function or a slice to a Cypher symbol on the way (seeded change C04-r2-1 did, in count_fast_path.go) -/
theorem symbols_never_rewritten : sites.filter (fun s => s.kind == "symop") = [] := by decide +kernel

/-- no row is stale: when a site disappears or its guards change (e.g. the regular-expression operator is taken out
of the LIKE-escaping case) the row has to be revisited -/
theorem rows_all_live : staleRows = [] := by decide +kernel

/-- escapings the theorems of Props/C04 are about, or that keep the text out of the SQL text altogether -/
def modelledEsc : List String := ["emitIdent", "lookup-key", "bound", "formatter", "generated", "datatype-constant"]

/-- every row that carries user text says which modelled escaping applies, or is a named known finding -/
theorem user_text_rows_escaped :
    rows.filter (fun r => (r.prov == "user-symbol" || r.prov == "user-value" || r.prov == "derived-sql")
      && !(modelledEsc.contains r.esc) && r.finding == "") = [] := by decide +kernel

/-- rows without user text carry none of the user escapings by accident -/
theorem const_rows_are_const :
    rows.filter (fun r => (r.prov == "const" || r.prov == "generated") && !(r.esc == "generated" || r.esc == "datatype-constant")) = [] := by decide +kernel

/-- the findings named by rows are exactly the six known C04 findings (known_findings.json, status known) -/
theorem known_findings_are_rows :
    ((rows.map (·.finding)).filter (· != "")).eraseDups =
      ["C04:projection.variable:case-folded-identifier", "C04:projection.alias:case-folded-identifier",
       "C04:aggregate_traversal_count.alias:case-folded-identifier", "C04:count_fast_path.alias:case-folded-identifier",
       "C04:regex_operand:like-escaped-value", "C04:like_operand.function_lhs:unescaped-like-pattern"] := by decide +kernel

/-- the LIKE rows as regenerated facts: escaping is applied under `if hasLeftPropertyLookup` only, and its operator case
still contains the regular-expression operator (both findings, read off the source) -/
theorem like_guards :
    (sites.filter (fun s => s.kind == "like")).map (·.aux) =
      ["rewriteStringWildCardLiteral ; if hasLeftPropertyLookup ; case pgsql.OperatorCypherStartsWith,pgsql.OperatorCypherEndsWith,pgsql.OperatorCypherContains,pgsql.OperatorRegexMatch",
       "concat ; case pgsql.OperatorCypherContains ; case pgsql.Literal",
       "concat ; case pgsql.OperatorCypherStartsWith ; case pgsql.Literal",
       "concat ; case pgsql.OperatorCypherEndsWith ; case pgsql.Literal"] := by decide +kernel

theorem sites_table_nonempty : 100 ≤ sites.length := by decide +kernel

end Dawgs.C04.Sites
