/-
C09 — the default parse context admits read-only queries only.
Property statements + instance side conditions over the tables regenerated from /repo
(Generated/Grammar.lean from Cypher.g4, Generated/Frontend.lean from cypher/frontend/*.go).
The witness tables of Generated/C09Witness.lean are untrusted and re-checked here by the kernel.
-/
import Dawgs.Proofs.C09
import Dawgs.Spec.C09
import Dawgs.Generated.C09Witness
namespace Dawgs.C09.Props
open Dawgs.C09 Dawgs.C09.Inst Dawgs.Grammar
open Dawgs.Generated (C09Witness.directTab C09Witness.avoidTab C09Witness.S C09Witness.forbidden C09Witness.direct)

def avoid (r : Nat) : Bool := C09Witness.avoidTab.getD r false
def S : List Nat := C09Witness.S
def forbidden : List Nat := C09Witness.forbidden

/-! ### instance side conditions (re-checked against the regenerated tables on every run) -/

/-- the generated parser and the grammar file agree on the rule table -/
theorem names_agree : Generated.Frontend.ruleNames = Generated.Grammar.ruleNames := by decide +kernel
theorem numRules_ok : Generated.Grammar.ruleNames.length = numRules ∧ refs.length = numRules ∧ must.length = numRules := by
  decide +kernel
/-- the witness index lists denote the named rules -/
theorem forbidden_names : forbidden.map (Generated.Grammar.ruleNames.getD · "") = forbiddenNames := by decide +kernel
theorem direct_names : C09Witness.direct.map (Generated.Grammar.ruleNames.getD · "") = directNames := by decide +kernel
theorem root_is_cypher : Generated.Grammar.ruleNames.getD 0 "" = "oC_Cypher" := by decide +kernel
/-- the listener calls every registered filter on every rule node, and `ParseCypher` returns the
joined error list (structure of `Context.EnterEveryRule` / `parseCypher`, extracted from the AST) -/
theorem listener_shape : Generated.Frontend.enterEveryRuleCallsAllFilters = true ∧
    Generated.Frontend.parseReturnsJoinedErrors = true ∧ Generated.Frontend.emptyInputRejected = true := by decide
/-- witness tables are the model's functions -/
theorem directTab_ok : (List.range numRules).map T.direct = C09Witness.directTab := by decide +kernel
theorem avoidTab_ok : (List.range numRules).map (T.implied must) = C09Witness.avoidTab := by decide +kernel
/-- the four filtered rules and the unsupported rules add an error on entry -/
theorem direct_rules : C09Witness.direct.all (fun r => C09Witness.directTab.getD r false) = true := by decide +kernel
theorem S_closed : closedB refs avoid S = true := by decide +kernel
theorem S_root : 0 ∈ S := by decide +kernel
theorem S_bounded : S.all (· < numRules) = true := by decide +kernel
/-- every forbidden rule is unreachable from `oC_Cypher` except through (or as) a rule that forces an error -/
theorem forbidden_dominated : forbidden.all (fun f => !S.contains f || avoid f) = true := by decide +kernel

theorem avoid_implied {r : Nat} (h : avoid r = true) : T.implied must r = true := by
  unfold avoid at h
  rw [← avoidTab_ok] at h
  by_cases hr : r < numRules
  · rw [List.getD_eq_getElem?_getD, List.getElem?_map, List.getElem?_range hr] at h
    simpa using h
  · rw [List.getD_eq_getElem?_getD, List.getElem?_eq_none (by simp; omega)] at h
    cases h

/-! ### the property -/

/-- `filter_fires`: for EVERY tree (derivable or an ANTLR recovery tree), a node of a rule that a
default filter or the unsupported table rejects makes the error list non-empty. -/
theorem filter_fires (t : Tree) (r : Nat) (hr : r ∈ t.rules) (hd : T.direct r = true) :
    T.listenerErrors t ≠ [] :=
  listenerErrors_ne_nil_of_direct T t hr hd

/-- `accepted_default_readonly`: a parse tree of `oC_Cypher` that follows the grammar (`wf`), is
syntactically complete (`conforms`, i.e. no syntax error was reported) and produces no listener error
contains no updating clause, schema command, bulk import, procedure call or parameter — at any depth
or position. Contrapositive: inserting any such construct anywhere makes `ParseCypher` fail. -/
theorem accepted_default_readonly (t : Tree) (hroot : t.rootRule = some 0) (hwf : t.wf refs = true)
    (hconf : t.conforms must = true) (hacc : T.listenerErrors t = []) :
    ∀ f ∈ forbidden, f ∉ t.rules := by
  intro f hf hmem
  have hfd := (List.all_eq_true.1 forbidden_dominated) f hf
  have hav : ∃ x ∈ t.rules, avoid x = true := by
    rcases dominance refs avoid S S_closed t hwf (by intro r hr; rw [hroot] at hr; cases hr; exact S_root) with h | h
    · have hfS := h f hmem
      have hc : S.contains f = true := by simpa using hfS
      rw [hc] at hfd
      exact ⟨f, hmem, by simpa using hfd⟩
    · exact h
  obtain ⟨x, hx, hax⟩ := hav
  obtain ⟨y, hy, hdy⟩ := imp_t T must t hconf x hx (avoid_implied hax)
  exact listenerErrors_ne_nil_of_direct T t hy hdy hacc

/-- The property at full strength for the parse-tree level. -/
def C09_tree_full : Prop :=
  ∀ t : Tree, t.rootRule = some 0 → t.wf refs = true → t.conforms must = true →
    T.listenerErrors t = [] → ∀ f ∈ forbidden, f ∉ t.rules

theorem c09_tree : C09_tree_full := accepted_default_readonly

/-! Non-vacuity: a conforming read-only tree shape is accepted; a tree with a CREATE is rejected. -/
def sampleRead : Tree := .node 0 [.node 1 [], .node 8 [.node 9 []]]
example : sampleRead.wf refs = true ∧ T.listenerErrors sampleRead = [] := by decide +kernel
def sampleCreate : Tree := .node 0 [.node 18 [.node 39 []]]
example : T.listenerErrors sampleCreate ≠ [] := by decide +kernel

end Dawgs.C09.Props
