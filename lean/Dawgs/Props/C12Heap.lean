/-
C12, the kind slices as Go slices — aliasing, duplicates, foreign Kind values.
ONLY property statements and non-vacuity examples live here; lemmas are in Proofs/C12Heap.lean.

The kind theorems of Props/C12.lean are about lists compared with `=`.  The code works on slices whose `Remove` shifts
the backing array in place and whose `Add` / `Remove` use two different equalities.  This file states exactly when the
list view is right (`heap_refines_model`: the nodes own their arrays, kinds are canonical, no self merge) and what
happens outside each guard (witness theorems; the same cases run against the real code in the tie, suite c12 cases
`ex-alias-*`, `ex-guard-*`).
-/
import Dawgs.Proofs.C12Heap
namespace Dawgs.C12.Props
open Dawgs.C12

/-- `Kinds.Remove` / `Kinds.Add` on ANY well-formed header — aliased or not — give the header they return the contents of
the list operation (first `==` match removed / appended unless some element `Is` it), in place or on a fresh array, and
touch no other array.  Aliasing never makes the receiver's own view wrong; it changes what OTHER headers on the same
array show. -/
theorem slice_ops_are_list_ops (k : Kind) :
    OpSpec (fun h s => hremove h s k) (fun l => kremove l k) ∧ OpSpec (fun h s => hadd h s k) (fun l => kaddG l k) :=
  ⟨opSpec_hremove k, opSpec_hadd k⟩

/-- Aliasing freedom over the operation sequence, and refinement: two nodes built by `NewNode` / `PrepareNode` from
slices of their own (`HSt.init … false …`), edited by any history of the c12 language with canonical kinds and no
`n.Merge(n)`: after every operation the six kind headers still own six different backing arrays (`Good`), and what they
show is exactly the list model of Model/C12.lean — so every kind theorem of Props/C12.lean is a theorem about the
slices. -/
theorem heap_refines_model (L : Loaded) (prep : Bool) (hc : Canon L.kinds) (ops : List Op)
    (hp : ∀ o, o ∈ ops → o.Plain) :
    Good ((HSt.init L.kinds false prep).run false ops) ∧
    ∀ e, ((HSt.init L.kinds false prep).run false ops).kindsOf e = (((St.init L).run false ops).get e).triple :=
  ⟨(rel_run (rel_init L prep hc) ops hp).good, (rel_run (rel_init L prep hc) ops hp).same⟩

/-- Outside the ownership guard: ONE `[]Kind{A,B,C}` handed to both `NewNode` calls. `n0.DeleteKinds(A)` shifts the
shared array: `n1.Kinds` now reads `[B, C, C]` although nothing was done to `n1` — its kinds no longer are what was
loaded and its (empty) delta no longer explains them. -/
theorem shared_backing_array_clobbers :
    let hs := (HSt.init [0, 1, 2] true false).deleteKinds false [0]
    hs.kindsOf false = ([1, 2], [], [0]) ∧ hs.kindsOf true = ([1, 2, 2], [], []) := by decide

/-- A header a caller kept (`ks := n.Kinds`) is a view of the node's array, not a copy: later edits of the node show
through it (`[A,B]` held, then `DeleteKinds(A); AddKinds(C)`: the held header reads `[B, C]`). -/
theorem held_header_sees_later_edits :
    let hs := (((HSt.init [0, 1] false false).hold false).deleteKinds false [0]).addKinds false [some 2]
    hs.held.map (fun s => s.read hs.heap) = [[1, 2]] ∧ hs.kindsOf false = ([1, 2], [2], [0]) := by decide

/-- The duplicate-free guard is exact: "a deleted kind is gone" holds after every `DeleteKinds` iff the loaded kinds have
no duplicates (`Kinds.Remove` drops ONE occurrence). -/
theorem nodup_guard_exact (L : Loaded) :
    (∀ (k : Kind) (e : Bool), k ∉ (((St.init L).step false (.deleteKinds e [k])).get e).kinds) ↔ L.kinds.Nodup := by
  constructor
  · intro h
    apply Classical.byContradiction
    intro hn
    obtain ⟨k, hk⟩ := exists_mem_kremove_of_not_nodup hn
    exact h k false hk
  · intro hn k e hk
    have hx : (((St.init L).step false (.deleteKinds e [k])).get e).kinds = kremove L.kinds k := by
      cases e <;> rfl
    rw [hx, mem_kremove hn] at hk
    exact hk.2 rfl

/-- Outside the canonical-kind guard: a foreign `Kind` value named `A` (`Is`-equal, not `==`-equal to the canonical
one). `AddKinds(A')` does not add it to `Kinds` (some element `Is` it) but records it as added; `DeleteKinds(A')` removes
it from `AddedKinds` (`==`), NOT from `Kinds` (the canonical `A` is not `==`), and records `A'` as deleted: the driver is
told to remove kind `A` from a node that still has it. -/
theorem canonical_guard_needed :
    let hs := ((HSt.init [0, 1] false false).addKinds false [some 100]).deleteKinds false [100]
    hs.kindsOf false = ([0, 1], [], [100]) ∧
    (∃ k, k ∈ (hs.kindsOf false).2.2 ∧ ∃ k', k' ∈ (hs.kindsOf false).1 ∧ kname k = kname k') := by
  refine ⟨by decide, 100, by decide, 0, by decide, by decide⟩

/-! ### the factory discharges the canonical-kind guard -/

/-- `graph.StringKind` as a function of the name: the one interned handle of that name (names are 0..99 in the model) -/
def stringKind (name : Nat) : Kind := name % 100

/-- For ANY factory that is a function of the name and whose handles report that name (`kname (mk n) = n`), `Is` and `==`
coincide on everything it returns: the two equalities `Kinds.Add` and `Kinds.Remove` mix cannot be told apart. -/
theorem factory_kinds_coherent (mk : Nat → Kind) (h : ∀ n, kname (mk n) = n) (a b : Nat) :
    kis (mk a) (mk b) = true ↔ mk a = mk b := by
  unfold kis
  rw [h a, h b]
  constructor
  · intro e; rw [beq_iff_eq] at e; rw [e]
  · intro e
    have : kname (mk a) = kname (mk b) := by rw [e]
    rw [h a, h b] at this
    rw [this]; exact beq_self_eq_true b

/-- Kinds obtained from `StringKind` / `StringsToKinds` satisfy the guards of `heap_refines_model` by construction: loaded
kinds are `Canon`, `AddKinds` / `DeleteKinds` with them are `Plain` — the guard is a property of the factory, not a
hypothesis the caller has to remember. -/
theorem factory_discharges_canonical_guard (names : List Nat) (e : Bool) :
    Canon (names.map stringKind) ∧ (Op.addKinds e (names.map (fun n => some (stringKind n)))).Plain ∧
    (Op.deleteKinds e (names.map stringKind)).Plain := by
  have hlt : ∀ n, stringKind n < 100 := fun n => Nat.mod_lt n (by decide)
  refine ⟨?_, ?_, ?_⟩
  · intro x hx
    obtain ⟨n, _, rfl⟩ := List.mem_map.1 hx
    exact hlt n
  · intro k hk
    obtain ⟨n, _, hn⟩ := List.mem_map.1 hk
    injection hn with hn
    rw [← hn]; exact hlt n
  · intro x hx
    obtain ⟨n, _, rfl⟩ := List.mem_map.1 hx
    exact hlt n

/-- … so for two nodes built from factory kinds and edited with factory kinds the slices are the list model, with no
hypothesis on the kinds at all -/
theorem factory_kinds_refine (names : List Nat) (store : Option KV) (prep : Bool)
    (ops : List Op) (hops : ∀ o, o ∈ ops →
      (∃ (e : Bool) (ns : List Nat), o = .addKinds e (ns.map (fun n => some (stringKind n)))) ∨
      (∃ (e : Bool) (ns : List Nat), o = .deleteKinds e (ns.map stringKind)) ∨
      (∃ e f, o = .nmerge e f ∧ e ≠ f) ∨ (∃ e k v, o = .set e k v) ∨ (∃ e k, o = .delete e k) ∨ (∃ e, o = .json e)) :
    let L : Loaded := { store := store, kinds := names.map stringKind }
    ∀ e, ((HSt.init L.kinds false prep).run false ops).kindsOf e = (((St.init L).run false ops).get e).triple := by
  intro L
  refine (heap_refines_model L prep (factory_discharges_canonical_guard names false).1 ops ?_).2
  intro o ho
  rcases hops o ho with ⟨e, ns, rfl⟩ | ⟨e, ns, rfl⟩ | ⟨e, f, rfl, hef⟩ | ⟨e, k, v, rfl⟩ | ⟨e, k, rfl⟩ | ⟨e, rfl⟩
  · exact (factory_discharges_canonical_guard ns e).2.1
  · exact (factory_discharges_canonical_guard ns e).2.2
  · exact hef
  · trivial
  · trivial
  · trivial

/-- A factory that is NOT a function of the name — two racing first calls of `StringKind("A")` each keeping their own
pointer (Load miss, then Store) — hands out a second handle of the name: exactly the foreign kind of
`canonical_guard_needed` (code 100: same name as 0, different identity), made by the library itself. -/
theorem racy_factory_breaks_guard :
    kname 100 = kname (stringKind 0) ∧ (100 : Kind) ≠ stringKind 0 ∧ kis 100 (stringKind 0) = true ∧
    (let hs := (HSt.init [stringKind 0] false false).deleteKinds false [100]
     hs.kindsOf false = ([0], [], [100])) := by decide

/-- … and `n.Merge(n)` (excluded from `heap_refines_model` because the receiver reads its own headers while writing
them) is nevertheless harmless on a consistent node: an example, not a theorem — the tie runs self merges. -/
example :
    let hs := ((HSt.init [0, 1] false false).deleteKinds false [0]).addKinds false [some 2]
    (hs.mergeKinds false false).kindsOf false = hs.kindsOf false := by decide

/-! non-vacuity -/
example : Good (HSt.init [0, 1, 2] false true) := good_init _ _
example : ¬ Good (HSt.init [0, 1, 2] true false) := by
  intro h
  have := h.sep 0 3 (by decide) (by decide) (by decide)
  revert this; decide
example : (Op.addKinds false [some 0, none, some 2]).Plain := by
  intro k hk
  simp only [List.mem_cons, Option.some.injEq, List.not_mem_nil, or_false, reduceCtorEq, false_or] at hk
  rcases hk with h | h <;> rw [h] <;> decide
example : ¬ (Op.nmerge true true).Plain := fun h => h rfl
example : ¬ (Op.deleteKinds false [100]).Plain := fun h => absurd (h 100 List.mem_cons_self) (by decide)

end Dawgs.C12.Props
