/-
C04 — user-controlled text cannot change the token structure of emitted SQL.
ONLY property statements at full strength, what holds for the code as it is (`_partial`: since the repair of F9
a back-ticked symbol is written as a quoted identifier, so no name can change the token structure), the refutation
of the part that is still false (unquoted names are case-folded), the refutation of the token-structure statement
for the emitter the code had before the repair (`…_old`, F9), what holds for an emitter quoting every identifier
(`_fixed`), plus non-vacuity examples. Lemmas: `Dawgs/Proofs/C04.lean`; model: `Dawgs/Model/C04.lean`.

Guard used everywhere: the user text is NUL-free. The real code rejects nothing (neither `formatValue` nor
`decodeCypherStringLiteral` looks for NUL); `properties.jsonl` quantifies over NUL-free text, and a NUL
ends the query text as the server sees it (model: token `nul`, see the example at the end).
-/
import Dawgs.Proofs.C04
namespace Dawgs.C04.Props
open Dawgs.C04

/-! ## the formatter's writes, per user-text position -/

/-- text written by the formatter around a user value; `Clean` = the text before the value leaves the
lexer in no open token (true of everything `format.go` writes before a literal / identifier: it ends in
a space, `(`, `[`, `, `, an operator followed by a space …) -/
abbrev Clean (pre : Str) : Prop := (run .top pre).2 = .top

/-- the contexts in which `format.go` writes a property / map key as a literal: right operand of
`->`, `->>`, `?` (`BinaryExpression`: LOperand, " ", operator, " ", ROperand), first/odd argument of
`jsonb_build_object(` and element of `array [` (`FunctionCall` / `ArrayLiteral`: "(" , ", ", "array [") -/
def keyContexts : List Str :=
  [" -> ".toList, " ->> ".toList, " ? ".toList, "jsonb_build_object(".toList, ", ".toList, "array [".toList]

/-! ## 1. string values -/

/-- For EVERY NUL-free string `s` (no length bound) and every continuation `r` that does not re-open the
constant (`r` does not start with a quote and is not white space containing a newline followed by a
quote — `contQuote`), the text `formatValue` writes lexes as exactly one string constant whose value is `s`. -/
theorem pgQuote_single_token (s r : Str) (hs : NUL ∉ s) (hr : contQuote r = false) :
    lex (pgQuote s ++ r) = Tok.str s :: lex r :=
  lex_pgQuote s r hs hr

/-- the same after any clean prefix: the tokens before are those of the prefix, the tokens after those of the rest -/
theorem pgQuote_in_context (pre s post : Str) (hpre : Clean pre) (hs : NUL ∉ s) (hpost : contQuote post = false) :
    lex (pre ++ pgQuote s ++ post) = (run .top pre).1 ++ Tok.str s :: lex post :=
  lit_in_context pre s post hpre hs hpost

/-- token structure is independent of the value -/
theorem pgQuote_shape_independent (pre s s' post : Str) (hpre : Clean pre) (hs : NUL ∉ s) (hs' : NUL ∉ s')
    (hpost : contQuote post = false) :
    shape (lex (pre ++ pgQuote s ++ post)) = shape (lex (pre ++ pgQuote s' ++ post)) := by
  rw [lit_in_context pre s post hpre hs hpost, lit_in_context pre s' post hpre hs' hpost]
  simp [shape_append, shape_str_cons]

/-- `pgQuote` relies on `standard_conforming_strings = on` (the server default since 9.1; DAWGS neither sets nor
checks it — trusted base). Under `off` a backslash escapes the closing quote: the value `\` swallows the SQL that
follows, so the single-token statement is false there. -/
theorem pgQuote_needs_scs_on :
    ¬ ∀ (s r : Str), NUL ∉ s → contQuote r = false → (lexOff (pgQuote s ++ r)).length = 1 + (lexOff r).length := by
  intro h
  have := h ['\\'] " and x = 1".toList (by decide) (by decide)
  revert this; decide

/-- what the server sees under `standard_conforming_strings = off` for the value `\` in a WHERE clause -/
example : lexOff ("name = ".toList ++ pgQuote ['\\'] ++ " and x = 'y'".toList) =
    [.word "name".toList, .op ['='], .estr "\\' and x = ".toList, .word ['y'], .err "unterminated quoted string"] := by decide

/-! ## 2. Cypher string literals -/

/-- `NewStringLiteral` followed by `decodeCypherStringLiteral` is the identity, for all strings -/
theorem decode_encode (s : Str) : decode (encode s) = .ok s := decode_encode_aux s

/-- the decoder succeeds exactly on the literal tokens that denote a string (independent inductive
definition `Denotes`: matching quotes, every backslash followed by one of `\ ' " b f n r t` in either
case) and then returns the denoted string -/
theorem decode_correct (raw v : Str) : decode raw = .ok v ↔ Denotes raw v := decode_iff raw v

/-- total: every token is either decoded to the string it denotes, or rejected with an error and denotes nothing -/
theorem decode_total_or_error (raw : Str) :
    (∃ v, decode raw = .ok v ∧ Denotes raw v) ∨ (∃ e, decode raw = .error e ∧ ¬ ∃ v, Denotes raw v) := by
  cases h : decode raw with
  | ok v => exact Or.inl ⟨v, rfl, (decode_iff raw v).1 h⟩
  | error e =>
    refine Or.inr ⟨e, rfl, ?_⟩
    rintro ⟨v, hv⟩
    rw [(decode_iff raw v).2 hv] at h
    cases h

/-- Cypher literal token → decode → pgQuote → PostgreSQL lexer gives back exactly the denoted string, as
one string constant, whatever surrounds it -/
theorem literal_pipeline (raw v pre post : Str) (hd : Denotes raw v) (hv : NUL ∉ v) (hpre : Clean pre)
    (hpost : contQuote post = false) :
    ∃ w, decode raw = .ok w ∧ lex (pre ++ pgQuote w ++ post) = (run .top pre).1 ++ Tok.str v :: lex post :=
  ⟨v, (decode_iff raw v).2 hd, lit_in_context pre v post hpre hv hpost⟩

/-- the builder path: a Go string `s` wrapped by `NewStringLiteral` reaches the server as the constant `s` -/
theorem builder_pipeline (s pre post : Str) (hs : NUL ∉ s) (hpre : Clean pre) (hpost : contQuote post = false) :
    ∃ w, decode (encode s) = .ok w ∧ lex (pre ++ pgQuote w ++ post) = (run .top pre).1 ++ Tok.str s :: lex post :=
  ⟨s, decode_encode_aux s, lit_in_context pre s post hpre hs hpost⟩

/-- STARTS WITH / ENDS WITH / CONTAINS operands are rewritten by `rewriteStringWildCardLiteral` before they are
quoted; as a LIKE pattern the rewritten text matches exactly the denoted string, for all strings (so the value
read back in these positions is the denoted one wrapped in `%`). The same rewrite applied to a `=~` operand is
a defect (finding `C04:regex_operand:like-escaped-value`): a regular expression gives `\\` another meaning. -/
theorem like_escape_literal (s : Str) : likeLiteral (likeEsc s) = some s := likeLiteral_likeEsc s

/-! ## 3. property keys and map keys -/

/-- `UnescapePropertyKeyName` inverts the back-tick form of `EscapePropertyKeyName`, for all names -/
theorem key_unescape_escape (s : Str) : unescapeKey (escapeKeyBt s) = s := unescapeKey_escapeKeyBt_aux s

/-- in every position where the formatter writes a key, the key is one string constant with the key as value -/
theorem jsonb_key_quoting (ctx : Str) (hctx : ctx ∈ keyContexts) (pre k post : Str) (hpre : Clean pre)
    (hk : NUL ∉ k) (hpost : contQuote post = false) :
    lex (pre ++ ctx ++ pgQuote k ++ post) = (run .top (pre ++ ctx)).1 ++ Tok.str k :: lex post := by
  have hclean : Clean (pre ++ ctx) := by
    unfold Clean at *
    rw [run_append, hpre]
    show (run Mode.top ctx).2 = Mode.top
    simp only [keyContexts, List.mem_cons, List.not_mem_nil, or_false] at hctx
    rcases hctx with h | h | h | h | h | h <;> subst h <;> decide
  exact lit_in_context (pre ++ ctx) k post hclean hk hpost

/-! ## 4. SQL passed as text to the traversal functions -/

/-- Two mechanisms exist in `expansion.go`. (a) `shortestPathsParameters` / `bidirectionalAllShortestPathsParameters`:
the inner statement is formatted with `WithMaterializedParameters` and stored in `Result.Parameters`; the
outer SQL only contains `@piN::text` — a BOUND parameter, so the outer text does not depend on the value at
all. (b) `boundEndpointFilterParameters`: the inner statement becomes `pgsql.NewLiteral(inner, Text)`, i.e.
it is `pgQuote`d again into the outer text. In both, a user value inside the inner statement was written by
the same `formatValue`. Statement: for NUL-free inner context and value,
(a) the inner SQL has exactly one constant with value `v` where the value was written and its token
    structure does not depend on `v`;
(b) the outer SQL has exactly one constant whose value is the whole inner SQL, and (a) holds for it. -/
theorem nested_sql_param_bound (ipre ipost opre opost v v' : Str)
    (hipre : Clean ipre) (hipost : contQuote ipost = false) (hopre : Clean opre) (hopost : contQuote opost = false)
    (h1 : NUL ∉ ipre) (h2 : NUL ∉ ipost) (hv : NUL ∉ v) (hv' : NUL ∉ v') :
    let inner := fun (x : Str) => ipre ++ pgQuote x ++ ipost
    lex (inner v) = (run .top ipre).1 ++ Tok.str v :: lex ipost
    ∧ shape (lex (inner v)) = shape (lex (inner v'))
    ∧ lex (opre ++ pgQuote (inner v) ++ opost) = (run .top opre).1 ++ Tok.str (inner v) :: lex opost
    ∧ shape (lex (opre ++ pgQuote (inner v) ++ opost)) = shape (lex (opre ++ pgQuote (inner v') ++ opost)) := by
  intro inner
  have hin : ∀ x, NUL ∉ x → NUL ∉ inner x := by
    intro x hx hm
    simp only [inner, List.mem_append] at hm
    rcases hm with (hm | hm) | hm
    · exact h1 hm
    · exact nul_not_mem_pgQuote x hx hm
    · exact h2 hm
  refine ⟨lit_in_context ipre v ipost hipre hv hipost, ?_, lit_in_context opre _ opost hopre (hin v hv) hopost, ?_⟩
  · exact pgQuote_shape_independent ipre v v' ipost hipre hv hv' hipost
  · exact pgQuote_shape_independent opre _ _ opost hopre (hin v hv) (hin v' hv') hopost

/-- the literal branches of `formatLiteral`: an interval-typed literal (Cypher `duration('…')`) is the word
`interval`, a space, and the value through the same `formatValue`; date/time constructors are a type cast written
AFTER the quoted value (`('…')::date`). Both are instances of `pgQuote_in_context`; this is the interval one. -/
theorem interval_literal (pre s post : Str) (hpre : Clean pre) (hs : NUL ∉ s) (hpost : contQuote post = false) :
    lex (pre ++ "interval ".toList ++ pgQuote s ++ post) =
      (run .top (pre ++ "interval ".toList)).1 ++ Tok.str s :: lex post := by
  have hclean : Clean (pre ++ "interval ".toList) := by
    unfold Clean at *
    rw [run_append, hpre]
    show (run Mode.top "interval ".toList).2 = Mode.top
    decide
  exact lit_in_context (pre ++ "interval ".toList) s post hclean hs hpost

/-! ## 4b. the Cypher debug comment in front of the statement (translate.FromCypher) -/

/-- Every line of the comment header starts with `--`, for BOTH values of `stripLiterals` and ALL texts (a line ends
at `\\n` or `\\r`, the two characters that end a `--` comment for the server; every other line-break character —
VT, FF, NEL, U+2028, U+2029 — is an ordinary character inside the comment). Seeded change C04-r4-2 skipped the
newline rewriting for `stripLiterals = true`: back-ticked keys, variables and aliases are not literals. -/
theorem comment_header_all_lines_commented (text : Str) (stripLiterals : Bool) :
    linesCommented .start (commentHeader text stripLiterals) = true :=
  linesCommented_header text stripLiterals

/-- consequently the header is invisible to the server's lexer: the tokens of header ++ statement are the tokens of
the statement, whatever the (NUL-free) Cypher text contains -/
theorem comment_header_invisible (text sql : Str) (stripLiterals : Bool) (h : NUL ∉ text) :
    lex (commentHeader text stripLiterals ++ sql) = lex sql :=
  lex_commentHeader text sql stripLiterals h

/-! ## 4c. numbers: the value the server reads back -/

/-- NAMED ASSUMPTION about Go's `strconv` (its shortest-digits algorithm is not proved here): for a finite non-negative
float64 with bit pattern `x`, `FormatFloat(v, 'f', -1, 64)` is `renderF ds dp` for decimal digits `ds` and a
decimal-point position `dp` such that the decimal `ds × 10^(dp − |ds|)` rounds to `x` again at 64 bits. (At bitSize 32
the digits only round-trip through a 32-bit float: seeded change C01-r4-1; the call-argument table of
Props/C04Sites `format_number_calls` pins bitSize 64.) -/
structure GoShortestRoundTrips64 (x : Nat) (ds : Str) (dp : Int) : Prop where
  digits : ∀ c ∈ ds, isDigit c = true
  zero : ds ≠ [] ∨ dp = 0
  round_trip : nearestF64Bits (ratOf (valOf ds) (dp - ds.length)) = x

/-- the text strconv writes for digits/decimal point is exactly ONE number token, and the exact value the server's
numeric input reads from that token is `ds × 10^(dp − |ds|)` — digits/exponent → token → value, for all digit strings
and all decimal-point positions (no exponent form, no length bound) -/
theorem number_token_exact_value (ds : Str) (dp : Int) (r : Str) (hds : ∀ c ∈ ds, isDigit c = true)
    (hz : ds ≠ [] ∨ dp = 0) (hr : numFollow r = true) :
    lex (renderF ds dp ++ r) = Tok.num (renderF ds dp) :: lex r
      ∧ decValue (renderF ds dp) = ratOf (valOf ds) (dp - ds.length) :=
  ⟨lex_renderF ds dp r hds hz hr, decValue_renderF ds dp hds hz⟩

/-- hence, under the named assumption, the float8 the server reads back from a formatted double is the double itself -/
theorem number_literal_value_round_trip (x : Nat) (ds : Str) (dp : Int) (r : Str) (h : GoShortestRoundTrips64 x ds dp)
    (hr : numFollow r = true) :
    lex (renderF ds dp ++ r) = Tok.num (renderF ds dp) :: lex r ∧ nearestF64Bits (decValue (renderF ds dp)) = x := by
  refine ⟨lex_renderF ds dp r h.digits h.zero hr, ?_⟩
  rw [decValue_renderF ds dp h.digits h.zero]
  exact h.round_trip

/-- integers (`FormatInt` / `FormatUint` base 10 = the digits with the decimal point at the end) are read back exactly -/
theorem integer_literal_value (ds : Str) (r : Str) (hds : ∀ c ∈ ds, isDigit c = true) (hne : ds ≠ []) (hr : numFollow r = true) :
    lex (renderF ds ds.length ++ r) = Tok.num (renderF ds ds.length) :: lex r
      ∧ decValue (renderF ds ds.length) = (valOf ds * 10 ^ 0, 1) := by
  have h := number_token_exact_value ds ds.length r hds (Or.inl hne) hr
  refine ⟨h.1, ?_⟩
  rw [h.2]; simp [ratOf]

/-! ## 5. identifiers (variable names, result aliases) -/

/-- the symbol of a Cypher variable / alias as the frontend stores it (`ctx.GetText()`): a name is either written
bare (possible only for `cypherBare` names) or back-ticked (possible for every name); the back-ticked token keeps
its back-ticks. -/
inductive SymbolOf : Str → Str → Prop
  | bare (name : Str) : cypherBare name = true → SymbolOf name name
  | bt (name : Str) : SymbolOf name (escapeKeyBt name)

/-- text of an identifier token as written -/
def identText : Tok → Option Str
  | .word w => some w
  | .qident q => some q
  | _ => none

/-- the identifier the server reads back: unquoted identifiers are case-folded (`downcase_identifier`) -/
def identValue : Tok → Option Str
  | .word w => some (pgFold w)
  | .qident q => some q
  | _ => none

/-- Token-structure statement for identifiers: whatever name an accepted query gives to a variable or result
alias, and however it is written, the emitter's output is exactly one identifier token carrying the name `name`
(under the reading `rd` of identifier tokens), in any clean context, followed by what the formatter writes after an
alias (nothing, or " from …"). -/
def IdentOneToken (emit : Str → Str) (rd : Tok → Option Str) : Prop :=
  ∀ (name sym pre post : Str), SymbolOf name sym → name ≠ [] → NUL ∉ name → Clean pre →
    post = [] ∨ post = " from s0;".toList →
    ∃ t, rd t = some name ∧ lex (pre ++ emit sym ++ post) = (run .top pre).1 ++ t :: lex post

def f9Name : Str := "x; drop table node; --".toList

/-- F9, about the emitter the code had BEFORE the repair (`emitIdentOld`, verbatim): even the token-structure
statement is false. Witness: RETURN n.name AS `x; drop table node; --`. Kept as the regression statement: the tie
reports exactly this shape (`unquoted-identifier`) if the verbatim write comes back. -/
theorem identifier_verbatim_unsafe_old : ¬ IdentOneToken emitIdentOld identText := by
  intro h
  obtain ⟨t, ht, hl⟩ := h f9Name (escapeKeyBt f9Name) "select 1 as ".toList [] (.bt _) (by decide) (by decide) (by decide) (Or.inl rfl)
  have hl' : lex ("select 1 as ".toList ++ emitIdentOld (escapeKeyBt f9Name) ++ []) =
      [.word "select".toList, .num ['1'], .word "as".toList, .op ['`'], .word ['x'], .punct ';',
       .word "drop".toList, .word "table".toList, .word "node".toList, .punct ';'] := by decide
  have hr : (run Mode.top "select 1 as ".toList).1 = [.word "select".toList, .num ['1'], .word "as".toList] := by decide
  rw [hl', hr] at hl
  have hlex : lex ([] : Str) = [] := rfl
  rw [hlex] at hl
  simp at hl

/-- the token list the server would see for the F9 witness under the old emitter -/
example : lex ("select 1 as `x; drop table node; --` from s0;".toList) =
    [.word "select".toList, .num ['1'], .word "as".toList, .op ['`'], .word ['x'], .punct ';',
     .word "drop".toList, .word "table".toList, .word "node".toList, .punct ';'] := by decide

/-- live emitter, back-ticked symbol: `formatIdentifier` unescapes it and writes `"…"` with `""` doubling, which
lexes as exactly one quoted identifier whose value is the name — for EVERY NUL-free name -/
theorem identifier_quoted (name pre post : Str) (hn : NUL ∉ name) (hpre : Clean pre) (hpost : contDQ post = false) :
    lex (pre ++ emitIdent (escapeKeyBt name) ++ post) = (run .top pre).1 ++ Tok.qident name :: lex post := by
  rw [emitIdent_bt]
  exact qident_in_context pre name post hpre hn hpost

/-- live emitter, bare symbol: written verbatim, and a bare Cypher name is exactly one word token, provided the
formatter continues with something that is neither an identifier character nor a quote (`identFollow`: it writes
" ", ",", ")", ";" or stops) -/
theorem identifier_bare (name pre post : Str) (hn : cypherBare name = true) (hpre : Clean pre)
    (hpost : identFollow post = true) :
    lex (pre ++ emitIdent name ++ post) = (run .top pre).1 ++ Tok.word name :: lex post := by
  rw [emitIdent_bare name hn]
  exact bare_in_context pre name post hpre hn hpost

/-- `[A-Za-z_][A-Za-z0-9_]*` minus reserved words is a special case of a bare name -/
theorem identifier_partial (name pre post : Str) (hn : identSafe name = true) (hpre : Clean pre)
    (hpost : identFollow post = true) :
    lex (pre ++ emitIdent name ++ post) = (run .top pre).1 ++ Tok.word name :: lex post :=
  identifier_bare name pre post (identSafe_cypherBare name hn) hpre hpost

/-- the live emitter satisfies the token-structure statement for every name, bare or back-ticked -/
theorem identifier_fixed : IdentOneToken emitIdent identText := by
  intro name sym pre post hsym _ hn hpre hpost
  cases hsym with
  | bare hb =>
    refine ⟨Tok.word name, rfl, identifier_bare name pre post hb hpre ?_⟩
    rcases hpost with rfl | rfl <;> decide
  | bt =>
    refine ⟨Tok.qident name, rfl, identifier_quoted name pre post hn hpre ?_⟩
    rcases hpost with rfl | rfl <;> decide

/-- what still fails for the live emitter: a bare name with an upper-case letter is read back lower-cased
(findings `*:case-folded-identifier`). Witness: RETURN 1 AS A. -/
theorem identifier_case_folded : ¬ IdentOneToken emitIdent identValue := by
  intro h
  obtain ⟨t, ht, hl⟩ := h ['A'] ['A'] [] [] (.bare _ (by decide)) (by decide) (by decide) (by decide) (Or.inl rfl)
  have hl' : lex (([] : Str) ++ emitIdent ['A'] ++ []) = [Tok.word ['A']] := by decide
  have hr : (run Mode.top ([] : Str)).1 = [] := rfl
  have hlex : lex ([] : Str) = [] := rfl
  rw [hl', hr, hlex] at hl
  simp at hl
  subst hl
  revert ht; decide

/-- an emitter that quotes every identifier (bare ones too) gives back the exact name, for every name -/
def emitIdentQuoteAll (sym : Str) : Str := qQuote (unescapeKey sym)

theorem unescapeKey_bare (name : Str) (h : cypherBare name = true) : unescapeKey name = name := by
  obtain ⟨c, cs, rfl, hc, _⟩ := cypherBare_parts name h
  have hne : c ≠ '`' := by intro e; subst e; revert hc; decide
  simp [unescapeKey, hne]

theorem identifier_quote_all : IdentOneToken emitIdentQuoteAll identValue := by
  intro name sym pre post hsym _ hn hpre hpost
  have hu : unescapeKey sym = name := by
    cases hsym with
    | bare hb => exact unescapeKey_bare name hb
    | bt => exact unescapeKey_escapeKeyBt_aux name
  refine ⟨Tok.qident name, rfl, ?_⟩
  unfold emitIdentQuoteAll
  rw [hu]
  refine qident_in_context pre name post hpre hn ?_
  rcases hpost with rfl | rfl <;> decide

/-! ## 6. the driver's lexer is the proved one -/

theorem lexFast_eq_lex (s : Str) : lexFast s = lex s := lexFast_eq s

/-! ## the property -/

/-- literals, keys, inlined parameter values and nested SQL: everything written through `formatValue` -/
def ValuesSafe : Prop :=
  (∀ (pre s post : Str), Clean pre → NUL ∉ s → contQuote post = false →
      lex (pre ++ pgQuote s ++ post) = (run .top pre).1 ++ Tok.str s :: lex post)
  ∧ (∀ raw v : Str, decode raw = .ok v ↔ Denotes raw v)
  ∧ (∀ s : Str, decode (encode s) = .ok s)
  ∧ (∀ s : Str, unescapeKey (escapeKeyBt s) = s)

/-- C04 at the strength of `properties.jsonl` for the code as it is (live emitter `formatIdentifier`): values, and
identifiers as ONE token whose value as the server reads it back is the Cypher name -/
def C04_full : Prop := ValuesSafe ∧ IdentOneToken emitIdent identValue

/-- what holds for the code as it is: values, and identifiers as one token carrying the name as written
(token structure can no longer be changed by a name; an unquoted name is still case-folded by the server) -/
def C04_partial : Prop := ValuesSafe ∧ IdentOneToken emitIdent identText

/-- the same statement for the code before the identifier repair (false, F9) -/
def C04_partial_old : Prop := ValuesSafe ∧ IdentOneToken emitIdentOld identText

/-- the full statement for an emitter that quotes every identifier -/
def C04_fixed : Prop := ValuesSafe ∧ IdentOneToken emitIdentQuoteAll identValue

theorem values_safe : ValuesSafe :=
  ⟨fun pre s post h1 h2 h3 => lit_in_context pre s post h1 h2 h3, decode_iff, decode_encode_aux, unescapeKey_escapeKeyBt_aux⟩

theorem c04_full_refuted : ¬ C04_full := fun h => identifier_case_folded h.2

theorem c04_partial : C04_partial := ⟨values_safe, identifier_fixed⟩

theorem c04_partial_old_refuted : ¬ C04_partial_old := fun h => identifier_verbatim_unsafe_old h.2

theorem c04_fixed : C04_fixed := ⟨values_safe, identifier_quote_all⟩

/-! ## 7. a whole statement: any number of user-text positions at once -/

/-- THE token-structure clause for a statement as a whole: whatever the user values are and however many positions
the statement has, its tokens are the tokens of the formatter's own text with exactly ONE token per user-text
position carrying the user's value (string constant / bare identifier / quoted identifier). Hypothesis `wfSegs`
(decidable, about the FORMATTER'S text only, apart from "values are NUL-free" and "a bare name is a Cypher bare name"):
every formatter text leaves the lexer in no open token, and the text after a position cannot extend that position. -/
theorem statement_tokens (segs : List Seg) (h : wfSegs segs = true) : lex (renderSegs segs) = toksOfSegs segs :=
  lex_renderSegs segs h

/-- the benign-twin clause: two statements with the same formatter text and the same kinds of positions have token
lists that agree everywhere except in the value of the position tokens -/
def sameSkeleton : List Seg → List Seg → Bool
  | [], [] => true
  | .text a :: as, .text b :: bs => a == b && sameSkeleton as bs
  | .lit _ :: as, .lit _ :: bs => sameSkeleton as bs
  | .bare _ :: as, .bare _ :: bs => sameSkeleton as bs
  | .bt _ :: as, .bt _ :: bs => sameSkeleton as bs
  | _, _ => false

def eraseValue : Tok → Tok
  | .str _ => .str []
  | .word _ => .word []
  | .qident _ => .qident []
  | t => t

def skeletonToks : List Seg → List (Tok ⊕ Tok)   -- inl = formatter token (kept), inr = position token (value erased)
  | [] => []
  | .text t :: rest => (run .top t).1.map Sum.inl ++ skeletonToks rest
  | s :: rest => s.toks.map (fun t => Sum.inr (eraseValue t)) ++ skeletonToks rest

theorem skeleton_eq (a b : List Seg) (h : sameSkeleton a b = true) : skeletonToks a = skeletonToks b := by
  induction a generalizing b with
  | nil => cases b <;> simp_all [sameSkeleton]
  | cons x xs ih =>
    cases b with
    | nil => cases x <;> simp [sameSkeleton] at h
    | cons y ys =>
      cases x <;> cases y <;> simp [sameSkeleton] at h
      · simp [skeletonToks, h.1, ih ys h.2]
      · simp [skeletonToks, Seg.toks, eraseValue, ih ys h]
      · simp [skeletonToks, Seg.toks, eraseValue, ih ys h]
      · simp [skeletonToks, Seg.toks, eraseValue, ih ys h]

/-- hostile and benign twin: same formatter tokens in the same places, one token per position in both -/
theorem statement_twin_tokens (a b : List Seg) (ha : wfSegs a = true) (hb : wfSegs b = true) (h : sameSkeleton a b = true) :
    lex (renderSegs a) = toksOfSegs a ∧ lex (renderSegs b) = toksOfSegs b ∧ skeletonToks a = skeletonToks b :=
  ⟨lex_renderSegs a ha, lex_renderSegs b hb, skeleton_eq a b h⟩

/-! ## non-vacuity: the hypotheses are satisfiable on the text the formatter really writes -/

-- a hostile value in the WHERE position of real emitted SQL
example : lex ("(n0.properties ->> 'name') = ".toList ++ pgQuote "it's; drop table node; --".toList ++ "))".toList)
    = [.punct '(', .word "n0".toList, .punct '.', .word "properties".toList, .op "->>".toList, .str "name".toList,
       .punct ')', .op ['='], .str "it's; drop table node; --".toList, .punct ')', .punct ')'] := by decide
example : Clean "(n0.properties ->> 'name') = ".toList := by decide
example : Clean "select ((s0.n0).properties -> 'name') as ".toList := by decide
example : contQuote "))) select s0.n0 as n from s0;".toList = false := by decide
example : contQuote ", 'z']::text[]".toList = false := by decide
example : identFollow " from s0;".toList = true := by decide
example : identFollow ", x".toList = true ∧ identFollow ")".toList = true ∧ identFollow ";".toList = true ∧ identFollow ".id".toList = true := by decide
example : identSafe "zq_benign1".toList = true := by decide
example : identSafe "select".toList = false := by decide
-- the continuation guard is needed: a newline between two constants merges them (SQL standard)
example : lex ("'a'\n'b'".toList) = [.str "ab".toList] := by decide
example : contQuote "\n'b'".toList = true := by decide
-- a `--` comment ends at a carriage return as well as at a line feed (scan.l `newline [\\n\\r]`): text after a bare \\r is SQL
example : lex ("-- match (n) where n.name = 'x\rdelete from node; --' return n\nselect 1;".toList) =
    [.word "delete".toList, .word "from".toList, .word "node".toList, .punct ';', .word "select".toList, .num ['1'], .punct ';'] := by decide
example : lex ("-- match (n) where n.name = 'x\n-- delete from node; --' return n\nselect 1;".toList) =
    [.word "select".toList, .num ['1'], .punct ';'] := by decide
-- the other quoting forms of scan.l are token classes of their own and never arise from `pgQuote` in a clean context
example : lex "U&'d\\0061t' u&\"a\"\"b\" E'a\\'b' $t$x'$t$ x'1f' /* a /* b */ c */ 1".toList =
    [.ustr "d\\0061t".toList, .uident "a\"b".toList, .estr "a\\'b".toList, .dollar ['t'] "x'".toList, .bstr "1f".toList, .num ['1']] := by decide
example : lex "u & 'a' u&x".toList = [.word ['u'], .op ['&'], .str ['a'], .word ['u'], .op ['&'], .word ['x']] := by decide
-- the header of a text with a bare carriage return inside a back-ticked key, for both option values
example : String.ofList (commentHeader "match (n) where n.`a\rdelete from node; --` = $STRIPPED return n".toList true) =
    "-- match (n) where n.`a\n-- delete from node; --` = $STRIPPED return n\n" := by decide
example : lex (commentHeader "x\u2028y\x0bz\x0c\u0085w\r\nq".toList false ++ "select 1;".toList) = lex "select 1;".toList := by decide
example : linesCommented .start "-- a\rdelete from node; --\nselect 1;".toList = false := by decide
-- numbers: the hypotheses are satisfiable, and the 32-bit digits of a double do not read back as the double
example : GoShortestRoundTrips64 4593560419846153055 "123456789".toList 0 :=   -- 0.123456789
  ⟨by decide, by decide, by decide⟩
example : String.ofList (renderF "123456789".toList 0) = "0.123456789" ∧ String.ofList (renderF "1".toList 22) = "1000000000000000000000"
    ∧ String.ofList (renderF "1".toList (-6)) = "0.0000001" ∧ String.ofList (renderF [] 0) = "0" := by decide
example : nearestF64Bits (decValue "0.12345679".toList) ≠ nearestF64Bits (decValue "0.123456789".toList) := by decide
example : nearestF64Bits (decValue "16777216".toList) ≠ nearestF64Bits (decValue "16777217".toList) := by decide
example : nearestF64Bits (decValue "0.3".toList) ≠ nearestF64Bits (decValue "0.30000000000000004".toList) := by decide
example : nearestF64Bits (ratOf 5 (-324)) = 1 ∧ nearestF64Bits (ratOf 17976931348623157 292) = 0x7FEFFFFFFFFFFFFF := by decide +kernel
-- a real emitted statement with three user positions (key, back-ticked alias, literal): wfSegs holds, tokens as stated
example : wfSegs [.text "select ((s0.n0).properties -> ".toList, .lit "k'1".toList, .text ") as ".toList, .bt "x; drop table node; --".toList,
    .text " from s0 where (n0.properties ->> 'name') = ".toList, .lit "it's".toList, .text ";".toList] = true := by decide
example : String.ofList (renderSegs [.text "select 1 as ".toList, .bare "total".toList, .text ", ".toList, .lit "a'b".toList, .text " as ".toList, .bt "x y".toList, .text ";".toList])
    = "select 1 as total, 'a''b' as \"x y\";" := by decide
-- the NUL guard is needed: the server's view of the text ends at the NUL
example : lex (pgQuote ['a', NUL, 'b'] ++ " x".toList) = [.err "unterminated quoted string", .nul] := by decide
-- decoder: accepted and rejected tokens
example : decode "'it\\'s \\\\ \\n'".toList = .ok "it's \\ \n".toList := by decide
example : decode "'a\\u0041'".toList = .error .invalidEscape := by decide
example : decode "'a\\'".toList = .error .dangling := by decide
example : decode "'a\"".toList = .error .badQuotes := by decide
example : Denotes "\"a'b\"".toList "a'b".toList :=
  ⟨'"', "a'b".toList, Or.inr rfl, by decide, .lit _ _ _ (by decide) (.lit _ _ _ (by decide) (.lit _ _ _ (by decide) .nil))⟩
-- nested SQL: a real pair-filter fragment
set_option maxRecDepth 8192 in
example : Clean "insert into traversal_pair_filter (root_id, terminal_id) select distinct n1.id from node n1 where (n1.properties ->> 'name') = ".toList := by
  decide
example : lex (emitIdent "`x; drop table node; --`".toList ++ " from s0;".toList) =
    [.qident "x; drop table node; --".toList, .word "from".toList, .word "s0".toList, .punct ';'] := by decide
example : String.ofList (emitIdent "`a``b\"c`".toList) = "\"a`b\"\"c\"" := by decide
example : emitIdent "UserCount".toList = "UserCount".toList := by decide
example : cypherBare "zq_benign1$".toList = true := by decide
example : SymbolOf f9Name (escapeKeyBt f9Name) := .bt _
example : Clean "interval ".toList := by decide

end Dawgs.C04.Props
