/-
C04 — user-controlled text cannot change the token structure of emitted SQL.
ONLY property statements at full strength, the refutation of the part that is false for the code as it
is (identifiers are written verbatim), what holds instead (`_partial`) and what holds for the repaired
emitter (`_fixed`), plus non-vacuity examples. Lemmas: `Dawgs/Proofs/C04.lean`; model: `Dawgs/Model/C04.lean`.

Guard used everywhere: the user text is NUL-free. The real code rejects nothing (neither `formatValue` nor
`decodeCypherStringLiteral` looks for NUL); `properties.jsonl` quantifies over NUL-free text, and a NUL
ends the query text as the server sees it (model: token `nul`, see the example at the end).
-/
import Dawgs.Proofs.C04
namespace Dawgs.C04.Props
open Dawgs.C04

/-! ## the formatter's writes, per user-text position -/

/-- text written by the formatter around a user value; `Clean` = the text before the value leaves the
lexer in no open token (true of everything `format.go` writes before a literal / identifier: it ends in
a space, `(`, `[`, `, `, an operator followed by a space …) -/
abbrev Clean (pre : Str) : Prop := (run .top pre).2 = .top

/-- the contexts in which `format.go` writes a property / map key as a literal: right operand of
`->`, `->>`, `?` (`BinaryExpression`: LOperand, " ", operator, " ", ROperand), first/odd argument of
`jsonb_build_object(` and element of `array [` (`FunctionCall` / `ArrayLiteral`: "(" , ", ", "array [") -/
def keyContexts : List Str :=
  [" -> ".toList, " ->> ".toList, " ? ".toList, "jsonb_build_object(".toList, ", ".toList, "array [".toList]

/-! ## 1. string values -/

/-- For EVERY NUL-free string `s` (no length bound) and every continuation `r` that does not re-open the
constant (`r` does not start with a quote and is not white space containing a newline followed by a
quote — `contQuote`), the text `formatValue` writes lexes as exactly one string constant whose value is `s`. -/
theorem pgQuote_single_token (s r : Str) (hs : NUL ∉ s) (hr : contQuote r = false) :
    lex (pgQuote s ++ r) = Tok.str s :: lex r :=
  lex_pgQuote s r hs hr

/-- the same after any clean prefix: the tokens before are those of the prefix, the tokens after those of the rest -/
theorem pgQuote_in_context (pre s post : Str) (hpre : Clean pre) (hs : NUL ∉ s) (hpost : contQuote post = false) :
    lex (pre ++ pgQuote s ++ post) = (run .top pre).1 ++ Tok.str s :: lex post :=
  lit_in_context pre s post hpre hs hpost

/-- token structure is independent of the value -/
theorem pgQuote_shape_independent (pre s s' post : Str) (hpre : Clean pre) (hs : NUL ∉ s) (hs' : NUL ∉ s')
    (hpost : contQuote post = false) :
    shape (lex (pre ++ pgQuote s ++ post)) = shape (lex (pre ++ pgQuote s' ++ post)) := by
  rw [lit_in_context pre s post hpre hs hpost, lit_in_context pre s' post hpre hs' hpost]
  simp [shape_append, shape_str_cons]

/-! ## 2. Cypher string literals -/

/-- `NewStringLiteral` followed by `decodeCypherStringLiteral` is the identity, for all strings -/
theorem decode_encode (s : Str) : decode (encode s) = .ok s := decode_encode_aux s

/-- the decoder succeeds exactly on the literal tokens that denote a string (independent inductive
definition `Denotes`: matching quotes, every backslash followed by one of `\ ' " b f n r t` in either
case) and then returns the denoted string -/
theorem decode_correct (raw v : Str) : decode raw = .ok v ↔ Denotes raw v := decode_iff raw v

/-- total: every token is either decoded to the string it denotes, or rejected with an error and denotes nothing -/
theorem decode_total_or_error (raw : Str) :
    (∃ v, decode raw = .ok v ∧ Denotes raw v) ∨ (∃ e, decode raw = .error e ∧ ¬ ∃ v, Denotes raw v) := by
  cases h : decode raw with
  | ok v => exact Or.inl ⟨v, rfl, (decode_iff raw v).1 h⟩
  | error e =>
    refine Or.inr ⟨e, rfl, ?_⟩
    rintro ⟨v, hv⟩
    rw [(decode_iff raw v).2 hv] at h
    cases h

/-- Cypher literal token → decode → pgQuote → PostgreSQL lexer gives back exactly the denoted string, as
one string constant, whatever surrounds it -/
theorem literal_pipeline (raw v pre post : Str) (hd : Denotes raw v) (hv : NUL ∉ v) (hpre : Clean pre)
    (hpost : contQuote post = false) :
    ∃ w, decode raw = .ok w ∧ lex (pre ++ pgQuote w ++ post) = (run .top pre).1 ++ Tok.str v :: lex post :=
  ⟨v, (decode_iff raw v).2 hd, lit_in_context pre v post hpre hv hpost⟩

/-- the builder path: a Go string `s` wrapped by `NewStringLiteral` reaches the server as the constant `s` -/
theorem builder_pipeline (s pre post : Str) (hs : NUL ∉ s) (hpre : Clean pre) (hpost : contQuote post = false) :
    ∃ w, decode (encode s) = .ok w ∧ lex (pre ++ pgQuote w ++ post) = (run .top pre).1 ++ Tok.str s :: lex post :=
  ⟨s, decode_encode_aux s, lit_in_context pre s post hpre hs hpost⟩

/-- STARTS WITH / ENDS WITH / CONTAINS operands are rewritten by `rewriteStringWildCardLiteral` before they are
quoted; as a LIKE pattern the rewritten text matches exactly the denoted string, for all strings (so the value
read back in these positions is the denoted one wrapped in `%`). The same rewrite applied to a `=~` operand is
a defect (finding `C04:regex_operand:like-escaped-value`): a regular expression gives `\\` another meaning. -/
theorem like_escape_literal (s : Str) : likeLiteral (likeEsc s) = some s := likeLiteral_likeEsc s

/-! ## 3. property keys and map keys -/

/-- `UnescapePropertyKeyName` inverts the back-tick form of `EscapePropertyKeyName`, for all names -/
theorem key_unescape_escape (s : Str) : unescapeKey (escapeKeyBt s) = s := unescapeKey_escapeKeyBt_aux s

/-- in every position where the formatter writes a key, the key is one string constant with the key as value -/
theorem jsonb_key_quoting (ctx : Str) (hctx : ctx ∈ keyContexts) (pre k post : Str) (hpre : Clean pre)
    (hk : NUL ∉ k) (hpost : contQuote post = false) :
    lex (pre ++ ctx ++ pgQuote k ++ post) = (run .top (pre ++ ctx)).1 ++ Tok.str k :: lex post := by
  have hclean : Clean (pre ++ ctx) := by
    unfold Clean at *
    rw [run_append, hpre]
    show (run Mode.top ctx).2 = Mode.top
    simp only [keyContexts, List.mem_cons, List.not_mem_nil, or_false] at hctx
    rcases hctx with h | h | h | h | h | h <;> subst h <;> decide
  exact lit_in_context (pre ++ ctx) k post hclean hk hpost

/-! ## 4. SQL passed as text to the traversal functions -/

/-- Two mechanisms exist in `expansion.go`. (a) `shortestPathsParameters` / `bidirectionalAllShortestPathsParameters`:
the inner statement is formatted with `WithMaterializedParameters` and stored in `Result.Parameters`; the
outer SQL only contains `@piN::text` — a BOUND parameter, so the outer text does not depend on the value at
all. (b) `boundEndpointFilterParameters`: the inner statement becomes `pgsql.NewLiteral(inner, Text)`, i.e.
it is `pgQuote`d again into the outer text. In both, a user value inside the inner statement was written by
the same `formatValue`. Statement: for NUL-free inner context and value,
(a) the inner SQL has exactly one constant with value `v` where the value was written and its token
    structure does not depend on `v`;
(b) the outer SQL has exactly one constant whose value is the whole inner SQL, and (a) holds for it. -/
theorem nested_sql_param_bound (ipre ipost opre opost v v' : Str)
    (hipre : Clean ipre) (hipost : contQuote ipost = false) (hopre : Clean opre) (hopost : contQuote opost = false)
    (h1 : NUL ∉ ipre) (h2 : NUL ∉ ipost) (hv : NUL ∉ v) (hv' : NUL ∉ v') :
    let inner := fun (x : Str) => ipre ++ pgQuote x ++ ipost
    lex (inner v) = (run .top ipre).1 ++ Tok.str v :: lex ipost
    ∧ shape (lex (inner v)) = shape (lex (inner v'))
    ∧ lex (opre ++ pgQuote (inner v) ++ opost) = (run .top opre).1 ++ Tok.str (inner v) :: lex opost
    ∧ shape (lex (opre ++ pgQuote (inner v) ++ opost)) = shape (lex (opre ++ pgQuote (inner v') ++ opost)) := by
  intro inner
  have hin : ∀ x, NUL ∉ x → NUL ∉ inner x := by
    intro x hx hm
    simp only [inner, List.mem_append] at hm
    rcases hm with (hm | hm) | hm
    · exact h1 hm
    · exact nul_not_mem_pgQuote x hx hm
    · exact h2 hm
  refine ⟨lit_in_context ipre v ipost hipre hv hipost, ?_, lit_in_context opre _ opost hopre (hin v hv) hopost, ?_⟩
  · exact pgQuote_shape_independent ipre v v' ipost hipre hv hv' hipost
  · exact pgQuote_shape_independent opre _ _ opost hopre (hin v hv) (hin v' hv') hopost

/-! ## 5. identifiers (variable names, result aliases) -/

/-- the symbol of a Cypher variable / alias as the frontend stores it (`ctx.GetText()`): the back-ticked
form keeps its back-ticks -/
def btSymbol (name : Str) : Str := escapeKeyBt name

/-- the statement of `properties.jsonl` for identifiers, at full strength: whatever name an accepted query
gives to a variable or result alias (written bare or back-ticked), the formatter's output is one identifier
token whose value is the name, in any clean context. -/
def IdentFull (emit : Str → Str) : Prop :=
  ∀ (name pre post : Str), name ≠ [] → NUL ∉ name → Clean pre → post = [] ∨ post = " from s0;".toList →
    ∃ t, (t = Tok.word name ∨ t = Tok.qident name) ∧ lex (pre ++ emit name ++ post) = (run .top pre).1 ++ t :: lex post

/-- F9: the code writes the stored symbol verbatim (`emitIdent`), and for a name that needs back-ticks the
stored symbol is the back-ticked token. Witness: RETURN n.name AS `x; drop table node; --`. -/
def f9Name : Str := "x; drop table node; --".toList

theorem identifier_verbatim_unsafe : ¬ IdentFull (fun name => emitIdent (btSymbol name)) := by
  intro h
  obtain ⟨t, ht, hl⟩ := h f9Name "select 1 as ".toList [] (by decide) (by decide) (by decide) (Or.inl rfl)
  rcases ht with rfl | rfl <;> revert hl <;> decide

/-- the same witness written without back-ticks cannot occur (it is not a Cypher symbolic name), but even
the verbatim text of the bare statement is refuted: this is the token list the server would see -/
example : lex ("select 1 as `x; drop table node; --` from s0;".toList) =
    [.word "select".toList, .num ['1'], .word "as".toList, .op ['`'], .word ['x'], .punct ';',
     .word "drop".toList, .word "table".toList, .word "node".toList, .punct ';'] := by decide

/-- what holds for the code as it is: a name matching `[A-Za-z_][A-Za-z0-9_]*` (minus reserved key words,
which the lexer does not distinguish but the parser does) written verbatim is exactly one identifier token
with that text, provided the formatter continues with something that is neither an identifier character
nor a quote (`identFollow`: it writes " ", ",", ")", ";" or stops). The server folds the token to lower
case (`pgFold`), so the name read back equals the Cypher name only for names without upper-case letters. -/
theorem identifier_partial (name pre post : Str) (hn : identSafe name = true) (hpre : Clean pre)
    (hpost : identFollow post = true) :
    lex (pre ++ emitIdent name ++ post) = (run .top pre).1 ++ Tok.word name :: lex post :=
  ident_in_context pre name post hpre hn hpost

/-- the repaired emitter (`"` + name with `"` doubled + `"`) satisfies the full statement for every name -/
theorem identifier_fixed_token (name pre post : Str) (hn : NUL ∉ name) (hpre : Clean pre) (hpost : contDQ post = false) :
    lex (pre ++ qQuote name ++ post) = (run .top pre).1 ++ Tok.qident name :: lex post :=
  qident_in_context pre name post hpre hn hpost

theorem identifier_fixed : IdentFull qQuote := by
  intro name pre post _ hn hpre hpost
  refine ⟨Tok.qident name, Or.inr rfl, qident_in_context pre name post hpre hn ?_⟩
  rcases hpost with rfl | rfl <;> decide

/-! ## 6. the driver's lexer is the proved one -/

theorem lexFast_eq_lex (s : Str) : lexFast s = lex s := lexFast_eq s

/-! ## the property -/

/-- literals, keys, inlined parameter values and nested SQL: everything written through `formatValue` -/
def ValuesSafe : Prop :=
  (∀ (pre s post : Str), Clean pre → NUL ∉ s → contQuote post = false →
      lex (pre ++ pgQuote s ++ post) = (run .top pre).1 ++ Tok.str s :: lex post)
  ∧ (∀ raw v : Str, decode raw = .ok v ↔ Denotes raw v)
  ∧ (∀ s : Str, decode (encode s) = .ok s)
  ∧ (∀ s : Str, unescapeKey (escapeKeyBt s) = s)

/-- C04 at the strength of `properties.jsonl` for the code as it is: values AND identifiers -/
def C04_full : Prop := ValuesSafe ∧ IdentFull (fun name => emitIdent (btSymbol name))

/-- what holds for the code as it is -/
def C04_partial : Prop :=
  ValuesSafe ∧
  (∀ (name pre post : Str), identSafe name = true → Clean pre → identFollow post = true →
      lex (pre ++ emitIdent name ++ post) = (run .top pre).1 ++ Tok.word name :: lex post)

/-- the full statement with the identifier emitter repaired -/
def C04_fixed : Prop := ValuesSafe ∧ IdentFull qQuote

theorem values_safe : ValuesSafe :=
  ⟨fun pre s post h1 h2 h3 => lit_in_context pre s post h1 h2 h3, decode_iff, decode_encode_aux, unescapeKey_escapeKeyBt_aux⟩

theorem c04_full_refuted : ¬ C04_full := fun h => identifier_verbatim_unsafe h.2

theorem c04_partial : C04_partial :=
  ⟨values_safe, fun name pre post hn hpre hpost => ident_in_context pre name post hpre hn hpost⟩

theorem c04_fixed : C04_fixed := ⟨values_safe, identifier_fixed⟩

/-! ## non-vacuity: the hypotheses are satisfiable on the text the formatter really writes -/

-- a hostile value in the WHERE position of real emitted SQL
example : lex ("(n0.properties ->> 'name') = ".toList ++ pgQuote "it's; drop table node; --".toList ++ "))".toList)
    = [.punct '(', .word "n0".toList, .punct '.', .word "properties".toList, .op "->>".toList, .str "name".toList,
       .punct ')', .op ['='], .str "it's; drop table node; --".toList, .punct ')', .punct ')'] := by decide
example : Clean "(n0.properties ->> 'name') = ".toList := by decide
example : Clean "select ((s0.n0).properties -> 'name') as ".toList := by decide
example : contQuote "))) select s0.n0 as n from s0;".toList = false := by decide
example : contQuote ", 'z']::text[]".toList = false := by decide
example : identFollow " from s0;".toList = true := by decide
example : identSafe "zq_benign1".toList = true := by decide
example : identSafe "select".toList = false := by decide
-- the continuation guard is needed: a newline between two constants merges them (SQL standard)
example : lex ("'a'\n'b'".toList) = [.str "ab".toList] := by decide
example : contQuote "\n'b'".toList = true := by decide
-- the NUL guard is needed: the server's view of the text ends at the NUL
example : lex (pgQuote ['a', NUL, 'b'] ++ " x".toList) = [.err "unterminated quoted string", .nul] := by decide
-- decoder: accepted and rejected tokens
example : decode "'it\\'s \\\\ \\n'".toList = .ok "it's \\ \n".toList := by decide
example : decode "'a\\u0041'".toList = .error .invalidEscape := by decide
example : decode "'a\\'".toList = .error .dangling := by decide
example : decode "'a\"".toList = .error .badQuotes := by decide
example : Denotes "\"a'b\"".toList "a'b".toList :=
  ⟨'"', "a'b".toList, Or.inr rfl, by decide, .lit _ _ _ (by decide) (.lit _ _ _ (by decide) (.lit _ _ _ (by decide) .nil))⟩
-- nested SQL: a real pair-filter fragment
set_option maxRecDepth 8192 in
example : Clean "insert into traversal_pair_filter (root_id, terminal_id) select distinct n1.id from node n1 where (n1.properties ->> 'name') = ".toList := by
  decide
example : lex (qQuote "x; drop table node; --".toList ++ " from s0;".toList) =
    [.qident "x; drop table node; --".toList, .word "from".toList, .word "s0".toList, .punct ';'] := by decide

end Dawgs.C04.Props
