/-
C20 — corrupt, tampered or hostile dump input is rejected before it can do harm.
ONLY property statements and non-vacuity examples live here; lemmas are in Proofs/C20.lean, the models in
Model/C20.lean, the acceptors in Spec/C20.lean, the source-order facts in Tie/C20.lean.

Reading of "no harm": (a) no node / relationship write before an integrity failure is reported, (b) nothing
created or overwritten outside the output directory, (c) no partial output left in the destination on
failure, (d) an encrypted archive opens only with the matching key.

Clause (c) FAILED for plain `UnpackTar` (finding F11, repaired: `UnpackTarWithOptions` now stages and promotes;
the live model `unpackPlain` is the staged protocol, `unpack_plain_fixed` is the live clause-(c) theorem for
it, and `unpack_plain_partial_output_old` keeps the refutation for the old unstaged definition) and still
fails for the direct `UnpackEncryptedCollectionArchive` (reproduced on the real code by the `c20` suite):
the model reproduces it, `c20_full_refuted` refutes the full statement by that witness, `c20_fixed` proves it
with the staged variant in its place, `c20_partial` states what holds now.
-/
import Dawgs.Proofs.C20
namespace Dawgs.C20.Props
open Dawgs.C20

/-! ## (b) entry names: `sanitizeArchivePath` with Go's `path.Clean`, for ALL strings -/

/-- The model of Go's `path.Clean`, for ALL strings (rooted or not, with `..`, `.`, repeated and trailing
slashes): the result is never empty; its component list is a block of `..` (empty when the path is rooted:
a rooted path never climbs above `/`) followed by ordinary components only — none empty, none `.`, no `..`
after an ordinary component, no separator inside; and `Clean` is idempotent (the documented contract:
the result is the shortest equivalent path and is itself clean). Compared with the real `path.Clean` and
`filepath.Join` on every generated name by the `c20path` suite. -/
theorem clean_spec (s : Str) :
    pathClean s ≠ [] ∧ pathClean (pathClean s) = pathClean s ∧
    ∃ n ns, cleanComps (isAbs s) (splitSlash s) = List.replicate n dotdot ++ ns ∧
      (∀ c ∈ ns, c ≠ [] ∧ c ≠ dot ∧ c ≠ dotdot ∧ '/' ∉ c) ∧ (isAbs s = true → n = 0) := by
  refine ⟨?_, pathClean_idempotent s, ?_⟩
  · unfold pathClean
    split
    · decide
    · split
      · simp
      · split
        · decide
        · rename_i hne
          exact joinSlash_ne_nil hne (cleanComps_nonempty false _)
  · obtain ⟨n, ns, hL, hns, hr⟩ := cleanComps_shape (isAbs s) (splitSlash s)
    refine ⟨n, ns, hL, ?_, hr⟩
    intro c hc
    have hm : c ∈ cleanComps (isAbs s) (splitSlash s) := by rw [hL]; exact List.mem_append_right _ hc
    exact ⟨(hns c hc).1, (hns c hc).2.1, (hns c hc).2.2, cleanComps_noslash _ s c hm⟩

/-- Whatever `sanitizeArchivePath` accepts — for every string `n` whatsoever (absolute, `C:` volume,
backslash, `..`, `./`, trailing slash, white space, NUL, any Unicode) — is non-empty, relative, free of
backslashes, has only ordinary components (none empty, none `.`, none `..`), and joined to ANY absolute
output directory it is literally `Clean(out) + "/" + p`: it names something strictly inside `out`. -/
theorem sanitize_safe (n p : Str) (h : sanitize n = .ok p) :
    p ≠ [] ∧ isAbs p = false ∧ '\\' ∉ p ∧
    (∀ c ∈ splitSlash p, c ≠ [] ∧ c ≠ dot ∧ c ≠ dotdot) ∧
    (∀ out, isAbs out = true → joinOut out p = joinUnder (pathClean out) p) ∧
    acceptPath (.ok p) = true := by
  obtain ⟨K, hne, hK, hp, _⟩ := sanitize_ok_struct h
  have hN : ∀ c ∈ K, Normal c := fun c hc => (hK c hc).1
  have hsplit : splitSlash p = K := by rw [hp]; exact splitSlash_of_normals hne hN
  have h1 : p ≠ [] := by rw [hp]; exact joinSlash_ne_nil hne (fun c hc => (hN c hc).1)
  have h2 : isAbs p = false := by
    cases K with
    | nil => exact absurd rfl hne
    | cons a t =>
      have ha := hN a (List.mem_cons_self ..)
      cases a with
      | nil => exact absurd rfl ha.1
      | cons c r =>
        obtain ⟨r', hr⟩ := joinSlash_head (a := c :: r) (t := t) rfl
        rw [hp, hr, isAbs_cons]
        have : c ≠ '/' := fun e => ha.2.2.2 (e ▸ List.mem_cons_self ..)
        simp [this]
  have h3 : '\\' ∉ p := by
    intro hm
    rw [hp] at hm
    rcases mem_joinSlash hm with e | ⟨c, hc, hx⟩
    · cases e
    · exact (hK c hc).2 hx
  have h4 : ∀ c ∈ splitSlash p, c ≠ [] ∧ c ≠ dot ∧ c ≠ dotdot := by
    rw [hsplit]; intro c hc; exact ⟨(hN c hc).1, (hN c hc).2.1, (hN c hc).2.2.1⟩
  have h5 : ∀ out, isAbs out = true → joinOut out p = joinUnder (pathClean out) p := by
    intro out ho; rw [hp]; exact joinOut_normals ho hne hN
  refine ⟨h1, h2, h3, h4, h5, ?_⟩
  have hsafe : safeRel p = true := by
    unfold safeRel
    simp only [Bool.and_eq_true, decide_eq_true_eq, Bool.not_eq_true', List.all_eq_true]
    refine ⟨⟨⟨h1, h2⟩, ?_⟩, ?_⟩
    · rw [hsplit]
      intro c hc
      have := hN c hc
      unfold normalComp
      simp [this.1, this.2.1, this.2.2.1, this.2.2.2]
    · simpa using h3
  unfold acceptPath
  simp only [Bool.and_eq_true]
  refine ⟨⟨hsafe, ?_⟩, ?_⟩
  · unfold staysUnder; simpa using h5 _ (by decide)
  · unfold staysUnder; simpa using h5 _ (by decide)

/-- The hostile classes are rejected unconditionally: an empty or all-white-space name, a backslash, an
absolute path, a `C:` volume prefix, or a `..` component anywhere (before cleaning: `./..`, `a/../..`)
never yields a path. -/
theorem sanitize_rejects (n : Str)
    (h : trimSpace n = [] ∨ '\\' ∈ trimSpace n ∨ isAbs (trimSpace n) = true ∨ hasVolume (trimSpace n) = true ∨
         dotdot ∈ splitSlash (trimSpace n)) :
    ∃ e, sanitize n = .error e := by
  unfold sanitize
  simp only
  split
  · exact ⟨_, rfl⟩
  · rename_i h1
    split
    · exact ⟨_, rfl⟩
    · rename_i h2
      split
      · exact ⟨_, rfl⟩
      · rename_i h3
        split
        · exact ⟨_, rfl⟩
        · rename_i h4
          exfalso
          rcases h with h | h | h | h | h
          · exact h1 h
          · exact h2 h
          · exact h3 (by simp [h])
          · exact h3 (by simp [h])
          · exact h4 h

/-! ## (b) the extraction loop over an arbitrary entry list -/

/-- Only regular files: every file present after the loop was there before or is the complete body of a
regular-typed entry (typeflag `'0'` or NUL) of the archive, stored under that entry's sanitised name —
never a link, device, fifo or directory entry, whatever the archive declares, and never a short body. -/
theorem extract_regular_only (refuse : Str → Bool) (out : Str) (items : List Item) (st : XState) :
    ∀ pb ∈ (extractLoop refuse out items st).st.fs, pb ∈ st.fs ∨ WrittenBy out items pb := by
  obtain ⟨added, hfs, hw, _⟩ := extractLoop_inv refuse out items st
  intro pb hpb
  rw [hfs] at hpb
  rcases List.mem_append.mp hpb with h | h
  · exact .inr (hw pb h)
  · exact .inl h

/-- No overwrite: existing files are kept untouched (the result extends the initial file system) and no
path is bound twice — `O_EXCL` refuses a path that exists, the `seen` set refuses a repeated name. -/
theorem extract_no_overwrite (refuse : Str → Bool) (out : Str) (items : List Item) (st : XState)
    (hnd : (keysOf st.fs).Nodup) :
    (∃ added, (extractLoop refuse out items st).st.fs = added ++ st.fs) ∧
    (keysOf (extractLoop refuse out items st).st.fs).Nodup := by
  obtain ⟨added, hfs, _, hn⟩ := extractLoop_inv refuse out items st
  exact ⟨⟨added, hfs⟩, by rw [hfs]; exact hn hnd⟩

/-- Confinement: every file the loop adds lies strictly inside the (absolute) output directory. -/
theorem extract_confined (refuse : Str → Bool) (out : Str) (items : List Item) (st : XState) (habs : isAbs out = true) :
    ∀ pb ∈ (extractLoop refuse out items st).st.fs, pb ∈ st.fs ∨
      ∃ rel, safeRel rel = true ∧ pb.1 = joinUnder (pathClean out) rel := by
  intro pb hpb
  rcases extract_regular_only refuse out items st pb hpb with h | ⟨e, rel, _, hs, hp, _⟩
  · exact .inl h
  · right
    have hsafe := sanitize_safe _ _ hs
    refine ⟨rel, ?_, ?_⟩
    · have := hsafe.2.2.2.2.2
      unfold acceptPath at this
      simp only [Bool.and_eq_true] at this
      exact this.1.1
    · rw [hp]; exact hsafe.2.2.2.2.1 out habs

/-! ## (d) the encrypted envelope over a symbolic ideal AEAD -/

/-- `frames_authentic`. Setting: the honest writer sealed ONE archive under key `k` (HPKE derives a fresh
key per archive): header hash `hh0`, chunks `chunks`. The adversary assembles any frame sequence and tail
and any header (the reader derives `hh` from the header bytes it was given); it does not know `k`, so every
ciphertext in the stream that is a valid sealing under `k` is one the honest writer produced (`hauth` —
ideal AEAD: no forgery). If the reader accepts, then the header hash is the written one and the stream is
EXACTLY the written frame sequence with nothing after it, and the plaintext is exactly the written chunks.
The AAD binds header hash, frame index and frame type; the final marker and the EOF check close the stream. -/
theorem frames_authentic {K H C : Type} (A : Aead K (Aad H) C) (hfree : Aead.Free A)
    (k : K) (hh0 : H) (chunks : List Bytes) (hh : H) (fs : List (Frame C)) (tail : Tail) (ps : List Bytes)
    (hauth : ∀ f ∈ fs, (∃ a p, f.ct = A.sealIt k a p) → f.ct ∈ cts (writeFrames A k hh0 chunks))
    (hacc : readFrames A k hh 0 fs tail = .ok ps) :
    hh = hh0 ∧ fs = writeFrames A k hh0 chunks ∧ tail = Tail.clean ∧ ps = chunks :=
  readFrames_exact A hfree k hh0 chunks fs 0 [] chunks hh tail ps rfl rfl hauth hacc

/-- Hence truncation, extension, reordering, duplication and cross-archive splicing are all rejected: any
stream built from honest ciphertexts of ANY archives (and anything not sealed under `k`) that differs from
the written stream in its frames, its tail or its header is refused. -/
theorem frames_tamper_rejected {K H C : Type} (A : Aead K (Aad H) C) (hfree : Aead.Free A)
    (k : K) (hh0 : H) (chunks : List Bytes) (hh : H) (fs : List (Frame C)) (tail : Tail)
    (hauth : ∀ f ∈ fs, (∃ a p, f.ct = A.sealIt k a p) → f.ct ∈ cts (writeFrames A k hh0 chunks))
    (hdiff : fs ≠ writeFrames A k hh0 chunks ∨ tail ≠ Tail.clean ∨ hh ≠ hh0) :
    ∃ e, readFrames A k hh 0 fs tail = .error e := by
  cases hr : readFrames A k hh 0 fs tail with
  | error e => exact ⟨e, rfl⟩
  | ok ps =>
    obtain ⟨h1, h2, h3, _⟩ := frames_authentic A hfree k hh0 chunks hh fs tail ps hauth hr
    rcases hdiff with h | h | h
    · exact absurd h2 h
    · exact absurd h3 h
    · exact absurd h1 h

/-- `wrong_key_rejected`: the written archive does not open under any other key, whatever header hash and
tail the reader is given (the first frame already fails to decrypt). -/
theorem wrong_key_rejected {K H C : Type} (A : Aead K (Aad H) C) (hfree : Aead.Free A)
    (k k' : K) (hk : k' ≠ k) (hh0 hh : H) (chunks : List Bytes) (tail : Tail) :
    ∃ e, readFrames A k' hh 0 (writeFrames A k hh0 chunks) tail = .error e := by
  cases hr : readFrames A k' hh 0 (writeFrames A k hh0 chunks) tail with
  | error e => exact ⟨e, rfl⟩
  | ok ps =>
    exfalso
    -- nothing in the stream is a sealing under k'
    have hauth : ∀ f ∈ writeFrames A k hh0 chunks, (∃ a p, f.ct = A.sealIt k' a p) →
        f.ct ∈ cts (writeFrames A k' hh0 []) := by
      intro f hf ⟨a, p, hc⟩
      have hm : f.ct ∈ cts (writeFrames A k hh0 chunks) := List.mem_map.mpr ⟨f, hf, rfl⟩
      unfold writeFrames at hm
      rcases mem_cts_writeFrom A k hh0 chunks 0 f.ct hm with ⟨j, q, _, hq⟩ | hq
      · rw [hc] at hq; exact absurd (hfree _ _ _ _ _ _ hq).1 hk
      · rw [hc] at hq; exact absurd (hfree _ _ _ _ _ _ hq).1 hk
    obtain ⟨_, h2, _, _⟩ := frames_authentic A hfree k' hh0 [] hh _ tail ps hauth hr
    -- the accepted stream would be k'-sealed, but its first ciphertext is k-sealed
    cases chunks with
    | nil =>
      simp [writeFrames, writeFrom] at h2
      exact hk (hfree _ _ _ _ _ _ h2).1.symm
    | cons c cs =>
      simp [writeFrames, writeFrom] at h2
      exact absurd h2.1.1 (by decide)

/-- The end-of-stream check over the `io.Reader` contract: whatever `(n, err)` a contract-abiding reader
returns for the one-byte probe — data and `io.EOF` together, a short read, `(0, nil)` — the verdict "clean end"
implies that NO byte is left in the stream; equivalently, any remaining byte is reported (as trailing data or as
a stream that did not end). `n` is examined before `err` (`Tie.read_sites_n_first`). -/
theorem eof_check_contract (rest : Bytes) (r : ReadRes) (hv : ValidRead rest 1 r) (h : requireEOF r = .clean) :
    rest = [] := by
  obtain ⟨hn, he⟩ := requireEOF_clean h
  have := hv.2.2 he
  exact List.eq_nil_of_length_eq_zero (by omega)

/-- ... and the order matters: a check that looks at `err` first accepts a stream with a byte left, on a reader
that returns its last byte together with `io.EOF` (`testing/iotest.DataErrReader`, HTTP bodies, decompressors). -/
theorem eof_check_err_first_unsound :
    ∃ (rest : Bytes) (r : ReadRes), rest ≠ [] ∧ ValidRead rest 1 r ∧ requireEOFErrFirst r = .clean :=
  ⟨[7], ⟨1, true⟩, by simp, by simp [ValidRead], by decide⟩

/-- `frames_authentic` whatever chunking the reader uses: if the envelope reader — with ANY contract-abiding
answer to its end-of-stream probe — accepts, then the stream is exactly the written one and nothing follows the
final frame. (The framing reads go through `io.ReadFull`, which is chunking-independent by its own contract.) -/
theorem frames_authentic_any_reader {K H C : Type} (A : Aead K (Aad H) C) (hfree : Aead.Free A)
    (k : K) (hh0 : H) (chunks : List Bytes) (hh : H) (fs : List (Frame C)) (tail : Tail) (ps : List Bytes)
    (probe : Probe) (hprobe : probe.Valid)
    (hauth : ∀ f ∈ fs, (∃ a p, f.ct = A.sealIt k a p) → f.ct ∈ cts (writeFrames A k hh0 chunks))
    (hacc : readFramesVia A k hh probe 0 fs tail = .ok ps) :
    hh = hh0 ∧ fs = writeFrames A k hh0 chunks ∧ tail = Tail.clean ∧ ps = chunks :=
  frames_authentic A hfree k hh0 chunks hh fs tail ps hauth (readFramesVia_accept A k hh probe hprobe fs 0 tail ps hacc)

/-- `zero_length_frame_rejected` (frame-level INSERTION): `ctLen` measures a ciphertext, every sealed ciphertext
carries the AEAD tag (`hseal`: at least `tagLen > 0` bytes — the writer never emits less). A frame whose
ciphertext is shorter than the tag — declared length 0, 1 … tagLen−1 — cannot open under any key or additional
data, so a stream that contains such a frame ANYWHERE (after the header, between frames, before the final frame,
of any frame type) is refused, through every contract-abiding reader: every frame, whatever its length, goes
through the AEAD before anything is accepted (`Tie.frame_no_accept_before_open`). -/
theorem zero_length_frame_rejected {K H C : Type} (A : Aead K (Aad H) C) (ctLen : C → Nat) (tagLen : Nat)
    (hseal : ∀ k a p, tagLen ≤ ctLen (A.sealIt k a p))
    (k : K) (hh : H) (probe : Probe) (hprobe : probe.Valid)
    (pre post : List (Frame C)) (f : Frame C) (hshort : ctLen f.ct < tagLen) (tail : Tail) :
    (∀ a, A.openIt k a f.ct = none) ∧
    ∃ e, readFramesVia A k hh probe 0 (pre ++ f :: post) tail = .error e := by
  have hnone : ∀ a, A.openIt k a f.ct = none := by
    intro a
    cases ho : A.openIt k a f.ct with
    | none => rfl
    | some p =>
      have := (A.openIt_iff k a f.ct p).mp ho
      have := hseal k a p
      rw [← ‹f.ct = A.sealIt k a p›] at this
      omega
  refine ⟨hnone, ?_⟩
  cases hr : readFramesVia A k hh probe 0 (pre ++ f :: post) tail with
  | error e => exact ⟨e, rfl⟩
  | ok ps =>
    exfalso
    obtain ⟨a, p, ho⟩ := readFramesVia_all_open A k hh probe hprobe _ 0 tail ps hr f (by simp)
    rw [hnone a] at ho
    cases ho

/-! ## (a) `Load`: verification of ALL fragments precedes every write -/

/-- `verify_before_write`: in the model of `Load` every `BatchOperation` comes after the successful
verification of ALL fragments of ALL graphs — each one present, with the manifest's length and digest,
decodable under the manifest's codec with the manifest's record count — and after manifest validation.
(That the Go function has this statement order is re-extracted every run: `Tie.load_order`.) -/
theorem verify_before_write {D R σ : Type} [DecidableEq D] (E : LoadEnv D R σ) (m : Man D) (dir : Dir)
    (pre post : List (Ev R)) (ev : Ev R) (htr : (load E m dir).trace = pre ++ ev :: post) (hb : ev.isBatch = true) :
    (∃ pre', pre = Ev.verifiedAll :: pre') ∧ m.validate E.emptySha = true ∧
    verifyGraphs E m.codec dir m.graphs = true ∧ ∀ f ∈ m.files, FragBound E m.codec dir f := by
  have hev : ev ∈ (load E m dir).trace := by rw [htr]; simp
  obtain ⟨hval, hver, _, rest, hrest⟩ := load_batch_implies E m dir ev hev hb
  refine ⟨?_, hval, hver, ?_⟩
  · rw [hrest] at htr
    cases pre with
    | nil =>
      simp at htr
      rw [← htr.1] at hb
      simp [Ev.isBatch] at hb
    | cons x pre' =>
      simp at htr
      exact ⟨pre', by rw [htr.1]⟩
  · intro f hf
    obtain ⟨g, hg, hfg⟩ := mem_files_iff.mp hf
    exact verifyGraphs_true hver g hg f hfg

/-- `fragment_mutation_rejected`: the manifest describes fragment `f` as it was written (`b`); the directory
now holds other bytes `b'` there (any substitution, truncation, extension, swap with another fragment) or
nothing. With a digest that is collision-free on these two inputs, `Load` fails and performs NO write. -/
theorem fragment_mutation_rejected {D R σ : Type} [DecidableEq D] (E : LoadEnv D R σ) (m : Man D) (dir' : Dir)
    (f : Frag D) (hf : f ∈ m.files) (b : Bytes) (hsha : E.hash b = f.sha)
    (hmut : dir'.get f.path = none ∨ ∃ b', dir'.get f.path = some b' ∧ b' ≠ b ∧ (E.hash b' = E.hash b → b' = b)) :
    (load E m dir').err.isSome = true ∧ ∀ ev ∈ (load E m dir').trace, ev.isBatch = false := by
  apply load_rejects_unbound E m dir' f hf
  rintro ⟨b2, recs, hget, _, hh, _⟩
  rcases hmut with h | ⟨b', hb', hne, hcf⟩
  · rw [h] at hget; cases hget
  · rw [hb'] at hget
    injection hget with e
    subst e
    exact hne (hcf (hh.trans hsha.symm))

/-- `manifest_edit_safe`: ANY tampered manifest `m'` (not only single-field edits) is refused before a write
as soon as one of its entries `f'` disagrees with the directory: a wrong record `count`, a wrong `sha256`,
a wrong `compressed_bytes`, a `path` that does not exist, a `compression` under which the bytes do not
decode (or an unknown codec), or graph totals that do not match the per-file counts. A `path` edited to
another existing file can only pass if that file has the very same bytes (collision-freeness) — harmless.
Fields the loader does not bind do not occur in the model of `Load` at all: `generated_at`,
`retriever_version`, `driver` (only the neo4j multi-graph refusal), `compression_level`, `scrub.*`,
`uncompressed_bytes`, `action_counts`, `warnings`, `metrics` (unless `VerifyMetrics`), schema kind lists;
the tie edits each of them and checks that the loaded graph equals the original. -/
theorem manifest_edit_safe {D R σ : Type} [DecidableEq D] (E : LoadEnv D R σ) (m' : Man D) (dir : Dir) :
    let rejected := (load E m' dir).err.isSome = true ∧ ∀ ev ∈ (load E m' dir).trace, ev.isBatch = false
    -- per-file fields
    (∀ f' ∈ m'.files, ∀ b, dir.get f'.path = some b →
        (∀ recs, E.decode m'.codec f'.phase b = some recs → (recs.length : Int) ≠ f'.count → rejected) ∧   -- count
        (E.hash b ≠ f'.sha → rejected) ∧                                                                  -- sha256
        ((b.length : Int) ≠ f'.cbytes → rejected) ∧                                                       -- compressed_bytes
        (E.decode m'.codec f'.phase b = none → rejected)) ∧                                               -- compression
    (∀ f' ∈ m'.files, dir.get f'.path = none → rejected) ∧                                                -- path (missing)
    (∀ f' ∈ m'.files, ∀ b b', dir.get f'.path = some b' → E.hash b = f'.sha → (E.hash b' = E.hash b → b' = b) →
        b' ≠ b → rejected) ∧                                                                              -- path (other file)
    (¬ (1 ≤ m'.codec ∧ m'.codec ≤ 3) → rejected) ∧                                                        -- unknown codec
    (m'.graphCount ≠ m'.graphs.length → rejected) ∧                                                       -- source.graph_count
    (∀ g ∈ m'.graphs, (g.nodeCount ≠ sumCounts .nodes g.files ∨ g.edgeCount ≠ sumCounts .edges g.files) → rejected) := by
  intro rejected
  have hb : ∀ f' ∈ m'.files, ¬ FragBound E m'.codec dir f' → rejected :=
    fun f' hf hn => load_rejects_unbound E m' dir f' hf hn
  have hv : m'.validate E.emptySha = false → rejected :=
    fun h => load_no_batch_of_fail E m' dir (.inl h)
  refine ⟨?_, ?_, ?_, ?_, ?_, ?_⟩
  · intro f' hf b hget
    refine ⟨?_, ?_, ?_, ?_⟩
    · intro recs hdec hne
      apply hb f' hf
      rintro ⟨b2, recs2, hg2, _, _, hd2, hc2⟩
      rw [hget] at hg2; injection hg2 with e; subst e
      rw [hdec] at hd2; injection hd2 with e; subst e
      exact hne hc2
    · intro hne
      apply hb f' hf
      rintro ⟨b2, _, hg2, _, hh2, _⟩
      rw [hget] at hg2; injection hg2 with e; subst e
      exact hne hh2
    · intro hne
      apply hb f' hf
      rintro ⟨b2, _, hg2, hl2, _⟩
      rw [hget] at hg2; injection hg2 with e; subst e
      exact hne hl2
    · intro hnone
      apply hb f' hf
      rintro ⟨b2, recs2, hg2, _, _, hd2, _⟩
      rw [hget] at hg2; injection hg2 with e; subst e
      rw [hnone] at hd2; cases hd2
  · intro f' hf hnone
    apply hb f' hf
    rintro ⟨b2, _, hg2, _⟩
    rw [hnone] at hg2; cases hg2
  · intro f' hf b b' hget hsha hcf hne
    apply hb f' hf
    rintro ⟨b2, _, hg2, _, hh2, _⟩
    rw [hget] at hg2; injection hg2 with e; subst e
    exact hne (hcf (hh2.trans hsha.symm))
  · intro hc
    apply hv
    unfold Man.validate
    simp [hc]
  · intro hc
    apply hv
    unfold Man.validate
    simp [hc]
  · intro g hg hc
    apply hv
    cases hval : m'.validate E.emptySha with
    | false => rfl
    | true =>
      exfalso
      unfold Man.validate at hval
      simp only [Bool.and_eq_true, List.all_eq_true] at hval
      have hgok := hval.2 g hg
      unfold graphOk at hgok
      simp only [Bool.and_eq_true, decide_eq_true_eq] at hgok
      rcases hc with h | h
      · exact h hgok.1.2
      · exact h hgok.2

/-- The consistent downward edit, spelled out: a tampered manifest in which a fragment's `count` was LOWERED
below the number of records the file really holds — together with `node_count` / `edge_count`, the metrics,
anything else, so that `Manifest.validate` passes — is refused by the verification pass, before any write.
(The model's preflight decodes the records and compares their number with `count` by `≠`, exactly as
`decodeNodeFragmentFile` / `decodeEdgeFragmentFile` do: `Tie.verify_comparisons`.) Raised counts likewise. -/
theorem count_edit_consistent_rejected {D R σ : Type} [DecidableEq D] (E : LoadEnv D R σ) (m' : Man D) (dir : Dir)
    (f' : Frag D) (hf : f' ∈ m'.files) (b : Bytes) (recs : List R) (hget : dir.get f'.path = some b)
    (hdec : E.decode m'.codec f'.phase b = some recs) (hcount : f'.count < recs.length ∨ (recs.length : Int) < f'.count) :
    (load E m' dir).err.isSome = true ∧ ∀ ev ∈ (load E m' dir).trace, ev.isBatch = false := by
  refine ((manifest_edit_safe E m' dir).1 f' hf b hget).1 recs hdec ?_
  rcases hcount with h | h <;> omega

/-- `manifest_decode_total_input`: `readManifest` consumes the WHOLE file. `parseValue` is any JSON value parser
that reads a prefix (`hprefix`: what follows the value does not change the value). If manifest.json decodes to
`m`, then the same file extended by `tail` decodes (to the same `m`) iff `tail` is JSON white space only — a stray
brace, a NUL, garbage text or a whole second document make `Load` fail with no write. (`json.Unmarshal` on the
whole byte slice: `Tie.json_decoders_total`.) -/
theorem manifest_decode_total_input {D R σ : Type} [DecidableEq D] (E : LoadEnv D R σ)
    (parseValue : Bytes → Option (Man D × Bytes))
    (hprefix : ∀ bs m rest tail, parseValue bs = some (m, rest) → parseValue (bs ++ tail) = some (m, rest ++ tail))
    (bs tail : Bytes) (m : Man D) (dir : Dir) (hdec : decodeWhole parseValue bs = some m) :
    (tail.all isJsonSpace = true → decodeWhole parseValue (bs ++ tail) = some m) ∧
    (tail.all isJsonSpace = false →
      decodeWhole parseValue (bs ++ tail) = none ∧
      (loadBytes E parseValue (bs ++ tail) dir).err = some .manifest ∧ (loadBytes E parseValue (bs ++ tail) dir).trace = []) := by
  unfold decodeWhole at hdec
  split at hdec
  · cases hdec
  · rename_i m0 rest hp
    split at hdec
    · rename_i hrest
      injection hdec with hm
      subst hm
      have hp' := hprefix bs m0 rest tail hp
      refine ⟨?_, ?_⟩
      · intro ht
        unfold decodeWhole
        rw [hp']
        simp [List.all_append, hrest, ht]
      · intro ht
        have hnone : decodeWhole parseValue (bs ++ tail) = none := by
          unfold decodeWhole
          rw [hp']
          simp [List.all_append, hrest, ht]
        refine ⟨hnone, ?_, ?_⟩ <;> simp [loadBytes, hnone]
    · cases hdec

/-- ids of the node records of ONE graph (all its fragments as they are in the directory) -/
def graphNodeIds {D σ : Type} (E : LoadEnv D IdRec σ) (codec : Nat) (dir : Dir) (g : GraphM D) : List Str :=
  nodeIdsOf (g.files.flatMap (recsOf E codec dir))

/-- `preflight_is_per_graph`: the record-level preflight resolves ids per graph — its resolver starts empty
for every graph (`Tie.verify_covers_all`: `newNodeIDResolver` is called inside the loop over graphs). If the
preflight accepts, then in EVERY graph both endpoints of every edge record are ids of node records of the
SAME graph; a node that exists only in an earlier or later graph of the collection does not count. Hence a
re-hashed fragment with a cross-graph or nowhere-existing endpoint is refused before any write
(`verify_before_write`), whatever the spelling of the ids (decimal, element id, UUID, zero padded). -/
theorem preflight_is_per_graph {D : Type} [DecidableEq D] (E : LoadEnv D IdRec (List Str))
    (hinit : E.init = []) (hcheck : E.check = idCheck) (codec : Nat) (dir : Dir) :
    ∀ (gs : List (GraphM D)), verifyGraphs E codec dir gs = true →
      ∀ g ∈ gs, ∀ f ∈ g.files, ∀ a b, IdRec.edge a b ∈ recsOf E codec dir f →
        a ∈ graphNodeIds E codec dir g ∧ b ∈ graphNodeIds E codec dir g := by
  intro gs
  induction gs with
  | nil => intro _ g hg; cases hg
  | cons x gs ih =>
    intro h g hg f hf a b hab
    unfold verifyGraphs at h
    split at h
    · cases h
    · rename_i s1 h1
      rcases List.mem_cons.mp hg with e | e
      · subst e
        obtain ⟨_, h2, h3⟩ := verifyFrags_id E hcheck codec dir g.files E.init s1 h1
        have := h3 f hf a b hab
        have inNodes : ∀ y ∈ s1, y ∈ graphNodeIds E codec dir g := by
          intro y hy
          rcases h2 y hy with h | h
          · rw [hinit] at h; cases h
          · exact h
        exact ⟨inNodes _ this.1, inNodes _ this.2⟩
      · exact ih h g e f hf a b hab

/-- `preflight_ids_unique`: if the preflight accepts, the source ids of the node records of every graph are
pairwise distinct (a node id repeated anywhere in the node fragments of ONE graph — same fragment or another —
is refused before any write); two graphs may use the same ids. Same hypotheses as `preflight_is_per_graph`. -/
theorem preflight_ids_unique {D : Type} [DecidableEq D] (E : LoadEnv D IdRec (List Str))
    (hinit : E.init = []) (hcheck : E.check = idCheck) (codec : Nat) (dir : Dir) :
    ∀ (gs : List (GraphM D)), verifyGraphs E codec dir gs = true → ∀ g ∈ gs, (graphNodeIds E codec dir g).Nodup := by
  intro gs
  induction gs with
  | nil => intro _ g hg; cases hg
  | cons x gs ih =>
    intro h g hg
    unfold verifyGraphs at h
    split at h
    · cases h
    · rename_i s1 h1
      rcases List.mem_cons.mp hg with e | e
      · subst e
        obtain ⟨heq, hnd⟩ := verifyFrags_ids_eq E hcheck codec dir g.files E.init s1 h1
        have := hnd (by rw [hinit]; exact List.nodup_nil)
        rw [heq, hinit, List.append_nil] at this
        unfold graphNodeIds
        unfold List.Nodup at this ⊢
        rw [List.pairwise_reverse] at this
        exact this.imp (fun h e => h e.symm)
      · exact ih h g e

/-- `extracted_collection_verified`: if `validateExtractedCollection` accepts (and the manifest validates, which
`readManifest` checks first), then for EVERY file entry of the manifest the extraction really tracked a file
under the manifest's own spelling of the path (no zero-value default, no skipped entry) and its compressed
size and digest are the manifest's — that is the very file `Load` will later read for this entry. A fragment
that does not match its digest cannot be promoted, however its path is spelled (a spelling that is not
already in sanitised form is simply refused). Source facts: `Tie.extracted_validation_keys`. -/
theorem extracted_collection_verified {D : Type} [DecidableEq D] (emptySha : D) (m : Man D) (files : Tracked D)
    (hval : m.validate emptySha = true) (hacc : validateExtracted emptySha m files = true) :
    ∀ f ∈ m.files, files.get f.path = some (f.cbytes, f.sha) := by
  intro f hf
  unfold validateExtracted at hacc
  split at hacc
  · cases hacc
  · simp only [Bool.and_eq_true, List.all_eq_true, decide_eq_true_eq] at hacc
    obtain ⟨h1, h2⟩ := hacc.2 f hf
    -- the manifest's digest is not the empty one, so the lookup did not fall back to the zero value
    have hsha : f.sha ≠ emptySha := by
      obtain ⟨g, hg, hfg⟩ := mem_files_iff.mp hf
      unfold Man.validate at hval
      simp only [Bool.and_eq_true, List.all_eq_true] at hval
      have hgok := hval.2 g hg
      unfold graphOk at hgok
      simp only [Bool.and_eq_true, List.all_eq_true] at hgok
      have := hgok.1.1.1.2 f hfg
      unfold fragOk at this
      simp only [Bool.and_eq_true, decide_eq_true_eq] at this
      exact this.2
    cases hget : files.get f.path with
    | none =>
      rw [hget] at h2
      exact absurd h2.symm hsha
    | some e =>
      rw [hget] at h1 h2
      simp only [Option.getD_some] at h1 h2
      obtain ⟨e1, e2⟩ := e
      simp only at h1 h2
      rw [h1, h2]

/-- `archive_load_no_write_before_failure` — `Load` with `ArchiveReader`, as the composition `loadArchive` of the
envelope reader, the unpack into the private temporary directory and the directory load:
* a failure of ANY stage (frame stream, tar / extraction / collection validation, manifest decoding, manifest
  validation, fragment verification, schema, non-empty target) leaves the write trace without a single batch;
* on success the frame stream was accepted, the unpack succeeded, manifest.json of the unpacked collection decoded
  as a whole, and the result IS the directory load of the unpacked collection — so every batch is preceded by the
  verification of all fragments (`verify_before_write` applies verbatim);
* and, under the AEAD hypotheses of `frames_authentic_any_reader` (freeness, no forgery, contract-abiding probe),
  the accepted stream is exactly the written one: a truncated, extended, reordered, spliced or re-keyed archive
  never reaches the database. -/
theorem archive_load_no_write_before_failure {D R σ K H C : Type} [DecidableEq D] (E : LoadEnv D R σ)
    (A : Aead K (Aad H) C) (k : K) (hh : H) (probe : Probe) (untar : List Bytes → List Item) (refuse : Str → Bool)
    (validate : FS → Bool) (tempPath : Str) (view : FS → Bytes × Dir) (parseValue : Bytes → Option (Man D × Bytes))
    (fs : List (Frame C)) (tail : Tail) :
    let r := loadArchive E A k hh probe untar refuse validate tempPath view parseValue fs tail
    (r.err.isSome = true → ∀ ev ∈ r.trace, ev.isBatch = false) ∧
    (r.err = none → ∃ chunks, readFramesVia A k hh probe 0 fs tail = .ok chunks ∧
        (unpackEncDirect refuse validate true tempPath (untar chunks) { out := some [] }).err = none ∧
        ∃ m, decodeWhole parseValue
              (view (files ((unpackEncDirect refuse validate true tempPath (untar chunks) { out := some [] }).final { out := some [] }).out)).1 = some m ∧
          r = load E m (view (files ((unpackEncDirect refuse validate true tempPath (untar chunks) { out := some [] }).final { out := some [] }).out)).2) ∧
    (r.err = none → Aead.Free A → probe.Valid → ∀ hh0 written,
        (∀ f ∈ fs, (∃ a p, f.ct = A.sealIt k a p) → f.ct ∈ cts (writeFrames A k hh0 written)) →
        hh = hh0 ∧ fs = writeFrames A k hh0 written ∧ tail = Tail.clean) := by
  intro r
  have hload : ∀ (m : Man D) (dir : Dir), (load E m dir).err.isSome = true → ∀ ev ∈ (load E m dir).trace, ev.isBatch = false := by
    intro m dir he ev hev
    cases hb : ev.isBatch with
    | false => rfl
    | true =>
      have := (load_batch_implies E m dir ev hev hb).2.2.1
      rw [this] at he
      cases he
  show (_ ∧ _ ∧ _)
  cases hfr : readFramesVia A k hh probe 0 fs tail with
  | error e =>
    have hr : r = ⟨[], some .archive⟩ := by
      show loadArchive E A k hh probe untar refuse validate tempPath view parseValue fs tail = _
      unfold loadArchive; rw [hfr]
    rw [hr]
    refine ⟨?_, ?_, ?_⟩
    · simp
    · intro h; simp at h
    · intro h; simp at h
  | ok chunks =>
    by_cases hu : (unpackEncDirect refuse validate true tempPath (untar chunks) { out := some [] }).err.isSome = true
    · have hr : r = ⟨[], some .archive⟩ := by
        show loadArchive E A k hh probe untar refuse validate tempPath view parseValue fs tail = _
        unfold loadArchive; rw [hfr]; simp only; rw [if_pos hu]
      rw [hr]
      refine ⟨?_, ?_, ?_⟩
      · simp
      · intro h; simp at h
      · intro h; simp at h
    · have hr : r = loadBytes E parseValue
          (view (files ((unpackEncDirect refuse validate true tempPath (untar chunks) { out := some [] }).final { out := some [] }).out)).1
          (view (files ((unpackEncDirect refuse validate true tempPath (untar chunks) { out := some [] }).final { out := some [] }).out)).2 := by
        show loadArchive E A k hh probe untar refuse validate tempPath view parseValue fs tail = _
        unfold loadArchive; rw [hfr]; simp only; rw [if_neg hu]
      have hunone : (unpackEncDirect refuse validate true tempPath (untar chunks) { out := some [] }).err = none := by
        cases h : (unpackEncDirect refuse validate true tempPath (untar chunks) { out := some [] }).err with
        | none => rfl
        | some e => simp [h] at hu
      have hauthentic : r.err = none → Aead.Free A → probe.Valid → ∀ hh0 written,
          (∀ f ∈ fs, (∃ a p, f.ct = A.sealIt k a p) → f.ct ∈ cts (writeFrames A k hh0 written)) →
          hh = hh0 ∧ fs = writeFrames A k hh0 written ∧ tail = Tail.clean := by
        intro _ hfree hpv hh0 written hauth
        obtain ⟨h1, h2, h3, _⟩ := frames_authentic_any_reader A hfree k hh0 written hh fs tail chunks probe hpv hauth hfr
        exact ⟨h1, h2, h3⟩
      cases hd : decodeWhole parseValue
          (view (files ((unpackEncDirect refuse validate true tempPath (untar chunks) { out := some [] }).final { out := some [] }).out)).1 with
      | none =>
        have hr2 : r = ⟨[], some .manifest⟩ := by rw [hr]; unfold loadBytes; rw [hd]
        refine ⟨?_, ?_, hauthentic⟩
        · rw [hr2]; simp
        · rw [hr2]; intro h; simp at h
      | some m =>
        have hr2 : r = load E m
            (view (files ((unpackEncDirect refuse validate true tempPath (untar chunks) { out := some [] }).final { out := some [] }).out)).2 := by
          rw [hr]; unfold loadBytes; rw [hd]
        refine ⟨?_, ?_, hauthentic⟩
        · rw [hr2]; exact hload m _
        · intro _
          exact ⟨chunks, rfl, hunone, m, hd, hr2⟩

/-! ## (c) the staging protocol of `Unpack` -/

/-- `staging_promote_atomic` (encrypted unpack path, `retriever.Unpack`). For every archive content, every
validation outcome and every frame-stream outcome:
* at every step the destination is its initial value, or absent (only between the two renames of a forced
  replacement), or the COMPLETE validated extraction — never a partial one;
* on failure the final state is the initial one: destination untouched, staging and backup gone;
* on success the destination is exactly the complete extraction, staging and backup gone. -/
theorem staging_promote_atomic (refuse : Str → Bool) (validate : FS → Bool) (tailOk force : Bool) (stagePath : Str)
    (items : List Item) (d0 : Dirs) (h0 : d0.staging = none ∧ d0.backup = none) :
    let r := unpackStaged refuse validate tailOk force stagePath items d0
    let x := extractLoop refuse stagePath items ⟨[], []⟩
    let complete := x.err = none ∧ validate x.st.fs = true ∧ tailOk = true
    (∀ d ∈ r.trace, d.out = d0.out ∨ d.out = none ∨ (complete ∧ d.out = some x.st.fs)) ∧
    (r.err.isSome = true → r.final d0 = d0) ∧
    (r.err = none → complete ∧ r.final d0 = { out := some x.st.fs, staging := none, backup := none }) := by
  obtain ⟨d0out, d0s, d0b⟩ := d0
  obtain ⟨hs, hb⟩ := h0
  simp only at hs hb
  subst hs hb
  simp only [unpackStaged]
  split
  · simp [URes.final]
  · split
    · rename_i he
      refine ⟨by simp, by simp [URes.final], ?_⟩
      intro h
      cases hx : (extractLoop refuse stagePath items ⟨[], []⟩).err with
      | none => simp [hx] at he
      | some e => simp [hx] at h
    · rename_i he
      have hnone : (extractLoop refuse stagePath items ⟨[], []⟩).err = none := by
        cases hx : (extractLoop refuse stagePath items ⟨[], []⟩).err with
        | none => rfl
        | some e => simp [hx] at he
      split
      · simp [URes.final]
      · rename_i hv
        split
        · simp [URes.final]
        · rename_i ht
          have hv' : validate (extractLoop refuse stagePath items ⟨[], []⟩).st.fs = true := by
            cases h : validate (extractLoop refuse stagePath items ⟨[], []⟩).st.fs with
            | true => rfl
            | false => exact absurd h hv
          have ht' : tailOk = true := by
            cases tailOk with
            | true => rfl
            | false => exact absurd rfl ht
          split
          · simp [URes.final, hnone, hv', ht']
          · simp [URes.final, hnone, hv', ht']

/-! ## clause (c) as a predicate on an unpack entry point, and the F11 findings -/

/-- "No partial output left in the destination on failure": whenever the call fails, the files of the
destination are what they were before the call. -/
def NoPartialOutput (unpack : List Item → Dirs → URes) : Prop :=
  ∀ items d0, d0.staging = none → d0.backup = none →
    (unpack items d0).err.isSome = true → files ((unpack items d0).final d0).out = files d0.out

def f11Ok : Entry := { name := ['o', 'k', '.', 't', 'x', 't'], typ := 48, size := 2, body := [104, 105] }
def f11Evil : Entry := { name := ['.', '.', '/', 'e', 'v', 'i', 'l', '.', 't', 'x', 't'], typ := 48, size := 2, body := [104, 105] }
def f11Out : Str := ['/', 'o']

/-- F11 as it was (plain `UnpackTar` before the repair, `unpackPlainOld`), the witness of DESIGN.md §5:
entries `ok.txt`, `../evil.txt` into an absent destination: the traversal is refused, nothing escapes, but
`ok.txt` stays behind. If the staging of `UnpackTarWithOptions` is ever removed again, `Tie.unpack_stages`
breaks and this is the behaviour that returns (corpus case `c20_f11_plain.ops`). -/
theorem unpack_plain_partial_output_old : ¬ NoPartialOutput (unpackPlainOld (fun _ => false) false f11Out) := by
  intro h
  have := h [.entry f11Ok, .entry f11Evil] { out := none } rfl rfl (by decide)
  revert this
  decide

/-- The same shape for the direct `UnpackEncryptedCollectionArchive`: a complete, valid collection whose
frame stream then fails (truncated / missing final frame) leaves the whole extraction in the destination. -/
theorem unpack_enc_direct_partial_output :
    ¬ NoPartialOutput (unpackEncDirect (fun _ => false) (fun _ => true) false f11Out) := by
  intro h
  have := h [.entry f11Ok] { out := none } rfl rfl (by decide)
  revert this
  decide

/-- Clause (c) for the plain path (live): `UnpackTar` leaves the destination untouched on every failure —
whatever the entries, the refusals of the operating system and the force flag (and `staging_promote_atomic`
gives the intermediate states and the success case). -/
theorem unpack_plain_fixed (refuse : Str → Bool) (force : Bool) (stagePath : Str) :
    NoPartialOutput (unpackPlain refuse force stagePath) := by
  intro items d0 hs hb he
  have := (staging_promote_atomic refuse (fun _ => true) true force stagePath items d0 ⟨hs, hb⟩).2.1 he
  unfold unpackPlain
  rw [this]

/-- the staged `Unpack` satisfies clause (c) for every validator and frame outcome -/
theorem unpack_staged_no_partial (refuse : Str → Bool) (validate : FS → Bool) (tailOk force : Bool) (stagePath : Str) :
    NoPartialOutput (unpackStaged refuse validate tailOk force stagePath) := by
  intro items d0 hs hb he
  rw [(staging_promote_atomic refuse validate tailOk force stagePath items d0 ⟨hs, hb⟩).2.1 he]

/-! ## The full statement -/

/-- everything except clause (c) of the two unstaged entry points -/
def C20_core : Prop :=
  -- (b) names
  (∀ n p, sanitize n = .ok p → acceptPath (.ok p) = true ∧
      ∀ out, isAbs out = true → joinOut out p = joinUnder (pathClean out) p) ∧
  -- (b) extraction: regular files only, inside the output directory, nothing overwritten
  (∀ refuse out items st, isAbs out = true → (keysOf st.fs).Nodup →
      (keysOf (extractLoop refuse out items st).st.fs).Nodup ∧
      (∃ added, (extractLoop refuse out items st).st.fs = added ++ st.fs) ∧
      ∀ pb ∈ (extractLoop refuse out items st).st.fs, pb ∈ st.fs ∨
        (WrittenBy out items pb ∧ ∃ rel, safeRel rel = true ∧ pb.1 = joinUnder (pathClean out) rel)) ∧
  -- (d) frames and keys
  (∀ (K H C : Type) (A : Aead K (Aad H) C), Aead.Free A → ∀ k hh0 chunks hh fs tail ps,
      (∀ f ∈ fs, (∃ a p, f.ct = A.sealIt k a p) → f.ct ∈ cts (writeFrames A k hh0 chunks)) →
      readFrames A k hh 0 fs tail = .ok ps →
      hh = hh0 ∧ fs = writeFrames A k hh0 chunks ∧ tail = Tail.clean ∧ ps = chunks) ∧
  (∀ (K H C : Type) (A : Aead K (Aad H) C), Aead.Free A → ∀ k k' hh0 hh chunks tail, k' ≠ k →
      ∃ e, readFrames A k' hh 0 (writeFrames A k hh0 chunks) tail = .error e) ∧
  -- (a) Load: all fragments verified before the first write; an unbacked manifest entry means no write
  (∀ (D R σ : Type) [DecidableEq D] (E : LoadEnv D R σ) (m : Man D) (dir : Dir),
      (∀ ev ∈ (load E m dir).trace, ev.isBatch = true →
        (load E m dir).trace.head? = some Ev.verifiedAll ∧ ∀ f ∈ m.files, FragBound E m.codec dir f) ∧
      (∀ f ∈ m.files, ¬ FragBound E m.codec dir f →
        (load E m dir).err.isSome = true ∧ ∀ ev ∈ (load E m dir).trace, ev.isBatch = false)) ∧
  -- (c) the staged Unpack
  (∀ refuse validate tailOk force stagePath, NoPartialOutput (unpackStaged refuse validate tailOk force stagePath))

/-- The property at the strength of properties.jsonl: the core plus clause (c) for EVERY unpack entry point. -/
def C20_full : Prop :=
  C20_core ∧
  (∀ refuse force stagePath, NoPartialOutput (unpackPlain refuse force stagePath)) ∧
  (∀ refuse validate tailOk outPath, NoPartialOutput (unpackEncDirect refuse validate tailOk outPath))

/-- what holds for the code as it is: the core, clause (c) for the plain path, and for the one remaining
unstaged entry point (the direct `UnpackEncryptedCollectionArchive`) the weaker "whatever is left behind is
whole and inside": every file in the destination after a failure is the complete body of a regular entry at
a sanitised path under the output directory. -/
def C20_partial : Prop :=
  C20_core ∧
  (∀ refuse force stagePath, NoPartialOutput (unpackPlain refuse force stagePath)) ∧
  (∀ refuse validate tailOk outPath items d0, isAbs outPath = true →
      ∀ d ∈ (unpackEncDirect refuse validate tailOk outPath items d0).trace, ∀ pb ∈ files d.out, pb ∈ files d0.out ∨
        (WrittenBy outPath items pb ∧ ∃ rel, safeRel rel = true ∧ pb.1 = joinUnder (pathClean outPath) rel))

/-- the full statement with the remaining unstaged entry point replaced by its staged repair (`Unpack`) -/
def C20_fixed : Prop :=
  C20_core ∧
  (∀ refuse force stagePath, NoPartialOutput (unpackPlain refuse force stagePath)) ∧
  (∀ refuse validate tailOk force stagePath, NoPartialOutput (unpackStaged refuse validate tailOk force stagePath))

theorem c20_core : C20_core := by
  refine ⟨?_, ?_, ?_, ?_, ?_, ?_⟩
  · intro n p h
    have := sanitize_safe n p h
    exact ⟨this.2.2.2.2.2, this.2.2.2.2.1⟩
  · intro refuse out items st habs hnd
    refine ⟨(extract_no_overwrite refuse out items st hnd).2, (extract_no_overwrite refuse out items st hnd).1, ?_⟩
    intro pb hpb
    rcases extract_regular_only refuse out items st pb hpb with h | h
    · exact .inl h
    · right
      refine ⟨h, ?_⟩
      rcases extract_confined refuse out items st habs pb hpb with h' | h'
      · obtain ⟨e, rel, _, hs, hp, _⟩ := h
        have hsafe := sanitize_safe _ _ hs
        have hacc := hsafe.2.2.2.2.2
        unfold acceptPath at hacc
        simp only [Bool.and_eq_true] at hacc
        exact ⟨rel, hacc.1.1, by rw [hp]; exact hsafe.2.2.2.2.1 out habs⟩
      · exact h'
  · intro K H C A hfree k hh0 chunks hh fs tail ps hauth hacc
    exact frames_authentic A hfree k hh0 chunks hh fs tail ps hauth hacc
  · intro K H C A hfree k k' hh0 hh chunks tail hk
    exact wrong_key_rejected A hfree k k' hk hh0 hh chunks tail
  · intro D R σ _ E m dir
    refine ⟨?_, ?_⟩
    · intro ev hev hb
      obtain ⟨_, hver, _, rest, hrest⟩ := load_batch_implies E m dir ev hev hb
      refine ⟨by rw [hrest]; rfl, ?_⟩
      intro f hf
      obtain ⟨g, hg, hfg⟩ := mem_files_iff.mp hf
      exact verifyGraphs_true hver g hg f hfg
    · intro f hf hnb
      exact load_rejects_unbound E m dir f hf hnb
  · intro refuse validate tailOk force stagePath
    exact unpack_staged_no_partial refuse validate tailOk force stagePath

/-- The full statement is still false for the code as it is: the direct `UnpackEncryptedCollectionArchive`
(the only remaining false clause; the plain path is repaired). -/
theorem c20_full_refuted : ¬ C20_full := by
  intro h
  exact unpack_enc_direct_partial_output (h.2.2 _ _ _ _)

theorem c20_fixed : C20_fixed :=
  ⟨c20_core, fun refuse force stagePath => unpack_plain_fixed refuse force stagePath,
   fun refuse validate tailOk force stagePath => unpack_staged_no_partial refuse validate tailOk force stagePath⟩

theorem c20_partial : C20_partial := by
  have hmem : ∀ (refuse : Str → Bool) (outPath : Str) (items : List Item), isAbs outPath = true →
      ∀ pb ∈ (extractLoop refuse outPath items ⟨[], []⟩).st.fs,
        WrittenBy outPath items pb ∧ ∃ rel, safeRel rel = true ∧ pb.1 = joinUnder (pathClean outPath) rel := by
    intro refuse outPath items habs pb hpb
    have h2 := (c20_core.2.1 refuse outPath items ⟨[], []⟩ habs (by simp [keysOf])).2.2 pb hpb
    rcases h2 with h | h
    · cases h
    · exact h
  refine ⟨c20_core, fun refuse force stagePath => unpack_plain_fixed refuse force stagePath, ?_⟩
  · intro refuse validate tailOk outPath items d0 habs d hd pb hpb
    have key : d = d0 ∨ d = { d0 with out := some [] } ∨
        d = { d0 with out := some (extractLoop refuse outPath items ⟨[], []⟩).st.fs } := by
      unfold unpackEncDirect at hd
      split at hd
      · simp at hd; exact .inl hd
      · simp only at hd
        split at hd
        · simpa using hd
        · split at hd
          · simpa using hd
          · split at hd
            · simpa using hd
            · simpa using hd
    rcases key with h | h | h
    · subst h; exact .inl hpb
    · subst h; simp [files] at hpb
    · subst h
      simp only [files, Option.getD_some] at hpb
      exact .inr (hmem refuse outPath items habs pb hpb)

/-! ## Non-vacuity: the hypotheses are satisfiable on non-trivial states, the models accept honest input -/

-- accepted and rejected names (samples of the differential tie)
example : sanitize [' ', 'a', '/', '.', '/', 'b', '/', '/', 'c', '/', ' '] = .ok ['a', '/', 'b', '/', 'c'] := by rfl
example : sanitize ['.', '/', '.', '.', '/', 'x'] = .error .traversal := by rfl
example : sanitize ['C', ':', 'x'] = .error .absolute := by rfl
example : sanitize ['.', '/', 'C', ':', 'x'] = .ok ['C', ':', 'x'] := by rfl   -- unix only: noted in the assumptions
example : pathClean ['a', '/', '.', '.', '/', '.', '.', '/', 'b'] = ['.', '.', '/', 'b'] := by decide
example : pathClean ['/', '.', '.', '/', 'a', '/', '/', 'b', '/'] = ['/', 'a', '/', 'b'] := by decide

/-- the symbolic AEAD is free: the hypothesis `Aead.Free` of the frame theorems is satisfiable -/
theorem symAead_free : Aead.Free (symAead Nat (Aad Nat)) := by
  intro k a p k' a' p' h
  simp only [symAead] at h
  injection h with h1 h2
  injection h2 with h2 h3
  exact ⟨h1, h2, h3⟩

-- an honest three-chunk archive is accepted and yields its chunks; the classic attacks are refused
example : readFrames (symAead Nat (Aad Nat)) 1 7 0 (writeFrames (symAead Nat (Aad Nat)) 1 7 [[1], [2], [3]]) .clean
    = .ok [[1], [2], [3]] := by rfl
example : readFrames (symAead Nat (Aad Nat)) 1 7 0 ((writeFrames (symAead Nat (Aad Nat)) 1 7 [[1], [2], [3]]).take 3) .clean
    = .error .missingFinal := by rfl
example : readFrames (symAead Nat (Aad Nat)) 1 7 0
    (match writeFrames (symAead Nat (Aad Nat)) 1 7 [[1], [2]] with | a :: b :: t => b :: a :: t | l => l) .clean
    = .error .decrypt := by rfl
example : readFrames (symAead Nat (Aad Nat)) 2 7 0 (writeFrames (symAead Nat (Aad Nat)) 1 7 [[1]]) .clean
    = .error .decrypt := by rfl
example : readFrames (symAead Nat (Aad Nat)) 1 7 0 (writeFrames (symAead Nat (Aad Nat)) 1 7 [[1]]) .partialHeader
    = .error .trailing := by rfl

-- the staged path on the F11 witness leaves nothing behind; on a good archive it delivers it
example : (unpackPlain (fun _ => false) false ['/', 's'] [.entry f11Ok, .entry f11Evil] { out := none }).final { out := none }
    = { out := none } := by rfl
example : ((unpackPlain (fun _ => false) false ['/', 's'] [.entry f11Ok] { out := none }).final { out := none }).out
    = some [(['/', 's', '/', 'o', 'k', '.', 't', 'x', 't'], [104, 105])] := by decide

/-- a small honest Load environment: digests are the bytes themselves (trivially collision-free), records are bytes -/
def demoEnv : LoadEnv Bytes Nat Unit where
  hash b := b
  emptySha := []
  decode _ _ b := some b
  init := ()
  check _ _ _ := some ()
  targetEmpty _ := true
  batchSize := 2

def demoMan : Man Bytes :=
  { codec := 1, graphCount := 1, schemaFor := [['g']],
    graphs := [{ name := ['g'], nodeCount := 3, edgeCount := 1,
                 files := [{ path := ['n'], phase := .nodes, count := 3, cbytes := 3, sha := [1, 2, 3] },
                           { path := ['e'], phase := .edges, count := 1, cbytes := 1, sha := [9] }] }] }

def demoDir : Dir := [(['n'], [1, 2, 3]), (['e'], [9])]

-- the honest collection loads: verification first, then two node batches (batch size 2) and one edge batch
example : (load demoEnv demoMan demoDir).err = none := by decide
example : ((load demoEnv demoMan demoDir).trace.filter Ev.isBatch).length = 3 := by decide
-- one flipped byte in a fragment: refused, no batch
example : (load demoEnv demoMan [(['n'], [1, 2, 4]), (['e'], [9])]).err = some .verify ∧
    ((load demoEnv demoMan [(['n'], [1, 2, 4]), (['e'], [9])]).trace.filter Ev.isBatch).length = 0 := by decide

-- the consistent downward edit on the demo collection: node fragment count 3 -> 2 and node_count 3 -> 2.
-- The manifest validates (totals agree), the verification pass counts 3 records against 2: refused, no batch.
def demoManLowered : Man Bytes :=
  { codec := 1, graphCount := 1, schemaFor := [['g']],
    graphs := [{ name := ['g'], nodeCount := 2, edgeCount := 1,
                 files := [{ path := ['n'], phase := .nodes, count := 2, cbytes := 3, sha := [1, 2, 3] },
                           { path := ['e'], phase := .edges, count := 1, cbytes := 1, sha := [9] }] }] }
example : demoManLowered.validate demoEnv.emptySha = true := by decide
example : (load demoEnv demoManLowered demoDir).err = some .verify ∧
    ((load demoEnv demoManLowered demoDir).trace.filter Ev.isBatch).length = 0 := by decide

/-- symbolic AEAD with byte lengths: `none` is the EMPTY ciphertext (declared length 0), a sealing is 16 tag bytes
longer than its plaintext — the hypotheses of `zero_length_frame_rejected` are satisfiable -/
def lenAead : Aead Nat (Aad Nat) (Option (Nat × Aad Nat × Bytes)) where
  sealIt k a p := some (k, a, p)
  openIt k a c := match c with
    | none => none
    | some t => if t.1 = k ∧ t.2.1 = a then some t.2.2 else none
  openIt_iff := by
    intro k a c p
    cases c with
    | none => simp
    | some t =>
      obtain ⟨t1, t2, t3⟩ := t
      simp only [Option.some.injEq, Prod.mk.injEq]
      constructor
      · intro h
        split at h
        · rename_i hc; injection h with h; exact ⟨hc.1, hc.2, h⟩
        · cases h
      · rintro ⟨h1, h2, h3⟩
        subst h1 h2 h3
        simp

def lenOf : Option (Nat × Aad Nat × Bytes) → Nat
  | none => 0
  | some t => 16 + t.2.2.length

example : ∀ k a p, 16 ≤ lenOf (lenAead.sealIt k a p) := by intro k a p; simp [lenAead, lenOf]
-- the five bytes `00 00 00 00 00` (a data frame header declaring an empty ciphertext) spliced in before the final frame
example : readFramesVia lenAead 1 7 directProbe 0
    (match writeFrames lenAead 1 7 [[1], [2]] with | a :: b :: t => a :: b :: ⟨frameData, none⟩ :: t | l => l) .clean
    = .error .decrypt := by rfl
example : readFramesVia lenAead 1 7 directProbe 0 (⟨frameData, none⟩ :: writeFrames lenAead 1 7 [[1], [2]]) .clean
    = .error .decrypt := by rfl
example : readFramesVia lenAead 1 7 directProbe 0 (writeFrames lenAead 1 7 [[1], [2]]) .clean = .ok [[1], [2]] := by rfl

-- the per-graph preflight on ids that are not decimals: graph `h` has an edge to a node that exists in graph `g` only
def idEnv : LoadEnv Bytes IdRec (List Str) where
  hash b := b
  emptySha := []
  decode _ ph b := some (b.map (fun n =>
    if ph = .nodes then IdRec.node ['4', ':', Char.ofNat (48 + n)] else IdRec.edge ['4', ':', Char.ofNat (48 + n / 10)] ['4', ':', Char.ofNat (48 + n % 10)]))
  init := []
  check := idCheck
  targetEmpty _ := true
  batchSize := 2

def twoGraphs (edgeOfH : Nat) : Man Bytes :=
  { codec := 1, graphCount := 2, schemaFor := [['g'], ['h']],
    graphs := [{ name := ['g'], nodeCount := 2, edgeCount := 1,
                 files := [{ path := ['a'], phase := .nodes, count := 2, cbytes := 2, sha := [1, 2] },
                           { path := ['b'], phase := .edges, count := 1, cbytes := 1, sha := [12] }] },
               { name := ['h'], nodeCount := 2, edgeCount := 1,
                 files := [{ path := ['c'], phase := .nodes, count := 2, cbytes := 2, sha := [3, 4] },
                           { path := ['d'], phase := .edges, count := 1, cbytes := 1, sha := [edgeOfH] }] }] }
-- honest: h's edge 3 -> 4 joins h's own nodes
example : (load idEnv (twoGraphs 34) [(['a'], [1, 2]), (['b'], [12]), (['c'], [3, 4]), (['d'], [34])]).err = none := by decide
-- re-hashed tampering: h's edge 3 -> 1, node `4:1` exists in g only: refused by the preflight, no batch
example : (load idEnv (twoGraphs 31) [(['a'], [1, 2]), (['b'], [12]), (['c'], [3, 4]), (['d'], [31])]).err = some .verify ∧
    ((load idEnv (twoGraphs 31) [(['a'], [1, 2]), (['b'], [12]), (['c'], [3, 4]), (['d'], [31])]).trace.filter Ev.isBatch).length = 0 := by decide

-- a node id repeated inside graph `h` (re-hashed): refused, no batch; the same id in `g` and `h` is fine
def dupGraphs (nodesOfH : List Nat) : Man Bytes :=
  { codec := 1, graphCount := 2, schemaFor := [['g'], ['h']],
    graphs := [{ name := ['g'], nodeCount := 2, edgeCount := 0,
                 files := [{ path := ['a'], phase := .nodes, count := 2, cbytes := 2, sha := [1, 2] }] },
               { name := ['h'], nodeCount := 2, edgeCount := 0,
                 files := [{ path := ['c'], phase := .nodes, count := 2, cbytes := 2, sha := nodesOfH }] }] }
example : (load idEnv (dupGraphs [1, 2]) [(['a'], [1, 2]), (['c'], [1, 2])]).err = none := by decide
example : (load idEnv (dupGraphs [3, 3]) [(['a'], [1, 2]), (['c'], [3, 3])]).err = some .verify := by decide

-- validateExtractedCollection: canonical spelling accepted, `./n` (same tar entry `n`) refused although the bytes match
def oneFile (path : Str) : Man Bytes :=
  { codec := 1, graphCount := 1, schemaFor := [['g']],
    graphs := [{ name := ['g'], nodeCount := 1, edgeCount := 0,
                 files := [{ path := path, phase := .nodes, count := 1, cbytes := 1, sha := [7] }] }] }
example : validateExtracted [] (oneFile ['n']) [(manifestName, (9, [5])), (['n'], (1, [7]))] = true := by decide
example : validateExtracted [] (oneFile ['.', '/', 'n']) [(manifestName, (9, [5])), (['n'], (1, [7]))] = false := by decide
example : validateExtracted [] (oneFile ['n']) [(manifestName, (9, [5])), (['n'], (1, [8]))] = false := by decide

end Dawgs.C20.Props