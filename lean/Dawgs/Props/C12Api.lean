/-
C12, write surface — every way package graph offers to change the tracked state of a Properties / Node / Relationship is
an operation of the model (Model/C12.lean), or exempt for a stated reason.
ONLY property statements live here.

`Dawgs.Generated.C12Api` is regenerated on every run from graph/*.go (tools/extract/goext, mode c12api).  A mutator
added later (a new method assigning Map / Modified / Deleted / Kinds / AddedKinds / DeletedKinds / Properties, or calling
one that does), a new constructor or factory, or a change of the JSON shape changes the table and the `decide`
side conditions below stop checking.
-/
import Dawgs.Model.C12
import Dawgs.Generated.C12Api
namespace Dawgs.C12.Props
open Dawgs.Generated

/-- Go method ↦ the operation of the model that transcribes it (`Op` of Model/C12.lean / line-protocol verb) -/
def modelled : List (String × String) :=
  [("Properties.Set", "Op.set / set"), ("Properties.SetAll", "Op.setAll / setall"), ("Properties.Delete", "Op.delete / del"),
   ("Properties.Merge", "Op.pmerge / pmerge"), ("Node.AddKinds", "Op.addKinds / addk"),
   ("Node.DeleteKinds", "Op.deleteKinds / delk"), ("Node.Merge", "Op.nmerge / merge"),
   ("Node.StripAllPropertiesExcept", "Op.strip / strip"), ("Relationship.Merge", "Op.rmerge / rmerge")]

/-- mutating methods deliberately outside the model, with the reason -/
def exempt : List (String × String) := []

/-- non-mutating methods the model covers as reads or copies -/
def modelledReads : List String :=
  ["Properties.Get", "Properties.GetOrDefault", "Properties.GetWithFallback", "Properties.Exists", "Properties.Len",
   "Properties.Keys", "Properties.ModifiedProperties", "Properties.DeletedProperties", "Properties.MapOrEmpty",
   "Properties.Clone", "Node.MarshalJSON"]

/-- Every method of Properties / Node / Relationship that writes a tracked field through its receiver, or calls one that
does, is an operation of the model or listed as exempt. -/
theorem mutators_covered :
    ∀ m, m ∈ C12Api.methods → m.2.2.2 = true →
      m.1 ∈ modelled.map (·.1) ∨ m.1 ∈ exempt.map (·.1) := by decide

/-- … and the table is not blind: every modelled mutator is found by the extractor, and found mutating. -/
theorem modelled_mutators_found :
    ∀ n, n ∈ modelled.map (·.1) → ∃ m, m ∈ C12Api.methods ∧ m.1 = n ∧ m.2.2.2 = true := by decide

/-- Methods the model treats as reads / copies do not write tracked state (so "reads must not change tracking" is a
fact about the source as well as about the executions the tie samples). -/
theorem reads_do_not_write :
    ∀ n, n ∈ modelledReads → ∃ m, m ∈ C12Api.methods ∧ m.1 = n ∧ m.2.2.1 = [] ∧ m.2.2.2 = false := by decide

/-- The only non-mutating methods outside `modelledReads` are size / hash helpers. -/
theorem other_methods_pinned :
    (C12Api.methods.filter (fun m => !m.2.2.2 && !modelledReads.contains m.1)).map (·.1) =
      ["Node.SizeOf", "Properties.HashInto", "Properties.SizeOf", "Relationship.SizeOf"] := by decide

/-- Constructors (functions building a composite literal of a tracked type) and factories (package-level functions
returning one) are exactly the ones the harness drives (`load … <ctor> <entity>`, `json`, `clone`): none of them sets
Modified / Deleted / AddedKinds / DeletedKinds except the JSON decoder, which copies them from the encoded node. -/
theorem constructors_pinned :
    C12Api.constructors =
      [("AsProperties", "Properties", ["Map"]),
       ("NewNode", "Node", ["ID", "Kinds", "Properties"]),
       ("NewProperties", "Properties", []),
       ("NewPropertiesRed", "Properties", []),
       ("NewRelationship", "Relationship", ["EndID", "ID", "Kind", "Properties", "StartID"]),
       ("Node.MarshalJSON", "serializableNode", ["AddedKinds", "DeletedKinds", "ID", "Kinds", "Properties"]),
       ("NodeSet.UnmarshalJSON", "Node", ["AddedKinds", "DeletedKinds", "ID", "Kinds", "Properties"]),
       ("PrepareRelationship", "Relationship", ["Kind", "Properties"]),
       ("Properties.Clone", "Properties", [])] ∧
    C12Api.factories =
      ["AsProperties", "NewNode", "NewProperties", "NewPropertiesRed", "NewRelationship", "PrepareNode",
       "PrepareRelationship"] := by decide

/-- JSON shape: every tracked field of Properties and of a node travels — Properties is encoded by its struct tags
(`map`, `deleted`, `modified`, none dropped with `-`), a Node through `serializableNode`, whose encoder
(`Node.MarshalJSON`) and decoder (`NodeSet.UnmarshalJSON`) both handle all five fields. -/
theorem json_carries_tracking :
    (C12Api.jsonFields.filter (fun f => f.1 == "Properties")).map (fun f => (f.2.1, f.2.2)) =
      [("Map", "map"), ("Deleted", "deleted"), ("Modified", "modified")] ∧
    (C12Api.jsonFields.filter (fun f => f.1 == "serializableNode")).map (fun f => (f.2.1, f.2.2)) =
      [("ID", "id"), ("Kinds", "kinds"), ("AddedKinds", "added_kinds"), ("DeletedKinds", "deleted_kinds"),
       ("Properties", "properties")] ∧
    (∃ c, c ∈ C12Api.constructors ∧ c.1 = "Node.MarshalJSON" ∧
      c.2.2 = ["AddedKinds", "DeletedKinds", "ID", "Kinds", "Properties"]) ∧
    (∃ c, c ∈ C12Api.constructors ∧ c.1 = "NodeSet.UnmarshalJSON" ∧
      c.2.2 = ["AddedKinds", "DeletedKinds", "ID", "Kinds", "Properties"]) := by decide

/-- Kind interning is atomic in the source: `graph.StringKind` touches `kindCache` with exactly one call,
`LoadOrStore` (check and insertion are one step: two goroutines asking for the same new name get the same handle), it is
the only function that mints `stringKind` values, and `StringsToKinds` goes through it.  Together with the concurrency
probe of the tie (`intern` op) this is what makes "every Kind is the canonical handle of its name" — the guard of the
kind theorems — a property of the factory rather than a hypothesis about the caller (Props/C12Heap.lean
`factory_discharges_canonical_guard`). -/
theorem string_kind_interns_atomically :
    C12Api.stringKindCacheCalls = ["LoadOrStore"] ∧ C12Api.stringKindMinters = ["StringKind"] ∧
    C12Api.stringsToKindsUsesFactory = true := by decide

/-- the struct tags of `graph.Properties` are the tags the model's encoder / decoder use -/
theorem json_tags_match :
    (C12Api.jsonFields.filter (fun f => f.1 == "Properties")).map (fun f => (f.2.1, f.2.2)) = Dawgs.C12.Props.jsonTags ∧
    (Dawgs.C12.Props.toJson (Dawgs.C12.Props.load none)).map (·.1) = Dawgs.C12.Props.jsonTags.map (·.2) := by decide

end Dawgs.C12.Props
