/-
C17, round 2 — property statements for the parts of the anchors that round 1 listed as unmodelled:
ops.parallelNodeQuery (range producer + N query workers + error merge goroutine), traversal.FilteredSkipLimit
(atomics.Counter) and traversal.pattern.Driver. ONLY statements and non-vacuity examples; lemmas are in
Proofs/C17Par.lean.

None of the three is named in the statement of C17 (it names BreadthFirst, the buffered pipe and the sequential
helpers); they are anchors / in the quantifier ("pattern definitions: depth bounds, optional steps, cycles").
What the models exhibit beyond the statement is therefore recorded as INFORMATION, with Lean witnesses:
  O2  parallelNodeQuery: when every worker has failed while ranges remain, the producer blocks on
      `Submit(ctx, rangeC, …)` until the caller's context ends                     (`pnq_O2_witness`)
  O3  pattern.Driver: an optional step (`min = 0`) after the first expansion delivers every match of
      that step twice (the advance fetch and the re-queued segment's continue fetch) (`pattern_optional_step_duplicates`)
  O4  pattern.Driver: the fetch for the NEXT expansion reuses the CURRENT expansion's fetch direction, so
      a pattern that changes direction loses the first hop of the new direction     (`pattern_mixed_direction_drops`)
-/
import Dawgs.Proofs.C17Par
namespace Dawgs.C17.Props
open Dawgs.C17 Dawgs.C17.Par

/-! ## ops.parallelNodeQuery -/

/-- Every id range is handed to exactly one worker and queried exactly once, along every schedule,
for every worker count and every failure pattern: the floors whose query delegate ran, those held by a
worker, those not yet handed out and those dropped by a Submit on a done context always partition the
produced floors; nothing is dropped unless the context was cancelled. -/
theorem pnq_exactly_once (floors : List Nat) (n : Nat) (s : PNQ) (h : PNQ.Reach floors n s) :
    floors.Perm (s.handled ++ s.holding ++ s.floors ++ s.dropped) ∧
    (floors.Nodup → s.handled.Nodup ∧ ∀ f ∈ s.handled, f ∈ floors ∧ f ∉ s.holding ∧ f ∉ s.floors) ∧
    (s.cancelled = false → s.dropped = []) := by
  have hi := preach_inv h
  refine ⟨hi.fl, fun hnd => ?_, fun hc => ?_⟩
  · have hnd' : (s.handled ++ s.holding ++ s.floors ++ s.dropped).Nodup := hi.fl.nodup_iff.mp hnd
    simp only [List.append_assoc] at hnd'
    have h1 := List.nodup_append.mp hnd'
    refine ⟨h1.1, fun f hf => ⟨hi.fl.mem_iff.mpr (by simp [hf]), ?_, ?_⟩⟩
    · intro hh; exact h1.2.2 f hf f (by simp [hh]) rfl
    · intro hh; exact h1.2.2 f hf f (by simp [hh]) rfl
  · by_contra hne
    have := hi.dropC (Or.inl hne); rw [hc] at this; cases this

/-- When parallelNodeQuery returns on a live context every range was queried exactly once and every
failure was merged exactly once into the returned error. -/
theorem pnq_complete (floors : List Nat) (n : Nat) (s : PNQ) (h : PNQ.Reach floors n s)
    (hr : s.pc = .returned) (hc : s.cancelled = false) :
    s.handled.Perm floors ∧ s.errs = s.failures ∧ s.idle = 0 ∧ s.holding = [] ∧ s.mergeAlive = false := by
  have hi := preach_inv h
  obtain ⟨h1, h2, h3⟩ := hi.pcW (Or.inr hr)
  have hfl := hi.pcF (by rw [hr]; intro hh; cases hh)
  have hd : s.dropped = [] := (pnq_exactly_once floors n s h).2.2 hc
  have hed : s.errsDropped = 0 := by
    rcases Nat.eq_zero_or_pos s.errsDropped with h0 | h0
    · exact h0
    · have := hi.dropC (Or.inr h0); rw [hc] at this; cases this
  refine ⟨?_, ?_, h1, h2, hi.rt hr⟩
  · have := hi.fl; rw [h2, hfl, hd] at this; simpa using this.symm
  · have := hi.errs; omega

/-- every step of every component decreases a Nat bound: no livelock, runs are finite -/
theorem pnq_measure (s s' : PNQ) (a : Par.PAct) (h : s.step a = some s') : s'.μ < s.μ := pnq_measure_step h

/-- Progress for every worker count n and every failure pattern: a reachable state that has not
returned has an enabled non-environment step — unless it is exactly the O2 situation (all workers
gone after failures, ranges left, context live), which requires at least n failed queries. -/
theorem pnq_progress_or_O2 (floors : List Nat) (n : Nat) (s : PNQ) (h : PNQ.Reach floors n s) (hnr : s.pc ≠ .returned) :
    (∃ a s', Par.PAct.isEnv a = false ∧ s.step a = some s' ∧ s'.μ < s.μ) ∨ (s.stuckO2 = true ∧ n ≤ s.failures) := by
  rcases pnq_progress (preach_inv h) hnr with ⟨a, s', he, hs⟩ | hst
  · exact Or.inl ⟨a, s', he, hs, pnq_measure_step hs⟩
  · exact Or.inr ⟨hst, pnq_stuck_needs_all_failed (preach_inv h) hst⟩

/-- hence: if fewer than n queries fail, parallelNodeQuery always terminates -/
theorem pnq_terminates_if_a_worker_survives (floors : List Nat) (n : Nat) (s : PNQ) (h : PNQ.Reach floors n s)
    (hnr : s.pc ≠ .returned) (hf : s.failures < n) :
    ∃ a s', Par.PAct.isEnv a = false ∧ s.step a = some s' ∧ s'.μ < s.μ := by
  rcases pnq_progress_or_O2 floors n s h hnr with h1 | ⟨_, h2⟩
  · exact h1
  · omega

/-- O2 (information): one worker, two ranges, the first query fails: the worker has returned, the
producer is blocked on the second range, and only an external cancellation is enabled. -/
theorem pnq_O2_witness :
    ∃ s, (PNQ.init [0, 20000] 1).run [.send, .queryErr 0, .submitErr] = some s ∧ s.stuckO2 = true ∧
      ∀ a s', s.step a = some s' → a = .cancel := by
  refine ⟨{ floors := [20000], idle := 0, exited := 1, handled := [0], failures := 1, errs := 1 }, rfl, rfl, ?_⟩
  intro a s' h
  cases a <;> simp [PNQ.step, removeOne] at h ⊢

/-! ## atomics.Counter and FilteredSkipLimit -/

/-- `atomics.NewCounter(m)`: of any k calls (in whatever order the atomic operations linearise) exactly
`min k m` return false — so how many segments pass the skip counter and the limit counter does not
depend on the interleaving of the workers. -/
theorem counter_passes_exactly (m k : Nat) : (ctrRun m 0 k).count false = min k m := by
  simpa using ctrRun_count m 0 k (Nat.zero_le _)

/-- what FilteredSkipLimit is to visit: nothing for a negative skip (`uint64(skip)` is never reached),
otherwise the skip/limit window of the collectable segments -/
def fslSpec (skip limit : Int) (xs : List Nat) : List Nat :=
  if skip < 0 then [] else Seq.window skip limit xs

/-- FilteredSkipLimit, for every skip and limit and every sequence of filter answers: the visited
segments are exactly the skip/limit window of the collectable ones (in the order the atomic counter
operations linearise). -/
theorem filteredSkipLimit_eq_spec (skip limit : Int) (calls : List (Nat × Bool × Bool)) (bound : Nat)
    (hb : calls.length ≤ bound) :
    (fslRun bound { skip := skip, limit := limit } calls).1 = fslSpec skip limit (collectable calls) := by
  rw [fslRun_gen]
  have hlen : (collectable calls).length ≤ bound := by
    simp only [collectable, List.length_map]
    exact Nat.le_trans (List.length_filter_le _ _) hb
  unfold fslSpecFrom fslSpec Seq.window u64
  by_cases h0 : skip = 0
  · subst h0; simp
  · have hb0 : (skip == 0) = false := by simpa using h0
    simp only [hb0]
    by_cases hneg : skip < 0
    · simp only [hneg, if_true, Nat.sub_zero]
      have : List.drop (bound + 1) (collectable calls) = [] := List.drop_eq_nil_of_le (by omega)
      rw [this]; split <;> simp
    · simp only [hneg, if_false, Nat.sub_zero]
      rfl

/-! ## pattern.Driver -/

/-- The work-list expansion of `pattern.Driver` (tags on segments, re-queued segments for optional steps,
the tag mutated between the two fetches) delivers, for every pattern, graph and start state, exactly
the matches of the tag-free recursive semantics `patSpec` (continue / advance / optional / maximal match). -/
theorem pattern_driver_eq_spec (exps : List Exp) (edges : List (Nat × Nat × Nat)) (fuel : Nat) (seg : Seq.Seg) (tag : Tag) :
    expand exps edges fuel (seg, tag) = patSpec exps edges fuel seg tag.idx tag.depth :=
  expand_eq_patSpec exps edges fuel seg tag

/-- chain 0→1→2, 1→4 -/
def patEdges : List (Nat × Nat × Nat) := [(1, 0, 1), (2, 1, 2), (4, 1, 4)]
def patRoot (r : Nat) : Seq.Seg × Tag := ({ root := r, steps := [] }, {})

/-- O3 (information): with an optional second step every match of that step is delivered twice -/
theorem pattern_optional_step_duplicates :
    (expand [⟨false, 1, 1⟩, ⟨false, 0, 1⟩] patEdges 8 (patRoot 0)).map Seq.Seg.pathNodes =
      [[0, 1, 2], [0, 1, 4], [0, 1, 2], [0, 1, 4]] := by decide

/-- O4 (information): inbound then outbound from node 2 should match 2←1→4; the second fetch reuses the first
expansion's fetch direction, gets node 1 itself (a cycle) and the pattern matches nothing -/
theorem pattern_mixed_direction_drops :
    expand [⟨true, 1, 1⟩, ⟨false, 1, 1⟩] patEdges 8 (patRoot 2) = [] ∧
    (fetch patEdges ⟨false, 1, 1⟩ true { root := 2, steps := [(2, 1)] }).map (·.2) = [2, 4] := by decide

/-- non-vacuity: a two-step pattern with depth bounds on the chain -/
example : (expand [⟨false, 1, 1⟩, ⟨false, 1, 1⟩] patEdges 8 (patRoot 0)).map Seq.Seg.pathNodes = [[0, 1, 2], [0, 1, 4]] := by
  decide
example : (fslRun 10 { skip := 1, limit := 2 } [(0, true, true), (1, false, true), (2, true, true), (3, true, false), (4, true, true)]) =
    ([2, 3], [true, true, true, false, false]) := by decide
/-- non-vacuity of `pnq_complete`: two workers, three ranges, one failure, returned on a live context -/
example : ((PNQ.init [0, 20000, 40000] 2).run
      [.send, .send, .queryErr 20000, .queryOk 0, .send, .submitErr, .queryOk 40000, .close, .workerClosed, .joined,
       .mergeClosed, .ret]).map (fun s => (s.pc, s.handled, s.errs, s.failures, s.exited)) =
    some (.returned, [20000, 0, 40000], 1, 1, 2) := by decide

end Dawgs.C17.Props
