/-
C07 — float literal VALUES: the float64 the visitor stores for a float token is the binary64 nearest (ties to even) to the exact
rational the token denotes. `floatParts` splits the token, `floatRat` is the rational, `floatBits` = C04's `nearestF64Bits` of it.
The general statement is `float_literal_value`; the boundary behaviour (largest finite value, the overflow threshold 2^1024 - 2^970
where ParseFloat reports a range error and `floatOverflows` makes `build` reject, half of the smallest subnormal, ties to even, the
`1e23` rounding case) is checked by the kernel; that Go's strconv.ParseFloat returns the same bits is the per-case tie (`fbits=`).
-/
import Dawgs.Model.C07Float
namespace Dawgs.C07.Props
open Dawgs.C07 Dawgs.C04

/-- the stored value of a float token is the correctly rounded value of the rational it denotes: mantissa digits (integer and
fraction part) times ten to the (signed exponent minus the number of fraction digits) -/
theorem float_literal_value (text : String) (ip fp ed : List Char) (neg : Bool) (h : floatParts text = some (ip, fp, neg, ed)) :
    floatRat text = some (ratOf (valOf (ip ++ fp)) ((if neg then -1 else 1) * (valOf ed : Int) - (fp.length : Int))) ∧
    floatBits text = some (nearestF64Bits (ratOf (valOf (ip ++ fp)) ((if neg then -1 else 1) * (valOf ed : Int) - (fp.length : Int)))) := by
  simp [floatBits, floatRat, h]

/-- the token shapes of the grammar are split as intended -/
def partsStr (text : String) : Option (String × String × Bool × String) :=
  (floatParts text).map (fun p => (String.ofList p.1, String.ofList p.2.1, p.2.2.1, String.ofList p.2.2.2))

theorem float_parts_samples :
    partsStr ".5e21" = some ("", "5", false, "21") ∧ partsStr "1.5e-7" = some ("1", "5", true, "7") ∧
    partsStr "12.50" = some ("12", "50", false, "") ∧ partsStr "1E2" = some ("1", "", false, "2") ∧
    partsStr "x.5" = none ∧ partsStr "." = none := by decide +kernel

/-- correctly rounded values at the boundaries (bit patterns of IEEE-754 binary64) -/
theorem float_value_boundaries :
    floatBits "1.7976931348623157e308" = some 0x7FEFFFFFFFFFFFFF ∧ floatBits "1e308" = some 0x7FE1CCF385EBC8A0 ∧
    floatBits "1e23" = some 0x44B52D02C7E14AF6 ∧ floatBits "0.1" = some 0x3FB999999999999A ∧
    floatBits "9007199254740993.0" = some 0x4340000000000000 ∧   -- 2^53 + 1: the tie goes to even
    floatBits "2.2250738585072014e-308" = some 0x0010000000000000 ∧ floatBits "5e-324" = some 1 ∧
    floatBits "2.4703282292062327e-324" = some 0 ∧ floatBits "2.4703282292062328e-324" = some 1 ∧   -- around half the smallest subnormal
    floatBits "1e-400" = some 0 ∧ floatBits "0.0" = some 0 ∧ floatBits ".5e21" = some 0x443B1AE4D6E2EF50 ∧
    floatBits "1.5e-7" = some 0x3E8421F5F40D8376 ∧ floatBits "1E2" = some 0x4059000000000000 ∧ floatBits "12.50" = some 0x4029000000000000 := by
  decide +kernel

/-- the range error of ParseFloat (`floatOverflows`, on which `build` rejects) is exactly "the correctly rounded value is +Inf", at the
threshold 2^1024 - 2^970 (half an ulp above the largest double; the tie rounds to even, i.e. up) and one below it -/
theorem float_overflow_threshold :
    floatBits "179769313486231580793728971405303415079934132710037826936173778980444968292764750946649017977587207096330286416692887910946555547851940402630657488671505820681908902000708383676273854845817711531764475730270069855571366959622842914819860834936475292719074168444365510704342711559699508093042880177904174497792.0" = some infBits ∧ floatOverflows "179769313486231580793728971405303415079934132710037826936173778980444968292764750946649017977587207096330286416692887910946555547851940402630657488671505820681908902000708383676273854845817711531764475730270069855571366959622842914819860834936475292719074168444365510704342711559699508093042880177904174497792.0" = true ∧
    floatBits "179769313486231580793728971405303415079934132710037826936173778980444968292764750946649017977587207096330286416692887910946555547851940402630657488671505820681908902000708383676273854845817711531764475730270069855571366959622842914819860834936475292719074168444365510704342711559699508093042880177904174497791.0" = some 0x7FEFFFFFFFFFFFFF ∧ floatOverflows "179769313486231580793728971405303415079934132710037826936173778980444968292764750946649017977587207096330286416692887910946555547851940402630657488671505820681908902000708383676273854845817711531764475730270069855571366959622842914819860834936475292719074168444365510704342711559699508093042880177904174497791.0" = false ∧
    floatBits "1.8e308" = some infBits ∧ floatOverflows "1.8e308" = true ∧ floatBits "1e999" = some infBits ∧ floatOverflows "1e999" = true ∧
    floatOverflows "1.7976931348623157e308" = false ∧ floatOverflows "1e-400" = false := by
  decide +kernel

end Dawgs.C07.Props
