/-
C14 — all directed-graph containers present the same graph.
ONLY property statements and non-vacuity examples live here; lemmas are in Proofs/C14*.lean.

Every theorem quantifies over ALL build histories `ops : List Op` (AddNode / AddEdge in any order, arbitrary
natural ids, self loops, parallel and antiparallel edges, isolated and repeated nodes, duplicate edge ids).
`G.ofOps ops` is the ground truth edge list; containers are compared as SETS per (node, direction).
`fixed = true` selects the definitions of the code AS IT IS NOW (F2 repaired in /repo by 789c790, `Edge.Other`);
`fixed = false` the definitions before that repair — only the `…_old` theorems talk about those.
-/
import Dawgs.Proofs.C14Glue
import Dawgs.Proofs.C14Heap
import Dawgs.Proofs.C14Oracle
namespace Dawgs.C14.Props
open Dawgs.C14

/-- a container's `EachAdjacentNode` presents graph `g`: for every node and every direction the callback
sequence, read as a set, is `adj g v d` (`both = out ∪ in`, hence `v ∈ both v` iff `v` has a self loop). -/
def Presents (adj : Nat → Dir → List Nat) (g : G) : Prop := ∀ v d, SetEq (adj v d) (g.adj v d)

/-- adjacency-map digraph. -/
theorem adjmap_adj_eq (ops : List Op) : Presents (AdjMap.build ops).adjacent (G.ofOps ops) :=
  fun v d y => AdjMap.adjacent_spec (AdjMap.rel_build ops) v y d

/-- CSR offsets invariant, for every builder state reached by any history: `numNodes + 1` offsets starting at
0, monotone, the last one is the length of the flat array, and slice `i` of the flat array (what the fill loop
wrote at `offsets[i]…`) is exactly the neighbour set of dense node `i` mapped back to external ids. -/
theorem csr_offsets_inv (ops : List Op) :
    let b := CsrB.ofOps ops
    let c := b.build
    (c.outOffsets.length = c.numNodes + 1 ∧ c.outOffsets.getD 0 0 = 0 ∧ c.outOffsets.getLastD 0 = c.outAdj.length ∧
      (∀ i, i < c.numNodes → c.outOffsets.getD i 0 ≤ c.outOffsets.getD (i + 1) 0) ∧
      (∀ i, i < c.numNodes → csrSlice c.outOffsets c.outAdj i = (mget b.outTmp i).map (idOf b.denseToId))) ∧
    (c.inOffsets.length = c.numNodes + 1 ∧ c.inOffsets.getD 0 0 = 0 ∧ c.inOffsets.getLastD 0 = c.inAdj.length ∧
      (∀ i, i < c.numNodes → c.inOffsets.getD i 0 ≤ c.inOffsets.getD (i + 1) 0) ∧
      (∀ i, i < c.numNodes → csrSlice c.inOffsets c.inAdj i = (mget b.inTmp i).map (idOf b.denseToId))) := by
  intro b c
  have ho := buildSide_spec b.denseToId b.outTmp
  have hi := buildSide_spec b.denseToId b.inTmp
  exact ⟨⟨ho.1, ho.2.1, ho.2.2.1, ho.2.2.2.2.1, ho.2.2.2.2.2⟩, ⟨hi.1, hi.2.1, hi.2.2.1, hi.2.2.2.2.1, hi.2.2.2.2.2⟩⟩

/-- CSR digraph (lookup through the id → dense index, slices of the flat arrays). -/
theorem csr_adj_eq (ops : List Op) : Presents (Csr.ofOps ops).adjacent (G.ofOps ops) :=
  fun v d y => Csr.adjacent_spec (CsrB.rel_ofOps ops) v y d

/-- the triple store after the build history `ops` and `DeleteEdge` of every id in `dels` -/
def tsOf (ops : List Op) (dels : List Nat) : TS := (TS.build ops).deleteAll dels

/-- FULL statement for the triple store: it presents the edge list minus the tombstoned ids. -/
def TsPresents (fixed : Bool) : Prop :=
  ∀ ops dels, Presents ((tsOf ops dels).adjacent fixed) ((G.ofOps ops).dropEdges dels)

private theorem ts_spec (fixed : Bool) (ops : List Op) (dels : List Nat) (v : Nat) (d : Dir)
    (hgood : d ≠ .both ∨ fixed = true) :
    SetEq ((tsOf ops dels).adjacent fixed v d) (((G.ofOps ops).dropEdges dels).adj v d) := by
  intro y
  have r := TS.deleteAll_rel (TS.rel_build ops) dels
  rw [show tsOf ops dels = (TS.build ops).deleteAll dels from rfl, TS.adjacent_spec r fixed v y d hgood]
  rw [G.dropEdges_congr (G.ofOps ops) (a := ((TS.build ops).deleteAll dels).deleted) (b := dels)]
  intro x
  rw [TS.deleteAll_deleted]
  have : (TS.build ops).deleted = [] := by
    unfold TS.build
    have := foldl_rel (fun (t : TS) (_ : Unit) => t.deleted = []) TS.step (fun u _ => u)
      (fun a _ o h => by cases o <;> exact h) ops {} () rfl
    exact this
  rw [this]; simp

/-- the code before 789c790: outbound and inbound only. -/
theorem ts_adj_eq_old_partial (ops : List Op) (dels : List Nat) (v : Nat) (d : Dir) (hd : d ≠ .both) :
    SetEq ((tsOf ops dels).adjacent false v d) (((G.ofOps ops).dropEdges dels).adj v d) :=
  ts_spec false ops dels v d (Or.inl hd)

/-- DESIGN §5 F2 (repaired): FALSE of the code before 789c790 — one edge 1→2: `adjacent(1, both) ∋ 1`. -/
theorem ts_adj_both_refuted_old : ¬ TsPresents false := by
  intro h
  have h1 : 1 ∈ (tsOf [.edge 10 1 2] []).adjacent false 1 .both := by decide
  have h2 := (h [.edge 10 1 2] [] 1 .both 1).mp h1
  revert h2; decide

/-- the triple store (any tombstones) presents the graph in all three directions. -/
theorem ts_adj_eq : TsPresents true :=
  fun ops dels v d => ts_spec true ops dels v d (Or.inr rfl)

/-- "`both` contains the node itself ONLY IF it has a self loop", spelled out for the containers themselves: `v` is its
own `both`-neighbour in the adjacency map, the CSR digraph and the triple store iff the history added an edge `v → v`
(for the store: one whose id is not tombstoned). -/
theorem both_contains_self_iff_loop (ops : List Op) (dels : List Nat) (v : Nat) :
    (v ∈ (AdjMap.build ops).adjacent v .both ↔ ∃ id, Op.edge id v v ∈ ops) ∧
    (v ∈ (Csr.ofOps ops).adjacent v .both ↔ ∃ id, Op.edge id v v ∈ ops) ∧
    (v ∈ (tsOf ops dels).adjacent true v .both ↔ ∃ id, Op.edge id v v ∈ ops ∧ id ∉ dels) := by
  have hg : v ∈ (G.ofOps ops).adj v .both ↔ ∃ id, Op.edge id v v ∈ ops := by
    rw [mem_adj_both, G.hasEdge_ofOps]; simp
  refine ⟨(adjmap_adj_eq ops v .both v).trans hg, (csr_adj_eq ops v .both v).trans hg, ?_⟩
  rw [ts_adj_eq ops dels v .both v, mem_adj_both]
  have : HasEdge ((G.ofOps ops).dropEdges dels).edges v v ↔ ∃ id, Op.edge id v v ∈ ops ∧ id ∉ dels := by
    show HasEdge ((G.ofOps ops).edges.filter _) v v ↔ _
    rw [hasEdge_filter]
    constructor
    · rintro ⟨e, he, hq, h1, h2⟩
      refine ⟨e.id, ?_, by simpa using hq⟩
      have := (G.mem_edges_ofOps ops e).mp he
      rw [h1, h2] at this; exact this
    · rintro ⟨id, hop, hd⟩
      exact ⟨⟨id, v, v⟩, (G.mem_edges_ofOps ops ⟨id, v, v⟩).mpr hop, by simpa using hd, rfl, rfl⟩
  rw [this]; simp

/-- FULL statement for projections: for all deleted-node and deleted-edge sets, the projection presents the
edge list minus those edges and minus every edge touching a deleted node. -/
def ProjPresents (fixed : Bool) : Prop :=
  ∀ ops dn de, Presents (Proj.adjacent fixed ⟨TS.build ops, dn, de⟩) ((G.ofOps ops).project dn de)

/-- the code before 789c790: outbound and inbound only. -/
theorem proj_adj_eq_old_partial (ops : List Op) (dn de : List Nat) (v : Nat) (d : Dir) (hd : d ≠ .both) :
    SetEq (Proj.adjacent false ⟨TS.build ops, dn, de⟩ v d) (((G.ofOps ops).project dn de).adj v d) :=
  fun y => Proj.adjacent_spec (TS.rel_build ops) false dn de v y d (Or.inl hd)

/-- DESIGN §5 F2 (repaired): FALSE of the code before 789c790 — `Pick(both)` returned `Start`: edge 1→2, `both(1) = {1}`. -/
theorem proj_adj_both_refuted_old : ¬ ProjPresents false := by
  intro h
  have h1 : 2 ∈ ((G.ofOps [.edge 10 1 2]).project [] []).adj 1 .both := by decide
  have h2 := (h [.edge 10 1 2] [] [] 1 .both 2).mpr h1
  revert h2; decide

/-- every projection of a store built without `DeleteEdge` presents the projected graph, all three directions. -/
theorem proj_adj_eq : ProjPresents true :=
  fun ops dn de v d y => Proj.adjacent_spec (TS.rel_build ops) true dn de v y d (Or.inr rfl)

/-- KNOWN FINDING (C14:triplestoreProjection.EachAdjacentEdge:ignores-origin-DeleteEdge), precise statement:
a projection of a store WITH tombstones presents the projected graph of the un-tombstoned edge list — the
origin's `DeleteEdge` set is ignored (`EachAdjacentEdge`/`EachEdge` never consult it) … -/
theorem proj_tombstone_partial (ops : List Op) (dels dn de : List Nat) :
    Presents (Proj.adjacent true ⟨tsOf ops dels, dn, de⟩) ((G.ofOps ops).project dn de) :=
  fun v d y => Proj.adjacent_spec (TS.deleteAll_rel (TS.rel_build ops) dels) true dn de v y d (Or.inr rfl)

/-- … and therefore does NOT present the graph the store itself presents (`ts_adj_eq`): edge 10: 1→2,
`DeleteEdge(10)`: the store says `out(1) = ∅`, its empty projection says `out(1) = {2}`. -/
theorem proj_tombstone_refuted :
    ¬ ∀ ops dels dn de, Presents (Proj.adjacent true ⟨tsOf ops dels, dn, de⟩) (((G.ofOps ops).dropEdges dels).project dn de) := by
  intro h
  have h1 : 2 ∈ Proj.adjacent true ⟨tsOf [.edge 10 1 2] [10], [], []⟩ 1 .out := by decide
  have h2 := (h [.edge 10 1 2] [10] [] [] 1 .out 2).mp h1
  revert h2; decide

/-- node sets and `NumNodes`: every container lists each node of the graph exactly once (isolated nodes and
nodes known only as edge end points included), `NumNodes` is that count, and the counts agree; a projection
lists exactly the non-deleted nodes. -/
theorem numNodes_eq (ops : List Op) :
    let g := G.ofOps ops
    let am := AdjMap.build ops
    let csr := Csr.ofOps ops
    let ts := TS.build ops
    (am.nodes.Nodup ∧ ∀ n, n ∈ am.nodes ↔ n ∈ g.nodes) ∧ (csr.nodes.Nodup ∧ ∀ n, n ∈ csr.nodes ↔ n ∈ g.nodes) ∧
    (ts.nodes.Nodup ∧ ∀ n, n ∈ ts.nodes ↔ n ∈ g.nodes) ∧
    am.numNodes = am.nodes.length ∧ csr.numNodes = csr.nodes.length ∧ ts.numNodes = ts.nodes.length ∧
    am.numNodes = csr.numNodes ∧ csr.numNodes = ts.numNodes ∧
    (∀ dn de, (Proj.nodes ⟨ts, dn, de⟩).Nodup ∧ (∀ n, n ∈ Proj.nodes ⟨ts, dn, de⟩ ↔ n ∈ (g.project dn de).nodes) ∧
      Proj.numNodes ⟨ts, dn, de⟩ = (Proj.nodes ⟨ts, dn, de⟩).length) := by
  intro g am csr ts
  have ra := AdjMap.rel_build ops
  have rc := CsrB.rel_ofOps ops
  have rt := TS.rel_build ops
  have ha : am.nodes.Nodup ∧ ∀ n, n ∈ am.nodes ↔ n ∈ g.nodes := ⟨Asc.nodup ra.asc, ra.nodes⟩
  have hc : csr.nodes.Nodup ∧ ∀ n, n ∈ csr.nodes ↔ n ∈ g.nodes := ⟨rc.nodup, rc.nodes⟩
  have ht : ts.nodes.Nodup ∧ ∀ n, n ∈ ts.nodes ↔ n ∈ g.nodes := ⟨Asc.nodup rt.asc, rt.nodes⟩
  refine ⟨ha, hc, ht, rfl, rfl, rfl, ?_, ?_, ?_⟩
  · exact length_eq_of_nodup_mem ha.1 hc.1 (fun x => (ha.2 x).trans (hc.2 x).symm)
  · exact length_eq_of_nodup_mem hc.1 ht.1 (fun x => (hc.2 x).trans (ht.2 x).symm)
  · intro dn de
    exact ⟨Proj.nodes_nodup rt dn de, Proj.mem_nodes rt dn de, rfl⟩

/-- `Reach` terminates: fuel `|nodes| + 1` (`PopFront`s) is sufficient for ANY container callback whose
neighbours are all listed nodes. A `none` here would be a non-termination finding. -/
theorem reach_fuel_sufficient (adj : Nat → List Nat) (nodes : List Nat) (hadj : ∀ v w, w ∈ adj v → w ∈ nodes) (s : Nat) :
    (reach adj (nodes.length + 1) s).isSome :=
  reach_total adj nodes hadj s

/-- the containers on which `Reach`/`BFSTree` are proved correct for direction `d`:
adjacency map, CSR, triple store (with tombstones) and every projection — the last two for `out`/`in` as the
code is, and for all directions once repaired. Each entry: callback, the graph it must present, its node list. -/
def containers (fixed : Bool) (ops : List Op) (dels dn de : List Nat) : List ((Nat → Dir → List Nat) × G × List Nat) :=
  [ ((AdjMap.build ops).adjacent, G.ofOps ops, (AdjMap.build ops).nodes),
    ((Csr.ofOps ops).adjacent, G.ofOps ops, (Csr.ofOps ops).nodes),
    ((tsOf ops dels).adjacent fixed, (G.ofOps ops).dropEdges dels, (tsOf ops dels).nodes),
    (Proj.adjacent fixed ⟨TS.build ops, dn, de⟩, (G.ofOps ops).project dn de, Proj.nodes ⟨TS.build ops, dn, de⟩) ]

private theorem containers_ok (fixed : Bool) (ops : List Op) (dels dn de : List Nat) (d : Dir)
    (hgood : d ≠ .both ∨ fixed = true) :
    ∀ c ∈ containers fixed ops dels dn de,
      (∀ v w, w ∈ c.1 v d ↔ w ∈ c.2.1.adj v d) ∧ c.2.1.Closed ∧ (∀ n, n ∈ c.2.1.nodes → n ∈ c.2.2) := by
  have hcl := G.closed_ofOps ops
  intro c hc
  simp only [containers, List.mem_cons, List.not_mem_nil, or_false] at hc
  rcases hc with rfl | rfl | rfl | rfl
  · exact ⟨fun v w => adjmap_adj_eq ops v d w, hcl, fun n h => ((AdjMap.rel_build ops).nodes n).mpr h⟩
  · exact ⟨fun v w => csr_adj_eq ops v d w, hcl, fun n h => ((CsrB.rel_ofOps ops).nodes n).mpr h⟩
  · exact ⟨fun v w => ts_spec fixed ops dels v d hgood w, G.closed_dropEdges hcl dels,
      fun n h => ((TS.deleteAll_rel (TS.rel_build ops) dels).nodes n).mpr h⟩
  · exact ⟨fun v w => Proj.adjacent_spec (TS.rel_build ops) fixed dn de v w d hgood, G.closed_project hcl dn de,
      fun n h => (Proj.mem_nodes (TS.rel_build ops) dn de n).mpr h⟩

/-- (generic in the code version; `reach_eq` below is the statement about the code as it is)
`Reach` from any container equals true reachability: run with fuel `NumNodes + 1` it terminates and
returns exactly the nodes reachable from `s` in ≥ 1 step of the ground-truth graph (so `s` itself only when it
lies on a cycle — what container.Reach's own tests expect). -/
theorem reach_eq_gen (fixed : Bool) (ops : List Op) (dels dn de : List Nat) (d : Dir) (hgood : d ≠ .both ∨ fixed = true) (s : Nat) :
    ∀ c ∈ containers fixed ops dels dn de,
      ∃ r, reach (fun v => c.1 v d) (c.2.2.length + 1) s = some r ∧ ∀ w, w ∈ r ↔ Reachable (fun v => c.2.1.adj v d) s w := by
  intro c hc
  obtain ⟨h1, h2, h3⟩ := containers_ok fixed ops dels dn de d hgood c hc
  exact reach_of_presents (fun v => c.1 v d) c.2.1 d h1 h2 c.2.2 h3 s

/-- (generic in the code version; `bfsTree_dist_eq` below is the statement about the code as it is)
`BFSTree` from any container: terminates with fuel `NumNodes + 1`; reports each ≥1-step reachable node
exactly once, with the length of a SHORTEST walk of the ground-truth graph. -/
theorem bfsTree_dist_eq_gen (fixed : Bool) (ops : List Op) (dels dn de : List Nat) (d : Dir) (hgood : d ≠ .both ∨ fixed = true) (s : Nat) :
    ∀ c ∈ containers fixed ops dels dn de,
      ∃ ts, bfsTree (fun v => c.1 v d) (c.2.2.length + 1) s = some ts ∧ (ts.map (·.node)).Nodup ∧
        (∀ w, (∃ t ∈ ts, t.node = w) ↔ Reachable (fun v => c.2.1.adj v d) s w) ∧
        (∀ t ∈ ts, IsDist (fun v => c.2.1.adj v d) s t.node t.dist) := by
  intro c hc
  obtain ⟨h1, h2, h3⟩ := containers_ok fixed ops dels dn de d hgood c hc
  exact bfs_of_presents (fun v => c.1 v d) c.2.1 d h1 h2 c.2.2 h3 s

/-- `Reach` from every container of the code as it is, all three directions. -/
theorem reach_eq (ops : List Op) (dels dn de : List Nat) (d : Dir) (s : Nat) :
    ∀ c ∈ containers true ops dels dn de,
      ∃ r, reach (fun v => c.1 v d) (c.2.2.length + 1) s = some r ∧ ∀ w, w ∈ r ↔ Reachable (fun v => c.2.1.adj v d) s w :=
  reach_eq_gen true ops dels dn de d (Or.inr rfl) s

/-- `BFSTree` from every container of the code as it is, all three directions: shortest walk lengths. -/
theorem bfsTree_dist_eq (ops : List Op) (dels dn de : List Nat) (d : Dir) (s : Nat) :
    ∀ c ∈ containers true ops dels dn de,
      ∃ ts, bfsTree (fun v => c.1 v d) (c.2.2.length + 1) s = some ts ∧ (ts.map (·.node)).Nodup ∧
        (∀ w, (∃ t ∈ ts, t.node = w) ↔ Reachable (fun v => c.2.1.adj v d) s w) ∧
        (∀ t ∈ ts, IsDist (fun v => c.2.1.adj v d) s t.node t.dist) :=
  bfsTree_dist_eq_gen true ops dels dn de d (Or.inr rfl) s

/-- `Normalize` (adjacency map and CSR) is an isomorphism onto ids `0..n-1`: the reverse index lists every
node once, and `j` is a neighbour of normal node `i` iff `rev[j]` is a neighbour of `rev[i]` in the ground truth. -/
theorem normalize_iso (ops : List Op) :
    let g := G.ofOps ops
    let na := (AdjMap.build ops).normalize
    let nc := (Csr.ofOps ops).normalize
    (na.1.Nodup ∧ (∀ n, n ∈ na.1 ↔ n ∈ g.nodes) ∧
      ∀ i v, na.1[i]? = some v → ∀ d j, j ∈ na.2.adjacent i d ↔ ∃ w, na.1[j]? = some w ∧ w ∈ g.adj v d) ∧
    (nc.1.Nodup ∧ (∀ n, n ∈ nc.1 ↔ n ∈ g.nodes) ∧
      ∀ i v, nc.1[i]? = some v → ∀ d j, j ∈ nc.2.adjacent i d ↔ ∃ w, nc.1[j]? = some w ∧ w ∈ g.adj v d) := by
  intro g na nc
  have ra := AdjMap.rel_build ops
  have rc := CsrB.rel_ofOps ops
  exact ⟨⟨Asc.nodup ra.asc, ra.nodes, fun i v hi d j => AdjMap.normalize_spec ra (G.closed_ofOps ops) hi d j⟩,
         ⟨rc.nodup, rc.nodes, fun i v hi d j => Csr.normalize_spec rc hi d j⟩⟩

/-- `Normalize` renumbers onto exactly `0 … n-1`: the normalised graph lists those ids, each once, and as many as
the original has nodes. -/
theorem normalize_nodes (ops : List Op) :
    let n := (AdjMap.build ops).numNodes
    let na := (AdjMap.build ops).normalize
    let nc := (Csr.ofOps ops).normalize
    (na.2.nodes.Nodup ∧ (∀ i, i ∈ na.2.nodes ↔ i < n) ∧ na.2.numNodes = n ∧ na.1.length = n) ∧
    (nc.2.nodes = List.range n ∧ nc.2.numNodes = n ∧ nc.1.length = n) := by
  intro n na nc
  have hmem : ∀ i, i ∈ na.2.nodes ↔ i < n := by
    intro i
    show i ∈ sofList (List.range (AdjMap.build ops).nodes.length) ↔ _
    rw [mem_sofList, List.mem_range]; rfl
  have hnd : na.2.nodes.Nodup := Asc.nodup (asc_sunion asc_nil)
  have hlen : na.2.numNodes = n := by
    have := length_eq_of_nodup_mem hnd (List.nodup_range (n := n)) (fun x => by rw [hmem x, List.mem_range])
    rw [List.length_range] at this; exact this
  have hcn : (Csr.ofOps ops).numNodes = n := ((numNodes_eq ops).2.2.2.2.2.2.1).symm
  refine ⟨⟨hnd, hmem, hlen, rfl⟩, ?_, ?_, ?_⟩
  · show List.range (Csr.ofOps ops).denseToId.length = List.range n
    rw [show (Csr.ofOps ops).denseToId.length = (Csr.ofOps ops).numNodes from rfl, hcn]
  · show (List.range (Csr.ofOps ops).denseToId.length).length = n
    rw [List.length_range]; exact hcn
  · exact hcn

/-- ID NORMALISATION PRESERVES REACHABILITY AND DISTANCES: for normal ids `i, j` standing for `v = rev[i]`, `w = rev[j]`,
`j` is ≥1-step reachable from `i` in the normalised graph iff `w` is from `v` in the ground truth, and the shortest
walk lengths coincide — for the adjacency map and the CSR digraph, all three directions. (With `reach_eq` /
`bfsTree_dist_eq` on the normalised graph's own callbacks this gives: Reach/BFSTree after Normalize = the naive
answer renamed.) -/
theorem normalize_preserves_dist (ops : List Op) (d : Dir) (i j v w : Nat) :
    let g := G.ofOps ops
    let na := (AdjMap.build ops).normalize
    let nc := (Csr.ofOps ops).normalize
    (na.1[i]? = some v → na.1[j]? = some w →
      (Reachable (fun x => na.2.adjacent x d) i j ↔ Reachable (fun x => g.adj x d) v w) ∧
      ∀ k, IsDist (fun x => na.2.adjacent x d) i j k ↔ IsDist (fun x => g.adj x d) v w k) ∧
    (nc.1[i]? = some v → nc.1[j]? = some w →
      (Reachable (fun x => nc.2.adjacent x d) i j ↔ Reachable (fun x => g.adj x d) v w) ∧
      ∀ k, IsDist (fun x => nc.2.adjacent x d) i j k ↔ IsDist (fun x => g.adj x d) v w k) := by
  intro g na nc
  have h := normalize_iso ops
  have hcl := G.closed_ofOps ops
  constructor
  · intro hi hj
    exact isDist_iso (fun x => g.adj x d) (fun x => na.2.adjacent x d) na.1 h.1.1
      (fun i v hi j => h.1.2.2 i v hi d j)
      (fun v w hw => List.getElem?_of_mem ((h.1.2.1 w).mpr (adj_mem_nodes hcl hw))) i v j w hi hj
  · intro hi hj
    exact isDist_iso (fun x => g.adj x d) (fun x => nc.2.adjacent x d) nc.1 h.2.1
      (fun i v hi j => h.2.2.2 i v hi d j)
      (fun v w hw => List.getElem?_of_mem ((h.2.2.1 w).mpr (adj_mem_nodes hcl hw))) i v j w hi hj

/-- THE MONITOR'S ORACLE IS THE SPEC: the naive layer-by-layer computation on the edge list that judges the real
containers (`naiveReach` / `naiveDists`, walks of ≤ n steps) returns exactly the ≥1-step reachable set and exactly the
shortest-walk lengths, for every graph whose edge end points are nodes, every direction and every bound
`n ≥ number of distinct nodes` (pigeonhole, proved through the BFS theorem). The monitor uses `n = |nodes| + 1`. -/
theorem oracle_exact (g : G) (hc : g.Closed) (d : Dir) (s n : Nat) (hn : (canon g.nodes).length ≤ n) :
    (∀ w, w ∈ naiveReach (fun v => g.adj v d) s n ↔ Reachable (fun v => g.adj v d) s w) ∧
    (∀ w k, (w, k) ∈ naiveDists (fun v => g.adj v d) s n ↔ IsDist (fun v => g.adj v d) s w k) := by
  have hadj : ∀ v w, w ∈ g.adj v d → w ∈ canon g.nodes := by
    intro v w hw
    unfold canon; rw [mem_sofList]; exact adj_mem_nodes hc hw
  exact ⟨fun w => naiveReach_exact _ (canon g.nodes) hadj s n hn w, fun w k => naiveDists_exact _ (canon g.nodes) hadj s n hn w k⟩

/-- `UnmarshalSegment (MarshalSegment s) = s` for every non-empty chain of 64-bit ids whose root `Edge` is 0
(the root's `Edge` field is not serialised). Bytes are modelled as naturals; all written bytes are < 256. -/
theorem segment_roundtrip (s : List Seg) (hne : s ≠ []) (h64 : ∀ x ∈ s, x.node < 2 ^ 64 ∧ x.edge < 2 ^ 64)
    (hroot : (s.getLast hne).edge = 0) :
    unmarshal (marshal s) = some s ∧ (∀ b ∈ marshal s, b < 256) ∧ (marshal s).length = 8 * (2 * s.length - 1) := by
  refine ⟨?_, ?_, ?_⟩
  · unfold unmarshal marshal
    rw [words_flatMap _ _ (by rw [flatMap_le64_length]; omega)]
    simp only [Option.map_some]
    rw [map_mod_id, unmarshalIds_marshalIds s hne hroot]
    intro x hx
    obtain ⟨c, hc, h⟩ := mem_marshalIds hx
    rcases h with rfl | rfl
    · exact (h64 c hc).1
    · exact (h64 c hc).2
  · intro b hb
    unfold marshal at hb
    obtain ⟨n, _, hb⟩ := List.mem_flatMap.mp hb
    exact leBytesN_lt 8 _ b hb
  · unfold marshal
    rw [flatMap_le64_length]
    congr 1
    clear h64 hroot
    induction s with
    | nil => exact absurd rfl hne
    | cons a t ih =>
      cases t with
      | nil => rfl
      | cons b t' =>
        rw [marshalIds_cons2]
        simp only [List.length_cons] at ih ⊢
        have := ih (by simp)
        omega

/-! ### Factory / builder entry points -/

/-- `BuildAdjacencyMapGraph(desc)` and `util.BuildGraph(NewCSRDigraphBuilder, desc)` present the SAME graph for every
adjacency description: its nodes are every key of the map — whatever its out-list, empty and nil included (isolated
nodes) — and every destination; its edges are the listed pairs; node counts and edge counts agree.
(`descOps desc` is what both factories do: `AddNode(src)`, then `AddNode(dst); AddEdge(src, dst)` per destination.) -/
theorem factories_eq (desc : Desc) :
    let ops := descOps desc
    let g := G.ofOps ops
    Presents (AdjMap.build ops).adjacent g ∧ Presents (Csr.ofOps ops).adjacent g ∧
    (∀ n, n ∈ g.nodes ↔ ∃ kv ∈ desc, n = kv.1 ∨ n ∈ kv.2) ∧
    (∀ s t, HasEdge g.edges s t ↔ ∃ kv ∈ desc, kv.1 = s ∧ t ∈ kv.2) ∧
    (∀ kv ∈ desc, kv.1 ∈ (AdjMap.build ops).nodes ∧ kv.1 ∈ (Csr.ofOps ops).nodes) ∧
    (AdjMap.build ops).numNodes = (Csr.ofOps ops).numNodes ∧ (AdjMap.build ops).numEdges = (Csr.ofOps ops).numEdges := by
  intro ops g
  have hn := numNodes_eq ops
  have hnodes := desc_nodes desc
  refine ⟨adjmap_adj_eq ops, csr_adj_eq ops, hnodes, desc_edges desc, ?_, hn.2.2.2.2.2.2.1,
    (AdjMap.numEdges_spec (AdjMap.rel_build ops)).trans (Csr.numEdges_spec (CsrB.rel_ofOps ops)).symm⟩
  intro kv hkv
  have : kv.1 ∈ g.nodes := (hnodes kv.1).mpr ⟨kv, hkv, Or.inl rfl⟩
  exact ⟨(hn.1.2 kv.1).mpr this, (hn.2.1.2 kv.1).mpr this⟩

/-- `FetchDirectedGraph` / `FetchFilteredDirectedGraph`: the CSR digraph of the selected relationships presents exactly
those (start, end) pairs; its nodes are their end points and nothing else. -/
theorem fetch_eq (sel : Edge → Bool) (edges : List Edge) :
    let ops := fetchOps sel edges
    let g := G.ofOps ops
    Presents (Csr.ofOps ops).adjacent g ∧
    (∀ n, n ∈ (Csr.ofOps ops).nodes ↔ ∃ e ∈ edges, sel e = true ∧ (n = e.start ∨ n = e.stop)) ∧
    (∀ s t, HasEdge g.edges s t ↔ ∃ e ∈ edges, sel e = true ∧ e.start = s ∧ e.stop = t) := by
  intro ops g
  refine ⟨csr_adj_eq ops, fun n => ?_, fetch_edges sel edges⟩
  rw [(numNodes_eq ops).2.1.2 n]
  exact fetch_nodes sel edges n

/-! ### Projection handles: nested projections are immutable values -/

/-- NON-INTERFERENCE: whatever happens after a handle was taken — further store operations, `DeleteEdge`, any number
of projections derived from the store, from other handles or FROM THIS HANDLE — its accumulated deletions stay what
they were, as long as its own name is not rebound. -/
theorem handle_noninterference (s : HState) (later : List HOp) (h : String) (hb : ∀ op ∈ later, op.binds ≠ some h) :
    (later.foldl HState.step s).handles.lookup h = s.handles.lookup h :=
  HState.foldl_lookup later s h hb

/-- THE VIEW OF A HANDLE is a function of the store's edge set and of that handle's own accumulated deletions only:
after ANY run, a handle bound to `(dn, de)` presents the store's graph projected by `(dn, de)` — adjacency in all three
directions, node set, node count, edge count, and its `EachAdjacentEdge` is literally the incident-edge list. (The
store's `DeleteEdge` tombstones do not enter: the known finding.) -/
theorem handle_view_eq (run : List HOp) (h : String) (dn de : List Nat)
    (hh : (HState.run run).handles.lookup h = some (dn, de)) :
    let p : Proj := ⟨(HState.run run).ts, dn, de⟩
    let g := (G.ofRun run).project dn de
    (HState.run run).view h = some p ∧ Presents (Proj.adjacent true p) g ∧
    (p.nodes.Nodup ∧ ∀ n, n ∈ p.nodes ↔ n ∈ g.nodes) ∧ p.numNodes = p.nodes.length ∧ p.numEdges = g.edges.length ∧
    ∀ v d, p.adjacentEdges v d = g.incident v d := by
  intro p g
  have r := HState.ts_rel run
  refine ⟨by simp [HState.view, hh, p], ?_, ⟨Proj.nodes_nodup r dn de, Proj.mem_nodes r dn de⟩, rfl, Proj.numEdges_spec r dn de, ?_⟩
  · exact fun v d y => Proj.adjacent_spec r true dn de v y d (Or.inr rfl)
  · exact fun v d => Proj.adjacentEdges_eq r dn de v d

/-- CHILD = PARENT MINUS (N2, E2): deriving `c := parent.Projection(dn2, de2)` binds `c` to the parent's deletions plus
the new ones, leaves the parent (and every other handle) as it was, and the graph `c` presents is the parent's graph
projected once more. -/
theorem handle_child_eq (s : HState) (c parent : String) (pn pe dn2 de2 : List Nat) (hp : s.handles.lookup parent = some (pn, pe)) :
    let s' := s.step (.derive c parent dn2 de2)
    s'.handles.lookup c = some (sunion pn (sofList dn2), sunion pe (sofList de2)) ∧
    (∀ h, h ≠ c → s'.handles.lookup h = s.handles.lookup h) ∧
    s'.ts = s.ts ∧
    ∀ g : G, g.project (sunion pn (sofList dn2)) (sunion pe (sofList de2)) = (g.project pn pe).project dn2 de2 := by
  intro s'
  have hs : s' = { s with handles := hset s.handles c (sunion pn (sofList dn2), sunion pe (sofList de2)) } :=
    HState.step_derive_some s c parent dn2 de2 (pn, pe) hp
  refine ⟨by rw [hs]; exact lookup_hset_eq _ _ _, ?_, by rw [hs], fun g => (G.project_project g pn pe dn2 de2).symm⟩
  intro h hne
  exact HState.step_lookup s _ h (by simp [HOp.binds]; exact fun e => hne e.symm)

/-! ### TSDFS / TSBFS / TSStatelessBFS -/

/-- Hypothesis under which the triple-store traversals terminate: a positive depth bound, or a rank function on
nodes that strictly decreases along every filter-admitted step (a certificate that the filtered graph is
acyclic). The excluded point — an admitted cycle with `maxDepth ≤ 0` — is the documented non-termination of
the real loops (they keep no visited set). -/
def Terminates (g : G) (d : Dir) (admits : Edge → Bool) (maxDepth : Int) : Prop :=
  maxDepth > 0 ∨ ∃ rk : Nat → Nat, ∀ n e, e ∈ g.incident n d → admits e = true → rk (e.other n) < rk n

/-- the `Triplestore`s the traversals run on, each with the graph whose walks it must enumerate: the store
itself — with ANY tombstones: `EachAdjacentEdge` ignores `DeleteEdge`, so it is the un-tombstoned edge list (the
known finding, stated precisely) — and every projection of it. -/
def tsContainers (ops : List Op) (dels dn de : List Nat) : List ((Nat → Dir → List Edge) × G) :=
  [ ((tsOf ops dels).adjacentEdges, G.ofOps ops),
    (Proj.adjacentEdges ⟨tsOf ops dels, dn, de⟩, (G.ofOps ops).project dn de) ]

private theorem tsContainers_incident (ops : List Op) (dels dn de : List Nat) :
    ∀ c ∈ tsContainers ops dels dn de, ∀ n d, c.1 n d = c.2.incident n d := by
  have r := TS.deleteAll_rel (TS.rel_build ops) dels
  intro c hc
  simp only [tsContainers, List.mem_cons, List.not_mem_nil, or_false] at hc
  rcases hc with rfl | rfl
  · exact fun n d => TS.adjacentEdges_eq r n d
  · exact fun n d => Proj.adjacentEdges_eq r dn de n d

/-- `TSBFS` over the store and over every projection: under `Terminates` it completes for every sufficiently
large fuel (explicit bound: the number of nodes of the walk tree), and the handler receives — as a multiset,
i.e. each exactly as often as it occurs, hence once per walk — exactly the maximal filter-admitted walks within
the depth bound enumerated naively from the edge list (`maxWalks`, stable in its own fuel from `F` on);
the returned count is the number of reported walks that exceed the depth. -/
theorem tsbfs_leaves_eq (ops : List Op) (dels dn de : List Nat) (d : Dir) (filt : Edge → Bool) (maxDepth : Int) (root : Nat) :
    ∀ c ∈ tsContainers ops dels dn de, Terminates c.2 d filt maxDepth →
      ∃ F fuel0,
        (∀ F', F ≤ F' → maxWalks c.2 d filt maxDepth Edge.other F' [⟨root, 0⟩] = maxWalks c.2 d filt maxDepth Edge.other F [⟨root, 0⟩]) ∧
        ∀ fuel, fuel0 ≤ fuel → ∃ out inc,
          tsTraverse true true (fun n => c.1 n d) d filt maxDepth fuel root = some (out, inc) ∧
          out.Perm (maxWalks c.2 d filt maxDepth Edge.other F [⟨root, 0⟩]) ∧
          inc = (out.filter (segExceeded maxDepth)).length :=
  fun c hc hterm => traverse_of_incident true c.1 c.2 (tsContainers_incident ops dels dn de c hc) d filt maxDepth root hterm

/-- `TSDFS`: the same statement for the `PopBack` loop. -/
theorem tsdfs_leaves_eq (ops : List Op) (dels dn de : List Nat) (d : Dir) (filt : Edge → Bool) (maxDepth : Int) (root : Nat) :
    ∀ c ∈ tsContainers ops dels dn de, Terminates c.2 d filt maxDepth →
      ∃ F fuel0,
        (∀ F', F ≤ F' → maxWalks c.2 d filt maxDepth Edge.other F' [⟨root, 0⟩] = maxWalks c.2 d filt maxDepth Edge.other F [⟨root, 0⟩]) ∧
        ∀ fuel, fuel0 ≤ fuel → ∃ out inc,
          tsTraverse false true (fun n => c.1 n d) d filt maxDepth fuel root = some (out, inc) ∧
          out.Perm (maxWalks c.2 d filt maxDepth Edge.other F [⟨root, 0⟩]) ∧
          inc = (out.filter (segExceeded maxDepth)).length :=
  fun c hc hterm => traverse_of_incident false c.1 c.2 (tsContainers_incident ops dels dn de c hc) d filt maxDepth root hterm

/-- SERIALISED PATH SEGMENTS DERIVED FROM A CONTAINER round-trip: every segment TSBFS / TSDFS hands its handler — over
the store or any projection, any direction, filter and depth bound, whatever fuel the run completed with — is a
non-empty chain ending in the root with `Edge = 0`, so the hypotheses of `segment_roundtrip` hold for it and
`UnmarshalSegment (MarshalSegment seg) = seg` (what `WriteZoneBFSTree` writes can be read back segment by segment).
Only the 64-bit range of the graph's ids is assumed. -/
theorem traversal_segments_roundtrip (bfs : Bool) (ops : List Op) (dels dn de : List Nat) (d : Dir) (filt : Edge → Bool)
    (maxDepth : Int) (root : Nat) (hroot : root < 2 ^ 64)
    (h64 : ∀ e ∈ (G.ofOps ops).edges, e.id < 2 ^ 64 ∧ e.start < 2 ^ 64 ∧ e.stop < 2 ^ 64) :
    ∀ c ∈ tsContainers ops dels dn de, ∀ fuel out inc,
      tsTraverse bfs true (fun n => c.1 n d) d filt maxDepth fuel root = some (out, inc) →
      ∀ seg ∈ out, seg ≠ [] ∧ unmarshal (marshal seg) = some seg := by
  intro c hc fuel out inc hrun seg hseg
  have hinc := tsContainers_incident ops dels dn de c hc
  have hsub : ∀ n, ∀ e ∈ c.1 n d, e ∈ (G.ofOps ops).edges := by
    intro n e he
    rw [hinc n d] at he
    have he' := (mem_incident.mp he).1
    simp only [tsContainers, List.mem_cons, List.not_mem_nil, or_false] at hc
    rcases hc with rfl | rfl
    · exact he'
    · exact (mem_project_edges.mp he').1
  unfold tsTraverse at hrun
  rw [pickAt_true] at hrun
  obtain ⟨F, _, hperm, _⟩ := travLoop_correct bfs _ segIsPath (segExceeded maxDepth) fuel _ _ _ out inc hrun
  have hmem : seg ∈ treeLeaves (segChildren (fun n => c.1 n d) filt maxDepth Edge.other) segIsPath F [⟨root, 0⟩] := by
    have := hperm.mem_iff.mp hseg
    simpa using this
  have hwf : SegWf root seg :=
    treeLeaves_inv _ segIsPath (SegWf root)
      (segWf_children (fun n => c.1 n d) filt maxDepth root (fun n e he => h64 e (hsub n e he))) F [⟨root, 0⟩] seg
      ⟨⟨[], rfl⟩, by intro x hx; simp at hx; subst hx; exact ⟨hroot, show (0 : Nat) < 2 ^ 64 by decide⟩⟩ hmem
  obtain ⟨⟨pre, hpre⟩, hall⟩ := hwf
  have hne : seg ≠ [] := by rw [hpre]; simp
  refine ⟨hne, (segment_roundtrip seg hne hall ?_).1⟩
  simp [hpre]

/-- `TSStatelessBFS`: under `Terminates` (for the weighted filter) it completes, and the terminal handler receives
exactly (as a multiset) the terminals `(end node, distance, weight product)` of the maximal admitted walks
enumerated naively from the edge list (`maxTerms`); every reported distance is ≥ 1 and is the length of an
admitted walk from the root to the reported node. -/
theorem stateless_bfs_dist_eq (ops : List Op) (dels dn de : List Nat) (d : Dir) (wfilt : Edge → Option Nat) (maxDepth : Int) (root : Nat) :
    ∀ c ∈ tsContainers ops dels dn de, Terminates c.2 d (fun e => (wfilt e).isSome) maxDepth →
      ∃ F fuel0,
        (∀ F', F ≤ F' → maxTerms c.2 d wfilt maxDepth F' ⟨root, 0, 0⟩ = maxTerms c.2 d wfilt maxDepth F ⟨root, 0, 0⟩) ∧
        ∀ fuel, fuel0 ≤ fuel → ∃ out inc,
          statelessBFS true (fun n => c.1 n d) d wfilt maxDepth fuel root = some (out, inc) ∧
          out.Perm (maxTerms c.2 d wfilt maxDepth F ⟨root, 0, 0⟩) ∧
          inc = (out.filter (ptExceeded maxDepth)).length ∧
          ∀ t ∈ out, 1 ≤ t.dist ∧ t.node ∈ walkEnds (admittedEnds (fun n => c.2.incident n d) wfilt) root t.dist := by
  intro c hc hterm
  exact stateless_of_incident c.1 c.2 (tsContainers_incident ops dels dn de c hc) d wfilt maxDepth root hterm

/-! ### NumEdges -/

/-- `NumEdges` against the edge list, for every history, any tombstones and ANY deleted-id sets (ids that are not
nodes or edges of the store included): the adjacency map and the CSR digraph both count the distinct
(start, end) pairs — hence agree for ALL histories —, the triple store every triple, a projection exactly the
triples of the projected graph; without parallel edges all of them agree. Known finding, stated precisely: the
store's count ignores `DeleteEdge` (it is `|edges|` whatever `dels`). -/
theorem numEdges_eq (ops : List Op) (dels dn de : List Nat) :
    let g := G.ofOps ops
    (AdjMap.build ops).numEdges = g.pairs.length ∧
    (Csr.ofOps ops).numEdges = g.pairs.length ∧
    (AdjMap.build ops).numEdges = (Csr.ofOps ops).numEdges ∧
    (tsOf ops dels).numEdges = g.edges.length ∧
    Proj.numEdges ⟨tsOf ops dels, dn, de⟩ = (g.project dn de).edges.length ∧
    ((g.edges.map (fun e => (e.start, e.stop))).Nodup →
      (AdjMap.build ops).numEdges = (tsOf ops dels).numEdges ∧ (Csr.ofOps ops).numEdges = (tsOf ops dels).numEdges) := by
  intro g
  have rc := CsrB.rel_ofOps ops
  have rt := TS.deleteAll_rel (TS.rel_build ops) dels
  have h0 : (AdjMap.build ops).numEdges = g.pairs.length := AdjMap.numEdges_spec (AdjMap.rel_build ops)
  have h1 : (Csr.ofOps ops).numEdges = g.pairs.length := Csr.numEdges_spec rc
  have h2 : (tsOf ops dels).numEdges = g.edges.length := TS.numEdges_spec rt
  exact ⟨h0, h1, h0.trans h1.symm, h2, Proj.numEdges_spec rt dn de,
    fun hn => ⟨by rw [h0, h2, pairs_length_of_nodup hn], by rw [h1, h2, pairs_length_of_nodup hn]⟩⟩

/-- C14:adjacencyMapDigraph.NumEdges:returns-node-count (repaired by hooks/C14-fix2.patch): before the repair
`NumEdges` returned the NODE count — edges 1→2, 1→3: two edges, `NumEdges() = 3`. -/
theorem adjmap_numEdges_refuted_old : ¬ ∀ ops, (AdjMap.build ops).numEdgesOld = (G.ofOps ops).pairs.length := by
  intro h
  have := h [.edge 10 1 2, .edge 11 1 3]
  revert this; decide

/-- KNOWN FINDING (C14:triplestore.NumEdges:ignores-DeleteEdge): edge 10 deleted, `NumEdges() = 1`. -/
theorem ts_numEdges_tombstone_refuted :
    ¬ ∀ ops dels, (tsOf ops dels).numEdges = ((G.ofOps ops).dropEdges dels).edges.length := by
  intro h
  have := h [.edge 10 1 2] [10]
  revert this; decide

/-! ### Proposed repair hooks/C14-fix3.patch (NOT in /repo): every read path honours `DeleteEdge`

The theorems below are about the `tomb = true` definitions (`TS.adjacentEdgesT`, `Proj.adjacentT`, `…numEdgesT`),
i.e. the code with that patch applied; they become the live statements (replacing `proj_tombstone_partial/_refuted`,
`ts_numEdges_tombstone_refuted` and the un-tombstoned graph in `tsContainers`) when it lands. -/

/-- store and projections under the fix3 semantics, each with the graph it must present: the edge list minus the
tombstoned ids (and minus the projection's deleted sets). -/
def tsContainersFix3 (ops : List Op) (dels dn de : List Nat) : List ((Nat → Dir → List Edge) × G) :=
  [ ((tsOf ops dels).adjacentEdgesT true, (G.ofOps ops).dropEdges dels),
    (Proj.adjacentEdgesT true ⟨tsOf ops dels, dn, de⟩, ((G.ofOps ops).dropEdges dels).project dn de) ]

private theorem tsOf_deleted_congr (ops : List Op) (dels : List Nat) :
    (G.ofOps ops).dropEdges (tsOf ops dels).deleted = (G.ofOps ops).dropEdges dels := by
  apply G.dropEdges_congr
  intro x
  show x ∈ ((TS.build ops).deleteAll dels).deleted ↔ _
  rw [TS.deleteAll_deleted, TS.build_deleted]; simp

private theorem tsContainersFix3_incident (ops : List Op) (dels dn de : List Nat) :
    ∀ c ∈ tsContainersFix3 ops dels dn de, ∀ n d, c.1 n d = c.2.incident n d := by
  have r := TS.deleteAll_rel (TS.rel_build ops) dels
  intro c hc
  simp only [tsContainersFix3, List.mem_cons, List.not_mem_nil, or_false] at hc
  rcases hc with rfl | rfl
  · intro n d; rw [← tsOf_deleted_congr]; exact TS.adjacentEdgesT_eq r n d
  · intro n d; rw [← tsOf_deleted_congr]; exact Proj.adjacentEdgesT_eq r dn de n d

/-- with fix3 every projection of a tombstoned store presents what the store presents, projected. -/
theorem proj_adj_eq_fix3 (ops : List Op) (dels dn de : List Nat) :
    Presents (Proj.adjacentT true true ⟨tsOf ops dels, dn, de⟩) (((G.ofOps ops).dropEdges dels).project dn de) := by
  intro v d y
  rw [← tsOf_deleted_congr]
  exact Proj.adjacentT_spec (TS.deleteAll_rel (TS.rel_build ops) dels) dn de v y d

/-- with fix3 `NumEdges` of the store and of every projection counts exactly the live triples. -/
theorem numEdges_eq_fix3 (ops : List Op) (dels dn de : List Nat) :
    (tsOf ops dels).numEdgesT true = ((G.ofOps ops).dropEdges dels).edges.length ∧
    Proj.numEdgesT true ⟨tsOf ops dels, dn, de⟩ = (((G.ofOps ops).dropEdges dels).project dn de).edges.length := by
  have r : (tsOf ops dels).Rel (G.ofOps ops) := TS.deleteAll_rel (TS.rel_build ops) dels
  constructor
  · unfold TS.numEdgesT; rw [TS.edgesT_eq r, tsOf_deleted_congr]
  · unfold Proj.numEdgesT; simp only; rw [TS.edgesT_eq r, tsOf_deleted_congr, project_edges_eq]; rfl

/-- with fix3 TSBFS / TSDFS / TSStatelessBFS walk the tombstone-free graph (same statements as above). -/
theorem traversals_eq_fix3 (ops : List Op) (dels dn de : List Nat) (d : Dir) (filt : Edge → Bool) (wfilt : Edge → Option Nat)
    (maxDepth : Int) (root : Nat) :
    ∀ c ∈ tsContainersFix3 ops dels dn de,
      (Terminates c.2 d filt maxDepth → ∀ bfs, ∃ F fuel0,
        (∀ F', F ≤ F' → maxWalks c.2 d filt maxDepth Edge.other F' [⟨root, 0⟩] = maxWalks c.2 d filt maxDepth Edge.other F [⟨root, 0⟩]) ∧
        ∀ fuel, fuel0 ≤ fuel → ∃ out inc,
          tsTraverse bfs true (fun n => c.1 n d) d filt maxDepth fuel root = some (out, inc) ∧
          out.Perm (maxWalks c.2 d filt maxDepth Edge.other F [⟨root, 0⟩]) ∧
          inc = (out.filter (segExceeded maxDepth)).length) ∧
      (Terminates c.2 d (fun e => (wfilt e).isSome) maxDepth → ∃ F fuel0,
        (∀ F', F ≤ F' → maxTerms c.2 d wfilt maxDepth F' ⟨root, 0, 0⟩ = maxTerms c.2 d wfilt maxDepth F ⟨root, 0, 0⟩) ∧
        ∀ fuel, fuel0 ≤ fuel → ∃ out inc,
          statelessBFS true (fun n => c.1 n d) d wfilt maxDepth fuel root = some (out, inc) ∧
          out.Perm (maxTerms c.2 d wfilt maxDepth F ⟨root, 0, 0⟩) ∧
          inc = (out.filter (ptExceeded maxDepth)).length ∧
          ∀ t ∈ out, 1 ≤ t.dist ∧ t.node ∈ walkEnds (admittedEnds (fun n => c.2.incident n d) wfilt) root t.dist) := by
  intro c hc
  have hinc := tsContainersFix3_incident ops dels dn de c hc
  exact ⟨fun hterm bfs => traverse_of_incident bfs c.1 c.2 hinc d filt maxDepth root hterm,
         fun hterm => stateless_of_incident c.1 c.2 hinc d wfilt maxDepth root hterm⟩

/-! ### Degrees / Dimensions -/

/-- `Degrees` = number of `EachAdjacentNode` callbacks. The adjacency map, the triple store and — for outbound /
inbound — the CSR digraph call back each neighbour once, so their degrees are the number of DISTINCT neighbours
and agree. (CSR under `both` and projections call back once per incident edge: multiplicity, not judged.) -/
theorem degrees_eq (ops : List Op) (v : Nat) (d : Dir) :
    ((AdjMap.build ops).adjacent v d).Nodup ∧ ((TS.build ops).adjacent true v d).Nodup ∧
    ((AdjMap.build ops).adjacent v d).length = ((TS.build ops).adjacent true v d).length ∧
    (d ≠ .both → ((Csr.ofOps ops).adjacent v d).Nodup ∧
      ((Csr.ofOps ops).adjacent v d).length = ((AdjMap.build ops).adjacent v d).length) := by
  have na := AdjMap.adjacent_nodup (AdjMap.rel_build ops) v d
  have nt := TS.adjacent_nodup true (TS.build ops) v d
  refine ⟨na, nt, ?_, ?_⟩
  · exact length_eq_of_nodup_mem na nt (fun x => (adjmap_adj_eq ops v d x).trans (TS.adjacent_build_spec ops v x d).symm)
  · intro hd
    have nc := Csr.adjacent_nodup (CsrB.rel_ofOps ops) v d hd
    exact ⟨nc, length_eq_of_nodup_mem nc na (fun x => (csr_adj_eq ops v d x).trans (adjmap_adj_eq ops v d x).symm)⟩

/-- `Dimensions(digraph, direction)` = (`NumNodes`, largest row) agrees across the adjacency map, the triple
store and (outbound / inbound) the CSR digraph, although they enumerate their nodes in different orders. -/
theorem dimensions_eq (ops : List Op) (d : Dir) :
    let am := AdjMap.build ops
    let ts := TS.build ops
    let csr := Csr.ofOps ops
    dimensions am.nodes am.numNodes (fun v => am.adjacent v d) = dimensions ts.nodes ts.numNodes (fun v => ts.adjacent true v d) ∧
    (d ≠ .both → dimensions csr.nodes csr.numNodes (fun v => csr.adjacent v d) = dimensions am.nodes am.numNodes (fun v => am.adjacent v d)) := by
  intro am ts csr
  have hn := numNodes_eq ops
  simp only [dimensions_eq_rowMax]
  constructor
  · congr 1
    · exact hn.2.2.2.2.2.2.1.trans hn.2.2.2.2.2.2.2.1
    · exact rowMax_congr (fun x => (hn.1.2 x).trans (hn.2.2.1.2 x).symm) (fun x _ => (degrees_eq ops x d).2.2.1)
  · intro hd
    congr 1
    · exact hn.2.2.2.2.2.2.1.symm
    · exact rowMax_congr (fun x => (hn.2.1.2 x).trans (hn.1.2 x).symm) (fun x _ => ((degrees_eq ops x d).2.2.2 hd).2)

/-- C14 at full strength for a given version of the code: every container presents the ground truth in all
three directions (triple store with any tombstones, every projection), node counts agree, Reach and BFSTree
from every container are exact for all three directions, Normalize is an isomorphism, segments round-trip. -/
def C14_for (fixed : Bool) : Prop :=
  (∀ ops, Presents (AdjMap.build ops).adjacent (G.ofOps ops) ∧ Presents (Csr.ofOps ops).adjacent (G.ofOps ops)) ∧
  TsPresents fixed ∧ ProjPresents fixed ∧
  (∀ ops, (AdjMap.build ops).numNodes = (Csr.ofOps ops).numNodes ∧ (Csr.ofOps ops).numNodes = (TS.build ops).numNodes ∧
    ((AdjMap.build ops).nodes.Nodup ∧ ∀ n, n ∈ (AdjMap.build ops).nodes ↔ n ∈ (G.ofOps ops).nodes)) ∧
  (∀ ops dels dn de d s, ∀ c ∈ containers fixed ops dels dn de,
    (∃ r, reach (fun v => c.1 v d) (c.2.2.length + 1) s = some r ∧ ∀ w, w ∈ r ↔ Reachable (fun v => c.2.1.adj v d) s w) ∧
    (∃ ts, bfsTree (fun v => c.1 v d) (c.2.2.length + 1) s = some ts ∧ (ts.map (·.node)).Nodup ∧
      (∀ w, (∃ t ∈ ts, t.node = w) ↔ Reachable (fun v => c.2.1.adj v d) s w) ∧
      (∀ t ∈ ts, IsDist (fun v => c.2.1.adj v d) s t.node t.dist))) ∧
  (∀ ops i v d j, ((AdjMap.build ops).normalize.1[i]? = some v →
      (j ∈ (AdjMap.build ops).normalize.2.adjacent i d ↔ ∃ w, (AdjMap.build ops).normalize.1[j]? = some w ∧ w ∈ (G.ofOps ops).adj v d)) ∧
    ((Csr.ofOps ops).normalize.1[i]? = some v →
      (j ∈ (Csr.ofOps ops).normalize.2.adjacent i d ↔ ∃ w, (Csr.ofOps ops).normalize.1[j]? = some w ∧ w ∈ (G.ofOps ops).adj v d))) ∧
  (∀ (s : List Seg) (hne : s ≠ []), (∀ x ∈ s, x.node < 2 ^ 64 ∧ x.edge < 2 ^ 64) → (s.getLast hne).edge = 0 →
    unmarshal (marshal s) = some s)

/-- C14 at full strength, about the code AS IT IS. (Stores carrying `DeleteEdge` tombstones are covered for the
store itself; their projections, `BFSTreeFile.ReadEach` and `SerializedSegment.ToSegment` are the remaining known
findings, stated precisely in `proj_tombstone_partial/_refuted`; TSBFS/TSDFS/TSStatelessBFS
have their own theorems below.) -/
def C14_full : Prop := C14_for true

theorem c14 : C14_full := by
  refine ⟨fun ops => ⟨adjmap_adj_eq ops, csr_adj_eq ops⟩, ts_adj_eq, proj_adj_eq, ?_, ?_, ?_, ?_⟩
  · intro ops
    have h := numNodes_eq ops
    exact ⟨h.2.2.2.2.2.2.1, h.2.2.2.2.2.2.2.1, h.1⟩
  · intro ops dels dn de d s c hc
    exact ⟨reach_eq ops dels dn de d s c hc, bfsTree_dist_eq ops dels dn de d s c hc⟩
  · intro ops i v d j
    have h := normalize_iso ops
    exact ⟨fun hi => h.1.2.2 i v hi d j, fun hi => h.2.2.2 i v hi d j⟩
  · intro s hne h64 hroot
    exact (segment_roundtrip s hne h64 hroot).1

/-- the code before 789c790 did NOT satisfy C14 (F2: `DirectionBoth` in the triple store and its projections) … -/
theorem c14_refuted_old : ¬ C14_for false :=
  fun h => ts_adj_both_refuted_old h.2.1

/-- … it satisfied everything of `C14_for` except `both` on the triple store / projections. -/
theorem c14_old_partial :
    (∀ ops, Presents (AdjMap.build ops).adjacent (G.ofOps ops) ∧ Presents (Csr.ofOps ops).adjacent (G.ofOps ops)) ∧
    (∀ ops dels dn de v d, d ≠ .both →
      SetEq ((tsOf ops dels).adjacent false v d) (((G.ofOps ops).dropEdges dels).adj v d) ∧
      SetEq (Proj.adjacent false ⟨TS.build ops, dn, de⟩ v d) (((G.ofOps ops).project dn de).adj v d)) ∧
    (∀ ops dels dn de d s, d ≠ .both → ∀ c ∈ containers false ops dels dn de,
      (∃ r, reach (fun v => c.1 v d) (c.2.2.length + 1) s = some r ∧ ∀ w, w ∈ r ↔ Reachable (fun v => c.2.1.adj v d) s w) ∧
      (∃ ts, bfsTree (fun v => c.1 v d) (c.2.2.length + 1) s = some ts ∧ (ts.map (·.node)).Nodup ∧
        (∀ w, (∃ t ∈ ts, t.node = w) ↔ Reachable (fun v => c.2.1.adj v d) s w) ∧
        (∀ t ∈ ts, IsDist (fun v => c.2.1.adj v d) s t.node t.dist))) :=
  ⟨fun ops => ⟨adjmap_adj_eq ops, csr_adj_eq ops⟩,
   fun ops dels dn de v d hd => ⟨ts_adj_eq_old_partial ops dels v d hd, proj_adj_eq_old_partial ops dn de v d hd⟩,
   fun ops dels dn de d s hd c hc =>
     ⟨reach_eq_gen false ops dels dn de d (Or.inl hd) s c hc, bfsTree_dist_eq_gen false ops dels dn de d (Or.inl hd) s c hc⟩⟩

/-! ### SerializedSegment.ToSegment (repaired by hooks/C14-fix4.patch: `s.Edges[nodeIndex]`) -/

/-- closed form on well-formed input (`|Edges| + 1 = |Nodes|`, both root-first): node `i+1` carries edge `i`, the
root's `Edge` stays 0; the chain is returned terminal-first. -/
theorem toSegment_wf (n : Nat) (ns es : List Nat) (h : es.length = ns.length) :
    toSegment (n :: ns) es = (List.zipWith Seg.mk ns es).reverse ++ [⟨n, 0⟩] := by
  rw [toSegment_eq_pairs, toSegPairs_wf ns es n 0 [] h]

/-- `ToSegment` inverts the obvious serialisation, for EVERY segment chain whose root `Edge` is 0 … -/
theorem toSegment_serialize (seg : List Seg) (hne : seg ≠ []) (hroot : (seg.getLast hne).edge = 0) :
    toSegment (serialize seg).1 (serialize seg).2 = seg := by
  obtain ⟨s, t, hst⟩ : ∃ s t, seg.reverse = s :: t := by
    cases hr : seg.reverse with
    | nil => exact absurd (List.reverse_eq_nil_iff.mp hr) hne
    | cons s t => exact ⟨s, t, rfl⟩
  have hseg : seg = t.reverse ++ [s] := by
    have := congrArg List.reverse hst
    simpa using this
  have hs0 : s.edge = 0 := by
    have : seg.getLast hne = s := by
      simp [hseg]
    rw [this] at hroot; exact hroot
  unfold serialize
  simp only
  rw [hst, toSegment_eq_pairs]
  have hd : (seg.dropLast.map (·.edge)).reverse = t.map (·.edge) := by
    rw [hseg]; simp
  rw [hd, toSegPairs_chain t s [] 0, hseg]
  congr 2
  cases s; simp_all

/-- … and the serialisation inverts `ToSegment` on every well-formed input. -/
theorem serialize_toSegment (n : Nat) (ns es : List Nat) (h : es.length = ns.length) :
    serialize (toSegment (n :: ns) es) = (n :: ns, es) := by
  rw [toSegment_wf n ns es h]
  unfold serialize
  simp [zipWith_map_node ns es h, zipWith_map_edge ns es h]

/-- ill-formed input, case by case (no totalised default): no nodes → the zero segment, whatever the edges; -/
theorem toSegment_no_nodes (es : List Nat) : toSegment [] es = [⟨0, 0⟩] := rfl

/-- `|Edges| ≥ |Nodes| ≥ 1`: the first surplus edge `x` opens a dangling terminal with `Node = 0`, later edges are ignored; -/
theorem toSegment_excess_edges (n : Nat) (ns es : List Nat) (x : Nat) (extra : List Nat) (h : es.length = ns.length) :
    toSegment (n :: ns) (es ++ x :: extra) = ⟨0, x⟩ :: toSegment (n :: ns) es := by
  rw [toSegment_eq_pairs, toSegment_eq_pairs, toSegPairs_excess ns es n 0 [] x extra h]

/-- `|Edges| + 1 < |Nodes|`: the nodes beyond the well-formed prefix overwrite the terminal's `Node`; only the last survives. -/
theorem toSegment_missing_edges (n : Nat) (ns es : List Nat) (m : Nat) (ms : List Nat) (h : es.length = ns.length) :
    toSegment (n :: ns ++ m :: ms) es = setHeadNode ((m :: ms).getLast (List.cons_ne_nil m ms)) (toSegment (n :: ns) es) := by
  rw [toSegment_eq_pairs, toSegment_eq_pairs]
  exact toSegPairs_missing ns es n 0 [] m ms h

/-- C14:SerializedSegment.ToSegment:Edges-index-minus-one-panic (repaired): before the repair `ToSegment` panicked
(`none`) on EVERY serialized segment that has a node and an edge. -/
theorem toSegment_panics_old (n : Nat) (ns : List Nat) (e : Nat) (es : List Nat) : toSegmentOld (n :: ns) (e :: es) = none := rfl

/-! ### Non-vacuity: the hypotheses are satisfiable on non-trivial states, and the models are not degenerate.
Graph: isolated node 9, self loop on 5, parallel edges 7→3 (twice), antiparallel 3→7, chain 7→3→5, sparse id 2^40. -/

def demoOps : List Op :=
  [.node 9, .edge 100 7 3, .edge 101 7 3, .edge 102 3 7, .edge 103 5 5, .edge 104 3 5, .edge 105 5 1099511627776, .node 7]

example : (AdjMap.build demoOps).nodes = [3, 5, 7, 9, 1099511627776] := by decide
example : (Csr.ofOps demoOps).nodes = [9, 7, 3, 5, 1099511627776] := by decide          -- first-seen order
example : (Csr.ofOps demoOps).outOffsets = [0, 0, 1, 3, 5, 5] ∧ (Csr.ofOps demoOps).outAdj = [3, 7, 5, 5, 1099511627776] := by decide
example : (Csr.ofOps demoOps).adjacent 3 .both = [7, 5, 7] := by decide                 -- multiplicity kept by CSR
example : (AdjMap.build demoOps).adjacent 3 .both = [5, 7] := by decide
example : (tsOf demoOps []).adjacent true 3 .both = [5, 7] ∧ (tsOf demoOps []).adjacent false 3 .both = [3, 5, 7] := by decide
example : (tsOf demoOps [104]).adjacent false 3 .out = [7] := by decide                  -- tombstone
example : Proj.adjacent false ⟨TS.build demoOps, [5], [100]⟩ 7 .out = [3] ∧
          Proj.adjacent false ⟨TS.build demoOps, [5], [100]⟩ 3 .out = [7] := by decide
example : reach (fun v => (AdjMap.build demoOps).adjacent v .out) 6 7 = some [3, 5, 7, 1099511627776] := by decide
example : reach (fun v => (AdjMap.build demoOps).adjacent v .out) 6 9 = some [] := by decide   -- not reflexive
example : bfsTree (fun v => (Csr.ofOps demoOps).adjacent v .out) 6 7 =
    some [⟨3, 1⟩, ⟨7, 2⟩, ⟨5, 2⟩, ⟨1099511627776, 3⟩] := by decide
example : (AdjMap.build demoOps).normalize.1 = [3, 5, 7, 9, 1099511627776] ∧
          (AdjMap.build demoOps).normalize.2.adjacent 0 .out = [1, 2] := by decide
-- hypotheses of `reach_eq_gen` / `bfsTree_dist_eq_gen` / `c14_old_partial`: `d ≠ both ∨ fixed` is satisfiable both ways
example : (Dir.out ≠ Dir.both ∨ false = true) ∧ (Dir.both ≠ Dir.both ∨ true = true) := by decide
-- hypotheses of `segment_roundtrip` on a 3-node chain with ids ≥ 2^32 and a byte 0x0A
example : unmarshal (marshal [⟨10, 4294967297⟩, ⟨18446744073709551615, 7⟩, ⟨1, 0⟩]) =
    some [⟨10, 4294967297⟩, ⟨18446744073709551615, 7⟩, ⟨1, 0⟩] := by decide
example : marshal [⟨258, 0⟩] = [2, 1, 0, 0, 0, 0, 0, 0] := by decide
-- the root's Edge is really lost (why the hypothesis is needed)
example : unmarshal (marshal [⟨1, 5⟩]) = some [⟨1, 0⟩] := by decide
-- F3: `SerializedSegment.ToSegment` as it is panics (`none`) on every input with an edge
example : toSegmentOld [1, 2] [7] = none ∧ toSegment [1, 2] [7] = [⟨2, 7⟩, ⟨1, 0⟩] ∧ toSegment [1] [] = [⟨1, 0⟩] ∧
          serialize [⟨5, 14⟩, ⟨4, 13⟩, ⟨3, 0⟩] = ([3, 4, 5], [13, 14]) ∧ toSegment [3, 4, 5] [13, 14] = [⟨5, 14⟩, ⟨4, 13⟩, ⟨3, 0⟩] ∧
          toSegment [1, 2] [7, 8, 9] = [⟨0, 8⟩, ⟨2, 7⟩, ⟨1, 0⟩] ∧ toSegment [1, 2, 3, 4] [7] = [⟨4, 7⟩, ⟨1, 0⟩] := by decide
-- `Terminates`: both disjuncts are satisfiable — a depth bound, and a rank for the acyclic chain 7→3→5→2^40 …
example : Terminates (G.ofOps demoOps) .out (fun _ => true) 2 := Or.inl (by decide)
example : Terminates (G.ofOps [.edge 1 7 3, .edge 2 3 5]) .out (fun _ => true) 0 :=
  Or.inr ⟨fun n => if n = 7 then 2 else if n = 3 then 1 else 0, by
    intro n e he _
    simp [G.ofOps, G.step, G.incident] at he
    rcases he with ⟨rfl | rfl, h⟩ <;> subst h <;> simp [Edge.other]⟩
-- … and the traversals are not degenerate: TSBFS / TSDFS order, a depth-exceeded walk, stateless weights
example : tsTraverse true true (fun n => (tsOf demoOps []).adjacentEdges n .out) .out (fun _ => true) 2 20 7 =
    some ([[⟨7, 102⟩, ⟨3, 100⟩, ⟨7, 0⟩], [⟨5, 104⟩, ⟨3, 100⟩, ⟨7, 0⟩], [⟨7, 102⟩, ⟨3, 101⟩, ⟨7, 0⟩], [⟨5, 104⟩, ⟨3, 101⟩, ⟨7, 0⟩]], 4) := by decide
example : (tsTraverse false true (fun n => (tsOf demoOps []).adjacentEdges n .out) .out (fun _ => true) 2 20 7).map (·.1.head?) = some (some [⟨5, 104⟩, ⟨3, 101⟩, ⟨7, 0⟩]) := by decide
example : maxWalks (G.ofOps demoOps) .out (fun _ => true) 2 Edge.other 3 [⟨7, 0⟩] =
    [[⟨7, 102⟩, ⟨3, 100⟩, ⟨7, 0⟩], [⟨5, 104⟩, ⟨3, 100⟩, ⟨7, 0⟩], [⟨7, 102⟩, ⟨3, 101⟩, ⟨7, 0⟩], [⟨5, 104⟩, ⟨3, 101⟩, ⟨7, 0⟩]] := by decide
example : statelessBFS true (fun n => (tsOf demoOps []).adjacentEdges n .out) .out (fun e => some (1 + e.id % 3)) 1 20 3 =
    some ([⟨3, 2, 2⟩, ⟨3, 2, 3⟩, ⟨5, 2, 6⟩, ⟨1099511627776, 2, 3⟩], 4) := by decide
-- a filtered cycle with maxDepth ≤ 0 (the excluded point) exhausts any fuel in the model
example : tsTraverse true true (fun n => (tsOf demoOps []).adjacentEdges n .out) .out (fun _ => true) 0 50 7 = none := by decide
example : (Csr.ofOps demoOps).numEdges = 5 ∧ (tsOf demoOps [104]).numEdges = 6 ∧
          Proj.numEdges ⟨tsOf demoOps [], [5, 77], [100, 999]⟩ = 2 ∧ (AdjMap.build demoOps).numEdges = 5 ∧ (AdjMap.build demoOps).numEdgesOld = 5 ∧
          (AdjMap.build [.edge 10 1 2, .edge 11 1 3, .edge 12 1 2]).numEdges = 2 := by decide
example : dimensions (AdjMap.build demoOps).nodes (AdjMap.build demoOps).numNodes (fun v => (AdjMap.build demoOps).adjacent v .both) = (5, 3) ∧
          dimensions (Csr.ofOps demoOps).nodes (Csr.ofOps demoOps).numNodes (fun v => (Csr.ofOps demoOps).adjacent v .both) = (5, 4) := by decide
-- fix3 semantics on a tombstoned store: the projection and NumEdges follow the store
example : Proj.adjacentT true true ⟨tsOf [.edge 10 1 2, .edge 11 2 3] [10], [], []⟩ 1 .out = [] ∧
          Proj.adjacentT false true ⟨tsOf [.edge 10 1 2, .edge 11 2 3] [10], [], []⟩ 1 .out = [2] ∧
          (tsOf [.edge 10 1 2, .edge 11 2 3] [10]).numEdgesT true = 1 ∧ (tsOf [.edge 10 1 2, .edge 11 2 3] [10]).numEdgesT false = 2 := by decide
-- handles: parent p = store minus node 4; child c = p minus (node 3, edge 11); the parent's value is what it was
example :
    let run : List HOp := [.build (.edge 10 1 2), .build (.edge 11 2 3), .build (.edge 12 3 4), .fromStore "p" [4] [],
                           .derive "c" "p" [3] [11], .build (.edge 13 1 3)]
    (HState.run run).handles.lookup "p" = some ([4], []) ∧ (HState.run run).handles.lookup "c" = some ([3, 4], [11]) ∧
    ((HState.run run).view "p").map (·.nodes) = some [1, 2, 3] ∧ ((HState.run run).view "c").map (·.nodes) = some [1, 2] ∧
    ((HState.run run).view "p").map (fun p => Proj.adjacent true p 1 .out) = some [2, 3] := by decide
-- the oracle on the demo graph: 7 reaches 3 (1 step), 7 and 5 (2), 2^40 (3); 9 reaches nothing
example : naiveDists (fun v => (G.ofOps demoOps).adj v .out) 7 6 = [(3, 1), (5, 2), (7, 2), (1099511627776, 3)] ∧
          naiveReach (fun v => (G.ofOps demoOps).adj v .out) 9 6 = [] := by decide
-- factories: key 9 with an empty list and key 8 with a nil list (both `[]` in the model) are nodes of both containers
example : (AdjMap.build (descOps [(7, [3, 3]), (9, []), (8, []), (4294967296, [7])])).nodes = [3, 7, 8, 9, 4294967296] ∧
          (Csr.ofOps (descOps [(7, [3, 3]), (9, []), (8, []), (4294967296, [7])])).numNodes = 5 ∧
          (Csr.ofOps (fetchOps (fun e => e.id % 2 == 1) [⟨11, 1, 2⟩, ⟨12, 2, 3⟩])).nodes = [1, 2] := by decide
-- `IsDist` is not vacuous: 5 is at distance 2 from 7, and not at distance 1
example : (5 ∈ walkEnds (fun v => (G.ofOps demoOps).adj v .out) 7 2) ∧ ¬ (5 ∈ walkEnds (fun v => (G.ofOps demoOps).adj v .out) 7 1) := by decide

end Dawgs.C14.Props
