/-
C07 — the Cypher parser is faithful: it models what it accepts and rejects the rest.
Statements + instance side conditions over the tables regenerated from /repo (Generated/Visitors.lean, Grammar.lean),
the witness closure of Generated/C07Witness.lean (untrusted, re-checked here) and the list of silently dropped rules
recorded in known_findings.json (Generated/C07Known.lean).
-/
import Dawgs.Proofs.C07
import Dawgs.Proofs.C08
import Dawgs.Spec.C07
import Dawgs.Generated.C07Witness
import Dawgs.Generated.C07Known
namespace Dawgs.C07.Props
open Dawgs.C07 Dawgs.C07.Inst Dawgs.Grammar
open Dawgs.Generated (C07Witness.S C07Witness.frontier C07Known.knownIgnored)

/-! ### classification of (visitor, rule) pairs from the regenerated tables -/

/-- the witness set contains (QueryVisitor, oC_Cypher) and is closed under the successor relation (grammar references ×
extracted push actions, stopping at error-reporting rules and at flagged pairs): it covers every active pair -/
theorem active_closed : C.closed C07Witness.S = true := by decide +kernel

/-- the frontier is exactly the flagged members of the active set -/
theorem frontier_ok : C07Witness.S.filter C.flagged = C07Witness.frontier := by decide +kernel

/-- every name on the benign list denotes an existing visitor type and rule -/
theorem benign_names_resolve :
    benignNames.all (fun b => decide (tix b.1 < Generated.Visitors.typeNames.length) && decide (rix b.2.1 < Generated.Grammar.numRules)) = true := by
  decide +kernel

/-- `ignored_rules_listed`: the rules of the topmost silently ignored (visitor, rule) pairs — an empty stub is all that runs
although the rule carries content tokens, no error is reported on the way, the pair is not on the justified benign list —
are exactly the rules known_findings.json records with key `C07:<rule>:silently-dropped`. A new ignored rule (an emptied
method, a new grammar alternative, a removed unsupported-rule error) or a stale entry breaks this theorem. -/
theorem ignored_rules_listed :
    (C07Witness.frontier.map (fun p => ruleName p.2)).all C07Known.knownIgnored.contains = true ∧
    C07Known.knownIgnored.all (C07Witness.frontier.map (fun p => ruleName p.2)).contains = true := by
  decide +kernel

def unsupportedRules : List String :=
  ((List.range Generated.Grammar.numRules).filter (fun r => C.ruleClass C07Witness.S r == "unsupported")).map ruleName

/-- per-rule classification over the active set: the rules rejected with "rule is not supported" wherever they are reached -/
theorem rule_classes : unsupportedRules =
    ["oC_CypherOption", "oC_Explain", "oC_Profile", "oC_BulkImportQuery", "oC_Union", "oC_Command", "oC_LoadCSV",
     "oC_CreateUnique", "oC_Foreach", "oC_InQueryCall", "oC_StandaloneCall", "oC_Hint", "oC_Start",
     "oC_ListOperatorExpression", "oC_CaseExpression", "oC_ListComprehension", "oC_PatternComprehension",
     "oC_LegacyListExpression", "oC_Reduce", "oC_ExistentialSubquery", "oC_LegacyParameter"] := by
  decide +kernel

/-- shortestPath(...) used as an EXPRESSION is rejected by the active AtomVisitor's own method (as a pattern part it stays represented) -/
theorem shortest_path_expression_rejected :
    C.errorStop (tix "AtomVisitor") (rix "oC_ShortestPathPattern") = true ∧
    C.own (tix "PatternPartVisitor") (rix "oC_ShortestPathPattern") = true := by decide +kernel

/-! ### the `*a..b` mini-parser -/

/-- emit-parse fixed point of the range fragment: whatever range the model stores, the emitted tokens parse back to it -/
theorem range_parse_emit_fixed (r : Option Int × Option Int) :
    (parseRange (emitRangeT r)).start = r.1 ∧ (parseRange (emitRangeT r)).stop = r.2 ∧ (parseRange (emitRangeT r)).errors = 0 :=
  parse_emitRangeT r

theorem emit_build_fixed_range (r : Option Int × Option Int) :
    ((parseRange (emitRangeT r)).start, (parseRange (emitRangeT r)).stop) = r := by
  obtain ⟨h1, h2, _⟩ := parse_emitRangeT r
  rw [h1, h2]

/-- the stored range is what the text denotes, for all (a?, `..`?, b?) — for the visitor without (`false`) / with (`true`) the
exact-length repair of hooks/C07-fix2.patch -/
def range_literal_faithful_with (ex : Bool) : Prop :=
  ∀ (a : Option Nat) (dots : Bool) (b : Option Nat),
    ((parseRangeWith ex (rangeTokens a dots b)).start, (parseRangeWith ex (rangeTokens a dots b)).stop) = rangeDenotes a dots b

/-- full statement for the LIVE visitor (`Repair.exactHops` says which one /repo has; tied by `repairs_as_in_source`) -/
def range_literal_faithful_full : Prop := range_literal_faithful_with Repair.exactHops

/-- proved for every form except `*n`, for both visitors: `*`, `*..`, `*a..`, `*..b`, `*a..b` -/
theorem range_literal_faithful_partial_with (ex : Bool) (a : Option Nat) (dots : Bool) (b : Option Nat) (h : dots = true ∨ a = none) :
    ((parseRangeWith ex (rangeTokens a dots b)).start, (parseRangeWith ex (rangeTokens a dots b)).stop) = rangeDenotes a dots b ∧
    (parseRangeWith ex (rangeTokens a dots b)).errors = 0 := by
  obtain ⟨he, hs, ht⟩ := parse_rangeTokens_with ex a dots b
  refine ⟨?_, he⟩
  rw [hs, ht]
  rcases h with h | h
  · subst h; simp [rangeDenotes]
  · subst h; cases dots <;> cases ex <;> simp [rangeDenotes]

theorem range_literal_faithful_partial (a : Option Nat) (dots : Bool) (b : Option Nat) (h : dots = true ∨ a = none) :
    ((parseRange (rangeTokens a dots b)).start, (parseRange (rangeTokens a dots b)).stop) = rangeDenotes a dots b ∧
    (parseRange (rangeTokens a dots b)).errors = 0 :=
  range_literal_faithful_partial_with _ a dots b h

/-- the REPAIRED visitor (EndIndex = StartIndex when no range operator is present) reads every form as it is written -/
theorem range_literal_faithful_fixed : range_literal_faithful_with true := by
  intro a dots b
  obtain ⟨_, hs, ht⟩ := parse_rangeTokens_with true a dots b
  rw [hs, ht]
  cases dots <;> simp [rangeDenotes]

/-- `*2` means exactly two hops; the OLD mini-parser stores (2, none), i.e. `*2..` -/
theorem range_literal_faithful_refuted_old : ¬ range_literal_faithful_with false := by
  intro h
  have := h (some 2) false none
  revert this
  decide

/-- the LIVE visitor: refuted while /repo has the old text, proved once hooks/C07-fix2.patch is in (the constant is tied to the
source by `repairs_as_in_source`) -/
theorem range_literal_faithful_live :
    (Repair.exactHops = false ∧ ¬ range_literal_faithful_full) ∨ (Repair.exactHops = true ∧ range_literal_faithful_full) := by
  unfold range_literal_faithful_full
  cases Repair.exactHops
  · exact Or.inl ⟨rfl, range_literal_faithful_refuted_old⟩
  · exact Or.inr ⟨rfl, range_literal_faithful_fixed⟩

/-! ### faithfulness on trees — false of the current code -/

def setTree : Tree :=
  .node 0 [.node 1 [], .node 8 [.node 9 [.node 10 [.node 15 [.node 16 [.node 19 [.node 35 [.leaf "72:MATCH", .leaf "149: ", .node 71 [.node 72 [.node 73 [.node 75 [.node 77 [.leaf "3:(", .node 129 [.node 142 [.leaf "145:n"]], .leaf "4:)"]]]]]]], .leaf "149: ", .node 18 [.node 41 [.leaf "75:SET", .leaf "149: ", .node 42 [.node 89 [.node 109 [.node 129 [.node 142 [.leaf "145:n"]]], .node 108 [.leaf "24:.", .node 137 [.node 140 [.node 142 [.leaf "127:a"]]]], .node 108 [.leaf "24:.", .node 137 [.node 140 [.node 142 [.leaf "127:b"]]]]], .leaf "149: ", .leaf "2:=", .leaf "149: ", .node 90 [.node 91 [.node 92 [.node 93 [.node 94 [.node 95 [.node 97 [.node 102 [.node 103 [.node 104 [.node 105 [.node 106 [.node 109 [.node 130 [.node 132 [.node 133 [.leaf "125:1"]]]]]]]]]]]]]]]]]]]]]]]], .leaf "-1:<EOF>"]

def idxTree : Tree :=
  .node 0 [.node 1 [], .node 8 [.node 9 [.node 10 [.node 15 [.node 16 [.node 19 [.node 35 [.leaf "72:MATCH", .leaf "149: ", .node 71 [.node 72 [.node 73 [.node 75 [.node 77 [.leaf "3:(", .node 129 [.node 142 [.leaf "145:n"]], .leaf "4:)"]]]]]]], .leaf "149: ", .node 52 [.leaf "83:RETURN", .node 53 [.leaf "149: ", .node 54 [.node 55 [.node 90 [.node 91 [.node 92 [.node 93 [.node 94 [.node 95 [.node 97 [.node 102 [.node 103 [.node 104 [.node 105 [.node 106 [.node 109 [.node 129 [.node 142 [.leaf "145:n"]]], .node 108 [.leaf "24:.", .node 137 [.node 140 [.node 142 [.leaf "127:a"]]]], .node 107 [.leaf "5:[", .node 90 [.node 91 [.node 92 [.node 93 [.node 94 [.node 95 [.node 97 [.node 102 [.node 103 [.node 104 [.node 105 [.node 106 [.node 109 [.node 130 [.node 132 [.node 133 [.leaf "125:0"]]]]]]]]]]]]]]]], .leaf "6:]"]]]]]]]]]]]]]]]]]]]]]], .leaf "-1:<EOF>"]

def notNotTree : Tree :=
  .node 0 [.node 1 [], .node 8 [.node 9 [.node 10 [.node 15 [.node 16 [.node 52 [.leaf "83:RETURN", .node 53 [.leaf "149: ", .node 54 [.node 55 [.node 90 [.node 91 [.node 92 [.node 93 [.node 94 [.leaf "105:NOT", .leaf "149: ", .leaf "105:NOT", .leaf "149: ", .node 95 [.node 97 [.node 102 [.node 103 [.node 104 [.node 105 [.node 106 [.node 109 [.node 130 [.node 131 [.leaf "122:true"]]]]]]]]]]]]]]]]]]]]]]]], .leaf "-1:<EOF>"]

def notTree : Tree :=
  .node 0 [.node 1 [], .node 8 [.node 9 [.node 10 [.node 15 [.node 16 [.node 52 [.leaf "83:RETURN", .node 53 [.leaf "149: ", .node 54 [.node 55 [.node 90 [.node 91 [.node 92 [.node 93 [.node 94 [.leaf "105:NOT", .leaf "149: ", .node 95 [.node 97 [.node 102 [.node 103 [.node 104 [.node 105 [.node 106 [.node 109 [.node 130 [.node 131 [.leaf "122:true"]]]]]]]]]]]]]]]]]]]]]]]], .leaf "-1:<EOF>"]

def sampleQ : Tree :=
  .node 0 [.node 1 [], .node 8 [.node 9 [.node 10 [.node 15 [.node 16 [.node 52 [.leaf "83:RETURN", .node 53 [.leaf "149: ", .node 54 [.node 55 [.node 90 [.node 91 [.node 92 [.node 93 [.node 94 [.node 95 [.node 97 [.node 102 [.node 103 [.node 104 [.node 105 [.node 106 [.node 109 [.node 129 [.node 142 [.leaf "145:n"]]], .node 108 [.leaf "24:.", .node 137 [.node 140 [.node 142 [.leaf "127:a"]]]]]]]]]]]]]]]]]]]]]]]]], .leaf "-1:<EOF>"]

def sampleQSexp : String := "(cypher.RegularQuery (SingleQuery (cypher.SingleQuery (SinglePartQuery (cypher.SinglePartQuery (errorContext (cypher.errorContext (errors nil))) (ReadingClauses nil) (UpdatingClauses nil) (Return (cypher.Return (Projection (cypher.Projection (Distinct false) (All false) (Order nil) (Skip nil) (Limit nil) (Items (list (cypher.ProjectionItem (Expression (cypher.PropertyLookup (Atom (cypher.Variable (Symbol \"n\"))) (Symbol \"a\"))) (Alias nil)))))))))) (MultiPartQuery nil))))"

/-- full statement (tree level): a parse tree of oC_Cypher that follows the grammar, is syntactically complete and raises no
listener error contains no silently ignored construct, and the range literal is read as it is written -/
def C07_full : Prop :=
  (∀ t : Tree, t.rootRule = some 0 → t.wf Dawgs.C08.Inst.refs = true → t.conforms Dawgs.C08.Inst.must = true →
      Dawgs.C08.Inst.E.listenerErrors t = [] → C.ignoredIn t = []) ∧
  range_literal_faithful_full

/-- repaired: `MATCH (n) RETURN n.a[0]` (list indexing, formerly read as `0`) is now rejected as unsupported; against the
OLD table (BaseVisitor.EnterOC_ListOperatorExpression an empty stub) it raised no error -/
theorem list_index_now_rejected :
    Dawgs.C08.Inst.E.listenerErrors idxTree ≠ [] ∧ Dawgs.C08.Inst.E_old.listenerErrors idxTree = [] := by decide +kernel

/-- what IS proved for the current code: the classification (any silently ignored construct is one of the listed ones,
and every listed one is real), the range fragment (faithful for every form but `*n`; emit-parse fixed point).
The emit/parse round trip on the represented sub-grammar is proved in Props/C07Round.lean (`emit_build_fixed`, `emit_yield`,
`faithful_partial`) for canonical derivations of well-formed models; the agreement of `build`/`emit` with the Go code is tied per
case by the harness. -/
def C07_partial : Prop :=
  ((C07Witness.frontier.map (fun p => ruleName p.2)).all C07Known.knownIgnored.contains = true ∧
    C07Known.knownIgnored.all (C07Witness.frontier.map (fun p => ruleName p.2)).contains = true) ∧
  (∀ (a : Option Nat) (dots : Bool) (b : Option Nat), dots = true ∨ a = none →
    ((parseRange (rangeTokens a dots b)).start, (parseRange (rangeTokens a dots b)).stop) = rangeDenotes a dots b) ∧
  (∀ r : Option Int × Option Int, ((parseRange (emitRangeT r)).start, (parseRange (emitRangeT r)).stop) = r)

theorem c07_partial : C07_partial :=
  ⟨ignored_rules_listed, fun a dots b h => (range_literal_faithful_partial a dots b h).1, emit_build_fixed_range⟩

theorem parseInt64_eq (s : String) :
    parseInt64 s = if Dawgs.C08.intLiteralInRange s then some (Dawgs.C08.digitsValue s : Int) else none := by
  have hfun : isDigit = Char.isDigit := by funext c; rfl
  unfold parseInt64 Dawgs.C08.intLiteralInRange Dawgs.C08.digitsValue
  rw [hfun]
  by_cases h1 : s.isEmpty = true <;> by_cases h2 : s.toList.all Char.isDigit = true <;>
    by_cases h3 : s.toList.foldl (fun a c => a * 10 + (c.toNat - '0'.toNat)) 0 ≤ 9223372036854775807 <;> simp [h1, h2, h3]

/-- accepted ⇒ the model value is the value of the digit string: `build` stores an integer literal only when its text is a decimal
digit string of value at most 2^63-1, and then stores exactly that value (no wrap-around); every other integer text — 2^63 and
beyond, hexadecimal, octal — is an "invalid integer literal" error -/
theorem int_literal_value (s : String) (v : Int) (h : parseInt64 s = some v) :
    Dawgs.C08.intLiteralInRange s = true ∧ v = (Dawgs.C08.digitsValue s : Int) ∧ 0 ≤ v ∧ v ≤ 9223372036854775807 := by
  rw [parseInt64_eq] at h
  by_cases hr : Dawgs.C08.intLiteralInRange s = true
  · rw [if_pos hr] at h
    simp only [Option.some.injEq] at h
    refine ⟨hr, h.symm, by rw [← h]; exact Int.natCast_nonneg _, ?_⟩
    have hle : Dawgs.C08.digitsValue s ≤ 9223372036854775807 := by
      unfold Dawgs.C08.intLiteralInRange at hr
      exact of_decide_eq_true (Bool.and_eq_true_iff.mp hr).2
    rw [← h]; exact Int.ofNat_le.mpr hle
  · rw [if_neg hr] at h; cases h

theorem int_literal_rejected (s : String) (h : Dawgs.C08.intLiteralInRange s = false) : parseInt64 s = none := by
  rw [parseInt64_eq, h]; rfl

theorem int_literal_boundaries :
    Dawgs.C08.intLiteralInRange "9223372036854775807" = true ∧ Dawgs.C08.intLiteralInRange "9223372036854775808" = false ∧
    Dawgs.C08.intLiteralInRange "18446744073709551615" = false ∧ Dawgs.C08.intLiteralInRange "18446744073709551616" = false ∧
    Dawgs.C08.intLiteralInRange "0x1F" = false ∧ Dawgs.C08.intLiteralInRange "0o17" = false ∧ Dawgs.C08.intLiteralInRange "" = false := by
  decide +kernel

/-- the float formatting `emit` models (`fmtFloat`: positional digits, `.0` for integral values, no exponent form) is exactly the
text of format.formatFloatLiteral -/
theorem float_format_as_modelled : Generated.Visitors.srcFormatFloatLiteral = expectedFormatFloatLiteral := rfl

/-- `Represented` separates the two sample trees -/
theorem represented_samples : C.represented sampleQ = true ∧ C.represented idxTree = false := by decide +kernel

/-- non-vacuity of `build`/`toSexp`/`emit`: on the real tree of `RETURN n.a` the Lean build
renders exactly what the harness printed for the Go model, and emits the tokens of format.RegularQuery -/
theorem build_sample :
    (build N sampleQ).toOption.map toSexp = some sampleQSexp ∧
    (build N sampleQ).toOption.map emit = some ["return", "n", ".", "a"] := by
  decide +kernel

end Dawgs.C07.Props
