/-
C08 — parsing is total and bounded on arbitrary input: the listener part.
Statements over ALL rule-labelled trees (error nodes included) + instance side conditions over the tables
regenerated from /repo on every run (Generated/Visitors.lean, Generated/Grammar.lean, Generated/Frontend.lean).
-/
import Dawgs.Proofs.C08
import Dawgs.Proofs.C08Parts
import Dawgs.Spec.C08
import Dawgs.Generated.Frontend
namespace Dawgs.C08.Props
open Dawgs.C08 Dawgs.C08.Inst Dawgs.Grammar

/-! ### instance side conditions -/

/-- the model transcribes exactly this text of Context.Enter/Exit/EnterEveryRule/ExitEveryRule/VisitTerminal/VisitErrorNode -/
theorem context_protocol_as_modelled :
    Generated.Visitors.srcEnter = expectedEnter ∧ Generated.Visitors.srcExit = expectedExit ∧
    Generated.Visitors.srcEnterEveryRule = expectedEnterEveryRule ∧ Generated.Visitors.srcExitEveryRule = expectedExitEveryRule ∧
    Generated.Visitors.srcVisitTerminal = expectedVisitTerminal ∧ Generated.Visitors.srcVisitErrorNode = expectedVisitErrorNode :=
  ⟨rfl, rfl, rfl, rfl, rfl, rfl⟩

/-- the error model of the tie ("recognition error ⇒ error returned", one recorded error per ANTLR report, unsupported-rule errors
built without touching the text) transcribes exactly this text of parseCypher / Context.SyntaxError / Context.AddErrors /
BaseVisitor.newUnsupportedRuleError: a guard in SyntaxError, a dropped listener registration or a slice of the offending text
breaks this theorem -/
theorem error_reporting_as_modelled :
    Generated.Visitors.srcSyntaxError = expectedSyntaxError ∧ Generated.Visitors.srcAddErrors = expectedAddErrors ∧
    Generated.Visitors.srcNewUnsupportedRuleError = expectedNewUnsupportedRuleError ∧
    Generated.Visitors.srcParseCypherInner = expectedParseCypherInner :=
  ⟨rfl, rfl, rfl, rfl⟩

/-- no visitor calls a method directly on the result of a single-child accessor of a generated rule context (`ctx.DecimalInteger().GetText()`,
`ctx.OC_Variable().GetText()` …): such an accessor returns nil when the child is absent — optional in the grammar, or missing in a tree
ANTLR's error recovery built — and the call would panic. The walk theorems cover the listener PROTOCOL on every tree; this covers the
accessor-nil pattern inside method bodies; other body-level panics remain searched only. -/
theorem accessor_chains_guarded : Generated.Visitors.accessorChains = [] := by decide +kernel

/-- the extractor understood every stack action: all visitor structs embed exactly BaseVisitor (method lookup = own else
Base), nobody overrides the generic callbacks, every pushed type and every guard was resolved; rule tables agree -/
theorem table_shape :
    Generated.Visitors.notEmbeddingBase = [] ∧ Generated.Visitors.genericCallbackOverrides = [] ∧
    Generated.Visitors.unresolvedPushes = [] ∧ Generated.Visitors.opaqueGuards = [] ∧
    Generated.Visitors.ruleNames = Generated.Grammar.ruleNames ∧
    Generated.Visitors.enterActions.length = numRules ∧ Generated.Visitors.exitActions.length = numRules := by
  decide +kernel

/-- THE table condition: for every visitor type and rule, `EnterOC_r`/`ExitOC_r` either both leave the visitor stack alone
or push one visitor of type W under a guard g and pop once under the same g asserting W (or nothing) -/
theorem table_balanced : T.balanced = true := by decide +kernel
theorem filters_inert : TD.filtersInert = true := by decide +kernel

theorem hbT : ∀ V r, pairOK (T.enterActs V r) (T.exitActs V r) = true := balanced_all table_balanced
theorem hbTD : ∀ V r, pairOK (TD.enterActs V r) (TD.exitActs V r) = true := balanced_all (T := TD) table_balanced
theorem hfT : ∀ f ∈ T.filters, ∀ r, T.enterActs f r = [] := by intro f h; cases h
theorem hfTD : ∀ f ∈ TD.filters, ∀ r, TD.enterActs f r = [] := fun _ h r => filters_inert_all filters_inert h r

/-! ### no panic -/

/-- `listener_no_panic`: for EVERY tree — grammatical, truncated, with error nodes, or not a Cypher tree at all — the walk
with either context ends without a panic, with the visitor stack back to `[QueryVisitor/0]`. -/
theorem listener_no_panic (t : Tree) :
    (∃ st, T.run t = .ok st ∧ st.stack = [(T.root, 0)]) ∧ (∃ st, TD.run t = .ok st ∧ st.stack = [(TD.root, 0)]) := by
  constructor
  · obtain ⟨st, h, hs, _, _⟩ := walk_ok T hbT hfT t T.init T.root 0 [] rfl (by omega)
    exact ⟨st, h, hs⟩
  · obtain ⟨st, h, hs, _, _⟩ := walk_ok TD hbTD hfTD t TD.init TD.root 0 [] rfl (by omega)
    exact ⟨st, h, hs⟩

theorem outcome_not_panic (t : Tree) (errors : Nat) (why : String) : T.outcome errors t ≠ .panic why ∧ TD.outcome errors t ≠ .panic why := by
  obtain ⟨⟨st, h, _⟩, ⟨st', h', _⟩⟩ := listener_no_panic t
  constructor
  · simp only [Tables.outcome, h]; split <;> simp
  · simp only [Tables.outcome, h']; split <;> simp

/-- `errors_never_lost`: whatever the tree, one recorded error — a lexer or parser recognition error (every ANTLR report is recorded:
`error_reporting_as_modelled`), a filter error, an unsupported rule, a literal conversion error — makes the outcome an ERROR, under
both contexts: never (model, nil), never (nil, nil), never a panic; and an `ok` outcome means that nothing was recorded -/
theorem errors_never_lost (t : Tree) (errors : Nat) (h : 0 < errors) : T.outcome errors t = .err ∧ TD.outcome errors t = .err := by
  obtain ⟨⟨st, h1, _⟩, ⟨st', h2, _⟩⟩ := listener_no_panic t
  have hne : errors ≠ 0 := by omega
  constructor
  · simp only [Tables.outcome, h1, hne, if_false]
  · simp only [Tables.outcome, h2, hne, if_false]

theorem outcome_ok_iff (t : Tree) (errors : Nat) : T.outcome errors t = .ok ↔ errors = 0 := by
  obtain ⟨⟨st, h1, _⟩, _⟩ := listener_no_panic t
  simp only [Tables.outcome, h1]
  constructor
  · intro h; split at h <;> first | assumption | cases h
  · intro h; simp [h]

/-- index of oC_IntegerLiteral in the regenerated rule table -/
def ruleIntegerLiteral : Nat := Generated.Grammar.ruleNames.idxOf "oC_IntegerLiteral"

/-- `int_literal_out_of_range_rejected`: a tree that contains an integer literal whose text is not a decimal digit string of value at
most 2^63-1 (2^63 … 2^64-1 included: no wrap-around; hexadecimal and octal spellings) is never accepted, whatever else was or was
not recorded: the outcome model counts `intLiteralErrors` among the errors (Driver/C08.lean) -/
theorem int_literal_out_of_range_rejected (t : Tree) (others : Nat) (h : 0 < intLiteralErrors ruleIntegerLiteral t) :
    T.outcome (others + intLiteralErrors ruleIntegerLiteral t) t = .err ∧ TD.outcome (others + intLiteralErrors ruleIntegerLiteral t) t = .err :=
  errors_never_lost t _ (by omega)

/-- non-vacuity: `RETURN 9223372036854775808` (the integer literal node alone) counts one error, `RETURN 9223372036854775807` none -/
theorem int_literal_errors_sample :
    ruleIntegerLiteral < Generated.Grammar.ruleNames.length ∧
    intLiteralErrors ruleIntegerLiteral (.node ruleIntegerLiteral [.leaf "125:9223372036854775808"]) = 1 ∧
    intLiteralErrors ruleIntegerLiteral (.node ruleIntegerLiteral [.leaf "125:18446744073709551615"]) = 1 ∧
    intLiteralErrors ruleIntegerLiteral (.node ruleIntegerLiteral [.leaf "125:9223372036854775807"]) = 0 := by decide +kernel

/-- `listener_no_panic_derivable`: every tree of `oC_Cypher` that follows the regenerated grammar (`wf`) and is
syntactically complete (`conforms`) is walked without a panic: depth is 0 at every pop, every pop-as matches the pushed
type, the stack never underflows. (The hypotheses are not needed by the proof: see `listener_no_panic`.) -/
theorem listener_no_panic_derivable (t : Tree) (_hroot : t.rootRule = some 0) (_hwf : t.wf refs = true)
    (_hconf : t.conforms must = true) (errors : Nat) (why : String) :
    T.outcome errors t ≠ .panic why ∧ TD.outcome errors t ≠ .panic why :=
  outcome_not_panic t errors why

/-- `listener_no_panic_recovered_partial`: ANTLR recovery trees (a rule aborts at a syntax error: trailing children are
missing, error leaves appear; rule children are still only those the parent rule references = `wf`, `conforms` fails)
are walked without a PROTOCOL panic. Gap (not modelled, covered by the fuzz suite only): panics inside visitor method
bodies that depend on visitor fields — nil dereferences such as `s.Query.SingleQuery…`, `s.currentItem.…`,
`s.Comparison.AddPartialComparison`, and assertions on model values such as `s.Expression.(*cypher.KindMatcher)`. -/
theorem listener_no_panic_recovered_partial (t : Tree) (_hwf : t.wf refs = true) (errors : Nat) (why : String) :
    T.outcome errors t ≠ .panic why ∧ TD.outcome errors t ≠ .panic why :=
  outcome_not_panic t errors why

/-! ### visitor-field state: the Parts / partIdx bookkeeping of MultiPartQueryVisitor -/

/-- MultiPartQuery.CurrentPart is `Parts[len(Parts)-1]`, as the counter machine assumes -/
theorem current_part_as_modelled : Generated.Visitors.srcCurrentPart = expectedCurrentPart := rfl

/-- the table condition: every method pair that touches Parts/partIdx keeps the instance inside {len = idx, len = idx + 1}
and accesses CurrentPart() only when len = idx + 1 — from either state, atomically when its Enter pushes unconditionally -/
theorem parts_table_safe : partsSafe T PT = true := by decide +kernel

/-- `multipart_index_in_range`: for EVERY tree (grammar-conforming or not) and whatever visitor is active at its root, no
`CurrentPart()` is evaluated on an empty `Parts` slice (the Go panic index out of range [-1]) and every one returns the part
of the current index, `Parts[partIdx]` — a clause is never attached to a part that a WITH has already closed. -/
theorem multipart_index_in_range (t : Tree) (V : Nat) :
    ∃ c, T.pwalk PT V t { len := 0, idx := 0 } = .ok c ∧ (c.len = c.idx ∨ c.len = c.idx + 1) :=
  pwalk_ok T PT (itemSafe_all parts_table_safe) t V _ inv_init

/-- teeth: an UpdatingClause pair whose Enter does not allocate (refactor into a helper that one caller forgets), and one
that allocates only when Parts is empty, are both rejected by the condition -/
example : partsSafe T [(23, 19, true, [0]), (23, 51, true, [0]), (23, 19, false, [1]), (23, 18, false, [1]), (23, 51, false, [1, 2])] = false := by
  decide +kernel
example : partsSafe T [(23, 19, true, [0]), (23, 18, true, [3]), (23, 51, true, [0]), (23, 19, false, [1]), (23, 18, false, [1]), (23, 51, false, [1, 2])] = false := by
  decide +kernel
/-- non-vacuity: `create (n) with n return n` (UpdatingClause, With, SinglePartQuery under a MultiPartQuery): run under the
MultiPartQueryVisitor itself the machine allocates one part and closes it -/
example : (match T.pwalkL PT 23 [.node 18 [], .node 51 [], .node 16 []] { len := 0, idx := 0 } with
    | .ok c => c.len == 1 && c.idx == 1 | .error _ => false) = true := by decide +kernel

/-! ### linear listener work -/

/-- `listener_linear`: the number of listener callbacks and stack operations is at most (#filters + 4) per tree node -/
theorem listener_linear (t : Tree) :
    (∃ st, T.run t = .ok st ∧ st.steps ≤ 4 * size t) ∧ (∃ st, TD.run t = .ok st ∧ st.steps ≤ 9 * size t) := by
  constructor
  · obtain ⟨st, h, _, _, hc⟩ := walk_ok T hbT hfT t T.init T.root 0 [] rfl (by omega)
    refine ⟨st, h, ?_⟩
    have : T.filters.length = 0 := rfl
    have h0 : T.init.steps = 0 := rfl
    rw [this, h0] at hc; omega
  · obtain ⟨st, h, _, _, hc⟩ := walk_ok TD hbTD hfTD t TD.init TD.root 0 [] rfl (by omega)
    refine ⟨st, h, ?_⟩
    have : TD.filters.length = 5 := by decide
    have h0 : TD.init.steps = 0 := rfl
    rw [this, h0] at hc; omega

/-! ### never (nil, nil) -/

/-- full statement, relative to an error model `Err` (which rules report "not supported" on entry): an error-free outcome
of a grammatical, syntactically complete tree carries a non-nil model -/
def never_nilnil_full (Err : Dawgs.C09.Tables) : Prop :=
  ∀ t : Tree, t.rootRule = some 0 → t.wf refs = true → t.conforms must = true →
    T.outcome (Err.listenerErrors t).length t = .ok → T.modelNonNil t = true

/-- what holds for every table: if from the root there is a chain of nodes on which QueryVisitor stays the active visitor
and which ends in a rule whose QueryVisitor method assigns `Query` (oC_RegularQuery, oC_SingleQuery), the model is non-nil -/
theorem never_nilnil_partial (t : Tree) (h : T.reaches t = true) : T.modelNonNil t = true := by
  obtain ⟨st, hrun, _, _, _⟩ := walk_ok T hbT hfT t T.init T.root 0 [] rfl (by omega)
  have := reaches_sets T hbT hfT t T.init 0 [] rfl (by omega) h st hrun
  unfold Tables.modelNonNil; unfold Tables.run at *; rw [hrun]; exact this

/-- the decidable table condition for the full statement: along Cypher → Statement → Query → RegularQuery the root visitor
pushes nothing, every OTHER alternative the grammar allows at each step (oC_Command; oC_StandaloneCall, oC_BulkImportQuery)
reports an error on entry, and QueryVisitor.EnterOC_RegularQuery assigns the result -/
theorem root_chain_ok : T.chainOK E.direct must rootChain = true := by decide +kernel

/-- `never_nilnil` (live, full statement for the repaired listener): every grammatical, complete tree of oC_Cypher that raises no
filter / unsupported-rule error yields a non-nil model -/
theorem never_nilnil : never_nilnil_full E := by
  intro t hroot _ hconf hok
  apply never_nilnil_partial
  have herr : (E.listenerErrors t).length = 0 := by
    unfold Tables.outcome at hok
    split at hok
    · cases hok
    · split at hok
      · assumption
      · cases hok
  have hnil : E.listenerErrors t = [] := List.length_eq_zero_iff.1 herr
  have hnd : ∀ x ∈ t.rules, E.direct x = false := by
    intro x hx
    unfold Dawgs.C09.Tables.listenerErrors at hnil
    have := (List.filter_eq_nil_iff.1 hnil) x hx
    simpa using this
  exact reaches_of_chain T E.direct must rootChain t root_chain_ok (by rw [hroot]; rfl) hconf hnd

/-- the OLD table (BaseVisitor.EnterOC_StandaloneCall an empty stub, F7): `CALL foo.bar()` parsed without any error under
frontend.NewContext() and QueryVisitor.Query was never assigned -/
theorem never_nilnil_witness_old :
    callTree.rootRule = some 0 ∧ callTree.wf refs = true ∧ callTree.conforms must = true ∧
    E_old.listenerErrors callTree = [] ∧ T.outcome 0 callTree = .ok ∧ T.modelNonNil callTree = false := by
  decide +kernel

theorem never_nilnil_refuted_old : ¬ never_nilnil_full E_old := by
  intro h
  obtain ⟨h1, h2, h3, h4, h5, h6⟩ := never_nilnil_witness_old
  have := h callTree h1 h2 h3 (by rw [h4]; exact h5)
  rw [h6] at this; cases this

/-- with the repair the same tree is rejected -/
theorem call_now_rejected : E.listenerErrors callTree ≠ [] := by decide +kernel

theorem query_alternatives : refs.getD 9 [] = [10, 11, 48] := by decide +kernel

/-! ### empty input -/

/-- `empty_rejected`: whatever the parser would do, an input consisting of Go white space only is rejected -/
theorem empty_rejected (treeOf : String → Tree × Nat) (s : String) (h : ∀ c ∈ s.toList, goIsSpace c = true) :
    T.parseCypher treeOf s = .err ∧ TD.parseCypher treeOf s = .err := by
  have hb := blank_of_all_space s h
  constructor <;> simp [Tables.parseCypher, hb]

/-- the guard exists in the code: ParseCypher returns ErrInvalidInput when strings.TrimSpace(input) is empty, and
parseCypher returns errors.Join(ctx.Errors...) (extracted from the AST of parse.go) -/
theorem empty_guard_present :
    Generated.Frontend.emptyInputRejected = true ∧ Generated.Frontend.parseReturnsJoinedErrors = true := by decide

/-! ### the property at full strength (tree level) -/

/-- C08 at the level the Lean model can express (ANTLR's lexing/parsing cost and Go runtime behaviour are outside):
for every tree and every error count, no panic; an ok outcome has a non-nil model; listener work is linear;
blank input is rejected. -/
def C08_full (Err : Dawgs.C09.Tables) : Prop :=
  (∀ (t : Tree) (errors : Nat) (why : String), T.outcome errors t ≠ .panic why ∧ TD.outcome errors t ≠ .panic why) ∧
  never_nilnil_full Err ∧
  (∀ t : Tree, ∃ st, T.run t = .ok st ∧ st.steps ≤ 4 * size t) ∧
  (∀ (treeOf : String → Tree × Nat) (s : String), (∀ c ∈ s.toList, goIsSpace c = true) → T.parseCypher treeOf s = .err)

/-- the live statement for the repaired listener -/
theorem c08_full : C08_full E :=
  ⟨outcome_not_panic, never_nilnil, fun t => (listener_linear t).1, fun treeOf s h => (empty_rejected treeOf s h).1⟩

/-- the statement was false of the older table -/
theorem c08_full_refuted_old : ¬ C08_full E_old := fun h => never_nilnil_refuted_old h.2.1

/-! Non-vacuity: a tree that exercises pushes and pops, and the teeth of the table condition. -/
def sampleTree : Tree :=   -- RETURN 1 : Cypher → … → SinglePartQuery → Return → ProjectionBody → … → Literal
  .node 0 [.node 8 [.node 9 [.node 10 [.node 15 [.node 16 [.node 52 [.node 53 [.node 54 [.node 55 [.node 90 [.node 91 []]]]]]]]]]]]
example : sampleTree.wf refs = true ∧ T.reaches sampleTree = true ∧ T.modelNonNil sampleTree = true := by decide +kernel
/-- a method pair whose Exit forgets the pop is rejected by the condition -/
example : pairOK [(true, some 5, [])] [] = false := by decide
/-- … and so is a pop asserting another type or under another guard -/
example : pairOK [(true, some 5, [])] [(false, some 6, [])] = false ∧ pairOK [(true, some 5, [(1, true)])] [(false, some 5, [])] = false := by decide

end Dawgs.C08.Props
