/-
C12, batches — several entities with different deltas in one flush are each served by a statement that carries exactly
their own delta.  Statements and their proofs (the proofs are short enough to live next to the statements).

`batch_exact`: whatever the key function, if equal keys imply equal kind deltas then every node of every batch ends up in
a group whose statement sets and removes exactly that node's kinds.  `key_framed_injective`: the framed key (the code
as it is since commit c89800a) has that property.  `key_old_collides` / `by_key_old_ignores_deleted`: the keys before
that commit did not — `{add X}` and `{delete X}` share a statement.  The real builders are run by the tie (suite
c12batch, through the verif hook hooks/C12.patch) and judged by `badNode`.
-/
import Dawgs.Model.C12Batch
namespace Dawgs.C12Batch

theorem encName_append_inj {s s' : Name} {x y : List Nat} (h : encName s ++ x = encName s' ++ y) : s = s' ∧ x = y := by
  unfold encName at h
  simp only [List.cons_append, List.cons.injEq] at h
  exact List.append_inj h.2 h.1

theorem flatMap_encName_inj : ∀ (l l' : List Name) (x y : List Nat), l.length = l'.length →
    l.flatMap encName ++ x = l'.flatMap encName ++ y → l = l' ∧ x = y
  | [], [], x, y, _, h => ⟨rfl, by simpa using h⟩
  | [], _ :: _, _, _, hl, _ => by simp at hl
  | _ :: _, [], _, _, hl, _ => by simp at hl
  | s :: l, s' :: l', x, y, hl, h => by
    simp only [List.flatMap_cons, List.append_assoc] at h
    obtain ⟨hs, hrest⟩ := encName_append_inj h
    obtain ⟨hl', hxy⟩ := flatMap_encName_inj l l' x y (by simpa using hl) hrest
    exact ⟨by rw [hs, hl'], hxy⟩

theorem encSet_append_inj {a a' : List Name} {x y : List Nat} (h : encSet a ++ x = encSet a' ++ y) : a = a' ∧ x = y := by
  unfold encSet at h
  simp only [List.cons_append, List.cons.injEq] at h
  exact flatMap_encName_inj a a' x y h.1 h.2

/-- The framed key determines the kind delta: equal keys, equal added kinds and equal deleted kinds. -/
theorem key_framed_injective (n n' : BNode) (h : keyFramed n = keyFramed n') :
    n.added = n'.added ∧ n.removed = n'.removed := by
  unfold keyFramed at h
  obtain ⟨ha, hr⟩ := encSet_append_inj h
  have hr' : encSet n.removed ++ [] = encSet n'.removed ++ [] := by simpa using hr
  exact ⟨ha, (encSet_append_inj hr').1⟩

theorem by_key_framed_injective (n n' : BNode) (h : byKeyFramed n = byKeyFramed n') :
    n.added = n'.added ∧ n.removed = n'.removed := by
  unfold byKeyFramed at h
  injection h with _ h2
  injection h2 with h3 h4
  exact ⟨h3, h4⟩

/-- The key as it is at /repo ae91177 does not: a node that ADDS kind X and a node that DELETES kind X have the same key
(and so have `{add A, delete B,C}` / `{add A,B, delete C}`, and `{add "AB"}` / `{add "A","B"}`). -/
theorem key_old_collides :
    (∃ n n' : BNode, keyOld n = keyOld n' ∧ n.added ≠ n'.added ∧ n.removed ≠ n'.removed) ∧
    keyOld { id := 1, added := [[65]], removed := [[66], [67]] } = keyOld { id := 2, added := [[65], [66]], removed := [[67]] } ∧
    keyOld { id := 1, added := [[65, 66]], removed := [] } = keyOld { id := 2, added := [[65], [66]], removed := [] } :=
  ⟨⟨{ id := 1, added := [[88]], removed := [] }, { id := 2, added := [], removed := [[88]] }, by decide, by decide, by decide⟩,
   by decide, by decide⟩

/-- The UpdateNodeBy key as it is ignores the deleted kinds altogether (and, being a concatenation, cannot tell the
kinds `{"AB"}` from `{"A","B"}`: `base` is the same byte string for both). -/
theorem by_key_old_ignores_deleted (n : BNode) (r : List Name) : byKeyOld { n with removed := r } = byKeyOld n := rfl

/-! ### grouping -/

variable {K : Type} [DecidableEq K]

theorem addNode_nil (κ : BNode → K) (n : BNode) : addNode κ [] n = [⟨κ n, n, [n.id]⟩] := rfl
theorem addNode_cons (κ : BNode → K) (g : Group K) (gs : List (Group K)) (n : BNode) :
    addNode κ (g :: gs) n = if g.key = κ n then { g with ids := g.ids ++ [n.id] } :: gs else g :: addNode κ gs n := rfl

theorem keys_addNode (κ : BNode → K) (gs : List (Group K)) (n : BNode) (h : ∀ g, g ∈ gs → g.key = κ g.first) :
    ∀ g, g ∈ addNode κ gs n → g.key = κ g.first := by
  induction gs with
  | nil => intro g hg; rw [addNode_nil, List.mem_singleton] at hg; rw [hg]
  | cons a gs ih =>
    intro g hg
    rw [addNode_cons] at hg
    by_cases hk : a.key = κ n
    · rw [if_pos hk, List.mem_cons] at hg
      rcases hg with e | e
      · rw [e]; exact h a List.mem_cons_self
      · exact h g (List.mem_cons_of_mem _ e)
    · rw [if_neg hk, List.mem_cons] at hg
      rcases hg with e | e
      · rw [e]; exact h a List.mem_cons_self
      · exact ih (fun x hx => h x (List.mem_cons_of_mem _ hx)) g e

theorem new_served (κ : BNode → K) (gs : List (Group K)) (n : BNode) :
    ∃ g, g ∈ addNode κ gs n ∧ n.id ∈ g.ids ∧ g.key = κ n := by
  induction gs with
  | nil => exact ⟨⟨κ n, n, [n.id]⟩, by rw [addNode_nil]; exact List.mem_singleton.2 rfl, List.mem_singleton.2 rfl, rfl⟩
  | cons a gs ih =>
    rw [addNode_cons]
    by_cases hk : a.key = κ n
    · rw [if_pos hk]
      exact ⟨_, List.mem_cons_self, List.mem_append.2 (Or.inr (List.mem_singleton.2 rfl)), hk⟩
    · rw [if_neg hk]
      obtain ⟨g, hg, hid, hkey⟩ := ih
      exact ⟨g, List.mem_cons_of_mem _ hg, hid, hkey⟩

theorem old_served (κ : BNode → K) (gs : List (Group K)) (n : BNode) (i : Nat) (k : K)
    (h : ∃ g, g ∈ gs ∧ i ∈ g.ids ∧ g.key = k) : ∃ g, g ∈ addNode κ gs n ∧ i ∈ g.ids ∧ g.key = k := by
  induction gs with
  | nil => obtain ⟨g, hg, _⟩ := h; cases hg
  | cons a gs ih =>
    obtain ⟨g, hg, hid, hkey⟩ := h
    rw [addNode_cons]
    rw [List.mem_cons] at hg
    by_cases hk : a.key = κ n
    · rw [if_pos hk]
      rcases hg with e | e
      · exact ⟨_, List.mem_cons_self, List.mem_append.2 (Or.inl (e ▸ hid)), e ▸ hkey⟩
      · exact ⟨g, List.mem_cons_of_mem _ e, hid, hkey⟩
    · rw [if_neg hk]
      rcases hg with e | e
      · exact ⟨a, List.mem_cons_self, e ▸ hid, e ▸ hkey⟩
      · obtain ⟨g', hg', hid', hkey'⟩ := ih ⟨g, e, hid, hkey⟩
        exact ⟨g', List.mem_cons_of_mem _ hg', hid', hkey'⟩

/-- every group's key is the key of the node that opened it, and every processed node sits in a group with its key -/
def Served (κ : BNode → K) (gs : List (Group K)) (done : List BNode) : Prop :=
  (∀ g, g ∈ gs → g.key = κ g.first) ∧ (∀ n, n ∈ done → ∃ g, g ∈ gs ∧ n.id ∈ g.ids ∧ g.key = κ n)

theorem served_addAll (κ : BNode → K) (gs : List (Group K)) (done nodes : List BNode) (h : Served κ gs done) :
    Served κ (addAll κ gs nodes) (nodes.reverse ++ done) := by
  induction nodes generalizing gs done with
  | nil => exact h
  | cons n ns ih =>
    have h' : Served κ (addNode κ gs n) (n :: done) := by
      refine ⟨keys_addNode κ gs n h.1, ?_⟩
      intro m hm
      rw [List.mem_cons] at hm
      rcases hm with e | e
      · rw [e]; exact new_served κ gs n
      · exact old_served κ gs n m.id (κ m) (h.2 m e)
    have := ih (addNode κ gs n) (n :: done) h'
    show Served κ (addAll κ (addNode κ gs n) ns) ((n :: ns).reverse ++ done)
    rw [List.reverse_cons, List.append_assoc]
    exact this

/-- Batching is exact whenever equal keys mean equal deltas: for ANY list of entities with ANY deltas, each entity is
addressed by a statement whose `set n:…` kinds and `remove n:…` kinds are exactly its own (`π` picks the part of the
delta the statement carries: added and removed kinds for UpdateNodes, removed kinds for UpdateNodeBy). -/
theorem batch_exact {D : Type} (κ : BNode → K) (π : BNode → D) (hinj : ∀ n n', κ n = κ n' → π n = π n')
    (nodes : List BNode) (n : BNode) (hn : n ∈ nodes) :
    ∃ g, g ∈ build κ nodes ∧ n.id ∈ g.ids ∧ π g.first = π n := by
  have h := served_addAll κ [] [] nodes ⟨(fun g hg => by cases hg), (fun m hm => by cases hm)⟩
  obtain ⟨g, hg, hid, hkey⟩ := h.2 n (by rw [List.append_nil, List.mem_reverse]; exact hn)
  exact ⟨g, hg, hid, hinj _ _ ((h.1 g hg).symm.trans hkey)⟩

/-- with hooks/C12-fix3.patch batch.UpdateNodes serves every node its own added and deleted kinds … -/
theorem update_nodes_batch_exact (nodes : List BNode) (n : BNode) (hn : n ∈ nodes) :
    ∃ g, g ∈ build keyFramed nodes ∧ n.id ∈ g.ids ∧ g.first.added = n.added ∧ g.first.removed = n.removed := by
  obtain ⟨g, hg, hid, h⟩ := batch_exact keyFramed (fun m => (m.added, m.removed))
    (fun a b hk => by have := key_framed_injective a b hk; rw [this.1, this.2]) nodes n hn
  exact ⟨g, hg, hid, (Prod.mk.injEq _ _ _ _ ▸ h).1, (Prod.mk.injEq _ _ _ _ ▸ h).2⟩

/-- … and batch.UpdateNodeBy its own kinds and deleted kinds -/
theorem update_node_by_batch_exact (nodes : List BNode) (n : BNode) (hn : n ∈ nodes) :
    ∃ g, g ∈ build byKeyFramed nodes ∧ n.id ∈ g.ids ∧ g.first.added = n.added ∧ g.first.removed = n.removed := by
  obtain ⟨g, hg, hid, h⟩ := batch_exact byKeyFramed (fun m => (m.added, m.removed))
    (fun a b hk => by have := by_key_framed_injective a b hk; rw [this.1, this.2]) nodes n hn
  exact ⟨g, hg, hid, (Prod.mk.injEq _ _ _ _ ▸ h).1, (Prod.mk.injEq _ _ _ _ ▸ h).2⟩

/-- As the code is at /repo ae91177 a batch of two nodes is enough to go wrong: node 1 adds kind X, node 2 deletes
kind X; both land in ONE statement that carries node 1's clauses — node 2 gets X set instead of removed. -/
theorem update_nodes_batch_old_wrong :
    let nodes : List BNode := [{ id := 1, added := [[88]], removed := [] }, { id := 2, added := [], removed := [[88]] }]
    (build keyOld nodes).map (fun g => (g.first.added, g.first.removed, g.ids)) = [([[88]], [], [1, 2])] ∧
    badNode nodes ((build keyOld nodes).map (fun g => (g.first.added, g.first.removed, g.ids))) =
      some { id := 2, added := [], removed := [[88]] } ∧
    badNode nodes ((build keyFramed nodes).map (fun g => (g.first.added, g.first.removed, g.ids))) = none := by
  decide

end Dawgs.C12Batch
