/-
C07 — the prepared repairs (hooks/C07-fix{1,2,3,5,6}.patch): for every repair site the model has BOTH variants, with a refutation of
the old one and the property of the repaired one; the live variant is chosen by the constants of Model/C07Repairs.lean, which
`repairs_as_in_source` ties to the source text of /repo.
-/
import Dawgs.Props.C07
namespace Dawgs.C07.Props
open Dawgs.C07 Dawgs.C07.Inst Dawgs.Grammar
open Dawgs.Generated (C07Witness.S C07Witness.frontier C07Known.knownIgnored)

/-- every repair site has the old or the repaired text, and the `Repair` constants the model follows say which one /repo has:
applying hooks/C07-fixN.patch without flipping its constant (or the reverse), or any third text, breaks this theorem -/
theorem repairs_as_in_source :
    (Generated.Visitors.srcFormatFunctionNamespace = (if Repair.namespaceDot then fixedFormatFunctionNamespace else oldFormatFunctionNamespace)) ∧
    (Generated.Visitors.srcEnterRangeLiteral = (if Repair.exactHops then fixedEnterRangeLiteral else oldEnterRangeLiteral)) ∧
    (Generated.Visitors.srcExitNotExpression = (if Repair.nestedNot then fixedExitNotExpression else oldExitNotExpression)) ∧
    -- format.go keeps parenthesising an operand of NOT that binds looser than a comparison, a nested negation included
    (Generated.Visitors.srcFormatNegationOperand = oldFormatNegationOperand) ∧
    (Generated.Visitors.srcEnterPropertyLookupOfPropertyExpression =
      (if Repair.chainedLookupRejected then fixedEnterPropertyLookupOfPropertyExpression else oldEnterPropertyLookupOfPropertyExpression)) ∧
    (Generated.Visitors.srcNewTokenLiteralIterator = (if Repair.spNotOperator then fixedNewTokenLiteralIterator else oldNewTokenLiteralIterator)) ∧
    -- the tables the listener model (C08 / C09, classification) reads follow the same two places
    (Generated.Visitors.unsupAfterFirst = (if Repair.chainedLookupRejected then [(tix "PropertyExpressionVisitor", rix "oC_PropertyLookup")] else [])) ∧
    (Generated.Visitors.atomCodes.head? = some (2, if Repair.spNotOperator then tokSP else 0)) := by
  decide +kernel

def isRejected {α} (r : R α) : Bool := match r with | .error (.rejected _) => true | _ => false

/-- `MATCH (n) SET n.a.b = 1` is grammatical and complete. OLD visitor: no error, and the walk meets
(PropertyExpressionVisitor, oC_PropertyLookup), an empty stub — every key overwrites the previous one and the model reads
`n.b = 1`. REPAIRED visitor (hooks/C07-fix5.patch): the second lookup is reported as unsupported and nothing is ignored. -/
theorem set_chain_old_and_fixed :
    setTree.rootRule = some 0 ∧ setTree.wf Dawgs.C08.Inst.refs = true ∧ setTree.conforms Dawgs.C08.Inst.must = true ∧
    ((build { N with chainedLookupRejected := false } setTree).toOption.map emit) = some ["match", "(", "n", ")", "set", "n", ".", "b", "=", "1"] ∧
    isRejected (build { N with chainedLookupRejected := true } setTree) = true := by
  decide +kernel

/-- the LIVE tables on that tree: the ignored pair is met (old) / nothing is ignored and `build` rejects (repaired) -/
theorem set_chain_live :
    Dawgs.C08.Inst.E.listenerErrors setTree = [] ∧
    (if Repair.chainedLookupRejected then C.ignoredIn setTree = [] ∧ isRejected (build N setTree) = true
     else C.ignoredIn setTree = [(tix "PropertyExpressionVisitor", rix "oC_PropertyLookup"), (tix "PropertyExpressionVisitor", rix "oC_PropertyLookup")]) := by
  decide +kernel

/-- C07_full is refuted as long as ONE of the two witnesses is live: the ignored chained lookup (until hooks/C07-fix5.patch) or the
`*n` range (until hooks/C07-fix2.patch). With both repairs in, neither witness remains and C07_full is open: what is then proved is
`frontier_ok` / `ignored_rules_listed` with an EMPTY frontier on the reachability closure, and `range_literal_faithful_live`. -/
theorem c07_full_refuted_while_unrepaired (h : Repair.chainedLookupRejected = false ∨ Repair.exactHops = false) : ¬ C07_full := by
  intro hf
  rcases h with h | h
  · obtain ⟨h1, h2, h3, _, _⟩ := set_chain_old_and_fixed
    obtain ⟨h4, h5⟩ := set_chain_live
    rw [h] at h5
    have := hf.1 setTree h1 h2 h3 h4
    simp only [Bool.false_eq_true, if_false] at h5
    rw [h5] at this
    cases this
  · rcases range_literal_faithful_live with ⟨_, hr⟩ | ⟨hr, _⟩
    · exact hr hf.2
    · rw [h] at hr; cases hr

/-- which of the two witnesses are live in /repo now -/
theorem c07_full_refuted : (Repair.chainedLookupRejected = false ∨ Repair.exactHops = false) → ¬ C07_full :=
  c07_full_refuted_while_unrepaired

def notNotModel : Query :=
  .single { reading := [], updating := [], ret := some { distinct := false, items := [(.neg (.neg (.lit (.bool true))), none)], order := none, skip := none, limit := none } }

/-- OLD visitor: its reading of `NOT NOT true` equals its reading of `NOT true` (mirror mode of `build`), although the texts differ.
REPAIRED visitor (hooks/C07-fix3.patch): one Negation per NOT token. -/
theorem not_not_old_and_fixed :
    (build { N with mirrorNot := true, nestedNot := false } notNotTree).toOption.map toSexp =
      (build { N with mirrorNot := true, nestedNot := false } notTree).toOption.map toSexp ∧
    (build N notTree).toOption.isSome = true ∧
    (build { N with nestedNot := true } notNotTree).toOption.map toSexp = some (toSexp notNotModel) ∧
    (build { N with nestedNot := true } notTree).toOption.map toSexp = (build N notTree).toOption.map toSexp := by
  decide +kernel

/-- the LIVE visitor on `RETURN NOT NOT true`: outside the model (old: the defect shape) / two nested negations, written back as
`not (not true)` (repaired; format.go parenthesises the inner negation) -/
theorem not_not_live :
    (if Repair.nestedNot then (build N notNotTree).toOption.map emit = some ["return", "not", "(", "not", "true", ")"]
     else (match build N notNotTree with | .error (.unmodelled r) => r == "oC_NotExpression:repeated-NOT" | _ => false) = true) := by
  decide +kernel

def commentTree : Tree :=
  .node 0 [.node 1 [], .node 8 [.node 9 [.node 10 [.node 15 [.node 16 [.node 52 [.leaf "83:RETURN", .node 53 [.leaf "149: ", .node 54 [.node 55 [.node 90 [.node 91 [.node 92 [.node 93 [.node 94 [.node 95 [.node 97 [.node 102 [.node 103 [.node 104 [.node 105 [.node 106 [.node 109 [.node 130 [.node 132 [.node 133 [.leaf "125:1"]]]]]]]], .leaf "149: /* c */ ", .leaf "19:+", .leaf "149: ", .node 103 [.node 104 [.node 105 [.node 106 [.node 109 [.node 130 [.node 132 [.node 133 [.leaf "125:2"]]]]]]]]]]]]]]]]]]]]]]]]], .leaf "-1:<EOF>"]

/-- `RETURN 1 /* c */ + 2`: the OLD operator scan reads the comment as an operator (the model is outside `build`); the REPAIRED
scan (hooks/C07-fix6.patch) skips SP tokens and reads `1 + 2` -/
theorem comment_operator_old_and_fixed :
    (match build { N with spNotOperator := false } commentTree with
      | .error (.unmodelled r) => r == "ArithmeticExpressionVisitor:non-blank-SP-token" | _ => false) = true ∧
    (build { N with spNotOperator := true } commentTree).toOption.map emit = some ["return", "1", "+", "2"] := by
  decide +kernel

/-- format.go's function name: the repaired emitter (hooks/C07-fix1.patch) writes `ns.` per namespace component; the old one joins
the components with '.' and writes NO separator before the name -/
theorem namespace_separator_old_and_fixed :
    fnNameTok false ["ns"] "fn" = "nsfn" ∧ fnNameTok false ["a", "b"] "fn" = "a.bfn" ∧
    fnNameTok true ["ns"] "fn" = "ns.fn" ∧ fnNameTok true ["a", "b"] "fn" = "a.b.fn" ∧ fnNameTok true [] "fn" = fnNameTok false [] "fn" := by
  decide +kernel


/-! ### the live state: all five repairs are in /repo -/

/-- the range literal is read as it is written, for EVERY form `* a? (.. b?)?` — the live statement (hooks/C07-fix2.patch is in /repo:
`Repair.exactHops = true`, tied to the source text by `repairs_as_in_source`) -/
theorem range_literal_faithful : range_literal_faithful_full := by
  rcases range_literal_faithful_live with ⟨h, _⟩ | ⟨_, h⟩
  · exact absurd h (by decide)
  · exact h

/-- neither refutation witness of C07_full is left -/
theorem c07_full_witnesses_repaired : ¬ (Repair.chainedLookupRejected = false ∨ Repair.exactHops = false) := by decide

/-- what remains of C07_full: its range half is proved, so the full statement is EQUIVALENT to its tree half — no grammatical, complete,
error-free tree makes the listener walk meet a silently ignored (visitor, rule) pair. That half is proved on the reachability closure of
the tables (`active_closed`, `frontier_ok`, `ignored_rules_listed`: the frontier is empty); that every real walk stays inside the
closure is not proved (it is checked per case: `ignored=[]` for every generated tree). -/
theorem c07_full_iff_tree_half :
    C07_full ↔ (∀ t : Tree, t.rootRule = some 0 → t.wf Dawgs.C08.Inst.refs = true → t.conforms Dawgs.C08.Inst.must = true →
      Dawgs.C08.Inst.E.listenerErrors t = [] → C.ignoredIn t = []) :=
  ⟨fun h => h.1, fun h => ⟨h, range_literal_faithful⟩⟩

/-- the frontier of silently ignored pairs on the reachability closure is empty now -/
theorem frontier_empty : C07Witness.frontier = [] := by decide +kernel

end Dawgs.C07.Props
