/-
C12, consumers — the drivers persist exactly the tracked delta.
ONLY property statements and non-vacuity examples live here.

`Dawgs.Generated.C12Consumers.paths` is regenerated on every run from drivers/**/*.go (tools/extract/goext, mode c12):
every function that reads a tracking accessor of an entity, with the set of entity-state reads it makes.
`consumers_complete` is the side condition (kernel-checked `decide` on the regenerated table) that every such path
consumes the delta completely; `consumer_sound` (Props/C12.lean) turns that into semantics through the invariant proved in Props/C12.lean:
what a complete path sends, applied to the stored (= loaded) state, reproduces the entity's current state.  A driver
that stops sending, say, deleted properties changes the table and `consumers_complete` stops checking.
Paths recorded in known_findings.json as known gaps (Generated/C12Known.lean) are exempt and reported per run.
-/
import Dawgs.Props.C12
import Dawgs.Generated.C12Consumers
import Dawgs.Generated.C12Known
namespace Dawgs.C12.Props
open Dawgs.C12 Dawgs.Generated

/-- All update paths consume the delta completely. -/
def ConsumersComplete (paths : List (String × List Nat)) (exempt : List String) : Prop :=
  ∀ p, p ∈ paths → p.1 ∉ exempt → pathOk p.2 = true

/-- T-tie: every function under drivers/ that reads a tracking accessor consumes the delta completely — node paths
read deletions together with additions (AddedKinds or all Kinds) and DeletedProperties together with the modified
pairs or the whole map, relationship/property paths read both property accessors, nobody reads the raw tracking
fields — except the paths listed as known gaps in known_findings.json. -/
theorem consumers_complete : ConsumersComplete C12Consumers.paths C12Known.knownGaps := by
  unfold ConsumersComplete; decide

/-- the update paths the property names are in the table (the extractor did not go blind), complete, and not exempt -/
def anchors : List String :=
  ["pg.transaction.UpdateNode", "pg.transaction.UpdateRelationship", "pg.NodeUpdateParameters.Append",
   "pg.LargeNodeUpdateRows.Append", "pg.nodeQuery.Update", "pg.relationshipQuery.Update",
   "neo4j.NodeQuery.Update", "neo4j.RelationshipQuery.Update", "neo4j.neo4jTransaction.updateNode",
   "neo4j.neo4jTransaction.UpdateRelationship"]

theorem consumers_anchored :
    ∀ a, a ∈ anchors → a ∉ C12Known.knownGaps ∧ ∃ p, p ∈ C12Consumers.paths ∧ p.1 = a ∧ pathOk p.2 = true := by
  decide

/-- the node update paths read all four parts of the delta (in delta or full form), the relationship / property
update paths both property parts -/
theorem consumers_read_all_parts :
    (∀ a, a ∈ ["pg.transaction.UpdateNode", "pg.NodeUpdateParameters.Append", "pg.LargeNodeUpdateRows.Append",
               "neo4j.neo4jTransaction.updateNode"] →
      ∃ p, p ∈ C12Consumers.paths ∧ p.1 = a ∧ kindsTouched p.2 = true ∧ propsTouched p.2 = true ∧ pathOk p.2 = true) ∧
    (∀ a, a ∈ ["pg.transaction.UpdateRelationship", "pg.nodeQuery.Update", "pg.relationshipQuery.Update",
               "neo4j.NodeQuery.Update", "neo4j.RelationshipQuery.Update", "neo4j.neo4jTransaction.UpdateRelationship"] →
      ∃ p, p ∈ C12Consumers.paths ∧ p.1 = a ∧ kindsTouched p.2 = false ∧ p.2 = [3, 4]) := by
  decide

/-- pure kinds helpers (read the kind delta and no property state) are pinned by name: a new one must be reviewed -/
theorem kinds_only_helpers_pinned :
    (C12Consumers.paths.filter (fun p => kindsOnly p.2)).map (·.1) = ["neo4j.nodeToNodeUpdateKey"] := by
  decide

/-- Tie of `driver_delta_complete` to the real drivers: for every extracted path that is not a known gap, and every
entity reachable by any history (it satisfies `EInv`, theorem `c12`), what the path sends reproduces the current state. -/
theorem drivers_persist_exact_delta (L : Loaded) (x : Ent) (h : EInv L x) (ha : x.attached = true) :
    ∀ p, p ∈ C12Consumers.paths → p.1 ∉ C12Known.knownGaps →
      (propsTouched p.2 = true →
        ∀ k, lookup (applyDelta L.kv (sentProps p.2 x.props).1 (sentProps p.2 x.props).2) k = lookup x.props.m k) ∧
      (kindsTouched p.2 = true →
        ∀ k, k ∈ applyKinds L.kinds (sentKinds p.2 x).1 (sentKinds p.2 x).2 ↔ k ∈ x.kinds) := by
  intro p hp hk
  have hok := consumers_complete p hp hk
  unfold pathOk at hok
  simp only [Bool.and_eq_true] at hok
  exact ⟨fun ht => (consumer_sound L x h ha p.2).1 ht hok.1.2, fun ht => (consumer_sound L x h ha p.2).2 ht hok.1.1⟩

/-! non-vacuity -/
example : pathOk [0, 1, 3, 4] = true ∧ pathOk [1, 2, 4, 5] = true ∧ pathOk [3, 4] = true ∧ pathOk [0, 1] = true := by decide
example : pathOk [0, 1, 5] = false ∧ pathOk [1, 2, 5] = false ∧ pathOk [3] = false ∧ pathOk [0, 3, 4] = false ∧
    pathOk [3, 4, 7] = false ∧ pathOk [1, 3, 4] = false := by decide
example : pathGap [0, 1, 5] = "deleted-properties-not-consumed" ∧ pathGap [0, 3, 4] = "deleted-kinds-not-consumed" := by decide
/-- the table as found on 2026-09-26 (frozen copy, not the live table): without any exemption exactly two paths fail,
both for the same reason — the whole map is sent without the deleted properties -/
def pathsAsFound : List (String × List Nat) :=
  [("neo4j.NodeQuery.Update", [3, 4]), ("neo4j.RelationshipQuery.Update", [3, 4]),
   ("neo4j.cypherBuildNodeUpdateQueryBatch", [0, 1, 5]), ("neo4j.neo4jTransaction.UpdateRelationship", [3, 4]),
   ("neo4j.neo4jTransaction.updateNode", [0, 1, 3, 4]), ("neo4j.nodeToNodeUpdateKey", [0, 1]),
   ("neo4j.nodeUpdateByMap.add", [1, 2, 5]), ("pg.LargeNodeUpdateRows.Append", [1, 2, 4, 5]),
   ("pg.NodeUpdateParameters.Append", [1, 2, 4, 5]), ("pg.nodeQuery.Update", [3, 4]), ("pg.relationshipQuery.Update", [3, 4]),
   ("pg.transaction.UpdateNode", [0, 1, 3, 4]), ("pg.transaction.UpdateRelationship", [3, 4])]
example : (pathsAsFound.filter (fun p => !pathOk p.2)).map (fun p => (p.1, pathGap p.2)) =
    [("neo4j.cypherBuildNodeUpdateQueryBatch", "deleted-properties-not-consumed"),
     ("neo4j.nodeUpdateByMap.add", "deleted-properties-not-consumed")] := by decide
example : ¬ ConsumersComplete pathsAsFound [] := by unfold ConsumersComplete; decide

end Dawgs.C12.Props
