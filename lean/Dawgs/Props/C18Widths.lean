/-
C18 — T-tie: positions, ordinals and interned references are at least 32 bits wide.

The Lean model's node ordinals and kind references are unbounded naturals; `verify_iff_metrics_equal` is exact for
graphs of any size. The code stores them in per-graph tables (`metricsBuilder`); a table whose element type is
narrower than the range of its index wraps silently on large graphs (65536 kind combinations overflow a uint16).
Side conditions over the fact table `Dawgs.Generated.C18` regenerated from retriever/*.go on every run; the quick
tier covers the scale boundary by these facts only, the thorough tier also runs a 65537-combination graph.
-/
import Dawgs.Generated.C18_widths
namespace Dawgs.C18.Props
open Dawgs.Generated.C18

/-- No 8- or 16-bit integer type occurs anywhere in the dump / load / verify path. -/
theorem no_narrow_index_types : narrowIntegerUses = [] := by decide

/-- Every per-graph table of the metrics builder indexed by a node ordinal or an interned kind reference holds
32-bit references (64-bit degrees and counts), and so does the endpoint-kind triple. -/
theorem metrics_tables_wide :
    metricsBuilderFields =
      [("graphName", "string"), ("nodeCount", "int64"), ("edgeCount", "int64"), ("expectedNodeCount", "int"),
       ("numericOrdinalByID", "map[graph.ID]uint32"), ("stringOrdinalByID", "map[string]uint32"), ("nodeKindRefs", "[]uint32"),
       ("inDegrees", "[]uint64"), ("outDegrees", "[]uint64"), ("nodeKindRefByKey", "map[string]uint32"), ("nodeKindKeys", "[]string"),
       ("edgeKindRefByKey", "map[string]uint32"), ("edgeKindKeys", "[]string"), ("nodeKindHistogram", "map[uint32]int64"),
       ("edgeKindHistogram", "map[uint32]int64"), ("endpointKindHistogram", "map[metricEndpointKindRefs]int64")] ∧
    endpointRefFields = [("start", "uint32"), ("edge", "uint32"), ("end", "uint32")] := by decide

/-- Ordinals are refused before they leave the 32-bit range (the only bound the tables have). -/
theorem ordinal_capacity_guarded : ordinalCapacityGuard = "uint64(len(s.nodeKindRefs)) >= uint64(^uint32(0))" := by decide

end Dawgs.C18.Props
