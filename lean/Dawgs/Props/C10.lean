/-
C10 — emitted Cypher text means the same as the query model it was emitted from.
Only property statements and non-vacuity examples; lemmas are in Proofs/C10.lean.

  e        : any finite term of the criteria algebra (Model/C10.lean `Expr`: And/Or/Xor/Not lists, comparisons,
             string predicates, IS [NOT] NULL, kind matchers any-of/all-of, IN, references, id()/toLower()/…,
             parameters, literals null/bool/int/float/string/list)
  emit     : format.go as it is now       emitOld : format.go before the three C10 fixes (4086218, 04efdd9, 7bfe5dc)
  parse    : precedence-climbing parser following Cypher.g4 and building what cypher/frontend builds
  norm     : erase parentheses, flatten same-operator lists, collapse one-element lists, expand kind matchers
-/
import Dawgs.Proofs.C10Q
import Dawgs.Proofs.C10P
import Dawgs.Spec.C10Q
namespace Dawgs.C10.Props
open Dawgs.C10

/-- the text emitted for `e` parses back to a term with the same normal form -/
def RoundTrips (em : Expr → List Tok) (e : Expr) : Prop := (parse (em e)).map norm = some (norm e)

/-- the statement of properties.jsonl at full strength: every finite term, the emitter as it is -/
def C10_full : Prop := ∀ e : Expr, RoundTrips emit e

/-- the same statement about format.go before the three fixes -/
def C10_full_old : Prop := ∀ e : Expr, RoundTrips emitOld e

/-- … and restricted to well-formed terms (no empty list, integers within ±(2^63-1)) -/
def BuilderRoundtripOld : Prop := ∀ e : Expr, valid e = true → RoundTrips emitOld e

/-! ### the comparison is semantic -/

/-- `norm` does not change the three-valued meaning under any valuation of the atoms -/
theorem norm_preserves_eval (v : Val) (e : Expr) : eval v (norm e) = eval v e := eval_norm v e

theorem norm_idempotent (e : Expr) : norm (norm e) = norm e := norm_idem e

/-! ### the parser is verified: it inverts the printer on every grammar-shaped term -/

theorem parse_emit_canonical (c : Expr) (h : canonL 0 c = true) : parse (emitE Fix.canon c) = some c :=
  parse_emit_canon c h

/-- the repaired emitter writes exactly the canonical representative of the term … -/
theorem emit_canonical (e : Expr) (h : valid e = true) :
    emit e = emitE Fix.canon (canon e) ∧ canonL 0 (canon e) = true ∧ norm (canon e) = norm e :=
  ⟨emitFixed_eq e h, canonL_mono _ _ 0 (canon_canonical e h) (Nat.zero_le _), norm_canon e⟩

/-! ### round trip -/

/-- … hence every well-formed term round-trips through the emitter as it is -/
theorem builder_roundtrip (e : Expr) (h : valid e = true) : RoundTrips emit e := by
  obtain ⟨h1, h2, h3⟩ := emit_canonical e h
  simp [RoundTrips, h1, parse_emit_canonical _ h2, h3]

/-- the current emitter round-trips on the sub-algebra without the three F8 shapes (`safe`, decidable) -/
theorem builder_roundtrip_old_partial (e : Expr) (h : valid e = true) (hs : safe e = true) : RoundTrips emitOld e := by
  simp only [safe, Bool.and_eq_true, Bool.not_eq_true'] at hs
  have : emitOld e = emit e := emit_safe e hs.1.1 hs.1.2 hs.2
  rw [RoundTrips, this]
  exact builder_roundtrip e h

/-- without the parenthesis defect alone nothing else is needed for the boolean skeleton: terms built only from
query.And/Or/Xor/Not over parameterised comparisons are safe iff no Xor sits directly under an And -/
example : safe (qAnd [qOr [.cmp (.prop "n" "a") .eq (.param "p0"), qNot (.isNull (.prop "n" "b") false)],
    qXor [.cmp (.fn "id" (.var "n")) .isIn (.param "p1"), qAnd [qKind "n" ["A", "B"], .cmp (.prop "n" "c") .lt (.lit (.int (-7)))]]]) = false := by rfl

/-! ### F8 witnesses: the current emitter does not round-trip, and the difference is not cosmetic -/

def cx : Expr := .cmp (.prop "n" "x") .eq (.param "p0")
def cy : Expr := .cmp (.prop "n" "y") .eq (.param "p1")
def cz : Expr := .cmp (.prop "n" "z") .eq (.param "p2")

/-- query.And(x, query.Xor(y, z)) -/
def wAndXor : Expr := qAnd [cx, qXor [cy, cz]]
/-- n.x = 1.0 -/
def wFloat : Expr := .cmp (.prop "n" "x") .eq (.lit (.float ⟨false, 1, []⟩))
/-- parsed `n:A:B` / cypher.NewKindMatcher(n, {A,B}, true) -/
def wAllOf : Expr := .kinds "n" ["A", "B"] true

theorem refute_and_over_xor_old : valid wAndXor = true ∧ ¬ RoundTrips emitOld wAndXor := by
  refine ⟨rfl, ?_⟩
  intro h
  have hp : parse (emitOld wAndXor) = some (.join .xor [.join .and [cx, cy], cz]) := by rfl
  have hn : norm wAndXor = .join .and [cx, .join .xor [cy, cz]] := by rfl
  have hn' : norm (.join .xor [.join .and [cx, cy], cz]) = .join .xor [.join .and [cx, cy], cz] := by rfl
  simp [RoundTrips, hp, hn, hn'] at h

/-- x = false, y = false, z = true: the model says false, the emitted text says true -/
theorem and_over_xor_changes_meaning_old :
    ∃ v : Val, (parse (emitOld wAndXor)).map (eval v) = some (some true) ∧ eval v wAndXor = some false := by
  refine ⟨⟨fun _ _ r => match r with | .param "p2" => some true | _ => some false, fun _ _ => none, fun _ _ => none⟩, ?_, ?_⟩ <;> rfl

theorem refute_integral_float_old : valid wFloat = true ∧ ¬ RoundTrips emitOld wFloat := by
  refine ⟨rfl, ?_⟩
  intro h
  have hp : parse (emitOld wFloat) = some (.cmp (.prop "n" "x") .eq (.lit (.int 1))) := by rfl
  have hn : norm wFloat = .cmp (.prop "n" "x") .eq (.lit (.float ⟨false, 1, []⟩)) := by rfl
  have hn' : norm (.cmp (.prop "n" "x") .eq (.lit (.int 1))) = .cmp (.prop "n" "x") .eq (.lit (.int 1)) := by rfl
  simp [RoundTrips, hp, hn, hn'] at h

theorem refute_all_of_kinds_old : valid wAllOf = true ∧ ¬ RoundTrips emitOld wAllOf := by
  refine ⟨rfl, ?_⟩
  intro h
  have hp : parse (emitOld wAllOf) = some (.paren (.join .or [.kinds "n" ["A"] true, .kinds "n" ["B"] true])) := by rfl
  have hn : norm wAllOf = .join .and [.kinds "n" ["A"] true, .kinds "n" ["B"] true] := by rfl
  have hn' : norm (.paren (.join .or [.kinds "n" ["A"] true, .kinds "n" ["B"] true])) =
      .join .or [.kinds "n" ["A"] true, .kinds "n" ["B"] true] := by rfl
  simp [RoundTrips, hp, hn, hn'] at h

/-- n has kind A but not B: the model (all-of) says false, the emitted text (`or`) says true -/
theorem all_of_kinds_changes_meaning_old :
    ∃ v : Val, (parse (emitOld wAllOf)).map (eval v) = some (some true) ∧ eval v wAllOf = some false := by
  refine ⟨⟨fun _ _ _ => none, fun _ _ => none, fun _ k => some (k == "A")⟩, ?_, ?_⟩ <;> rfl

theorem builder_roundtrip_old_refuted : ¬ BuilderRoundtripOld := fun h => refute_and_over_xor_old.2 (h _ refute_and_over_xor_old.1)

theorem c10_full_old_refuted : ¬ C10_full_old := fun h => refute_and_over_xor_old.2 (h _)

/-! shapes reachable through the cypher model constructors only (cypher.NewNegation / NewDisjunction without a
Parenthetical): same defect class, plus the frontend's collapse of repeated NOTs -/

theorem refute_not_over_and_old : ¬ RoundTrips emitOld (.neg (.join .and [cy, cz])) := by
  intro h
  have hp : parse (emitOld (.neg (.join .and [cy, cz]))) = some (.join .and [.neg cy, cz]) := by rfl
  have hn : norm (.neg (.join .and [cy, cz])) = .neg (.join .and [cy, cz]) := by rfl
  have hn' : norm (.join .and [.neg cy, cz]) = .join .and [.neg cy, cz] := by rfl
  simp [RoundTrips, hp, hn, hn'] at h

theorem refute_not_not_old : ¬ RoundTrips emitOld (.neg (.neg cy)) := by
  intro h
  have hp : parse (emitOld (.neg (.neg cy))) = some (.neg cy) := by rfl
  have hn : norm (.neg (.neg cy)) = .neg (.neg cy) := by rfl
  have hn' : norm (.neg cy) = .neg cy := by rfl
  simp [RoundTrips, hp, hn, hn'] at h
  simp [cy] at h

theorem refute_and_over_bare_or_old : ¬ RoundTrips emitOld (.join .and [cx, .join .or [cy, cz]]) := by
  intro h
  have hp : parse (emitOld (.join .and [cx, .join .or [cy, cz]])) = some (.join .or [.join .and [cx, cy], cz]) := by rfl
  have hn : norm (.join .and [cx, .join .or [cy, cz]]) = .join .and [cx, .join .or [cy, cz]] := by rfl
  have hn' : norm (.join .or [.join .and [cx, cy], cz]) = .join .or [.join .and [cx, cy], cz] := by rfl
  simp [RoundTrips, hp, hn, hn'] at h

/-- the hypotheses of the positive theorems are necessary: an empty criteria list prints nothing, and
-2^63 (a legal Go int64) prints digits that ParseInt rejects — neither is repaired by the patch -/
theorem valid_needed_empty_list : ¬ RoundTrips emit (qNot (qAnd [])) := by
  intro h
  have hp : parse (emit (qNot (qAnd []))) = none := by rfl
  simp [RoundTrips, hp] at h

theorem valid_needed_min_int64 :
    ¬ RoundTrips emit (.cmp (.prop "n" "x") .eq (.lit (.int (-9223372036854775808)))) := by
  intro h
  have hp : parse (emit (.cmp (.prop "n" "x") .eq (.lit (.int (-9223372036854775808))))) = none := by rfl
  simp [RoundTrips, hp] at h

/-- `C10_full` is the statement about the code that exists. What is still false of it is exactly two clauses:
(1) a term with an empty criteria list / a kind matcher without kinds, (2) an integer literal of magnitude > 2^63-1.
Every term with neither round-trips; each clause has a witness (neither is touched by the emitter fixes). -/
theorem c10_full_except (e : Expr) (h1 : listsNonEmpty e = true) (h2 : literalsInRange e = true) : RoundTrips emit e :=
  builder_roundtrip e (by rw [valid_split, h1, h2]; rfl)

theorem c10_full_fails_only_there (e : Expr) (h : ¬ RoundTrips emit e) : listsNonEmpty e = false ∨ literalsInRange e = false := by
  cases h1 : listsNonEmpty e <;> cases h2 : literalsInRange e <;> simp
  exact h (c10_full_except e h1 h2)

theorem c10_full_refuted : ¬ C10_full := fun h => valid_needed_empty_list (h _)

example : listsNonEmpty (qNot (qAnd [])) = false ∧ literalsInRange (qNot (qAnd [])) = true := ⟨rfl, rfl⟩
example : listsNonEmpty (.cmp (.prop "n" "x") .eq (.lit (.int (-9223372036854775808)))) = true ∧
    literalsInRange (.cmp (.prop "n" "x") .eq (.lit (.int (-9223372036854775808)))) = false := ⟨rfl, rfl⟩

/-! ### literals -/

theorem operand_roundtrip_fixed (o : Operand) (h : o.ok = true) : parseOperand (emitO true o) = some o := by
  have hb := needO_le o
  have := parseO_emit o h (fuelFor (emitO true o)) (by simp [fuelFor]; omega) [] rfl
  simp only [List.append_nil] at this
  simp [parseOperand, this]

/-- every literal type through the printer as it is: null, booleans, integers with |i| ≤ 2^63-1, every finite
float (canonical decimal, ±0 included), every string token -/
theorem literal_roundtrip (l : Lit) (h : l.ok = true) : parseOperand (emitLit true l) = some (.lit l) := by
  simpa [emitO] using operand_roundtrip_fixed (.lit l) (by simpa [Operand.ok] using h)

/-- the printer before 04efdd9: the same, except floats with an integral value -/
theorem literal_roundtrip_old (l : Lit) (h : l.ok = true) (hf : l.integralFloat = false) :
    parseOperand (emitLit false l) = some (.lit l) := by
  rw [emitLit_safe l hf]; exact literal_roundtrip l h

theorem literal_roundtrip_null : parseOperand (emitLit true .null) = some (.lit .null) := by rfl
theorem literal_roundtrip_bool (b : Bool) : parseOperand (emitLit true (.bool b)) = some (.lit (.bool b)) :=
  literal_roundtrip _ rfl
theorem literal_roundtrip_int (i : Int) (h : i.natAbs ≤ maxI) : parseOperand (emitLit true (.int i)) = some (.lit (.int i)) :=
  literal_roundtrip _ (by simpa [Lit.ok] using h)
theorem literal_roundtrip_float (d : Dec) (h : stripZ d.frac = d.frac) :
    parseOperand (emitLit true (.float d)) = some (.lit (.float d)) :=
  literal_roundtrip _ (by simpa [Lit.ok] using h)
theorem literal_roundtrip_string_token (s : String) : parseOperand (emitLit true (.str s)) = some (.lit (.str s)) :=
  literal_roundtrip _ rfl
/-- list literals of any nesting over valid operands -/
theorem literal_roundtrip_list (xs : List Operand) (h : Operand.oks xs = true) :
    parseOperand (emitO true (.list xs)) = some (.list xs) :=
  operand_roundtrip_fixed _ (by simpa [Operand.ok] using h)

/-- 1.0 is written `1` and read back as the integer 1; -0.0 is written `-0` and read back as the integer 0 -/
theorem float_integral_becomes_int_old :
    parseOperand (emitLit false (.float ⟨false, 1, []⟩)) = some (.lit (.int 1)) ∧
    parseOperand (emitLit false (.float ⟨true, 0, []⟩)) = some (.lit (.int 0)) := ⟨rfl, rfl⟩

/-- character level, ALL strings: cypher.NewStringLiteral's text is one StringLiteral token whatever follows it,
and decodeCypherStringLiteral gives the original string back -/
theorem literal_roundtrip_string (s rest : List Char) : lexStr (quote s ++ rest) = some (s, rest) :=
  lexStr_quote s rest

/-- escaping that forgets the backslash is wrong: `a\` would swallow the closing quote -/
example : lexStr ('\'' :: (escCharsNoBackslash ['a', '\\'] ++ ['\''])) = none := by rfl

/-! ### Prepare as it is (`prep` = the ExpressionListRewriter of /repo): kinds hoisted onto the MATCH pattern are part of the meaning

`prep false` is the neo4j ExpressionListRewriter without the string-negation null guard (a deliberate change of meaning,
see `string_negation_guard_eval`); `meaning v ks w` = "the relationship has one of the kinds `ks` and `w` is true". -/

/-- Hoisting a relationship kind matcher into the pattern preserves the three-valued meaning when it is the only one
hoisted, is any-of, and is reached from the WHERE root through conjunctions and parentheses only (`hoistOK`, decidable) … -/
theorem prepare_preserves_eval (v : Val) (e : Expr) (h : List (List String)) (w : Option Expr)
    (hv : valid e = true) (hs : hoistOK e = true) (hp : prep false false true e = some (h, w)) :
    meaning v (flattenKinds h) w = eval v e := by
  have hflags : ∀ b ∈ sites false true e, b = true := by
    intro b hb
    simp only [hoistOK] at hs
    match hl : sites false true e, hs, hb with
    | [], _, hb => simp [hl] at hb
    | [b'], hs, hb =>
      simp only [hl, List.mem_singleton] at hb
      simp only [hl] at hs
      rw [hb]; exact hs
    | _ :: _ :: _, hs, _ => simp [hl] at hs
  have g := prep_good v e false true true h w hv hflags hp
  have hlen := g.len
  simp only [hoistOK] at hs
  match hl : sites false true e, h, hlen, g.ev, g.ne with
  | [], [], _, hev, _ => simpa [meaning, flattenKinds, patK, allK] using hev
  | [_], [ks], _, hev, hne =>
    have : ks ≠ [] := hne ks (by simp)
    match ks, this with
    | k :: ks', _ => simpa [meaning, flattenKinds, patK, allK, and3_true_right] using hev
  | [], _ :: _, hlen, _, _ => simp [hl] at hlen
  | [_], [], hlen, _, _ => simp [hl] at hlen
  | [_], _ :: _ :: _, hlen, _, _ => simp [hl] at hlen
  | _ :: _ :: _, _, _, _, _ => simp [hl] at hs

def rx : Expr := .cmp (.prop "r" "x") .eq (.param "")

/-- … and only then: out of an OR, an XOR, a negation (what regression A does), next to a second hoisted matcher, or
for an all-of matcher, a valuation separates the prepared query from the criteria. -/
theorem hoist_from_or_changes_meaning :
    prep false false true (qOr [qKind "r" ["A"], rx]) = some ([["A"]], some (.paren rx)) ∧
    ∃ v : Val, meaning v ["A"] (some (.paren rx)) = some false ∧ eval v (qOr [qKind "r" ["A"], rx]) = some true :=
  ⟨rfl, ⟨fun _ _ _ => some true, fun _ _ => none, fun _ _ => some false⟩, rfl, rfl⟩

theorem hoist_from_xor_changes_meaning :
    prep false false true (qXor [qKind "r" ["A"], rx]) = some ([["A"]], some (.join .xor [rx])) ∧
    ∃ v : Val, meaning v ["A"] (some (.join .xor [rx])) = some false ∧ eval v (qXor [qKind "r" ["A"], rx]) = some true :=
  ⟨rfl, ⟨fun _ _ _ => some true, fun _ _ => none, fun _ _ => some false⟩, rfl, rfl⟩

/-- query.Not(query.And(query.Not(r.x = 1), query.KindIn(r, A, B))) -/
def wNegKind : Expr := qNot (qAnd [qNot rx, qKind "r" ["A", "B"]])

/-- the rewriter leaves a matcher below a negation alone … -/
theorem prepare_keeps_negated_kind_matcher : prepare wNegKind = some ([], some wNegKind) := by rfl

/-- … because hoisting it (`match ()-[r:A|B]->() where not (not (r.x = $p0))`) asks a different question -/
theorem hoist_from_negation_changes_meaning :
    ∃ v : Val, meaning v ["A", "B"] (some (qNot (qNot rx))) = some false ∧ eval v wNegKind = some true :=
  ⟨⟨fun _ _ _ => some true, fun _ _ => none, fun _ _ => some false⟩, rfl, rfl⟩

theorem two_hoisted_conjuncts_change_meaning :
    prep false false true (qAnd [qKind "r" ["A"], qKind "r" ["B"], rx]) = some ([["A"], ["B"]], some (.join .and [rx])) ∧
    ∃ v : Val, meaning v ["A", "B"] (some (.join .and [rx])) = some true ∧
      eval v (qAnd [qKind "r" ["A"], qKind "r" ["B"], rx]) = some false :=
  ⟨rfl, ⟨fun _ _ _ => some true, fun _ _ => none, fun _ k => some (k == "A")⟩, rfl, rfl⟩

theorem hoist_all_of_changes_meaning :
    prep false false true (qAnd [.kinds "r" ["A", "B"] true, rx]) = some ([["A", "B"]], some (.join .and [rx])) ∧
    ∃ v : Val, meaning v ["A", "B"] (some (.join .and [rx])) = some true ∧
      eval v (qAnd [.kinds "r" ["A", "B"] true, rx]) = some false :=
  ⟨rfl, ⟨fun _ _ _ => some true, fun _ _ => none, fun _ k => some (k == "A")⟩, rfl, rfl⟩

/-- the null guard added for negated string predicates is `or x is null` on top of the negation: intended, not neutral -/
theorem string_negation_guard_eval (v : Val) (l r : Operand) :
    eval v (.paren (.join .or [.neg (.cmp l .contains r), .isNull l false])) =
      or3 (not3 (v.cmp l .contains r)) (v.isNull l false) := by
  simp only [eval, evalList, op3, unit3]
  rcases not3 (v.cmp l .contains r) with _ | _ | _ <;> rcases v.isNull l false with _ | _ | _ <;> rfl

/-- non-vacuity: a conjunctive, un-negated matcher among nested lists, parentheses and sibling negations is hoistable -/
example : hoistOK (qAnd [qNot rx, .paren (qAnd [rx, qKind "r" ["A", "B"]]), qOr [rx, qNot (qKind "r" ["C"])]]) = true ∧
    valid (qAnd [qNot rx, .paren (qAnd [rx, qKind "r" ["A", "B"]]), qOr [rx, qNot (qKind "r" ["C"])]]) = true ∧
    (prep false false true (qAnd [qNot rx, .paren (qAnd [rx, qKind "r" ["A", "B"]]), qOr [rx, qNot (qKind "r" ["C"])]])).isSome = true :=
  ⟨rfl, rfl, rfl⟩
example : hoistOK wNegKind = true ∧ hoistOK (qOr [qKind "r" ["A"], rx]) = false := ⟨rfl, rfl⟩

/-! ### the guard is sharp: inside it Prepare preserves meaning (`prepare_preserves_eval`), and each way of leaving it
has a separating valuation — these are the four `neo4j.ExpressionListRewriter:*` findings -/
theorem prepare_guard_sharp :
    (∀ (v : Val) (e : Expr) h w, valid e = true → hoistOK e = true → prep false false true e = some (h, w) →
      meaning v (flattenKinds h) w = eval v e) ∧
    -- lifted out of OR
    (hoistOK (qOr [qKind "r" ["A"], rx]) = false ∧
      ∃ v : Val, meaning v ["A"] (some (.paren rx)) ≠ eval v (qOr [qKind "r" ["A"], rx])) ∧
    -- lifted out of XOR
    (hoistOK (qXor [qKind "r" ["A"], rx]) = false ∧
      ∃ v : Val, meaning v ["A"] (some (.join .xor [rx])) ≠ eval v (qXor [qKind "r" ["A"], rx])) ∧
    -- two conjunct matchers merged into one any-of list
    (hoistOK (qAnd [qKind "r" ["A"], qKind "r" ["B"], rx]) = false ∧
      ∃ v : Val, meaning v ["A", "B"] (some (.join .and [rx])) ≠ eval v (qAnd [qKind "r" ["A"], qKind "r" ["B"], rx])) ∧
    -- all-of hoisted as any-of
    (hoistOK (qAnd [.kinds "r" ["A", "B"] true, rx]) = false ∧
      ∃ v : Val, meaning v ["A", "B"] (some (.join .and [rx])) ≠ eval v (qAnd [.kinds "r" ["A", "B"] true, rx])) := by
  refine ⟨fun v e h w hv hs hp => prepare_preserves_eval v e h w hv hs hp, ⟨rfl, ?_⟩, ⟨rfl, ?_⟩, ⟨rfl, ?_⟩, ⟨rfl, ?_⟩⟩
  · obtain ⟨_, v, h1, h2⟩ := hoist_from_or_changes_meaning
    exact ⟨v, by rw [h1, h2]; simp⟩
  · obtain ⟨_, v, h1, h2⟩ := hoist_from_xor_changes_meaning
    exact ⟨v, by rw [h1, h2]; simp⟩
  · obtain ⟨_, v, h1, h2⟩ := two_hoisted_conjuncts_change_meaning
    exact ⟨v, by rw [h1, h2]; simp⟩
  · obtain ⟨_, v, h1, h2⟩ := hoist_all_of_changes_meaning
    exact ⟨v, by rw [h1, h2]; simp⟩

/-- PROPOSAL hooks/C10-fix8 (`prepareGuarded`): a Prepare that refuses outside the guard never changes the meaning (string
negation guard aside); the four shapes above are refused, hoistable shapes are prepared as today. -/
theorem prepare_guarded_preserves_eval (v : Val) (e : Expr) (hv : valid e = true) (ks : List String) (w : Option Expr) (h : List (List String))
    (hg : hoistOK e = true) (hp : prep false false true e = some (h, w)) (hk : ks = flattenKinds h) :
    meaning v ks w = eval v e := by
  subst hk; exact prepare_preserves_eval v e h w hv hg hp

theorem prepare_guarded_refuses :
    prepareGuarded (qOr [qKind "r" ["A"], rx]) = none ∧ prepareGuarded (qXor [qKind "r" ["A"], rx]) = none ∧
    prepareGuarded (qAnd [qKind "r" ["A"], qKind "r" ["B"], rx]) = none ∧ prepareGuarded (qAnd [.kinds "r" ["A", "B"] true, rx]) = none ∧
    prepareGuarded (qAnd [qNot rx, .paren (qAnd [rx, qKind "r" ["A", "B"]])]) = prepare (qAnd [qNot rx, .paren (qAnd [rx, qKind "r" ["A", "B"]])]) ∧
    prepareGuarded wNegKind = prepare wNegKind := by
  refine ⟨rfl, rfl, rfl, rfl, rfl, rfl⟩

/-! ### PROPOSAL, not the code that exists: Prepare with hooks/C10-fix7 (`prepFix7`) needs no hypothesis beyond well-formedness.
The patch was not taken (a relationship kind matcher left in the WHERE clause is rejected by some Neo4j versions), so these
theorems describe the repair, and `prepare_preserves_eval` above (with `hoistOK`) describes /repo. -/

/-- The kinds Prepare puts on the MATCH pattern together with the WHERE it leaves mean what the criteria meant, for
every valid term and every valuation (string-negation null guard aside, see `string_negation_guard_eval`). -/
theorem prepare_preserves_eval_fix7 (v : Val) (e : Expr) (hv : valid e = true) :
    meaning v (flattenKinds (prepFix7 false false false true true e).1) (prepFix7 false false false true true e).2 = eval v e := by
  have g := prepFix7_good v e false false true true hv
  generalize prepFix7 false false false true true e = p at g
  obtain ⟨h, w⟩ := p
  simp only at g ⊢
  match h, g.len, g.ev, g.ne with
  | [], _, hev, _ => simpa [meaning, flattenKinds, patK, allK] using hev
  | [ks], _, hev, hne =>
    have : ks ≠ [] := hne ks (by simp)
    match ks, this with
    | k :: ks', _ => simpa [meaning, flattenKinds, patK, allK, and3_true_right] using hev
  | _ :: _ :: _, hlen, _, _ => simp at hlen

/-- at most one matcher is hoisted -/
theorem prepare_hoists_at_most_one_fix7 (e : Expr) (hv : valid e = true) : (prepFix7 false false false true true e).1.length ≤ 1 :=
  (prepFix7_good ⟨fun _ _ _ => none, fun _ _ => none, fun _ _ => none⟩ e false false true true hv).len

/-- with the proposal, the shapes the rewriter gets wrong would be left in the WHERE clause (or hoisted once) -/
example : prepareFix7 (qOr [qKind "r" ["A"], rx]) = ([], some (qOr [qKind "r" ["A"], rx])) := by rfl
example : prepareFix7 (qXor [qKind "r" ["A"], rx]) = ([], some (qXor [qKind "r" ["A"], rx])) := by rfl
example : prepareFix7 (qAnd [qKind "r" ["A"], qKind "r" ["B"], rx]) = (["A"], some (.join .and [qKind "r" ["B"], rx])) := by rfl
example : prepareFix7 (qAnd [.kinds "r" ["A", "B"] true, rx]) = ([], some (qAnd [.kinds "r" ["A", "B"] true, rx])) := by rfl
example : prepareFix7 wNegKind = ([], some wNegKind) := by rfl
example : prepareFix7 (qAnd [qNot rx, .paren (qAnd [rx, qKind "r" ["A", "B"]])]) =
    (["A", "B"], some (.join .and [qNot rx, .paren rx])) := by rfl

/-! ### clause level: the whole query the builders assemble

`Query` = MATCH pattern, WHERE criteria, the update builders (Create / Delete / SetProperty / SetProperties / AddKind(s) /
DeleteKind(s) / DeleteProperty / DeleteProperties) and RETURN [DISTINCT] items ORDER BY … SKIP … LIMIT …;
`emitQ` = formatSinglePartQuery as it is, `parseQ` builds what cypher/frontend builds. -/

/-- the parser inverts the emitter on every well-formed query, exactly, up to the canonical form of the WHERE … -/
theorem query_parse_emit (q : Query) (hv : validQ q = true) : parseQ (emitQ q) = some (canonQ q) := parseQ_emit q hv

/-- … hence `builder_roundtrip` for whole queries: same pattern, same updates, same projection, and a WHERE with the
same normal form -/
theorem query_roundtrip (q : Query) (hv : validQ q = true) : (parseQ (emitQ q)).map normQ = some (normQ q) := by
  rw [query_parse_emit q hv]; simp [normQ_canonQ]

/-- Parameters lifted by Prepare: the `$` tokens of the emitted text are p0, p1, … in text order — the numbering is a
function of the query's shape alone (deterministic), every occurrence gets its own name (pairwise distinct), and the
map binds the i-th name to the i-th value handed to the builders (value-preserving). -/
theorem prepare_parameters_preserved {V : Type} (q : Query) (hw : q.pattern = [] → q.where_ = none) (vals : List V)
    (hl : vals.length = cntQ q) :
    paramToks (emitQ (liftQ 0 q)) = (bindings 0 vals).map Prod.fst ∧
    (bindings 0 vals).map Prod.snd = vals ∧
    ((bindings 0 vals).map Prod.fst).Nodup := by
  refine ⟨?_, bindings_snd vals 0, ?_⟩
  · rw [paramToks_liftQ q hw 0, bindings_fst, hl]
  · rw [bindings_fst]; exact names_nodup 0 _

/-- the numbering does not depend on the names the parameters had before -/
theorem lift_numbering (q : Query) (hw : q.pattern = [] → q.where_ = none) (n : Nat) :
    paramToks (emitQ (liftQ n q)) = names n (cntQ q) := paramToks_liftQ q hw n

def qExample : Query :=
  ⟨[.node (some "s") [] none, .rel (some "r") [] none, .node none [] none],
   some (qAnd [.cmp (.prop "r" "x") .eq (.param ""), qKind "r" ["A", "B"], qOr [.isNull (.prop "s" "y") false, .cmp (.param "") .isIn (.prop "s" "z")]]),
   [.set [.prop "s" "a" (.param ""), .kinds "s" ["K"]], .remove [.prop "s" "c", .kinds "s" ["A", "B"]], .delete true ["r"],
    .create [.node (some "n") ["A"] (some ""), .node (some "m") [] none]],
   some ⟨true, [.op (.var "s"), .fnDistinct "count" (.var "r"), .op (.fn "id" (.var "s"))], [⟨.prop "s" "n", false⟩, ⟨.prop "s" "z", true⟩],
     some (.lit (.int 5)), some (.lit (.int (-1)))⟩⟩

example : validQ qExample = true ∧ cntQ qExample = 4 := ⟨rfl, rfl⟩
example : paramToks (emitQ (liftQ 0 qExample)) = ["p0", "p1", "p2", "p3"] := by rfl
example : ((prepareQ .live qExample).map (fun q => q.pattern)) =
    some [.node (some "s") [] none, .rel (some "r") ["A", "B"] none, .node none [] none] := by rfl

/-- The query Prepare actually renders is the applied query with its parameters named; naming does not touch
well-formedness (`validQ_liftQ`), so the round trip holds for the RENDERED query whenever the APPLIED one is well-formed. -/
theorem prepared_query_roundtrip (q : Query) (n : Nat) (hv : validQ q = true) :
    (parseQ (emitQ (liftQ n q))).map normQ = some (normQ (liftQ n q)) :=
  query_roundtrip (liftQ n q) (by rw [validQ_liftQ]; exact hv)

/-! ### the known finding `query.Literal:raw-go-string-emitted-unquoted` as a refuted instance
`query.Literal("abc")` stores the Go string `abc`, not Cypher source form; formatLiteral writes a string Value verbatim, so an
identifier-shaped string reaches the text as the identifier token `abc`, which reads back as a variable. -/
def emitRawGoString (s : String) : List Tok := [.ident s]

theorem raw_go_string_literal_refuted :
    parseOperand (emitRawGoString "abc") = some (.var "abc") ∧ Operand.var "abc" ≠ .lit (.str "abc") ∧
    parseOperand (emitLit true (.str "abc")) = some (.lit (.str "abc")) :=
  ⟨rfl, (by intro h; cases h), rfl⟩

/-! ### the parameter map on its way to the server (drivers/neo4j/query_rewrite.go, applied by neo4jTransaction.Query)

`rewriteParams fix params pats`: `pats` are the parameters used as pattern properties of a MATCH, in order; every other
`$` symbol of the text (`plains`) is left alone by the rewriter. The property: every symbol of the rewritten text is bound
in the returned map, to the builder's value. -/

/-- As the code is, the property is FALSE: when the only pattern-property parameters are empty maps, `rewritten` is set
but the rewritten parameter map is never created, so the map sent is empty while the text still mentions `$p1`. -/
theorem rewrite_loses_parameters :
    rewriteParams false [("p0", PVal.props []), ("p1", PVal.val (7 : Nat))] ["p0"] = some ([], []) ∧
    symsAfter ["p1"] [] = ["p1"] ∧ plookup ([] : PMap Nat) "p1" = none := ⟨rfl, rfl, rfl⟩

/-- With hooks/C10-fix9 (`fix = true`), for ALL maps and pattern-property lists — empty, nil (= empty) or non-empty, in any
mix — whose pattern parameters are maps and which use no reserved name: the rewrite succeeds, every other parameter keeps
its value, and every new `{key: $fresh}` entry is bound to the value the builder's map had under that key. -/
theorem rewrite_binds_all_fixed {V : Type} (params : PMap V) (pats : List String)
    (hres : ∀ i, pbound params (fname i) = false)
    (hpats : ∀ p ∈ pats, ∃ kvs, plookup params p = some (.props kvs)) :
    ∃ entries m', rewriteParams true params pats = some (entries, m') ∧
      (∀ s, s ∉ pats → (∀ i, s ≠ fname i) → plookup m' s = plookup params s) ∧
      (∀ e ∈ entries, ∃ kvs v, plookup params e.1 = some (.props kvs) ∧ (e.2.1, v) ∈ kvs ∧ plookup m' e.2.2 = some (.val v)) :=
  rewriteParams_fixed params pats hres hpats

/-- the code as it is agrees with the repair whenever no pattern-property map is empty -/
theorem rewrite_current_partial {V : Type} (params : PMap V) (pats : List String)
    (hne : ∀ p ∈ pats, ∀ kvs, plookup params p = some (.props kvs) → kvs ≠ []) :
    rewriteParams false params pats = rewriteParams true params pats := by
  have h : ∀ (ps : List String) (st : RWState V), (∀ p ∈ ps, p ∈ pats) →
      rewritePats false params ps st = rewritePats true params ps st := by
    intro ps
    induction ps with
    | nil => intro st _; rfl
    | cons p ps ih =>
      intro st hsub
      simp only [rewritePats]
      cases hp : plookup params p with
      | none => rfl
      | some pv =>
        cases pv with
        | val v => rfl
        | props kvs =>
          cases kvs with
          | nil => exact absurd rfl (hne p (hsub p (by simp)) [] hp)
          | cons kv kvs => exact ih _ (fun q hq => hsub q (by simp [hq]))
  simp only [rewriteParams, h pats _ (fun p hp => hp)]

/-- the builder's names p0, p1, … are never reserved names, so `hres` holds for every QueryBuilder.Parameters -/
theorem builder_names_not_reserved (i j : Nat) : pname i ≠ fname j := by
  intro h
  have h' := congrArg String.toList h
  simp only [pname, fname, String.toList_append] at h'
  have h1 : ("p" : String).toList = ['p'] := rfl
  have h2 : ("_" : String).toList = ['_'] := rfl
  rw [h1, h2] at h'
  simp at h'

example : (rewriteParams true [("p0", PVal.props []), ("p1", PVal.val (7 : Nat))] ["p0"]) = some ([], [("p1", PVal.val 7)]) := by rfl

/-! ### non-vacuity -/
example : valid wAndXor = true ∧ safe wAndXor = false := ⟨rfl, rfl⟩
example : valid (qAnd [cx, qOr [cy, qNot cz], qKind "n" ["A", "B"]]) = true ∧
    safe (qAnd [cx, qOr [cy, qNot cz], qKind "n" ["A", "B"]]) = true := ⟨rfl, rfl⟩
example : canonL 0 (canon wAndXor) = true := by rfl
example : (Lit.float ⟨true, 12, [5]⟩).ok = true ∧ (Lit.int (-9223372036854775807)).ok = true := ⟨rfl, rfl⟩
example : RoundTrips emit wAndXor ∧ RoundTrips emit wFloat ∧ RoundTrips emit wAllOf :=
  ⟨builder_roundtrip _ rfl, builder_roundtrip _ rfl, builder_roundtrip _ rfl⟩

end Dawgs.C10.Props
