/-
C19 — T-tie: the resume identity binds every option of the call.

Side conditions over the fact table `Dawgs.Generated.C19` that tools/extract/c19 regenerates from the CURRENT
source of retriever/*.go on every run (options.go, dump_checkpoint.go, scrubber.go, dump.go). They connect the
Lean model's `Identity` / `identityOf` (Model/C19.lean), for which `resume_refuses_on_identity_change` is
proved for a change in ANY bound field, to the code: the same fields, bound the same way, compared as a whole,
and the salt digest taken from the salt as it was BEFORE the configuration copy is blanked.
ONLY statements closed by `decide` live here.
-/
import Dawgs.Model.C19
import Dawgs.Generated.C19_identity
namespace Dawgs.C19.Props
open Dawgs.C19 Dawgs.Generated.C19

/-- how the model's `identityOf` binds each `DumpOptions` field -/
def modelOptionBinding : List (String × String) :=
  [("OutputDir", "unbound"), ("Force", "unbound"), ("Resume", "unbound"),
   ("Scrub", "direct:Scrub"), ("Salt", "saltDigest"), ("ScrubConfig", "configDigest"),
   ("Compression", "direct:Compression"), ("ZstdLevel", "direct:CompressionLevel"),
   ("ShardSize", "direct:ShardSize"), ("BatchSize", "direct:BatchSize"),
   ("ProgressInterval", "unbound"), ("Progress", "unbound")]

/-- acceptable inputs of the salt digest: a value read from the configuration before its salt is blanked -/
def saltDigestOk : List String := ["saved-before-blank", "config-before-blank", "scrubber-config"]

/-- Every field of `DumpOptions` is bound by the identity or is in the explicit exempt list. -/
theorem every_option_bound :
    optionFields.all (fun f => optionBinding.any (fun p => p.1 == f && p.2 != "unbound") || exemptOptionFields.contains f) = true := by
  decide

/-- The exempt list is exact: those fields are indeed not part of the identity (so the harness requires a
resume to COMPLETE when only they change). -/
theorem exempt_fields_unbound :
    exemptOptionFields.all (fun f => optionBinding.contains (f, "unbound")) = true := by decide

/-- Each option enters the identity the way the model's `identityOf` says (directly into the named identity
field, through the configuration digest, through the dedicated salt digest). -/
theorem option_binding_as_modelled : optionBinding = modelOptionBinding := by decide

/-- The driver name and the targets (each name, in order) are bound. -/
theorem every_param_bound : paramBinding = [("driverName", "direct:Driver"), ("targets", "direct:Graphs")] := by decide

/-- The identity record has exactly the fields the model has, each assigned from an option, a parameter, a
constant or a digest. -/
theorem identity_fields_modelled :
    identityFields = identityFieldNames ∧
    identitySources =
      [("Driver", "param:driverName"), ("Graphs", "param-each:targets"), ("Compression", "option:Compression"),
       ("CompressionLevel", "option:ZstdLevel"), ("Scrub", "option:Scrub"), ("ScrubRulesVersion", "const:scrubRulesVersion"),
       ("ScrubConfigSHA256", "digest"), ("ScrubSaltSHA256", "digest"), ("ShardSize", "option:ShardSize"),
       ("BatchSize", "option:BatchSize")] := by
  decide

/-- The configuration digest hashes the scrubber's whole configuration (no field skipped by json.Marshal) with
only the salt blanked, and the salt is bound separately. -/
theorem config_digest_covers :
    configDigestFrom = "scrubber-config" ∧ configDigestSkips = [] ∧
    blankedBeforeConfigDigest.all (fun f => f == "Salt") = true ∧
    scrubberArgs = [("configReader", "ScrubConfig"), ("salt", "Salt")] ∧
    saltParamIntoConfig = "salt" ∧ readerIntoConfig = "configReader" := by decide

/-- ORDER: the salt digest is computed from the salt as read BEFORE `config.Salt` is blanked for the
configuration digest — never from the blanked field (which would be the same constant for every salt). -/
theorem salt_digest_order : saltDigestOk.contains saltDigestFrom = true := by decide

/-- Resume computes the expected identity from the options of the resuming call and compares the two identity
values as a whole. -/
theorem whole_identity_compared :
    comparesWholeIdentity = true ∧ identityFromCurrentOptions = true ∧ resumeUsesThatIdentity = true := by decide

/-- The source-count guards are the model's: a completed graph is refused when its node count OR its
relationship count differs from the recorded one (`sourceOk` compares the pair; a conjunction would accept a
change in one dimension), and the graph in progress when its whole snapshot (both counts) differs. -/
theorem source_guards_as_modelled :
    completedSourceGuard = "snapshot.NodeCount != graphEntry.NodeCount || snapshot.EdgeCount != graphEntry.EdgeCount" ∧
    currentSourceGuard = "checkpoint.Snapshot != currentSnapshot" ∧ snapshotFields = ["NodeCount", "EdgeCount"] ∧
    -- … and the guard is reached for EVERY completed graph (also one that committed no fragment because it was empty):
    -- the loop ranges over the whole list and nothing leaves an iteration before the guard
    completedGuardRangeOver = "param:graphEntries" ∧ completedGuardEarlyExits = [] := by decide

/-- The resume-time walk of the output directory skips directories and nothing else: every regular file, whatever
its name (`*.tmp` included), is checked against the checkpointed set (model: `noUnexpected` looks at every path). -/
theorem walk_skips_only_directories : walkSkips = ["entry.IsDir()"] := by decide

/-- The scrubber's cached plan is a function of the cache key only: the cache is indexed by the normalised key, the
normalised key is `normalizeKey` of the raw key, and no plan field is computed from the raw key (the premise of
`scrub_plan_cache_unobservable`). -/
theorem scrub_plan_from_cache_key_only :
    planCacheKey = "normalized" ∧ planNormalizedFrom = "normalized:=normalizeKey(key)" ∧ planFieldsFromRawKey = [] := by decide

end Dawgs.C19.Props
