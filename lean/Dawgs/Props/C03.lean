/-
C03 — emitted SQL is closed: every name, column, composite field, function, type and parameter it uses is defined.

`resolve` (Model/C03.lean) is the name-resolution semantics of PostgreSQL for the emitted constructs (trusted transcription of the
documentation — no server exists in the sandbox). `wellScoped` (Model/C03Bind.lean) is the binder, written independently.
Name resolution never reads table contents, so every statement below holds for every database instance of the schema.
-/
import Dawgs.Proofs.C03
import Dawgs.Proofs.C03Frag
import Dawgs.Model.SqlSchema
import Dawgs.Generated.Schema
namespace Dawgs.C03.Props
open Dawgs.Sql

/-! ### T-tie: the catalogue used by binder, proofs and driver is the current `schema_up.sql` -/

theorem schema_tables_tie : Generated.Schema.tables = schemaTables := by decide +kernel
theorem schema_composites_tie : Generated.Schema.composites = schemaComposites := by decide +kernel
/-- every schema function the binder knows is declared in `schema_up.sql` with exactly these arities / result / columns -/
theorem schema_functions_tie : schemaFunctions.all (fun f => Generated.Schema.functions.contains f) = true := by decide +kernel

/-! ### the binder is sound for the resolution semantics -/

/-- MAIN: a statement the binder accepts is resolved by PostgreSQL's scoping rules without any error; the output columns are
those the binder computed. -/
theorem wellScoped_sound (Γ : Env) (s : Stmt) (h : wellScoped Γ s = true) : ∃ cols, resolve Γ s = .ok cols := by
  unfold wellScoped at h
  match hb : bStmt Γ s with
  | some cols => exact ⟨cols, bStmt_sound Γ s cols hb⟩
  | none => simp [hb] at h

/-- in particular none of the property's error classes can occur -/
theorem wellScoped_no_error (Γ : Env) (s : Stmt) (h : wellScoped Γ s = true) (e : RErr) : resolve Γ s ≠ .error e := by
  obtain ⟨cols, hc⟩ := wellScoped_sound Γ s h
  rw [hc]; intro hh; cases hh

theorem wellScoped_no_unbound (Γ : Env) (s : Stmt) (h : wellScoped Γ s = true) (n : String) :
    resolve Γ s ≠ .error (.unbound n) ∧ resolve Γ s ≠ .error (.ambiguous n) ∧ resolve Γ s ≠ .error (.arity n) ∧
    resolve Γ s ≠ .error (.missingParam n) ∧ resolve Γ s ≠ .error .dmlWithoutUpdate :=
  ⟨wellScoped_no_error Γ s h _, wellScoped_no_error Γ s h _, wellScoped_no_error Γ s h _, wellScoped_no_error Γ s h _,
   wellScoped_no_error Γ s h _⟩

/-! ### CTE column lists -/

theorem applyShape_match {name : String} {names : List String} {cols : List Col} {rel : Rel}
    (h : applyShape name (some names) cols = .ok rel) :
    names.length = cols.length ∧ rel.name = name ∧ rel.cols.map (·.name) = names := by
  unfold applyShape at h
  simp only at h
  split at h
  · rename_i hl
    have hl' : names.length = cols.length := by simpa using hl
    injection h with h
    subst h
    refine ⟨hl', rfl, ?_⟩
    simp only [List.map_map]
    have : ((fun c : Col => c.name) ∘ fun p : String × Col => (⟨p.1, p.2.ty⟩ : Col)) = Prod.fst := by funext p; rfl
    rw [this, List.map_fst_zip]
    omega
  · cases h

/-- a (non-recursive-form) CTE with a declared column list resolves only if the list has exactly as many names as its
body produces columns, and the CTE is then visible under exactly those names -/
theorem cte_columns_match (Γ : Env) (sc : Scope) (own : List String) (acc out : List Rel) (name : String)
    (names : List String) (m : Option Bool) (q : Query) (cs : List Cte)
    (h : resolveCtes Γ sc false own acc (.mk name (some names) m q :: cs) = .ok out) :
    ∃ cols rel, resolveQuery Γ (sc.withCtes acc) q = .ok cols ∧ names.length = cols.length ∧
      rel.name = name ∧ rel.cols.map (·.name) = names ∧
      resolveCtes Γ sc false (name :: own) (rel :: acc) cs = .ok out := by
  rw [resolveCtes.eq_def] at h
  simp only [] at h
  match hq : resolveQuery Γ (sc.withCtes acc) q with
  | .error e => rw [hq] at h; cases h
  | .ok cols =>
    simp only [hq, ebind_ok] at h
    match hs : applyShape name (some names) cols with
    | .error e => rw [hs] at h; cases h
    | .ok rel =>
      simp only [hs, ebind_ok] at h
      obtain ⟨h1, h2, h3⟩ := applyShape_match hs
      refine ⟨cols, rel, rfl, h1, h2, h3, ?_⟩
      split at h
      · cases h
      · exact h

/-! ### parameters, and the statement for a translator -/

/-- `params_closed`: when the binder accepts a statement under the parameter names `ps`, name resolution with exactly these
parameters never reports a missing parameter — every `@p` the statement uses is among `ps` -/
theorem params_closed (cat : Catalog) (ps : List String) (u : Bool) (s : Stmt) (h : wellScoped ⟨cat, ps, u⟩ s = true) (p : String) :
    resolve ⟨cat, ps, u⟩ s ≠ .error (.missingParam p) :=
  wellScoped_no_error ⟨cat, ps, u⟩ s h _

/-- and a statement that uses a parameter outside `ps` is rejected by the binder (contrapositive, on the resolution semantics) -/
theorem missing_param_rejected (cat : Catalog) (ps : List String) (u : Bool) (s : Stmt) (p : String)
    (h : resolve ⟨cat, ps, u⟩ s = .error (.missingParam p)) : wellScoped ⟨cat, ps, u⟩ s = false := by
  cases hw : wellScoped ⟨cat, ps, u⟩ s with
  | false => rfl
  | true => exact absurd h (params_closed cat ps u s hw p)

/-- FULL STATEMENT for a translator `T` (the real translator is Go code: stated for an arbitrary function): every statement it produces
resolves under the schema catalogue with exactly the parameter names of its own parameter map — no unbound / ambiguous name, no
CTE arity mismatch, no missing parameter. -/
def C03_for (T : KindMap → Cy.Query → Option (Stmt × List (String × Val))) : Prop :=
  ∀ (km : KindMap) (q : Cy.Query) (st : Stmt) (ps : List (String × Val)), T km q = some (st, ps) →
    ∃ cols, resolve ⟨schema, ps.map (·.1), false⟩ st = .ok cols

/-- C03 at the strength of properties.jsonl: for a total extension of the model translator. Undischarged; what the check does for
the real translator is per-output validation by the verified binder. -/
def C03_full : Prop :=
  ∃ T : KindMap → Cy.Query → Option (Stmt × List (String × Val)),
    (∀ km q r, C01.tr km q = some r → T km q = some r) ∧ (∀ km q, ∃ r, T km q = some r) ∧ C03_for T

/-- THE PROVED PART: the model translator of C01 (stage S1) only produces closed statements -/
theorem c03_partial : C03_for C01.tr := by
  intro km q st ps h
  unfold C01.tr at h
  cases ho : C01.ofCy q with
  | none => rw [ho] at h; cases h
  | some s =>
    rw [ho] at h
    simp only [Option.map_eq_some_iff] at h
    obtain ⟨st', hst, heq⟩ := h
    cases heq
    exact wellScoped_sound _ _ (C03.Frag.tr_wellScoped km s _ hst)

/-- THE PROVED PART, stages S1 and S2 (one directed hop with WHERE), for EVERY join-order choice of the hop: the model translator only
produces closed statements -/
theorem c03_partial_S2 (flipOf : C01.S2.Query → Bool) (prune : Bool) : C03_for (C01.tr2F flipOf prune) := by
  intro km q st ps h
  obtain ⟨hw, hps⟩ := C03.Frag.tr2_wellScoped flipOf prune km q st ps h
  subst hps
  exact wellScoped_sound _ _ hw

/-- the binder's verdict itself (stronger than resolution: also no missing parameter, no CTE arity mismatch) for every `tr2F` statement -/
theorem tr_wellScoped (flipOf : C01.S2.Query → Bool) (prune : Bool) (km : KindMap) (q : Cy.Query) (st : Stmt) (ps : List (String × Val))
    (h : C01.tr2F flipOf prune km q = some (st, ps)) : wellScoped ⟨schema, ps.map (·.1), false⟩ st = true := by
  obtain ⟨hw, hps⟩ := C03.Frag.tr2_wellScoped flipOf prune km q st ps h
  subst hps
  exact hw

/-- THE PROVED PART over all three stages S1, S2b, S2c (chains of two or three hops), for every join-order choice -/
theorem c03_partial_S3 (flipOf : C01.S2.Query → Bool) (flipCh : C01.Ch.Query → Bool) (prune : Bool) : C03_for (C01.tr3F flipOf flipCh prune) := by
  intro km q st ps h
  obtain ⟨hw, hps⟩ := C03.Frag.tr3_wellScoped flipOf flipCh prune km q st ps h
  subst hps
  exact wellScoped_sound _ _ hw

/-- THE PROVED PART over all four stages S1, S1c (count), S2b, S2c, for every join-order choice and the fast path on or off -/
theorem c03_partial_S4 (flipOf : C01.S2.Query → Bool) (flipCh : C01.Ch.Query → Bool) (fast prune : Bool) : C03_for (C01.tr4F flipOf flipCh fast prune) := by
  intro km q st ps h
  obtain ⟨hw, hps⟩ := C03.Frag.tr4_wellScoped flipOf flipCh fast prune km q st ps h
  subst hps
  exact wellScoped_sound _ _ hw

/-- THE PROVED PART over all five stages S1, S1c, S2b, S2c, S2n (count over a hop) -/
theorem c03_partial_S5 (flipOf : C01.S2.Query → Bool) (flipCh : C01.Ch.Query → Bool) (flipN : C01.S2n.Query → Bool) (fast prune : Bool) :
    C03_for (C01.tr5F flipOf flipCh flipN fast prune) := by
  intro km q st ps h
  obtain ⟨hw, hps⟩ := C03.Frag.tr5_wellScoped flipOf flipCh flipN fast prune km q st ps h
  subst hps
  exact wellScoped_sound _ _ hw

/-- THE PROVED PART over all six stages S1, S1c, S2b, S2c, S2n, S2L (hop with LIMIT; the LIMIT literal on the statement and — limit
pushdown — on the hop frame) -/
theorem c03_partial_S6 (flipOf : C01.S2.Query → Bool) (flipCh : C01.Ch.Query → Bool) (flipN : C01.S2n.Query → Bool) (fast prune push : Bool) :
    C03_for (C01.tr6F flipOf flipCh flipN fast prune push) := by
  intro km q st ps h
  obtain ⟨hw, hps⟩ := C03.Frag.tr6_wellScoped flipOf flipCh flipN fast prune push km q st ps h
  subst hps
  exact wellScoped_sound _ _ hw

/-- THE PROVED PART over all seven stages: S3a adds MATCH (n) [WHERE p] WITH plain items RETURN plain items — the nested statement
`with s0 as (with s1 as (<node frame>) select <WITH items> from s1) select <RETURN items> from s0`. The hand-over discipline the proof
establishes: the node frame `s1` is visible only inside the definition of `s0`; the WITH items read `s1.n0` only; the final select reads
columns of `s0` only, and every column it reads (`n0`, `n1`, … for node names, `i0`, `i1`, … for value names) is exported by exactly one WITH
item. A statement of this stage that references `s0` inside `s0`'s definition, `s1` from the final select, or a column no WITH item exports,
is rejected by the binder — the known defect `with n, n as m` (hooks/C03-fix1.patch) is such a statement of the REAL translator. -/
theorem c03_partial_S7 (flipOf : C01.S2.Query → Bool) (flipCh : C01.Ch.Query → Bool) (flipN : C01.S2n.Query → Bool) (fast prune push : Bool) :
    C03_for (C01.tr7F flipOf flipCh flipN fast prune push) := by
  intro km q st ps h
  obtain ⟨hw, hps⟩ := C03.Frag.tr7_wellScoped flipOf flipCh flipN fast prune push km q st ps h
  subst hps
  exact wellScoped_sound _ _ hw

/-- THE PROVED PART over all eight stages: S1o adds ORDER BY on a property of the matched node (`order by ((s0.n0).properties -> 'k')`) -/
theorem c03_partial_S8 (flipOf : C01.S2.Query → Bool) (flipCh : C01.Ch.Query → Bool) (flipN : C01.S2n.Query → Bool) (fast prune push : Bool) :
    C03_for (C01.tr8F flipOf flipCh flipN fast prune push) := by
  intro km q st ps h
  obtain ⟨hw, hps⟩ := C03.Frag.tr8_wellScoped flipOf flipCh flipN fast prune push km q st ps h
  subst hps
  exact wellScoped_sound _ _ hw

/-- THE PROVED PART over all nine stages: S1d adds RETURN DISTINCT over a node match (`select distinct … from s0`) -/
theorem c03_partial_S9 (flipOf : C01.S2.Query → Bool) (flipCh : C01.Ch.Query → Bool) (flipN : C01.S2n.Query → Bool) (fast prune push : Bool) :
    C03_for (C01.tr9F flipOf flipCh flipN fast prune push) := by
  intro km q st ps h
  obtain ⟨hw, hps⟩ := C03.Frag.tr9_wellScoped flipOf flipCh flipN fast prune push km q st ps h
  subst hps
  exact wellScoped_sound _ _ hw

/-- THE PROVED PART over all ten stages: S2x adds the hop whose frame WHERE also holds the conjuncts over b and the conjuncts that compare a
property of a with a property of b (they read n0 AND n1, so they are bound after both joins, never in the join condition of the node joined first) -/
theorem c03_partial_S10 (flipOf : C01.S2.Query → Bool) (flipCh : C01.Ch.Query → Bool) (flipN : C01.S2n.Query → Bool) (flipX : C01.S2x.Query → Bool)
    (fast prune push : Bool) : C03_for (C01.tr10F flipOf flipCh flipN flipX fast prune push) := by
  intro km q st ps h
  obtain ⟨hw, hps⟩ := C03.Frag.tr10_wellScoped flipOf flipCh flipN flipX fast prune push km q st ps h
  subst hps
  exact wellScoped_sound _ _ hw

/-! ### non-vacuity -/

def env0 : Env := { cat := schema, params := ["pi0"], updating := false }

/-- `with s0 as (select (n0.id, n0.kind_ids, n0.properties)::nodecomposite as n0 from node n0 where n0.id = @pi0) select (s0.n0).id from s0` -/
def stmtGood : Stmt :=
  .query (.mk false
    [.mk "s0" none none (Query.simple (.select false
      [.aliased (.composite [.compound ["n0", "id"], .compound ["n0", "kind_ids"], .compound ["n0", "properties"]] "nodecomposite") (some "n0")]
      [.mk (.table ["node"] (some "n0")) []]
      (some (.bin "=" (.compound ["n0", "id"]) (.param "pi0" "int8"))) [] none))]
    (.select false [.rowCol (.compound ["s0", "n0"]) "id"] [.mk (.table ["s0"] none) []] none [] none) [] none none)

/-- the same with the frame reference dangling (`s1.n0`) -/
def stmtBad : Stmt :=
  .query (.mk false
    [.mk "s0" none none (Query.simple (.select false
      [.aliased (.composite [.compound ["n0", "id"], .compound ["n0", "kind_ids"], .compound ["n0", "properties"]] "nodecomposite") (some "n0")]
      [.mk (.table ["node"] (some "n0")) []] none [] none))]
    (.select false [.rowCol (.compound ["s1", "n0"]) "id"] [.mk (.table ["s0"] none) []] none [] none) [] none none)

example : wellScoped env0 stmtGood = true := by decide +kernel
example : (resolve env0 stmtGood).toOption = some [⟨"id", "int8"⟩] := by decide +kernel
example : wellScoped env0 stmtBad = false := by decide +kernel
example : (match resolve env0 stmtBad with | .error (.unbound "s1") => true | _ => false) = true := by decide +kernel
example : (match resolve { env0 with params := [] } stmtGood with | .error (.missingParam "pi0") => true | _ => false) = true := by
  decide +kernel

end Dawgs.C03.Props
