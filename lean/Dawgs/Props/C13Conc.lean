/-
C13, concurrent part at the level of the SET spec — property statements. The lock-level LTS and its invariants are in
Model/C13Lts + Proofs/C13Lts (several wrappers, wrapper operands, snapshot-then-lock), the generic one-lock reduction in
Model/RWLock + Proofs/RWLock (shared with C16). Here both are instantiated with the Duplex interface: data = the ideal
set, every method = its `Spec.next`/`Spec.answer`.

Atomicity of `a.Op(b)` when `b` is itself a wrapper (stated and proved below, `operand_snapshot_semantics`):
`a.Op(b)` is NOT one atomic action on the pair (a, b). It is two atomic actions,
  1. a READ of `b` (its linearization point on `b`): the snapshot is `b`'s content after a prefix of `b`'s own linearised
     history — never a state in the middle of a call on `b`; every call on `b` that was linearised before the read is
     in it, none after;
  2. later, the UPDATE of `a` with that snapshot (its linearization point on `a`): `a := Op(a, snapshot)`, atomically
     with respect to every other call on `a`.
Calls on `b` linearised between 1 and 2 are not seen (`or_not_jointly_atomic` exhibits such a run). With a plain
(non-wrapper) operand nothing synchronises the operand: it must not be written concurrently (assumed constant here).
-/
import Dawgs.Props.C13
import Dawgs.Proofs.RWLock
set_option linter.unusedSimpArgs false
set_option linter.unusedVariables false
namespace Dawgs.C13.ConcProps
open Dawgs.C13 Dawgs.C13.Spec Dawgs.C13.Lts Dawgs.C13.Props

/-! ### the Duplex interface as programs of the lock LTS -/

/-- a call of the `Duplex` interface; `bin`: the operand is a plain bitmap (a constant set for the LTS), `binW`: the
operand is the wrapper with mutex `o` (possibly the receiver itself) -/
inductive SetMethod where
  | add (vs : List Nat)
  | remove (v : Nat)
  | clear
  | checkedAdd (v : Nat)
  | contains (v : Nat)
  | card
  | slice
  | each (k : Nat)
  | clone
  | bin (op : BinOp) (operand : S)
  | binW (op : BinOp) (o : Nat)

def SetMethod.name : SetMethod → String
  | .add _ => "Add" | .remove _ => "Remove" | .clear => "Clear" | .checkedAdd _ => "CheckedAdd"
  | .contains _ => "Contains" | .card => "Cardinality" | .slice => "Slice" | .each _ => "Each" | .clone => "Clone"
  | .bin op _ => Facts.opMethod op | .binW op _ => Facts.opMethod op

def SetMethod.operand : SetMethod → Option Nat
  | .binW _ o => some o
  | _ => none

/-- the spec operation a call performs, given the operand snapshot it took -/
def SetMethod.specOp (snap : S) : SetMethod → Spec.Op
  | .add vs => .add vs | .remove v => .remove v | .clear => .clear | .checkedAdd v => .checkedAdd v
  | .contains v => .contains v | .card => .card | .slice => .slice | .each k => .each k | .clone => .clone
  | .bin op o => .bin op o | .binW op _ => .bin op snap

structure SetCall where
  recv : Nat
  m : SetMethod

def SetCall.toItem (sc : SetCall) : Item S Spec.Out :=
  { wrapper := "threadSafeDuplex", name := sc.m.name, recv := sc.recv, operand := sc.m.operand,
    f := fun d snap => (Spec.next d (sc.m.specOp snap), Spec.answer d (sc.m.specOp snap)) }

theorem SetCall.wellFormed (sc : SetCall) : sc.toItem.WellFormed := by
  refine ⟨Or.inl rfl, ?_, ?_⟩
  · show sc.m.name ∈ Facts.methodsOf "threadSafeDuplex"
    cases sc.m with
    | bin op _ => cases op <;> simp only [SetMethod.name, Facts.opMethod] <;> decide
    | binW op _ => cases op <;> simp only [SetMethod.name, Facts.opMethod] <;> decide
    | _ => simp only [SetMethod.name] <;> decide
  · intro h
    show sc.m.name ∈ Facts.operandMethodsOf "threadSafeDuplex"
    cases hm : sc.m with
    | binW op _ => cases op <;> simp only [SetMethod.name, Facts.opMethod] <;> decide
    | _ => simp [SetCall.toItem, SetMethod.operand, hm] at h

def SetMethod.isBin : SetMethod → Bool
  | .bin _ _ => true
  | .binW _ _ => true
  | _ => false

/-- the LTS call of a `SetCall` with the table lookups evaluated (what lock.go does for every method today) -/
def SetCall.call (sc : SetCall) : Call S Spec.Out :=
  { recv := sc.recv, operand := sc.m.operand, cbs := 1, locked := true, opLocked := true, snapshot := sc.m.isBin,
    f := fun d snap => (Spec.next d (sc.m.specOp snap), Spec.answer d (sc.m.specOp snap)) }

theorem tableCall_setCall (sc : SetCall) : tableCall sc.toItem = sc.call := by
  have hsnap : Facts.snapshotLocks Generated.C13.snapshotCases = true := by decide
  have hl : ∀ n ∈ Facts.duplexMethods, Facts.lockedIn Generated.C13.wrapperMethods n "threadSafeDuplex" = true := by decide
  have hs : ∀ n ∈ Facts.duplexMethods, Facts.snapshotsIn Generated.C13.wrapperMethods n "threadSafeDuplex" =
      Facts.binaryMethods.contains n := by decide
  have hmem : sc.m.name ∈ Facts.duplexMethods := sc.wellFormed.2.1
  have hb : Facts.binaryMethods.contains sc.m.name = sc.m.isBin := by
    cases sc.m with
    | bin op _ => cases op <;> simp only [SetMethod.name, Facts.opMethod, SetMethod.isBin] <;> decide
    | binW op _ => cases op <;> simp only [SetMethod.name, Facts.opMethod, SetMethod.isBin] <;> decide
    | _ => simp only [SetMethod.name, SetMethod.isBin] <;> decide
  simp only [tableCall, SetCall.toItem, SetCall.call, hsnap, hl _ hmem, hs _ hmem, hb]

def setProgs (progs : Nat → List SetCall) : Nat → List (Item S Spec.Out) := fun t => (progs t).map SetCall.toItem

theorem setProgs_call (progs : Nat → List SetCall) :
    (fun t => (setProgs progs t).map (tableCall (D := S) (R := Spec.Out))) = fun t => (progs t).map SetCall.call := by
  funext t
  simp only [setProgs, List.map_map]
  exact List.map_congr_left (fun sc _ => tableCall_setCall sc)

/-- a linearised history of one wrapper read as a run of the set spec: every call is the spec operation its caller
invoked (with the operand snapshot it took), applied to the ideal set at that point, and returned the spec's answer;
`tr` collects the spec operations and answers -/
inductive SpecLin (P : SetCall → Prop) : S → List (Entry S Spec.Out) → List (Spec.Op × Spec.Out) → S → Prop where
  | nil (d : S) : SpecLin P d [] [] d
  | cons (d : S) (e : Entry S Spec.Out) (es) (tr) (dEnd : S) (sc : SetCall) :
      P sc → e.call = tableCall sc.toItem → e.r = Spec.answer d (sc.m.specOp e.op) →
      SpecLin P (Spec.next d (sc.m.specOp e.op)) es tr dEnd →
      SpecLin P d (e :: es) ((sc.m.specOp e.op, e.r) :: tr) dEnd

theorem specLin_of_lin {P : SetCall → Prop} : ∀ {d : S} {l : List (Entry S Spec.Out)} {dEnd : S},
    Lin d l dEnd → (∀ e ∈ l, ∃ sc, P sc ∧ e.call = tableCall sc.toItem) → ∃ tr, SpecLin P d l tr dEnd
  | d, [], dEnd, h, _ => by simp only [Lin] at h; subst h; exact ⟨[], SpecLin.nil d⟩
  | d, e :: es, dEnd, h, hp => by
    obtain ⟨sc, hsc, hcall⟩ := hp e List.mem_cons_self
    have hf : e.call.f d e.op = (Spec.next d (sc.m.specOp e.op), Spec.answer d (sc.m.specOp e.op)) := by rw [hcall]; rfl
    have h : e.r = (e.call.f d e.op).2 ∧ Lin (e.call.f d e.op).1 es dEnd := h
    rw [hf] at h
    obtain ⟨tr, htr⟩ := specLin_of_lin h.2 (fun e' he' => hp e' (List.mem_cons_of_mem _ he'))
    exact ⟨_, SpecLin.cons d e es tr dEnd sc hsc hcall h.1 htr⟩

theorem specLin_valid {P : SetCall → Prop} {d : S} {l : List (Entry S Spec.Out)} {tr} {dEnd : S}
    (h : SpecLin P d l tr dEnd) : Spec.validTrace d tr := by
  induction h with
  | nil d => trivial
  | cons d e es tr dEnd sc _ _ hr _ ih => exact ⟨hr, ih⟩

theorem specLin_ops {P : SetCall → Prop} {d : S} {l : List (Entry S Spec.Out)} {tr} {dEnd : S}
    (h : SpecLin P d l tr dEnd) :
    ∀ p ∈ tr, ∃ e ∈ l, ∃ sc, P sc ∧ e.call = tableCall sc.toItem ∧ p.1 = sc.m.specOp e.op := by
  induction h with
  | nil d => intro p hp; cases hp
  | cons d e es tr dEnd sc hsc hcall _ _ ih =>
    intro p hp
    rcases List.mem_cons.1 hp with rfl | hp
    · exact ⟨e, List.mem_cons_self, sc, hsc, hcall, rfl⟩
    · obtain ⟨e', he', r⟩ := ih p hp
      exact ⟨e', List.mem_cons_of_mem _ he', r⟩

/-- every linearised call is a call of its thread's program -/
theorem entry_call_mem {D R : Type} {progs : Nat → List (Call D R)} {s : State D R}
    (horder : ∀ t, (mine t s.log).map (·.call) ++ pending s t = progs t) {e : Entry D R} (he : e ∈ s.log) :
    e.call ∈ progs e.tid := by
  rw [← horder e.tid]
  apply List.mem_append_left
  exact List.mem_map.2 ⟨e, by simp [mine, he], rfl⟩

/-- **Linearizability to the set spec.** Any number of threads calling the Duplex interface on any number of
thread-safe wrappers, operands plain bitmaps or wrappers (also the receiver itself), every interleaving: for every
wrapper `m` its linearised history is a run of the set spec from its initial content — each call is the spec
operation that was invoked, with the operand snapshot it took, and returned exactly the spec's answer — ending in
`m`'s current content. -/
theorem wrapper_linearizable_sets (d0 : Nat → S) (progs : Nat → List SetCall)
    (s : State S Spec.Out) (hr : Reach (init d0 [] (fun t => (setProgs progs t).map tableCall)) s) (m : Nat) :
    ∃ tr, SpecLin (fun sc => ∃ t, sc ∈ progs t) (d0 m) (onRecv m s.log) tr (s.data m) := by
  have hwf : ∀ t, ∀ it ∈ setProgs progs t, it.WellFormed := by
    intro t it hit
    obtain ⟨sc, _, rfl⟩ := List.mem_map.1 hit
    exact sc.wellFormed
  have h := wrapper_linearizable d0 [] (setProgs progs) hwf s hr
  refine specLin_of_lin (h.1 m) ?_
  intro e he
  have he' : e ∈ s.log := (List.mem_filter.1 he).1
  have := entry_call_mem h.2.1 he'
  obtain ⟨it, hit, hcall⟩ := List.mem_map.1 this
  obtain ⟨sc, hsc, rfl⟩ := List.mem_map.1 hit
  exact ⟨sc, ⟨e.tid, hsc⟩, hcall.symm⟩

/-- **CheckedAdd is atomic.** If the calls made on wrapper `m` never remove (Add, CheckedAdd, Or, reads), then under
every interleaving at most one `CheckedAdd(v)` on `m` answers `true`, for every `v` — none if `v` was there from the
start; and if only `CheckedAdd`s and reads are made on `m`, `v` is new and some `CheckedAdd(v)` has been linearised,
exactly one answered `true`. -/
theorem checkedAdd_atomic (d0 : Nat → S) (progs : Nat → List SetCall)
    (s : State S Spec.Out) (hr : Reach (init d0 [] (fun t => (setProgs progs t).map tableCall)) s) (m v : Nat) :
    ∃ tr, SpecLin (fun sc => ∃ t, sc ∈ progs t) (d0 m) (onRecv m s.log) tr (s.data m) ∧
      ((∀ t, ∀ sc ∈ progs t, sc.recv = m → ∀ snap, Spec.Grows (sc.m.specOp snap)) →
        (tr.filter (Spec.isCaddTrue v)).length ≤ 1 ∧ (v ∈ d0 m → (tr.filter (Spec.isCaddTrue v)).length = 0)) ∧
      ((∀ t, ∀ sc ∈ progs t, sc.recv = m → ∀ snap, Spec.CaddOrRead (sc.m.specOp snap)) → v ∉ d0 m →
        (∃ r, (Spec.Op.checkedAdd v, r) ∈ tr) → (tr.filter (Spec.isCaddTrue v)).length = 1) := by
  obtain ⟨tr, htr⟩ := wrapper_linearizable_sets d0 progs s hr m
  have hval := specLin_valid htr
  have hops : ∀ (Q : Spec.Op → Prop), (∀ t, ∀ sc ∈ progs t, sc.recv = m → ∀ snap, Q (sc.m.specOp snap)) →
      ∀ p ∈ tr, Q p.1 := by
    intro Q hq p hp
    obtain ⟨e, he, sc, ⟨t, hsc⟩, hcall, hop⟩ := specLin_ops htr p hp
    have hrecv : sc.recv = m := by
      have h1 : (e.call.recv == m) = true := (List.mem_filter.1 he).2
      have h2 : e.call.recv = sc.recv := by rw [hcall]; rfl
      rw [← h2]; simpa using h1
    rw [hop]; exact hq t sc hsc hrecv _
  refine ⟨tr, htr, ?_, ?_⟩
  · intro hg
    have hg' := hops Spec.Grows hg
    exact ⟨Spec.cadd_count_le_one hg' hval, fun hv => Spec.cadd_count_of_mem hv hg' hval⟩
  · intro hc hv hex
    exact Spec.cadd_count_eq_one hv (hops Spec.CaddOrRead hc) hval hex

/-- **Snapshot semantics of a wrapper operand** (what atomicity `a.Op(b)` has with respect to concurrent writers of
`b`): in every reachable state, for every linearised call `e` whose operand is the wrapper `o`, the operand value it
used is `o`'s content after exactly the first `e.opAt` calls of `o`'s own linearised history, all of which were
linearised before `e` — a consistent prefix, never a state inside a call on `o`. -/
theorem operand_snapshot_semantics (d0 : Nat → S) (progs : Nat → List SetCall)
    (s : State S Spec.Out) (hr : Reach (init d0 [] (fun t => (setProgs progs t).map tableCall)) s) :
    SnapOk d0 s.log := by
  have hgood : ∀ t, ∀ c ∈ (setProgs progs t).map (tableCall (D := S) (R := Spec.Out)), Good c := by
    intro t c hc
    obtain ⟨it, hit, rfl⟩ := List.mem_map.1 hc
    obtain ⟨sc, _, rfl⟩ := List.mem_map.1 hit
    exact tableCall_good _ sc.wellFormed
  exact (linInv_reach hgood hr).esnap

/-- `a.Or(b)` is not one atomic action on the pair: thread 0 runs `a.Or(b)` (a = wrapper 0, b = wrapper 1), thread 1 adds
7 to `b` between thread 0's snapshot and its update — after both calls are complete `b = {7}` and `a = ∅`, which no
sequential order of the two calls produces (`b.Add(7); a.Or(b)` gives a = {7}). It is the run "read b; b.Add(7);
a := a ∪ ∅". -/
def raceProgs : Nat → List SetCall
  | 0 => [⟨0, .binW .or 1⟩]
  | 1 => [⟨1, .add [7]⟩]
  | _ => []

theorem or_not_jointly_atomic :
    ∃ sched, (runSched (init (fun _ => []) [] (fun t => (setProgs raceProgs t).map tableCall)) sched).map
      (fun s => (s.data 0, s.data 1, (s.th 0).todo.length, (s.th 1).todo.length, s.log.map (·.tid))) =
        some ([], [7], 0, 0, [1, 0]) := by
  refine ⟨[0, 0, 1, 1, 1, 1, 0, 0, 0, 0], ?_⟩
  have h := setProgs_call raceProgs
  rw [h]
  decide +kernel

/-! ### delegates of `Each` that call another provider; `Clone` yields a fresh lock -/

/-- a call `x.Each(func(v){ y.M(v) })` whose delegate makes `k` calls on the wrapper with mutex `y`, as a call of the lock
LTS: the receiver's lock is held, each nested call takes and releases `y`'s (`snapshot = false`) -/
def eachNested (x y k : Nat) : Call Unit Unit :=
  { recv := x, operand := some y, cbs := k, locked := true, opLocked := true, snapshot := false, f := fun _ _ => ((), ()) }

/-- **The guard for delegates.** Programs mixing ordinary calls (live protocol) with `Each` calls whose delegate calls
ANOTHER wrapper (`y ≠ x`) never deadlock, under every interleaving, provided either a single thread makes them (in any
direction: clone → original, original → clone, operand, unrelated wrapper) or all nested calls go up one fixed order
of the wrappers (`x < y`). -/
theorem each_delegate_other_wrapper {D R : Type} (n : Nat) (d0 : Nat → D) (dflt : D) (progs : Nat → List (Call D R))
    (hidle : ∀ t, n ≤ t → progs t = [])
    (hok : ∀ t, ∀ c ∈ progs t, (c.operand ≠ none → c.snapshot = true) ∨ (c.snapshot = false ∧ ∃ o, c.operand = some o ∧ o ≠ c.recv))
    (hguard : n ≤ 1 ∨ ∀ t, ∀ c ∈ progs t, ∀ o, c.snapshot = false → c.operand = some o → c.recv < o)
    (s : State D R) (hr : Reach (init d0 dflt progs) s) : deadlocked n s = false := by
  have inv : NInv n s := nInv_reach (fun t c hc => ⟨hok t c hc, fun o h1 h2 => by
    rcases hguard with h | h
    · exact Or.inr h
    · exact Or.inl (h t c hc o h1 h2)⟩) hidle hr
  match n, inv, hidle with
  | 0, _, _ => rfl
  | 1, inv, _ => exact not_deadlocked_single inv
  | n + 2, inv, _ => exact not_deadlocked_ordered inv (by omega)

/-- … and the guard is needed: a delegate that calls the wrapper it is iterating (`x.Each(func(v){ x.M(v) })`) blocks
forever in every schedule — the documented self-deadlock of a non-reentrant mutex — and two threads nesting in opposite
directions (`x.Each → y`, `y.Each → x`) can reach a deadlocked state. -/
theorem each_self_deadlocks :
    (∀ s, Reach (unitInit (fun t => if t = 0 then [eachNested 0 0 1] else [])) s → (s.th 0).todo ≠ []) ∧
    (∃ s, Reach (unitInit (fun t => if t = 0 then [eachNested 0 1 1] else if t = 1 then [eachNested 1 0 1] else [])) s ∧
      deadlocked 2 s = true) := by
  constructor
  · have h := wrapper_deadlock_free_old_refuted_self.2
    have e : (fun t => if t = 0 then [eachNested 0 0 1] else []) = selfProgs false := by
      funext t; cases t <;> rfl
    rw [e]; exact h
  · obtain ⟨s, hr, hd, _⟩ := wrapper_deadlock_free_old_refuted_abba
    have e : (fun t => if t = 0 then [eachNested 0 1 1] else if t = 1 then [eachNested 1 0 1] else []) = abbaProgs false 1 1 := by
      funext t
      match t with
      | 0 => rfl
      | 1 => rfl
      | t + 2 => rfl
    rw [e]; exact ⟨s, hr, hd⟩

/-- **Clone yields a fresh lock** (the "independent copy" clause): in the model every provider owns its mutex, and a
clone's is free — so a delegate of `Each` on the clone that calls the original, and a delegate of `Each` on the
original that calls the clone, always return, with the contents the set spec prescribes. -/
theorem clone_fresh_lock (x q : Prov) (h : x.clone = some q) (k : Nat) (m : NestedM) :
    (eachCall q x k m).isSome = true ∧ (eachCall x q k m).isSome = true ∧
    (eachCall q x k m).map (·.set) = some (((if k = 0 then q.set else eachPrefix q.set k)).foldl (nestedApply m) x.set) := by
  obtain ⟨_, _, _, hq, hx⟩ := clone_independent x q h
  simp [eachCall, hq, hx]

/-! ### the one-lock reduction of Proofs/RWLock (shared with C16), instantiated -/

/-- one thread-safe duplex wrapper whose callers pass plain operands, as an object of the generic lock LTS: a
`sync.Mutex` is an RW lock without readers — every method is a writer whose body is the spec operation -/
def duplexObj : RW.Obj :=
  { σ := S, W := Spec.Op, R := Empty, Res := Spec.Out, Eff := Empty,
    wstep := fun s op => (Spec.next s op, Spec.answer s op),
    rread := fun _ x => x.elim, app := fun _ e => e.elim }

/-- the simplex wrapper (`Add`, `Or`, `Clear`, `Cardinality`, `Clone` around any estimator with state `σ`) -/
def simplexObj (σ W Res : Type) (step : σ → W → σ × Res) : RW.Obj :=
  { σ := σ, W := W, R := Empty, Res := Res, Eff := Empty, wstep := step, rread := fun _ x => x.elim, app := fun _ e => e.elim }

theorem lawful_noReaders (o : RW.Obj) (h : o.Eff → False) : RW.Lawful o :=
  ⟨fun _ e _ => (h e).elim, fun _ e _ => (h e).elim⟩

def duplexInit (d : S) (progs : List (List (RW.Op duplexObj))) : RW.St duplexObj :=
  { s := d, ths := progs.map (fun p => ⟨p, .idle⟩), lin := [], linRes := [] }

/-- **Every concurrent history of one wrapper is linearizable to the set spec** (generic reduction theorem
`Dawgs.RW.linearizable`): the wrapper's content is the sequential run of the spec over the operations in the order of
their linearization points and every caller got the sequential answer; and **no deadlock** (`Dawgs.RW.progress`):
whenever a thread is inside a method or has calls left, some step is enabled. -/
theorem wrapper_mutex_reduction (d : S) (progs : List (List (RW.Op duplexObj))) (st : RW.St duplexObj)
    (h : RW.Reach duplexObj (duplexInit d progs) st) :
    st.s = (duplexObj.seqRun d st.lin).1 ∧ st.linRes = (duplexObj.seqRun d st.lin).2 ∧
    ((∃ (t : Nat) (th : RW.Thread duplexObj), st.ths[t]? = some th ∧ (th.loc.isIdle = false ∨ th.prog ≠ [])) →
      ∃ st', RW.Step duplexObj st st') := by
  have hidle : RW.allIdle duplexObj (duplexInit d progs).ths = true := by simp [duplexInit, RW.allIdle, RW.Local.isIdle]
  have hr := RW.linearizable (lawful_noReaders duplexObj (fun e => Empty.elim e)) h hidle rfl rfl
  have hx0 : RW.Excl (duplexInit d progs).ths := by
    intro t th ht hw
    have := (List.all_eq_true.1 hidle) th (List.mem_of_getElem? ht)
    cases hl : th.loc <;> simp_all [RW.Local.isWriter, RW.Local.isIdle]
  have hpend : RW.pending duplexObj st.ths = [] := by
    unfold RW.pending; rw [List.flatMap_eq_nil_iff]
    intro th _
    cases hl : th.loc with
    | rHold res pend => cases pend with
      | nil => rfl
      | cons e _ => exact e.elim
    | _ => rfl
  unfold RW.Refines RW.St.abs at hr
  rw [hpend] at hr
  exact ⟨hr.1, hr.2, fun hw => RW.progress (RW.excl_reach h hx0) hw⟩

/-- the same for the simplex wrapper, whatever estimator it wraps -/
theorem simplex_mutex_reduction {σ W Res : Type} (step : σ → W → σ × Res) (d : σ)
    (progs : List (List (RW.Op (simplexObj σ W Res step)))) (st : RW.St (simplexObj σ W Res step))
    (h : RW.Reach _ { s := d, ths := progs.map (fun p => ⟨p, .idle⟩), lin := [], linRes := [] } st) :
    RW.Refines { s := d, ths := progs.map (fun p => ⟨p, .idle⟩), lin := [], linRes := [] } st ∧
    ((∃ (t : Nat) (th : RW.Thread (simplexObj σ W Res step)), st.ths[t]? = some th ∧ (th.loc.isIdle = false ∨ th.prog ≠ [])) →
      ∃ st', RW.Step _ st st') := by
  have hidle : RW.allIdle (simplexObj σ W Res step) (progs.map (fun p => (⟨p, .idle⟩ : RW.Thread _))) = true := by
    simp [RW.allIdle, RW.Local.isIdle]
  have hx0 : RW.Excl (progs.map (fun p => (⟨p, .idle⟩ : RW.Thread (simplexObj σ W Res step)))) := by
    intro t th ht hw
    have := (List.all_eq_true.1 hidle) th (List.mem_of_getElem? ht)
    cases hl : th.loc <;> simp_all [RW.Local.isWriter, RW.Local.isIdle]
  exact ⟨RW.linearizable (lawful_noReaders (simplexObj σ W Res step) (fun e => Empty.elim e)) h hidle rfl rfl,
    fun hw => RW.progress (RW.excl_reach h hx0) hw⟩

/-! ### non-vacuity -/

-- two threads call CheckedAdd(5) on one wrapper: only the first to be linearised (here thread 1) sees `true`
example :
    let progs : Nat → List SetCall := fun t => if t < 2 then [⟨0, .checkedAdd 5⟩] else []
    (runSched (init (fun _ => []) [] (fun t => (progs t).map SetCall.call)) [1, 1, 1, 1, 0, 0, 0, 0]).map
      (fun s => (s.data 0, (s.th 0).res, (s.th 1).res)) = some ([5], [Spec.Out.bool false], [Spec.Out.bool true]) := by
  decide +kernel
-- x.Xor(x) on a wrapper: snapshot, then the body — returns, and is the empty set
example :
    let progs : Nat → List SetCall := fun t => if t = 0 then [⟨0, .binW .xor 0⟩] else []
    (runSched (init (fun _ => [1, 2]) [] (fun t => (progs t).map SetCall.call)) [0, 0, 0, 0, 0, 0]).map
      (fun s => (s.data 0, (s.th 0).todo.length)) = some ([], 0) := by
  decide +kernel

end Dawgs.C13.ConcProps
