/-
C16, concurrent part — property statements. Lemmas: Proofs/RWLock.lean (generic reduction) and
Proofs/C16.lean (sequential refinement).
-/
import Dawgs.Proofs.RWLock
import Dawgs.Proofs.C16
import Dawgs.Model.C16Conc
namespace Dawgs.C16.ConcProps
open Dawgs.C16 Dawgs.C16.Conc Dawgs.RW

theorem setVisited_comm (q : List Ent) (a b : Nat) :
    setVisited (setVisited q a true) b true = setVisited (setVisited q b true) a true := by
  induction q with
  | nil => rfl
  | cons e q ih =>
    rw [setVisited_cons, setVisited_cons, setVisited_cons, setVisited_cons, ih]
    congr 1
    by_cases ha : e.key = a <;> by_cases hb : e.key = b
    · subst ha; subst hb; simp
    · subst ha; simp [hb]
    · subst hb; simp [ha]
    · simp [ha, hb]

theorem lookupVal_eq_valOf (q k) : lookupVal q k = valOf q k := rfl

/-- the SIEVE cache satisfies the laws of the RW reduction: its read effects commute and do not change
what any lookup returns -/
theorem sieve_lawful : Lawful sieveObj := by
  constructor
  · intro s e1 e2
    cases e1 <;> cases e2 <;> simp only [sieveObj] <;> try rfl
    · congr 1; exact setVisited_comm _ _ _
  · intro s e k
    cases e with
    | hit => rfl
    | miss => rfl
    | vis k' =>
      show (match lookupVal (setVisited s.queue k' true) k with
        | some v => (Out.hit v, [Eff.hit, Eff.vis k])
        | none => (Out.miss, [Eff.miss])) = _
      rw [lookupVal_eq_valOf, valOf_setVisited]; rfl

theorem nemap_lawful : Lawful nemapObj := by
  constructor
  · intro s e1 e2; cases e1 <;> cases e2 <;> rfl
  · intro s e k; cases e <;> rfl

/-- the LTS' atomic semantics of an operation is the sequential model's `step` -/
theorem sieve_seqStep (s : Sieve) (op : RW.Op sieveObj) : sieveObj.seqStep s op = s.step (toOp op) := by
  cases op with
  | w x => cases x <;> rfl
  | r k =>
    show (sieveObj.appAll s (sieveObj.rread s k).2, (sieveObj.rread s k).1) = ((s.get k).1, outOf (s.get k).2)
    unfold Sieve.get
    simp only [sieveObj, lookupVal]
    cases hf : find s.queue k <;> simp [Obj.appAll, outOf]

theorem nemap_seqStep (s : NeMap) (op : RW.Op nemapObj) : nemapObj.seqStep s op = s.step (toOpN op) := by
  cases op with
  | w x => cases x <;> rfl
  | r k =>
    show (nemapObj.appAll s (nemapObj.rread s k).2, (nemapObj.rread s k).1) = ((s.get k).1, outOf (s.get k).2)
    unfold NeMap.get
    simp only [nemapObj]
    cases hf : s.lookup k <;> simp [Obj.appAll, outOf]

theorem sieve_seqRun (s : Sieve) (ops : List (RW.Op sieveObj)) :
    (sieveObj.seqRun s ops).1 = s.run (ops.map toOp) ∧
    (ops.map toOp).zip (sieveObj.seqRun s ops).2 = s.trace (ops.map toOp) := by
  induction ops generalizing s with
  | nil => exact ⟨rfl, rfl⟩
  | cons op ops ih =>
    have h := sieve_seqStep s op
    simp only [Obj.seqRun, List.map_cons, Sieve.run, List.foldl_cons, Sieve.trace, List.zip_cons_cons]
    rw [h]
    exact ⟨(ih _).1, by rw [(ih _).2]⟩

theorem nemap_seqRun (s : NeMap) (ops : List (RW.Op nemapObj)) :
    (nemapObj.seqRun s ops).1 = s.run (ops.map toOpN) ∧
    (ops.map toOpN).zip (nemapObj.seqRun s ops).2 = s.trace (ops.map toOpN) := by
  induction ops generalizing s with
  | nil => exact ⟨rfl, rfl⟩
  | cons op ops ih =>
    have h := nemap_seqStep s op
    simp only [Obj.seqRun, List.map_cons, NeMap.run, List.foldl_cons, NeMap.trace, List.zip_cons_cons]
    rw [h]
    exact ⟨(ih _).1, by rw [(ih _).2]⟩

/-- initial concurrent state: a fresh cache and any number of threads with arbitrary programs -/
def sieveInit (c : Int) (progs : List (List (RW.Op sieveObj))) : St sieveObj :=
  { s := Sieve.new c, ths := progs.map (fun p => ⟨p, .idle⟩), lin := [], linRes := [] }
def nemapInit (c : Int) (progs : List (List (RW.Op nemapObj))) : St nemapObj :=
  { s := NeMap.new c, ths := progs.map (fun p => ⟨p, .idle⟩), lin := [], linRes := [] }

theorem init_idle {o : Obj} (progs : List (List (RW.Op o))) :
    allIdle o (progs.map (fun p => (⟨p, .idle⟩ : Thread o))) = true := by
  simp [allIdle, Local.isIdle]

/-- **SIEVE is linearizable up to eviction, for every number of threads, every program and every
interleaving**: in every reachable state the operations, taken in the order of their linearization
points, form a history that the ideal-map monitor accepts with exactly the results the callers got, and
the state (once readers inside have finished) satisfies the capacity/uniqueness/size invariant. -/
theorem sieve_linearizable (c : Int) (progs : List (List (RW.Op sieveObj))) (st : St sieveObj)
    (h : Reach sieveObj (sieveInit c progs) st) :
    acceptsTrace [] ((st.lin.map toOp).zip st.linRes) = true ∧ st.abs.Inv ∧
    st.abs = (Sieve.new c).run (st.lin.map toOp) := by
  have hr := linearizable sieve_lawful h (init_idle progs) rfl rfl
  have hs := sieve_seqRun (Sieve.new c) st.lin
  unfold Refines at hr
  simp only [sieveInit] at hr
  refine ⟨?_, ?_, ?_⟩
  · rw [hr.2, hs.2]; exact Sieve.trace_accepted (Sieve.inv_new c) (Sieve.sub_new c) _
  · rw [hr.1, hs.1]; exact Sieve.run_inv (Sieve.inv_new c) _
  · rw [hr.1, hs.1]

theorem nemap_linearizable (c : Int) (progs : List (List (RW.Op nemapObj))) (st : St nemapObj)
    (h : Reach nemapObj (nemapInit c progs) st) :
    acceptsTrace [] ((st.lin.map toOpN).zip st.linRes) = true ∧ st.abs.Inv ∧
    st.abs = (NeMap.new c).run (st.lin.map toOpN) := by
  have hr := linearizable nemap_lawful h (init_idle progs) rfl rfl
  have hs := nemap_seqRun (NeMap.new c) st.lin
  unfold Refines at hr
  simp only [nemapInit] at hr
  refine ⟨?_, ?_, ?_⟩
  · rw [hr.2, hs.2]; exact NeMap.trace_accepted (NeMap.sub_new c) _
  · rw [hr.1, hs.1]; exact NeMap.run_inv (NeMap.inv_new c) _
  · rw [hr.1, hs.1]

/-- **No deadlock** under the lock discipline: whenever some thread is inside an operation or has
operations left, some step is enabled — in every reachable state, for both caches. -/
theorem sieve_deadlock_free (c : Int) (progs : List (List (RW.Op sieveObj))) (st : St sieveObj)
    (h : Reach sieveObj (sieveInit c progs) st)
    (hwork : ∃ (t : Nat) (th : Thread sieveObj), st.ths[t]? = some th ∧ (th.loc.isIdle = false ∨ th.prog ≠ [])) :
    ∃ st', Step sieveObj st st' := by
  refine progress (excl_reach h ?_) hwork
  intro t th ht hw
  have := (List.all_eq_true.1 (init_idle progs)) th (List.mem_of_getElem? ht)
  cases hl : th.loc <;> simp_all [Local.isWriter, Local.isIdle]

theorem nemap_deadlock_free (c : Int) (progs : List (List (RW.Op nemapObj))) (st : St nemapObj)
    (h : Reach nemapObj (nemapInit c progs) st)
    (hwork : ∃ (t : Nat) (th : Thread nemapObj), st.ths[t]? = some th ∧ (th.loc.isIdle = false ∨ th.prog ≠ [])) :
    ∃ st', Step nemapObj st st' := by
  refine progress (excl_reach h ?_) hwork
  intro t th ht hw
  have := (List.all_eq_true.1 (init_idle progs)) th (List.mem_of_getElem? ht)
  cases hl : th.loc <;> simp_all [Local.isWriter, Local.isIdle]

/-! Non-vacuity: two readers inside at once (their effects interleaved) after a writer; the state is reachable. -/
def wPut (k v : Nat) : RW.Op sieveObj := RW.Op.w (WOp.put k v)
def rGet (k : Nat) : RW.Op sieveObj := RW.Op.r (k : Nat)
example : ∃ st, Reach sieveObj (sieveInit 2 [[wPut 1 10, rGet 1], [rGet 1]]) st ∧
    st.linRes = [Out.unit, Out.hit 10, Out.hit 10] ∧
    st.ths.map (fun th => th.loc.pend.length) = [2, 1] := by
  let s0 := sieveInit 2 [[wPut 1 10, rGet 1], [rGet 1]]
  have r1 := Reach.step Reach.refl (Step.acqW s0 0 (WOp.put 1 10) [rGet 1] rfl rfl)
  have r2 := Reach.step r1 (Step.runW _ 0 (WOp.put 1 10) [rGet 1] rfl)
  have r3 := Reach.step r2 (Step.relW _ 0 _ [rGet 1] rfl)
  have r4 := Reach.step r3 (Step.acqR _ 0 (1 : Nat) [] rfl rfl)
  have r5 := Reach.step r4 (Step.acqR _ 1 (1 : Nat) [] rfl rfl)
  have r6 := Reach.step r5 (Step.look _ 0 (1 : Nat) [] rfl)
  have r7 := Reach.step r6 (Step.look _ 1 (1 : Nat) [] rfl)
  have r8 := Reach.step r7 (Step.eff _ 1 _ _ _ [] rfl)
  exact ⟨_, r8, rfl, rfl⟩

end Dawgs.C16.ConcProps
