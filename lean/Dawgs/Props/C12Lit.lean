/-
C12, literals — decoding what the drivers render gives back what the tracking recorded.
Statements with their (short) proofs.

`deleted_properties_text_array_round_trip`: for ALL key strings, the text[] literal that quotes every key and escapes
exactly `"` and `\` decodes to exactly those keys — the emitter as it is in /repo since commit 6e07961.  The emitter before that commit
(`strconv.Quote`, kept as `emitGo`) round-trips exactly the keys made of printable runes (`go_quote_round_trip_plain`)
and mangles every other one (`go_quote_loses_control_characters`: a key with a newline comes back with the letter `n`).
The decoder model is tied to pgtype's parser, the real emitters are run on hostile keys (suite c12lit).
-/
import Dawgs.Model.C12Lit
namespace Dawgs.C12Lit

theorem run_append (st : PS) (a b : Str) : run st (a ++ b) = run (run st a) b := by
  unfold run; rw [List.foldl_append]

theorem run_cons (st : PS) (c : Nat) (s : Str) : run st (c :: s) = run (step st c) s := rfl
theorem run_nil (st : PS) : run st [] = st := rfl

/-- inside quotes, the escaped form of `k` reads as `k` -/
theorem run_escape (acc : List (Option Str)) (cur k : Str) :
    run (.quoted acc cur) (escape k) = .quoted acc (cur ++ k) := by
  induction k generalizing cur with
  | nil => simp [escape, run_nil]
  | cons c k ih =>
    have he : escape (c :: k) = escChar c ++ escape k := by simp [escape, List.flatMap_cons]
    rw [he, run_append]
    have h1 : run (.quoted acc cur) (escChar c) = .quoted acc (cur ++ [c]) := by
      unfold escChar
      by_cases hq : c = cQuote
      · subst hq; simp [run_cons, run_nil, step, cQuote, cBack]
      · by_cases hb : c = cBack
        · subst hb; simp [run_cons, run_nil, step, cQuote, cBack]
        · have : ¬ (c = cQuote ∨ c = cBack) := fun h => h.elim hq hb
          rw [if_neg this]
          simp [run_cons, run_nil, step, hq, hb]
    rw [h1, ih, List.append_assoc]; rfl

theorem run_quoteKey (acc : List (Option Str)) (k : Str) :
    run (.between acc) (quoteKey k) = .after (acc ++ [some k]) := by
  unfold quoteKey
  rw [List.cons_append, run_cons]
  have h0 : step (.between acc) cQuote = .quoted acc [] := by simp [step, cQuote, cClose]
  rw [h0, run_append, run_escape]
  simp [run_cons, run_nil, step, cQuote, cBack]

theorem joinElems_cons_cons (e e' : Str) (es : List Str) : joinElems (e :: e' :: es) = e ++ cComma :: joinElems (e' :: es) := rfl

/-- a non-empty list of quoted keys, read from "expecting an element", leaves the parser after the last closing quote -/
theorem run_join_quoted (acc : List (Option Str)) (k : Str) (ks : List Str) :
    run (.between acc) (joinElems ((k :: ks).map quoteKey)) = .after (acc ++ (k :: ks).map some) := by
  induction ks generalizing acc k with
  | nil => simp [joinElems, run_quoteKey]
  | cons k' ks ih =>
    rw [List.map_cons, List.map_cons, joinElems_cons_cons, run_append, run_quoteKey, run_cons]
    have : step (.after (acc ++ [some k])) cComma = .between (acc ++ [some k]) := by simp [step]
    rw [this, ← List.map_cons, ih]
    simp

/-- Round trip, for ALL key strings (any code points: backslashes, quotes, commas, braces, spaces, the word NULL, the
empty string, control characters, any Unicode): the literal that double-quotes every key and escapes exactly `"` and `\`
decodes to exactly the keys, in order, none of them NULL. -/
theorem deleted_properties_text_array_round_trip (ks : List Str) : decode (emit ks) = some (ks.map some) := by
  unfold decode emit
  rw [List.cons_append, run_cons]
  have h0 : step .start cOpen = .between [] := by simp [step]
  rw [h0, run_append]
  cases ks with
  | nil => simp [joinElems, run_nil, run_cons, step, cClose, cQuote]
  | cons k ks =>
    rw [run_join_quoted]
    simp [run_cons, run_nil, step, cClose, cComma]

/-! ### the emitter as it is: strconv.Quote -/

theorem run_goQuote_plain (isPrint : Nat → Bool) (acc : List (Option Str)) (cur k : Str)
    (hk : ∀ c, c ∈ k → plainGo isPrint c = true) :
    run (.quoted acc cur) (k.flatMap (goQuoteChar isPrint)) = .quoted acc (cur ++ k) := by
  induction k generalizing cur with
  | nil => simp [run_nil]
  | cons c k ih =>
    rw [List.flatMap_cons, run_append]
    have hc := hk c List.mem_cons_self
    have h1 : run (.quoted acc cur) (goQuoteChar isPrint c) = .quoted acc (cur ++ [c]) := by
      unfold goQuoteChar
      by_cases hq : c = cQuote
      · subst hq; simp [run_cons, run_nil, step, cQuote, cBack]
      · by_cases hb : c = cBack
        · subst hb; simp [run_cons, run_nil, step, cQuote, cBack]
        · have hqb : ¬ (c = cQuote ∨ c = cBack) := fun h => h.elim hq hb
          rw [if_neg hqb]
          unfold plainGo at hc
          simp only [Bool.or_eq_true, beq_iff_eq, Bool.and_eq_true, decide_eq_true_eq] at hc
          rcases hc with ((hc | hc) | hc) | hc
          · exact absurd hc hq
          · exact absurd hc hb
          · have a1 : ¬ c = 7 := by omega
            have a2 : ¬ c = 8 := by omega
            have a3 : ¬ c = 12 := by omega
            have a4 : ¬ c = 10 := by omega
            have a5 : ¬ c = 13 := by omega
            have a6 : ¬ c = 9 := by omega
            have a7 : ¬ c = 11 := by omega
            have a8 : ¬ (c < 32 ∨ c = 127) := by omega
            have a9 : c < 128 := by omega
            simp [a1, a2, a3, a4, a5, a6, a7, a8, a9, run_cons, run_nil, step, hq, hb]
          · have a1 : ¬ c = 7 := by omega
            have a2 : ¬ c = 8 := by omega
            have a3 : ¬ c = 12 := by omega
            have a4 : ¬ c = 10 := by omega
            have a5 : ¬ c = 13 := by omega
            have a6 : ¬ c = 9 := by omega
            have a7 : ¬ c = 11 := by omega
            have a8 : ¬ (c < 32 ∨ c = 127) := by omega
            have a9 : ¬ c < 128 := by omega
            simp [a1, a2, a3, a4, a5, a6, a7, a8, a9, hc.2, run_cons, run_nil, step, hq, hb]
    rw [h1, ih _ (fun x hx => hk x (List.mem_cons_of_mem _ hx)), List.append_assoc]; rfl

theorem run_goQuoteKey_plain (isPrint : Nat → Bool) (acc : List (Option Str)) (k : Str)
    (hk : ∀ c, c ∈ k → plainGo isPrint c = true) :
    run (.between acc) (goQuoteKey isPrint k) = .after (acc ++ [some k]) := by
  unfold goQuoteKey
  rw [List.cons_append, run_cons]
  have h0 : step (.between acc) cQuote = .quoted acc [] := by simp [step, cQuote, cClose]
  rw [h0, run_append, run_goQuote_plain isPrint acc [] k hk]
  simp [run_cons, run_nil, step, cQuote, cBack]

/-- The emitter before commit 6e07961 round-trips every key made of printable runes (incl. `"` and `\`). -/
theorem go_quote_round_trip_plain (isPrint : Nat → Bool) (k : Str) (hk : ∀ c, c ∈ k → plainGo isPrint c = true) :
    decode (emitGo isPrint [k]) = some [some k] := by
  unfold decode emitGo
  rw [List.cons_append, run_cons]
  have h0 : step .start cOpen = .between [] := by simp [step]
  rw [h0, run_append]
  simp only [List.map_cons, List.map_nil, joinElems]
  rw [run_goQuoteKey_plain isPrint [] k hk]
  simp [run_cons, run_nil, step, cClose, cComma]

/-- … and NOT the others: `strconv.Quote` writes Go escape sequences, and to the array syntax a backslash only makes the
next character literal. A deleted key `a<newline>b` is emitted as `"a\nb"` and read back as `anb`; a tab comes back as
`t`, U+0001 as `x01`.  The full statement "for all keys" was false of the code before commit 6e07961. -/
theorem go_quote_loses_control_characters (isPrint : Nat → Bool) :
    decode (emitGo isPrint [[97, 10, 98]]) = some [some [97, 110, 98]] ∧
    decode (emitGo isPrint [[9]]) = some [some [116]] ∧
    decode (emitGo isPrint [[1]]) = some [some [120, 48, 49]] ∧
    ¬ (∀ ks : List Str, decode (emitGo isPrint ks) = some (ks.map some)) := by
  have h1 : decode (emitGo isPrint [[97, 10, 98]]) = some [some [97, 110, 98]] := by rfl
  refine ⟨h1, by rfl, by rfl, fun h => ?_⟩
  have := h [[97, 10, 98]]
  rw [h1] at this
  exact absurd this (by decide)

/-- The manual quoting of the seeded change (escape `"` only) loses backslashes: `corp\svc` comes back as `corpsvc`. -/
example : decode (cOpen :: (cQuote :: [99, 92, 115] ++ [cQuote]) ++ [cClose]) = some [some [99, 115]] := by decide

/-! ### unquoted elements: int2[] of kind ids -/

theorem run_bare_tok (acc : List (Option Str)) (cur t : Str)
    (ht : ∀ c, c ∈ t → c ≠ cComma ∧ c ≠ cClose) : run (.bare acc cur) t = .bare acc (cur ++ t) := by
  induction t generalizing cur with
  | nil => simp [run_nil]
  | cons c t ih =>
    rw [run_cons]
    have hc := ht c List.mem_cons_self
    have : step (.bare acc cur) c = .bare acc (cur ++ [c]) := by simp [step, hc.1, hc.2]
    rw [this, ih _ (fun x hx => ht x (List.mem_cons_of_mem _ hx)), List.append_assoc]; rfl

theorem safeTok_spec {t : Str} (h : safeTok t = true) :
    t ≠ [] ∧ (∀ c, c ∈ t → c ≠ cComma ∧ c ≠ cOpen ∧ c ≠ cClose ∧ c ≠ cQuote ∧ c ≠ cBack) ∧ isNullWord t = false := by
  unfold safeTok at h
  simp only [Bool.and_eq_true, Bool.not_eq_true', List.all_eq_true, bne_iff_ne, ne_eq] at h
  refine ⟨fun e => by rw [e] at h; simp at h, fun c hc => ?_, by simpa using h.2⟩
  have := h.1.2 c hc
  exact ⟨this.1.1.1.1, this.1.1.1.2, this.1.1.2, this.1.2, this.2⟩

theorem run_tok_from_between (acc : List (Option Str)) (t : Str) (h : safeTok t = true) :
    run (.between acc) t = .bare acc t := by
  obtain ⟨hne, hall, _⟩ := safeTok_spec h
  cases t with
  | nil => exact absurd rfl hne
  | cons c t =>
    rw [run_cons]
    have hc := hall c List.mem_cons_self
    have : step (.between acc) c = .bare acc [c] := by simp [step, hc.1, hc.2.1, hc.2.2.1, hc.2.2.2.1]
    rw [this, run_bare_tok acc [c] t (fun x hx => ⟨(hall x (List.mem_cons_of_mem _ hx)).1, (hall x (List.mem_cons_of_mem _ hx)).2.2.1⟩)]
    rfl

theorem run_join_bare (acc : List (Option Str)) (t : Str) (ts : List Str) (h : ∀ x, x ∈ t :: ts → safeTok x = true) :
    ∃ last pre, t :: ts = pre ++ [last] ∧ run (.between acc) (joinElems (t :: ts)) = .bare (acc ++ pre.map some) last := by
  induction ts generalizing acc t with
  | nil => exact ⟨t, [], rfl, by simp [joinElems, run_tok_from_between acc t (h t List.mem_cons_self)]⟩
  | cons t' ts ih =>
    obtain ⟨last, pre, he, hr⟩ := ih (acc ++ [some t]) t' (fun x hx => h x (List.mem_cons_of_mem _ hx))
    refine ⟨last, t :: pre, by rw [he]; rfl, ?_⟩
    rw [joinElems_cons_cons, run_append, run_tok_from_between acc t (h t List.mem_cons_self), run_cons]
    have hn := (safeTok_spec (h t List.mem_cons_self)).2.2
    have : step (.bare acc t) cComma = .between (acc ++ [some t]) := by simp [step, bareElem, hn]
    rw [this, hr]
    simp

/-- Unquoted literals (`Int2ArrayEncoder.Encode`: `{1,2,3}`): any list of tokens that contain no `, { } " \`, are not
empty and are not the word NULL — decimal numbers are such tokens — decodes to exactly those tokens. -/
theorem bare_array_round_trip (toks : List Str) (h : ∀ t, t ∈ toks → safeTok t = true) :
    decode (emitBare toks) = some (toks.map some) := by
  unfold decode emitBare
  rw [List.cons_append, run_cons]
  have h0 : step .start cOpen = .between [] := by simp [step]
  rw [h0, run_append]
  cases toks with
  | nil => simp [joinElems, run_nil, run_cons, step, cClose, cQuote]
  | cons t ts =>
    obtain ⟨last, pre, he, hr⟩ := run_join_bare [] t ts h
    rw [hr, run_cons]
    have hlast : safeTok last = true := h last (by rw [he]; simp)
    have hn := (safeTok_spec hlast).2.2
    have : step (.bare ([] ++ pre.map some) last) cClose = .done (pre.map some ++ [some last]) := by
      simp [step, bareElem, hn, cClose, cComma]
    rw [this, run_nil, he]
    simp

/-! non-vacuity -/
example : decode (emit [[99, 111, 114, 112, 92, 115, 118, 99], [], [78, 85, 76, 76], [34, 44, 123, 125, 32], [10, 233, 128512]]) =
    some [some [99, 111, 114, 112, 92, 115, 118, 99], some [], some [78, 85, 76, 76], some [34, 44, 123, 125, 32],
          some [10, 233, 128512]] := by decide
example : decode [cOpen, 78, 85, 76, 76, cClose] = some [none] := by decide
example : decode (emitBare [[49, 50], [45, 51]]) = some [some [49, 50], some [45, 51]] := by decide
example : safeTok [49, 50] = true ∧ safeTok [] = false ∧ safeTok [78, 85, 76, 76] = false ∧ safeTok [49, 44] = false := by decide

end Dawgs.C12Lit
