/-
C12 — entity change tracking records exactly the delta from the loaded to the current state.
ONLY property statements and non-vacuity examples live here; lemmas are in Proofs/C12.lean.

Model `B` (Model/C12.lean) transcribes graph/properties.go, graph/kind.go, graph/node.go, graph/relationships.go as
they are.  `C12_full` is the statement about the code as it is and `c12 : C12_full` proves it.  The merges before commit
179da67 violated the property (finding F4): they are kept as `Props.mergeOld` / `Ent.mergeKindsOld`, the statement about
them (`C12_old`) is refuted (`c12_old_refuted`), and `c12_old_partial` records what did hold of them.
-/
import Dawgs.Proofs.C12
namespace Dawgs.C12.Props
open Dawgs.C12

/-! ### single operations on Properties -/

/-- `Set` preserves the invariant, and the written key holds the written value, is reported modified, not deleted. -/
theorem set_inv {L : KV} {s : Props} (h : Inv L s) (k : Key) (v : Val) :
    Inv L (s.set k v) ∧ lookup (s.set k v).m k = some v ∧ k ∈ (s.set k v).mod ∧ k ∉ (s.set k v).del := by
  refine ⟨inv_set h k v, ?_, ?_, ?_⟩
  · rw [set_m, lookup_insert]; simp
  · rw [set_mod, mem_sadd]; exact Or.inr rfl
  · rw [set_del, mem_srem]; exact fun h => h.2 rfl

/-- `Delete` preserves the invariant, and the key is gone, reported deleted, not modified. -/
theorem delete_inv {L : KV} {s : Props} (h : Inv L s) (k : Key) :
    Inv L (s.delete k) ∧ lookup (s.delete k).m k = none ∧ k ∈ (s.delete k).del ∧ k ∉ (s.delete k).mod := by
  refine ⟨inv_delete h k, ?_, ?_, ?_⟩
  · rw [delete_m, lookup_erase]; simp
  · rw [delete_del, mem_sadd]; exact Or.inr rfl
  · rw [delete_mod, mem_srem]; exact fun h => h.2 rfl

/-- `SetAll` preserves the invariant and every listed key ends up present, modified, not deleted. -/
theorem setAll_inv {L : KV} {s : Props} (h : Inv L s) (kvs : KV) :
    Inv L (s.setAll kvs) ∧
    ∀ k, k ∈ keysOf kvs → lookup (s.setAll kvs).m k ≠ none ∧ k ∈ (s.setAll kvs).mod ∧ k ∉ (s.setAll kvs).del :=
  ⟨inv_setAll h kvs, fun k hk => setAll_post s kvs k hk⟩

/-- `Clone` is an equal, independent copy: it satisfies the invariant of the same loaded state, and any later operation
on one of two entities leaves the other one unchanged (operations write only their target). -/
theorem clone_inv_and_independent {L : KV} {s : Props} (h : Inv L s) :
    Inv L s.clone ∧ s.clone = s ∧
    ∀ (old : Bool) (st : St) (o : Op) (g : Bool), g ≠ o.target → (st.step old o).get g = st.get g :=
  ⟨by rw [clone_eq]; exact h, clone_eq s, step_frame⟩

/-! ### Merge of two entities loaded from the same state -/

/-- Full-strength merge clause: merging two entities that both satisfy the invariant of the same loaded state yields
an entity that satisfies it. -/
def MergeInv (merge : Props → Props → Props) : Prop :=
  ∀ (L : KV) (s o : Props), Inv L s → Inv L o → Inv L (merge s o)

/-- … holds of `Properties.Merge` as it is (and therefore of `Relationship.Merge`, which is nothing else). -/
theorem merge_inv : MergeInv Props.merge := fun _ _ _ h ho => inv_merge h ho

/-- … held of `Merge` before commit 179da67 exactly when no key deleted on the receiver is merely carried (present, unmodified)
by the other side; all other clauses hold unconditionally. -/
theorem merge_inv_old_iff {L : KV} {s o : Props} (h : Inv L s) (ho : Inv L o) :
    (Inv L (s.mergeOld o) ↔ ∀ k, k ∈ s.del → lookup o.m k ≠ none → k ∈ o.mod) ∧ WeakInv L (s.mergeOld o) :=
  ⟨inv_mergeOld_iff h ho, weak_mergeOld h.toWeak ho.toWeak⟩

/-- the F4 witness: loaded `{a:1, b:2}`, `s.Delete(a)`, `s.Merge(unmodified other)` -/
def f4L : KV := [(0, 1), (1, 2)]
def f4s : Props := (Props.load (some f4L)).delete 0
def f4o : Props := Props.load (some f4L)

/-- … and was FALSE of `Merge` before commit 179da67 (finding F4): `a` ends up in `Map` and in `Deleted`. -/
theorem merge_inv_old_refuted : ¬ MergeInv Props.mergeOld := by
  intro h
  have hs : Inv f4L f4s := inv_delete (inv_load (some f4L)) 0
  have ho : Inv f4L f4o := inv_load (some f4L)
  have hi := h f4L f4s f4o hs ho
  have h1 : (0 : Key) ∈ (f4s.mergeOld f4o).del := by decide
  have h2 : lookup (f4s.mergeOld f4o).m 0 = some 1 := by decide
  have := hi.delDom 0 h1
  rw [h2] at this
  cases this

def KMergeInv (merge : Ent → Ent → Ent) : Prop :=
  ∀ (L : List Kind) (s o : Ent), KInv L s → KInv L o → KInv L (merge s o)

theorem kinds_merge_inv : KMergeInv Ent.mergeKinds := fun _ _ _ h ho => kinv_mergeKinds h ho

theorem kinds_merge_inv_old_iff {L : List Kind} {s o : Ent} (h : KInv L s) (ho : KInv L o) :
    (KInv L (s.mergeKindsOld o) ↔ ∀ k, k ∈ s.removed → k ∈ o.kinds → k ∈ o.added) ∧ WeakKInv L (s.mergeKindsOld o) :=
  ⟨kinv_mergeKindsOld_iff h ho, weak_mergeKindsOld h.toWeak ho.toWeak⟩

/-- the F4 witness for kinds: loaded `[A, B]`, `n.DeleteKinds(A)`, `n.Merge(unmodified other)` ⇒ `Kinds = [B, A]`,
`DeletedKinds = [A]` -/
def f4Load : Loaded := { store := some f4L, kinds := [0, 1] }
def f4n : Ent := f4Load.ent.deleteKinds [0]

theorem kinds_merge_inv_old_refuted : ¬ KMergeInv Ent.mergeKindsOld := by
  intro h
  have hs : KInv [0, 1] f4n := kinv_deleteKinds (kinv_load f4Load (by decide)) [0]
  have ho : KInv [0, 1] f4Load.ent := kinv_load f4Load (by decide)
  have hi := h [0, 1] f4n f4Load.ent hs ho
  exact hi.removedOut 0 (by decide) (by decide)

/-! ### all histories -/

/-- what C12 says about one tracked entity `x` loaded as `L` -/
structure Exact (L : Loaded) (x : Ent) : Prop where
  /-- a key / kind is never reported both as written and as removed -/
  propsDisjoint : ∀ k, k ∈ x.props.mod → k ∉ x.props.del
  kindsDisjoint : ∀ k, k ∈ x.added → k ∉ x.removed
  /-- applied to the stored (= loaded) state, the change sets the drivers read reproduce the current state exactly; for an
  entity whose properties were replaced by `StripAllPropertiesExcept` (ghost flag `attached = false`, until a merge
  with an attached entity) "exactly" is: every key it carries (modified or deleted) gets its current value, every
  other key keeps its stored value -/
  propsReproduce : ∀ k, lookup (applyDelta L.kv x.props.modifiedProperties x.props.del) k =
    if x.attached = true ∨ k ∈ x.props.mod ∨ k ∈ x.props.del then lookup x.props.m k else lookup L.kv k
  kindsReproduce : KReproduces L.kinds x
  /-- the invariant of DESIGN §4 C12 -/
  inv : EInv L x

/-- "the last edit of a key wins": after any sequence of `Set`/`Delete` (and `SetAll`, which is a sequence of `Set`s)
the value and the tracking status of every key are those of its last edit, or the initial ones if it was never edited -/
def LastEditWins : Prop :=
  (∀ (s : Props) (es : List Edit) (k : Key),
    (lookup (s.runEdits es).m k = match lastEdit es k with | none => lookup s.m k | some r => r) ∧
    (k ∈ (s.runEdits es).mod ↔ match lastEdit es k with | none => k ∈ s.mod | some r => r.isSome = true) ∧
    (k ∈ (s.runEdits es).del ↔ match lastEdit es k with | none => k ∈ s.del | some r => r.isNone = true)) ∧
  (∀ (s : Props) (kvs : KV), s.setAll kvs = s.runEdits (editsOfKV kvs))

/-- C12 for a version of the code (`old = true`: the merges before commit 179da67): for every loaded state with
duplicate-free kinds and every finite history of Set/SetAll/Delete/reads/Clone/Properties.Merge/Relationship.Merge/
AddKinds/DeleteKinds/Node.Merge/StripAllPropertiesExcept over two entities loaded from it, both entities are tracked
exactly; and the last edit wins.  (The statement about the old code is over histories without
`StripAllPropertiesExcept`: it was written before that operation was modelled and is kept as it was.) -/
def C12_for (old : Bool) : Prop :=
  (∀ (L : Loaded), L.kinds.Nodup → ∀ (ops : List Op), (old = true → ∀ o, o ∈ ops → o.isStrip = false) →
    ∀ (e : Bool), Exact L (((St.init L).run old ops).get e)) ∧
  LastEditWins

/-- C12 at full strength for the code as it is in /repo. -/
def C12_full : Prop := C12_for false

/-- the same statement about the code before commit 179da67 (finding F4) -/
def C12_old : Prop := C12_for true

theorem exact_of_einv {L : Loaded} {x : Ent} (h : EInv L x) : Exact L x := by
  refine ⟨h.props.disj, h.kinds.disj, ?_, kinv_reproduces h.kinds, h⟩
  intro k
  have hp := h.props
  unfold Ent.base at hp
  cases ha : x.attached with
  | true =>
    rw [ha] at hp
    simp only [true_or, if_true]
    exact inv_reproduces hp k
  | false =>
    rw [ha] at hp
    simp only [Bool.false_eq_true, false_or]
    exact detached_update_exact hp L.kv k

/-- `history_inv`: the invariant holds after every history, for both entities — relative to the loaded map, or to the
empty map for an entity whose properties were replaced by `StripAllPropertiesExcept` and not merged back since. -/
theorem history_inv (L : Loaded) (hn : L.kinds.Nodup) (ops : List Op) (e : Bool) :
    Inv ((((St.init L).run false ops).get e).base L) (((St.init L).run false ops).get e).props :=
  (sinv_run (sinv_init L hn) ops e).props

theorem satt_run {st : St} (h : SAtt st) (old : Bool) (ops : List Op) (hs : ∀ o, o ∈ ops → o.isStrip = false) :
    SAtt (st.run old ops) := by
  induction ops generalizing st with
  | nil => exact h
  | cons o ops ih =>
    exact ih (satt_step h old o (hs o List.mem_cons_self)) (fun o' ho' => hs o' (List.mem_cons_of_mem _ ho'))

/-- … in particular relative to the loaded map after every history without `StripAllPropertiesExcept`. -/
theorem history_inv_attached (L : Loaded) (hn : L.kinds.Nodup) (ops : List Op)
    (hs : ∀ o, o ∈ ops → o.isStrip = false) (e : Bool) :
    Inv L.kv (((St.init L).run false ops).get e).props := by
  have := history_inv L hn ops e
  rw [base_att (satt_run (satt_init L) false ops hs e)] at this
  exact this

/-- `kinds_history_inv`: the same for the kind delta. -/
theorem kinds_history_inv (L : Loaded) (hn : L.kinds.Nodup) (ops : List Op) (e : Bool) :
    KInv L.kinds (((St.init L).run false ops).get e) :=
  (sinv_run (sinv_init L hn) ops e).kinds

/-- corollary: applying the recorded delta to the loaded state reproduces the current state, properties and kinds. -/
theorem reproduce_loaded_state (L : Loaded) (hn : L.kinds.Nodup) (ops : List Op) (e : Bool) :
    ((∀ o, o ∈ ops → o.isStrip = false) → Reproduces L.kv (((St.init L).run false ops).get e).props) ∧
    (∀ k, lookup (applyDelta L.kv (((St.init L).run false ops).get e).props.modifiedProperties
        (((St.init L).run false ops).get e).props.del) k =
      if (((St.init L).run false ops).get e).attached = true ∨ k ∈ (((St.init L).run false ops).get e).props.mod ∨
          k ∈ (((St.init L).run false ops).get e).props.del
      then lookup (((St.init L).run false ops).get e).props.m k else lookup L.kv k) ∧
    KReproduces L.kinds (((St.init L).run false ops).get e) :=
  ⟨fun hs => inv_reproduces (history_inv_attached L hn ops hs e),
   (exact_of_einv (sinv_run (sinv_init L hn) ops e)).propsReproduce,
   kinv_reproduces (kinds_history_inv L hn ops e)⟩

/-- What the drivers send (`ModifiedProperties()`, `DeletedProperties()`) is exactly the delta: the sent keys are the
modified keys, every sent value is the current value of its key, no sent key is also deleted, and conversely disjoint
change sets that reproduce the current state are all the invariant says (nothing weaker would do). -/
theorem driver_delta_complete {L : KV} {s : Props} :
    (Inv L s → keysOf s.modifiedProperties = s.mod ∧
      (∀ p, p ∈ s.modifiedProperties → lookup s.m p.1 = some p.2) ∧
      (∀ k, k ∈ keysOf s.modifiedProperties → k ∉ s.deletedProperties.getD []) ∧ Reproduces L s) ∧
    ((∀ k, k ∈ s.mod → k ∉ s.del) → Reproduces L s → Inv L s) := by
  refine ⟨fun h => ⟨keysOf_modifiedProperties s, ?_, ?_, inv_reproduces h⟩, inv_of_reproduces⟩
  · intro p hp
    unfold Props.modifiedProperties at hp
    rw [List.mem_map] at hp
    obtain ⟨k, hk, rfl⟩ := hp
    have := h.modDom k hk
    cases hv : lookup s.m k with
    | none => exact absurd hv this
    | some v => rfl
  · intro k hk
    rw [keysOf_modifiedProperties] at hk
    exact h.disj k hk

theorem last_edit_wins : LastEditWins := ⟨runEdits_lastEdit, setAll_eq_runEdits⟩

/-- The executable judges the monitor runs on the implementation's dumped state are the invariants. -/
theorem monitor_sound (L : Loaded) (x : Ent) :
    (propsViolation L.kv x.props.m x.props.mod x.props.del = none ↔ Inv L.kv x.props) ∧
    (kindsViolation L.kinds x.kinds x.added x.removed = none ↔
      ((∀ k, k ∈ x.added → k ∉ x.removed) ∧ (∀ k, k ∈ x.added → k ∈ x.kinds) ∧
       (∀ k, k ∈ x.removed → k ∉ x.kinds) ∧ (∀ k, k ∉ x.added → k ∉ x.removed → (k ∈ x.kinds ↔ k ∈ L.kinds)))) :=
  ⟨propsViolation_none_iff L.kv x.props, kindsViolation_none_iff L.kinds x⟩

/-! ### relationships, reads, constructors, empty SetAll -/

/-- `Relationship.Merge` (= `Properties.Merge` on the relationship's properties) preserves the invariant and leaves the
kind fields alone; the old one preserved everything except `Deleted ∩ dom Map = ∅`. -/
theorem relationship_merge_inv {L : KV} {s o : Ent} (h : Inv L s.props) (ho : Inv L o.props) :
    Inv L (s.relMerge false o).props ∧ WeakInv L (s.relMerge true o).props ∧
    ∀ old, (s.relMerge old o).kinds = s.kinds ∧ (s.relMerge old o).added = s.added ∧ (s.relMerge old o).removed = s.removed :=
  ⟨inv_merge h ho, weak_mergeOld h.toWeak ho.toWeak, fun _ => ⟨rfl, rfl, rfl⟩⟩

/-- Reads (`Get`, `GetOrDefault`, `GetWithFallback`, `Exists`, `Len`, `Keys`) are functions of the current map only —
they are independent of the tracking sets, and as operations they leave the whole state (tracking included) unchanged;
`GetOrDefault` is `GetWithFallback` without fallback keys. -/
theorem reads_do_not_track (old : Bool) (st : St) (e : Bool) (s : Props) (md dl : Option (List Key)) (k : Key) (d : Val)
    (fb : List Key) :
    st.step old (.read e) = st ∧
    ({ s with modified := md, deleted := dl } : Props).get k = s.get k ∧
    ({ s with modified := md, deleted := dl } : Props).exists k = s.exists k ∧
    ({ s with modified := md, deleted := dl } : Props).len = s.len ∧
    ({ s with modified := md, deleted := dl } : Props).keys = s.keys ∧
    ({ s with modified := md, deleted := dl } : Props).getWithFallback k d fb = s.getWithFallback k d fb ∧
    s.getOrDefault k d = s.getWithFallback k d [] :=
  ⟨rfl, rfl, rfl, rfl, rfl, rfl, getOrDefault_eq s k d⟩

/-- `SetAll` of a nil or empty map changes nothing — not even the nil-ness of the tracking maps. -/
theorem setAll_empty_noop (s : Props) : s.setAll [] = s := rfl

/-- Every constructor (`NewProperties`, `NewPropertiesRed`, `AsProperties` of any map type; `NewNode`, `PrepareNode`,
`NewRelationship`, `PrepareRelationship` around them) yields an untracked entity: tracking maps nil, nothing reported
to the drivers, invariant of its own store. -/
theorem constructors_untracked (L : Loaded) (hn : L.kinds.Nodup) :
    (Props.load L.store).modified = none ∧ (Props.load L.store).deleted = none ∧
    (Props.load L.store).modifiedProperties = [] ∧ (Props.load L.store).deletedProperties = none ∧
    L.ent.added = [] ∧ L.ent.removed = [] ∧ EInv L L.ent :=
  ⟨rfl, rfl, rfl, rfl, rfl, rfl, ⟨inv_load L.store, kinv_load L hn⟩⟩

/-! ### StripAllPropertiesExcept -/

/-- `Node.StripAllPropertiesExcept(except)` yields properties tracked relative to the EMPTY map (a fresh object edited
only by `Set`/`Delete`), whatever the entity looked like before; on a kept key it keeps the value and the deletion, every
other key is absent and untracked; and sending its delta to the stored map `S` changes exactly the kept keys the entity
had something for — every other stored key survives, whatever edits the entity carried for it before the strip. -/
theorem strip_inv (s : Props) (except : List Key) (S : KV) :
    Inv [] (s.strip except) ∧
    (∀ k, status (s.strip except) k =
      if k ∈ except then keptStatus s k (none, false, false) else (none, false, false)) ∧
    (∀ k, lookup (applyDelta S (s.strip except).modifiedProperties (s.strip except).del) k =
      if k ∈ except ∧ (k ∈ s.del ∨ lookup s.m k ≠ none) then (if k ∈ s.del then none else lookup s.m k)
      else lookup S k) :=
  ⟨inv_strip s except, status_strip s except, strip_update_exact s except S⟩

/-- for an entity that satisfied the invariant of the loaded map before the strip, the update restores every kept key
to the entity's current value (deletions included) and leaves the rest as stored -/
theorem strip_keeps_exactly {L : KV} {s : Props} (h : Inv L s) (except : List Key) (k : Key) :
    lookup (applyDelta L (s.strip except).modifiedProperties (s.strip except).del) k =
      if k ∈ except then lookup s.m k else lookup L k := by
  rw [strip_update_exact]
  by_cases hk : k ∈ except
  · by_cases hd : k ∈ s.del
    · simp [hk, hd, h.delDom k hd]
    · cases hv : lookup s.m k with
      | some v => simp [hk, hd, hv]
      | none =>
        have hm : k ∉ s.mod := fun hh => h.modDom k hh hv
        simp [hk, hd, hv, ← h.untouched k hm hd]
  · simp [hk]

/-! ### the last edit wins — for merges and for kinds too -/

/-- `Merge(other)` is an edit by `other`: for every key, the other entity's deletion wins, then the other entity's
current value, then the receiver's own state; and the tracking status follows — a key the other deleted is reported
deleted and not modified, a key the other modified is reported modified and not deleted, a key the other does not carry
keeps the receiver's status. -/
theorem merge_last_edit_wins (s o : Props) (k : Key) :
    lookup (s.merge o).m k = mergeExpect s.m o.m o.del k ∧
    (k ∈ o.del → k ∈ (s.merge o).del ∧ k ∉ (s.merge o).mod) ∧
    (k ∈ o.mod → k ∉ o.del → k ∈ (s.merge o).mod ∧ k ∉ (s.merge o).del) ∧
    (k ∉ o.mod → k ∉ o.del → k ∉ keysOf o.m →
      (k ∈ (s.merge o).mod ↔ k ∈ s.mod) ∧ (k ∈ (s.merge o).del ↔ k ∈ s.del)) := by
  have hk := lookup_eq_none_iff o.m k
  refine ⟨merge_lookup s o k, ?_, ?_, ?_⟩
  · intro hd
    simp only [merge_del, merge_mod, mem_saddAll, mem_sremAll]
    grind
  · intro hm hd
    simp only [merge_del, merge_mod, mem_saddAll, mem_sremAll]
    grind
  · intro hm hd hkk
    simp only [merge_del, merge_mod, mem_saddAll, mem_sremAll]
    grind

/-- The last edit of a KIND wins: after `AddKinds(ks)` every listed kind is present, reported added and not reported
deleted; after `DeleteKinds(ks)` every listed kind is absent, reported deleted and not reported added — from every state
reachable by any history (hypothesis: the kind invariant, i.e. duplicate-free loaded kinds, `kinds_history_inv`). -/
theorem kinds_last_edit_wins {L : List Kind} {x : Ent} (h : KInv L x) :
    (∀ (ks : List (Option Kind)) (k : Kind), some k ∈ ks →
      k ∈ (x.addKinds ks).kinds ∧ k ∈ (x.addKinds ks).added ∧ k ∉ (x.addKinds ks).removed) ∧
    (∀ (ks : List Kind) (k : Kind), k ∈ ks →
      k ∉ (x.deleteKinds ks).kinds ∧ k ∈ (x.deleteKinds ks).removed ∧ k ∉ (x.deleteKinds ks).added) :=
  ⟨fun ks k hk => addKinds_post h ks k hk, fun ks k hk => deleteKinds_post h ks k hk⟩

/-- The PROPERTY clauses need no hypothesis at all: for every loaded state — duplicate kinds included — and every
history, the properties of both entities satisfy the invariant (relative to the loaded map, or the empty map after a
strip), so their change sets are disjoint and reproduce the current properties. The duplicate-free hypothesis of `c12`
is needed for the kind clauses only (`nodup_guard_exact`). -/
theorem props_history_inv_any_kinds (L : Loaded) (ops : List Op) (e : Bool) :
    let x := ((St.init L).run false ops).get e
    Inv (x.base L) x.props ∧ (∀ k, k ∈ x.props.mod → k ∉ x.props.del) ∧
    (∀ k, lookup (applyDelta L.kv x.props.modifiedProperties x.props.del) k =
      if x.attached = true ∨ k ∈ x.props.mod ∨ k ∈ x.props.del then lookup x.props.m k else lookup L.kv k) := by
  intro x
  have hp : Inv (x.base L) x.props := spinv_run (spinv_init L) ops e
  refine ⟨hp, hp.disj, ?_⟩
  intro k
  unfold Ent.base at hp
  cases ha : x.attached with
  | true =>
    rw [ha] at hp
    simp only [true_or, if_true]
    exact inv_reproduces hp k
  | false =>
    rw [ha] at hp
    simp only [Bool.false_eq_true, false_or]
    exact detached_update_exact hp L.kv k

/-! ### JSON round trip -/

/-- Encoding a Properties / a node to JSON and decoding it into a fresh value loses nothing the tracking needs: the map,
both tracking sets (nil stays nil, empty stays empty), the kinds and both kind deltas come back as they were — so a
decoded entity reports exactly the delta the encoded one did, and the history invariant survives (`Op.json` is an
operation of `C12_full`).  The struct tags and the fields the encoder / decoder handle are tied to the source in
Props/C12Api.lean (`json_tags_match`, `json_carries_tracking`); the real encoding/json is run by the tie. -/
theorem json_round_trip (s : Props) (x : Ent) :
    Props.ofJson s.toJson = s ∧ x.jsonRoundTrip = x ∧
    (Props.ofJson s.toJson).modifiedProperties = s.modifiedProperties ∧
    (Props.ofJson s.toJson).deletedProperties = s.deletedProperties :=
  ⟨props_json_roundtrip s, ent_json_roundtrip x, by rw [props_json_roundtrip], by rw [props_json_roundtrip]⟩

/-- the decoder really reads the members (it is not the identity by accident): dropping the `deleted` member loses the
deletions -/
example : (Props.ofJson ((f4s.toJson).filter (fun p => p.1 != "deleted"))).deleted = none ∧ f4s.deleted = some [0] := by
  decide

/-! ### consumers (the table of real update paths is tied in Props/C12Consumers.lean) -/

/-- Semantics of the two complete forms, for every entity that satisfies the invariant (i.e. after every history,
`c12`): a path whose property part is complete reproduces the properties, a path whose kind part is complete
reproduces the kinds, when what it sends is applied to the loaded state. -/
theorem consumer_sound (L : Loaded) (x : Ent) (h : EInv L x) (ha : x.attached = true) (r : List Nat) :
    (propsTouched r = true → propsPartOk r = true →
      ∀ k, lookup (applyDelta L.kv (sentProps r x.props).1 (sentProps r x.props).2) k = lookup x.props.m k) ∧
    (kindsTouched r = true → kindsPartOk r = true →
      ∀ k, k ∈ applyKinds L.kinds (sentKinds r x).1 (sentKinds r x).2 ↔ k ∈ x.kinds) :=
  ⟨fun ht hok k => sentProps_reproduces (by have := h.props; rw [base_att ha] at this; exact this) r ht hok k,
   fun ht hok k => sentKinds_reproduces h.kinds r ht hok k⟩

/-- The side condition is needed: a path that sends the whole map but not the deleted properties (the shape of
neo4j `cypherBuildNodeUpdateQueryBatch`: reads AddedKinds, DeletedKinds, Properties.Map) loses a deletion — loaded
`{a:1}`, `Delete(a)`: the stored `a` survives the update. -/
theorem incomplete_consumer_loses_deletion :
    ∃ (L : KV) (s : Props), Inv L s ∧ propsPartOk [0, 1, 5] = false ∧
      lookup (applyDelta L (sentProps [0, 1, 5] s).1 (sentProps [0, 1, 5] s).2) 0 ≠ lookup s.m 0 :=
  ⟨[(0, 1)], (Props.load (some [(0, 1)])).delete 0, inv_delete (inv_load (some [(0, 1)])) 0, by decide, by decide⟩

/-! ### the property -/

/-- C12 holds at full strength of the code as it is. -/
theorem c12 : C12_full :=
  ⟨fun L hn ops _ e => exact_of_einv (sinv_run (sinv_init L hn) ops e), last_edit_wins⟩

/-- C12 was FALSE of the code before commit 179da67: after `Delete(a); Merge(unmodified other)` key `a` is in `Map` and in `Deleted`
(DESIGN §5 F4; corpus/C12/c12_f4_props.ops is the same history, now a regression case against the real code). -/
theorem c12_old_refuted : ¬ C12_old := by
  intro h
  have hx := h.1 f4Load (by decide) [.delete false 0, .pmerge false true] (fun _ => by decide) false
  have h1 : (0 : Key) ∈ (((St.init f4Load).run true [.delete false 0, .pmerge false true]).get false).props.del := by
    decide
  have h2 : lookup (((St.init f4Load).run true [.delete false 0, .pmerge false true]).get false).props.m 0 = some 1 := by
    decide
  have := hx.inv.props.delDom 0 h1
  rw [h2] at this
  cases this

/-- What did hold of the code before commit 179da67:
(a) after EVERY history, merges included, every clause of the invariant except "Deleted ∩ dom Map = ∅" /
    "DeletedKinds ∩ Kinds = ∅" holds — in particular a key or kind is never reported both written and removed,
    modified keys are present, untouched keys are as loaded;
(b) after every history whose merges satisfy the side condition `SafeAt` (no key/kind deleted on the receiver is merely
    carried by the other side) the entities are tracked exactly; merge-free histories always satisfy it;
(c) the side condition is exact: from a consistent state, one operation keeps the state consistent iff it is safe;
(d) the last edit wins. -/
def C12_old_partial : Prop :=
  (∀ (L : Loaded), L.kinds.Nodup → ∀ (ops : List Op), (∀ o, o ∈ ops → o.isStrip = false) →
      ∀ (e : Bool), EWeak L (((St.init L).run true ops).get e)) ∧
  (∀ (L : Loaded), L.kinds.Nodup → ∀ (ops : List Op), (∀ o, o ∈ ops → o.isStrip = false) → (St.init L).SafeRun ops →
      ∀ e, Exact L (((St.init L).run true ops).get e)) ∧
  (∀ (st : St) (ops : List Op), (∀ o, o ∈ ops → o.isMerge = false) → st.SafeRun ops) ∧
  (∀ (L : Loaded) (st : St) (o : Op), SInv L st → SAtt st → o.isStrip = false →
      (SInv L (st.step true o) ↔ o.SafeAt st)) ∧
  LastEditWins

theorem c12_old_partial : C12_old_partial :=
  ⟨fun L hn ops hs e => sweak_run_old (sinv_init L hn).toWeak (satt_init L) ops hs e,
   fun L hn ops hst hs e => exact_of_einv (sinv_run_old (sinv_init L hn) (satt_init L) ops hst hs e),
   safeRun_of_noMerge,
   fun _ _ o h ha hst => sinv_step_old_iff h ha o hst,
   last_edit_wins⟩

/-! ### non-vacuity (examples are tests, not theorems) -/

/-- the hypotheses `Inv L s`, `Inv L o` of the merge theorems are satisfiable on states with non-empty deltas, and the
side condition of `merge_inv_old_iff` is satisfiable (o re-set the key s deleted) and refutable (F4) -/
example : Inv f4L ((f4o.set 2 5).delete 1) ∧ Inv f4L (f4s.set 3 0) :=
  ⟨inv_delete (inv_set (inv_load (some f4L)) 2 5) 1, inv_set (inv_delete (inv_load (some f4L)) 0) 3 0⟩
example : propsViolation f4L ((f4o.set 2 5).delete 1).m ((f4o.set 2 5).delete 1).mod ((f4o.set 2 5).delete 1).del = none := by
  decide
example : ∀ k, k ∈ f4s.del → lookup (f4o.set 0 7).m k ≠ none → k ∈ (f4o.set 0 7).mod := by decide
example : ¬ ∀ k, k ∈ f4s.del → lookup f4o.m k ≠ none → k ∈ f4o.mod := by decide
/-- current and repaired merge on the F4 witness: the map is the same, only the repaired one un-deletes `a` -/
example : (f4s.mergeOld f4o).m = [(0, 1), (1, 2)] ∧ (f4s.mergeOld f4o).del = [0] ∧
    (f4s.merge f4o).m = [(0, 1), (1, 2)] ∧ (f4s.merge f4o).del = [] := by decide
example : propsViolation f4L (f4s.mergeOld f4o).m (f4s.mergeOld f4o).mod (f4s.mergeOld f4o).del = some (.deletedKeyPresent 0) := by
  decide
example : (f4n.mergeKindsOld f4Load.ent).kinds = [1, 0] ∧ (f4n.mergeKindsOld f4Load.ent).removed = [0] ∧
    (f4n.mergeKinds f4Load.ent).kinds = [1, 0] ∧ (f4n.mergeKinds f4Load.ent).removed = [] := by decide
example : kindsViolation [0, 1] (f4n.mergeKindsOld f4Load.ent).kinds (f4n.mergeKindsOld f4Load.ent).added
    (f4n.mergeKindsOld f4Load.ent).removed = some (.deletedKindPresent 0) := by decide
/-- a history with two safe merges (entity 1 re-sets the key entity 0 deleted; entity 1 re-adds the kind entity 0
deleted), run on the old code: `SafeRun` holds and the final state is the expected one -/
def safeHistory : List Op :=
  [.delete false 0, .set true 0 7, .pmerge false true, .deleteKinds false [0], .addKinds true [some 0, none, some 2],
   .nmerge false true, .clone false true, .setAll true [(3, 4), (1, 0)], .nmerge true false]
example : (St.init f4Load).SafeRun safeHistory := by decide
/-- … and the F4 history is not safe -/
example : ¬ (St.init f4Load).SafeRun [.delete false 0, .pmerge false true] := by decide
example :
    let x := ((St.init f4Load).run true safeHistory).get true
    x.props.m = [(0, 7), (1, 2), (3, 4)] ∧ x.props.mod = [1, 3, 0] ∧ x.props.del = [] ∧
    x.kinds = [0, 1, 2] ∧ x.added = [0, 2] ∧ x.removed = [] := by decide
/-- last edit wins, on a history that sets, deletes and re-sets a key -/
example : lastEdit [(0, some 5), (1, none), (0, none), (0, some 9)] 0 = some (some 9) ∧
    lastEdit [(0, some 5), (1, none), (0, none), (0, some 9)] 1 = some none ∧
    lastEdit [(0, some 5), (1, none), (0, none), (0, some 9)] 2 = none := by decide
/-- the judge is not trivially quiet -/
example : propsViolation [(0, 1)] [(0, 2)] [] [] = some (.untouchedKeyChanged 0) := by decide
example : propsViolation [(0, 1)] [(0, 2)] [0] [0] = some (.modifiedAndDeleted 0) := by decide
example : propsViolation [(0, 1)] [] [0] [] = some (.modifiedKeyAbsent 0) := by decide
example : kindsViolation [0] [0, 1] [] [] = some (.untouchedKindChanged 1) := by decide

end Dawgs.C12.Props
