/-
C13 — the three defects of RoaringBitmap v2.19.0's native in-place `Xor` that DAWGS' `bitmap32.Xor`/`bitmap64.Xor`
expose, as refutations on the container-identity model (Model/C13Roaring), which the suite `heap13`/`c13heap`
compares with the real library on every run. ONLY statements and examples.

The value-level model `B` (and DAWGS) assume of a native operation: it returns, it leaves the operand's content alone,
and receiver and operand stay independent objects. Each assumption is stated at full strength and refuted by a
witness that is also a corpus replay against the real code.
-/
import Dawgs.Model.C13Roaring
import Dawgs.Spec.C13
namespace Dawgs.C13.RoaringProps
open Dawgs.C13 Dawgs.C13.Roaring

/-- the in-place `Xor` returns, for all bitmaps built through the API -/
def XorNeverPanics (wd : Width) : Prop :=
  ∀ (sets : List (Nat × List Nat)) (rb x2 : Nat), (xor wd (build wd sets) rb x2).isSome = true

/-- the in-place `Xor` leaves the content of a distinct operand unchanged -/
def XorOperandPure (wd : Width) : Prop :=
  ∀ (w w' : World) (rb x2 : Nat), rb ≠ x2 → xor wd w rb x2 = some w' → den wd w' x2 = den wd w x2

/-- after the in-place `Xor` receiver and operand are independent: adding to the receiver does not change the operand -/
def XorNoAliasing (wd : Width) : Prop :=
  ∀ (sets : List (Nat × List Nat)) (rb x2 v : Nat) (w' : World), rb ≠ x2 →
    xor wd (build wd sets) rb x2 = some w' → den wd (add wd w' rb v) x2 = den wd w' x2

/-- finding `C13:bitmap64.Xor:self-operand-panic`: `x.Xor(x)` with two high-32-bit keys indexes past the array it is
shrinking (corpus/C13/c13_xor64_self_panic.ops) -/
theorem roaring64_xor_self_panics_refuted : ¬ XorNeverPanics .w64 := by
  intro h
  have := h [(0, [1, 4294967296])] 0 0
  revert this; decide +kernel

/-- finding `C13:bitmap64.Xor:native-shares-containers`: `r.Xor(o)` installs `o`'s own sub-bitmap for key 2 in `r`
(no Clone: `r` still has the larger key 5 to come), so `r.Add(2·2^32+7)` also adds to `o`
(corpus/C13/x13_xor64_shares.ops) -/
theorem roaring64_xor_shares_containers_refuted : ¬ XorNoAliasing .w64 := by
  intro h
  have hx : ∃ w', xor .w64 (build .w64 [(0, [1, 21474836480]), (1, [8589934592, 8589934593])]) 0 1 = some w' := by
    cases hw : xor .w64 (build .w64 [(0, [1, 21474836480]), (1, [8589934592, 8589934593])]) 0 1 with
    | some w' => exact ⟨w', rfl⟩
    | none =>
      have hs : (xor .w64 (build .w64 [(0, [1, 21474836480]), (1, [8589934592, 8589934593])]) 0 1).isSome = true := by
        decide +kernel
      rw [hw] at hs; cases hs
  obtain ⟨w', hw'⟩ := hx
  have := h [(0, [1, 21474836480]), (1, [8589934592, 8589934593])] 0 1 8589934599 w' (by decide) hw'
  have hval : (xor .w64 (build .w64 [(0, [1, 21474836480]), (1, [8589934592, 8589934593])]) 0 1).map
      (fun w' => decide (den .w64 (add .w64 w' 0 8589934599) 1 = den .w64 w' 1)) = some false := by decide +kernel
  rw [hw'] at hval
  simp only [Option.map_some, Option.some.injEq, decide_eq_false_iff_not] at hval
  exact hval this

/-- the literal world of the 32-bit witness: bitmap 0 = {5, 7} (array container), bitmap 1 = {100, …, 4199} (bitmap
container: 4100 > 4096 elements) -/
def w32 : World :=
  { cells := [(0, { kind := .arr, elems := [5, 7] }), (1, { kind := .bmp, elems := rangeList 100 1 4100 })],
    next := 2, bms := [(0, [(0, 0)]), (1, [(0, 1)])] }

/-- finding `C13:bitmap32.Xor:native-mutates-operand`: `{5,7}.Xor({100..4199})` — array ⊕ bitmap is computed as
`operand.ixor(receiver)`: the operand gains 5 and 7 (corpus/C13/c13_xor32_mutates_operand.ops) -/
theorem roaring32_xor_mutates_operand_refuted : ¬ XorOperandPure .w32 := by
  intro h
  cases hw : xor .w32 w32 0 1 with
  | none =>
    have hs : (xor .w32 w32 0 1).isSome = true := by decide +kernel
    rw [hw] at hs; cases hs
  | some w' =>
    have := h w32 w' 0 1 (by decide) hw
    have hval : (xor .w32 w32 0 1).map (fun w' => decide (den .w32 w' 1 = den .w32 w32 1)) = some false := by decide +kernel
    rw [hw] at hval
    simp only [Option.map_some, Option.some.injEq, decide_eq_false_iff_not] at hval
    exact hval this

/-! ### the model is not vacuous, and agrees with the closed forms the value-level driver uses -/

-- the results themselves are right (only purity/aliasing/totality fail)
example : (xor .w64 (build .w64 [(0, [1, 21474836480]), (1, [8589934592, 8589934593])]) 0 1).map (fun w => den .w64 w 0) =
    some (Spec.binop .xor [1, 21474836480] [8589934592, 8589934593]) := by decide +kernel
-- exactly what the real code printed: o = {2·2^32, 2·2^32+1, 2·2^32+7} after `xor r o; add r 8589934599`
example : (xor .w64 (build .w64 [(0, [1, 21474836480]), (1, [8589934592, 8589934593])]) 0 1).map
    (fun w => den .w64 (add .w64 w 0 8589934599) 1) = some [8589934592, 8589934593, 8589934599] := by decide +kernel
-- one high key: x.Xor(x) returns the empty set; two or three: it panics — `selfXorPanics` of Model/C13
example : (xor .w64 (build .w64 [(0, [1, 2])]) 0 0).map (fun w => den .w64 w 0) = some [] := by decide +kernel
example : (xor .w64 (build .w64 [(0, [1, 4294967296, 8589934592])]) 0 0).isNone = true ∧
    selfXorPanics .w64 [1, 4294967296, 8589934592] = true ∧ selfXorPanics .w64 [1, 2] = false := by decide +kernel
-- 64 bit: keys past the receiver's last one are appended as CLONES — no aliasing then (`xorShares` = false)
example : (xor .w64 (build .w64 [(0, [1]), (1, [8589934592])]) 0 1).map
    (fun w => den .w64 (add .w64 w 0 8589934599) 1) = some [8589934592] ∧ xorShares .w64 [1] [8589934592] = false ∧
    xorShares .w64 [1, 21474836480] [8589934592, 8589934593] = true := by decide +kernel
-- 32 bit: the operand after the Xor is what `xorOperandAfter` says; the 32-bit self Xor is guarded (`rb == x2`: Clear)
set_option maxRecDepth 200000 in
example : (xor .w32 w32 0 1).map (fun w => decide (den .w32 w 1 = xorOperandAfter .w32 [5, 7] (rangeList 100 1 4100))) = some true := by
  decide +kernel
example : (xor .w32 (build .w32 [(0, [1, 65536, 131072])]) 0 0).map (fun w => den .w32 w 0) = some [] := by decide +kernel

-- a WRAPPER receiver never aliases a wrapper operand, although the native Xor keeps a container of what it is given: it
-- is given the private snapshot (`snapshotOperand`), so a later `b.Add` cannot reach `r` — also for an EMPTY `b`
example : (xorViaSnapshot .w64 (build .w64 [(0, [1, 21474836480]), (1, [8589934592, 8589934593])]) 0 1 2).map
    (fun w => (den .w64 (add .w64 w 1 8589934599) 0, den .w64 (add .w64 w 0 8589934599) 1)) =
    some ([1, 8589934592, 8589934593, 21474836480], [8589934592, 8589934593]) := by decide +kernel
example : (xorViaSnapshot .w64 (build .w64 [(0, [1, 21474836480]), (1, [])]) 0 1 2).map
    (fun w => (den .w64 (add .w64 w 1 8589934599) 0, den .w64 (add .w64 w 1 8589934599) 1)) =
    some ([1, 21474836480], [8589934599]) := by decide +kernel
-- … whereas handing the native Xor the operand ITSELF (what a skipped clone amounts to) aliases it (same worlds)
example : (xor .w64 (build .w64 [(0, [1, 21474836480]), (1, [8589934592, 8589934593])]) 0 1).map
    (fun w => den .w64 (add .w64 w 1 8589934599) 0) = some [1, 8589934592, 8589934593, 8589934599, 21474836480] := by decide +kernel

end Dawgs.C13.RoaringProps
