/-
C06 T-tie: side conditions over the table of Scope accesses regenerated from
cypher/models/pgsql/translate/*.go by `tools/extract/goext c06` (Generated/C06Sites.lean).
Every statement is re-checked by the kernel on every run; a new access that breaks one of them makes
`lake build` fail, which `./check C06` reports as a broken tie and searches for a failing renaming.
-/
import Dawgs.Generated.C06Sites
import Dawgs.Model.C06
namespace Dawgs.C06.Sites
open Dawgs.Generated.C06Sites

def hasBit (p b : Nat) : Bool := (p / b) % 2 == 1

/-- reads of `definitions` by identifier: Lookup, LookupBindings, IsMaterialized, definitions[…] -/
def isDefsAccess (s : Site) : Bool := s.method == 0 || s.method == 3 || s.method == 4 || s.method == 5
/-- uses of an identifier as a KEY of `aliases` (variables, projection aliases): AliasedLookup, LookupString, aliases[…], Alias(key, _) -/
def isAliasKeyAccess (s : Site) : Bool := s.method == 1 || s.method == 2 || s.method == 6 || s.method == 7
/-- uses of an identifier as a KEY of `parameterAliases`: ParameterLookup, AliasParameter(key, _), parameterAliases[…] -/
def isParamKeyAccess (s : Site) : Bool := s.method == 11 || s.method == 12 || s.method == 13

/-- accesses outside the methods of `Scope` itself (inside them the argument is a parameter whose
provenance is that of the callers, which are listed here) -/
def external : List Site := sites.filter (fun s => !s.internal)

theorem table_nonempty : 40 ≤ external.length := by decide

/-- **user_ids_only_via_aliased_lookup**: no user-derived identifier (cypher symbol, projection alias) is
ever used as a key of `definitions`, and no argument is of unknown provenance: user spellings reach the
definitions table only through `AliasedLookup`. -/
theorem user_ids_only_via_aliased_lookup :
    (external.filter isDefsAccess).all (fun s => !hasBit s.prov 1 && !hasBit s.prov 32 && !hasBit s.prov 64) = true := by
  decide

/-- **alias_after_fresh_define**: every `Alias(key, binding)` call has a user-derived key and a binding that
was produced by `DefineNew`/`Define` in the same function — the premise of `alias_values_injective`. -/
theorem alias_after_fresh_define :
    ((external.filter (fun s => s.method == 7 || s.method == 12)).all (fun s => s.fresh && s.prov == 1)) = true := by decide

/-- **parameter_path_separate**: the live code keeps the two namespaces apart. Inside the translator's
`case *cypher.Parameter:` the scope is consulted ONLY through `ParameterLookup` / `AliasParameter` (user-derived key),
those two are used nowhere else, and no access to the variable table (`AliasedLookup`, `LookupString`, `Alias`)
happens for a parameter. This is what makes `K = USym` (namespace-tagged keys) the right instance of the model;
on the tree before the fix of F10 it fails (the parameter case used `AliasedLookup` / `Alias`). -/
theorem parameter_path_separate :
    (external.filter (fun s => s.method == 11 || s.method == 12)).all (fun s => s.inParamCase && s.prov == 1) = true
    ∧ (external.filter (fun s => s.method == 1 || s.method == 2 || s.method == 7)).all (fun s => !s.inParamCase) = true
    ∧ external.any (fun s => s.method == 11) = true ∧ external.any (fun s => s.method == 12) = true
    ∧ (external.filter (fun s => s.method == 13 || s.method == 6)).length = 0 := by decide

/-- `Define` with a caller-chosen identifier happens only with translator constants -/
theorem define_only_constants :
    ((external.filter (fun s => s.method == 8)).all (fun s => s.prov == 16)) = true := by decide

/-- **no_user_generated_comparison**: nowhere in package translate (outside the methods of `Scope`) is a purely
user-derived string compared (`==`, `!=`) with a purely generated identifier, and no map is indexed by both kinds of
key. `alias_only_lookup` makes the scope itself blind to how users spell their names; such a comparison would let a
user alias that happens to be spelled like the generated identifier of a binding (its own or another one) change the
translation — e.g. a `WITH v AS alias` shortcut `alias != <generated id of v>`. -/
theorem no_user_generated_comparison : mixedComparisons = [] ∧ mixedKeyMaps = [] := by decide

/-- alias-key uses whose key is NOT purely user-derived -/
def nonUserAliasKeySites : List (String × String) :=
  (external.filter (fun s => isAliasKeyAccess s && s.prov != 1)).map (fun s => (s.file, s.fn))

/-- the `Lookup`-then-`AliasedLookup` fallbacks known on the tree: an identifier taken from a translated expression
(a GENERATED name) is used as an alias key -/
def knownFallbackSites : List (String × String) :=
  [("function.go", "inferExpressionType"), ("function.go", "expressionForPath"),
   ("function.go", "translatePathComponentFunction"), ("function.go", "relationshipEndpointFunctionArgument"),
   ("path_functions.go", "resolvePathCompositeFieldReference"), ("path_functions.go", "resolvePathCompositeFieldReferences"),
   ("projection.go", "pathCompositeBinding")]

/-- **alias_key_fallback_sites_known**: the places where a generated identifier is used as an alias key are among these
seven HISTORICAL fallbacks, no new one. Each was an instance of the capture proved possible by `fallback_lookup_captures`;
only `pathCompositeBinding` was reachable with a binding of the required type (finding fixed in /repo e63912b). Today the
list of such sites is empty — `alias_keys_user_only` below is the statement at full strength. -/
theorem alias_key_fallback_sites_known :
    nonUserAliasKeySites.all (fun s => knownFallbackSites.contains s) = true := by decide

theorem alias_key_nonuser_are_fallbacks :
    ((external.filter (fun s => isAliasKeyAccess s && s.prov != 1)).all (fun s => s.fallback && !hasBit s.prov 1)) = true := by decide

/-- **generator_matches_model**: the `switch dataType` of `IdentifierGenerator.NewIdentifier` in tracking.go is the
model's `classOf`/`Cls.pfx`: same prefix per data type, two data types share a counter exactly when the model puts
them in one class, everything unlisted falls into the `i` class, the counter is bumped by one and the identifier is
`prefix ++ counter`. (`render_inj` — distinct (class, counter) pairs give distinct names — is proved for this table.) -/
theorem generator_matches_model :
    generatorCases.all (fun r => (Dawgs.C06.classOf r.1).pfx == r.2.1 && Dawgs.C06.classOf r.2.2 == Dawgs.C06.classOf r.1
        && Dawgs.C06.classOf r.1 != Dawgs.C06.Cls.i) = true
    ∧ generatorCases.all (fun r => generatorCases.all (fun r' =>
        (r.2.2 == r'.2.2) == (Dawgs.C06.classOf r.1 == Dawgs.C06.classOf r'.1))) = true
    ∧ ["expansion_pattern", "expansion_path", "pathcomposite", "nodecomposite", "edgecomposite", "path_edge", "scope",
        "parameter_identifier"].all (fun d => (generatorCases.map (·.1)).contains d) = true
    ∧ generatorDefault.1 = Dawgs.C06.Cls.i.pfx ∧ Dawgs.C06.classOf generatorDefault.2 = Dawgs.C06.Cls.i
    ∧ generatorBumpsByOne = true ∧ generatorRendersPrefixThenCounter = true := by decide

/-- the full T-tie condition: alias keys are user-derived ONLY -/
def C06_sites_full : Prop := nonUserAliasKeySites = []

/-- **alias_keys_user_only**: `C06_sites_full` holds on the current tree — since /repo e63912b (hooks/C06-fix3.patch) the
last `Lookup`-then-`AliasedLookup` fallback is gone, so NO call of `AliasedLookup` / `aliases[…]` in package translate has
a key that is not purely user-derived: a generated identifier is never looked up as if it were a user spelling, which is
the capture `fallback_lookup_captures` shows to be possible. (Until then this was an open `Prop` bounded by
`alias_key_fallback_sites_known` / `fallback_sites_bounded`, which stay as the weaker regression guards.) Re-introducing a
fallback makes this obligation fail. -/
theorem alias_keys_user_only : C06_sites_full := by unfold C06_sites_full; decide

/-- weaker guard kept from before the fix: at most the seven historical sites -/
theorem fallback_sites_bounded : nonUserAliasKeySites.length ≤ 7 := by decide

end Dawgs.C06.Sites
