/-
C11 — query-model utilities are structure-preserving: deep copy and complete traversal.

Generic theorems (proved once, for every schema / copy table / branch table / tree / visitor) and the instance
side conditions on the tables regenerated from /repo by `goext c11` (Generated/C11.lean), closed by `decide`.
`walk.Generic` is the transcription in Model/C11 §5; `copy`, `treeOf` are driven by the extracted tables; the
harness suite `c11` checks on every run that the real `cypher.Copy`, `walk.Cypher` and `walk.CypherStructural`
agree with them event by event.
-/
import Dawgs.Proofs.C11
import Dawgs.Proofs.C11Data
import Dawgs.Proofs.C11Nodup
import Dawgs.Proofs.C11Tree
import Dawgs.Generated.C11
namespace Dawgs.C11.Props
open Dawgs.C11

/-! ## A. Copy -/

/-- `copy_equal_and_fresh`: if every type handled by `Copy` copies each field deeply — or shallowly where sharing is
unobservable — then for every value on which `Copy` does not panic, and any allocator handing out addresses not
used by the value, the copy equals the original up to addresses and no address through which a mutation is
possible is shared with the original. -/
theorem copy_equal_and_fresh (T : Tables) (hT : schemaCopyOK T = true) (v : Val) (n : Nat)
    (hp : copyPanics T v = false) (hn : ∀ a ∈ v.addrs, a < n) :
    (copy T v n).1.erase = v.erase ∧ ∀ a ∈ mutAddrs T (copy T v n).1, a ∉ v.addrs := by
  refine ⟨copy_erase T hT v n, ?_⟩
  intro a ha hmem
  have h1 := (copy_fresh T hT v n hp).2 a ha
  have h2 := hn a hmem
  omega

/-- `copy_total`: the hypothesis "Copy does not panic" is discharged for every value all of whose nodes are of types
and shapes `Copy` has a case for and which contains no typed-nil pointer (a condition on the value alone). -/
theorem copy_total (T : Tables) (hT : schemaCopyOK T = true) (v : Val) (n : Nat)
    (hv : allHandled T v = true) (hn : ∀ a ∈ v.addrs, a < n) :
    (copy T v n).1.erase = v.erase ∧ ∀ a ∈ mutAddrs T (copy T v n).1, a ∉ v.addrs :=
  copy_equal_and_fresh T hT v n (copy_never_panics T v hv) hn

/-! ## B. walk.Generic, for every finite tree and every visitor -/

section walk
variable {α : Type} [DecidableEq α]

omit [DecidableEq α] in
/-- termination: `walk.Generic` returns within `fuel t` loop iterations -/
theorem generic_terminates (v : Visitor α) (t : Tree α) : ∃ r, (generic v t).ret = some r :=
  Option.isSome_iff_exists.1 (Dawgs.C11.generic_terminates v t)

/-- the protocol monitor (`judgeRun`, the judge of the real walkers' logs) accepts every run of the model -/
theorem monitor_accepts_generic (v : Visitor α) (t : Tree α) (r : Result) (h : (generic v t).ret = some r) :
    judgeRun v (generic v t).log r = none := judgeRun_generic v t r h

/-- `enter_exit_nested`: for EVERY visitor the event sequence is a prefix of a Dyck word (each Visit/Exit names the
innermost open Enter); for a visitor that never cancels and a walk that returns nil it is a complete Dyck word. -/
theorem enter_exit_nested (v : Visitor α) (t : Tree α) :
    (nest [] (generic v t).log).isSome ∧
    ((∀ h, (v h).stop = none) → (generic v t).ret = some .ok → nest [] (generic v t).log = some []) := by
  obtain ⟨r, m, hr, hm, _, hok⟩ := generic_accepted v t
  have hn : nest [] (generic v t).log = some m.opened := replay_nest v [] _ _ _ hm
  refine ⟨by rw [hn]; rfl, ?_⟩
  intro hv hret
  rw [hret] at hr; cases hr
  have hs := replay_never_stopped v hv [] _ _ _ hm rfl
  rw [hn, hok.1 hs]

/-- `consume_prunes_exactly_subtree` (1): after a callback Enter(l) or Visit(l) in which the visitor consumed, the very
next event is Exit(l): nothing below l (resp. none of l's remaining branches) is walked. -/
theorem consume_next_is_exit (v : Visitor α) (t : Tree α) (pre post : List (Ev α)) (e : Ev α) (l : α)
    (hlog : (generic v t).log = pre ++ e :: post) (he : e = .enter l ∨ e = .visit l)
    (ha : v (pre ++ [e]) = .consume) : ∃ post', post = .exit l :: post' := by
  obtain ⟨_, m, _, hm, hmust, _⟩ := generic_accepted v t
  rw [hlog] at hm
  exact Dawgs.C11.consume_next_is_exit v pre post e l m hm hmust ha he

/-- the tree-aware monitor (`judgeRunT`, which also judges the real walkers' logs against their branch trees)
accepts every run: for EVERY visitor, every Enter is the next unvisited branch of the innermost open node, and a
node is exited only when no branch of it is left or the visitor consumed in its Enter or in one of its Visits. -/
theorem tree_monitor_accepts_generic (v : Visitor α) (t : Tree α) (r : Result) (h : (generic v t).ret = some r) :
    judgeRunT v t (generic v t).log r = none := judgeRunT_generic v t r h

/-- `consume_schedule_complete`: whatever the visitor's Consume schedule — Consume in Enter, in Visit, in Exit, in
several callbacks of the same node — a walk that is never cancelled and returns nil has entered and exited, in
branch order and exactly once, every node that is not below a node consumed in its Enter or cut off by a Consume
in a Visit: the replay against the branch tree ends with no open node and no branch of any visited node left.
A Consume issued in an Exit callback prunes nothing. -/
theorem consume_schedule_complete (v : Visitor α) (t : Tree α) (hv : ∀ h, (v h).stop = none)
    (hret : (generic v t).ret = some .ok) :
    ∃ m, treplay v [] (generic v t).log (TMon.init t) = some m ∧ m.stack = [⟨none, []⟩] ∧ m.must = none := by
  obtain ⟨r, m, hr, hm, hmust, hok⟩ := generic_taccepted v t
  rw [hret] at hr; cases hr
  have hs := treplay_never_stopped v hv [] _ _ _ hm rfl
  exact ⟨m, hm, hok.1 hs, hmust⟩

omit [DecidableEq α] in
/-- `consume_prunes_exactly_subtree` (2): a visitor that consumes exactly when entering a `p`-node enters, in pre-order,
exactly the nodes that are not below a `p`-node — everything else is still walked. -/
theorem consume_prunes_exactly_subtree (p : α → Bool) (t : Tree α) (hg : (t.prune p).good = true) :
    (generic (byLabel p) t).ret = some .ok ∧ enters (generic (byLabel p) t).log = (t.prune p).labels :=
  generic_byLabel p t hg

/-- `done_stops_immediately`: no event after the callback that called SetDone (and no SetError(non-nil)), and nil
is returned -/
theorem done_stops_immediately (v : Visitor α) (t : Tree α) (pre post : List (Ev α)) (e : Ev α) (c : Bool)
    (hlog : (generic v t).log = pre ++ e :: post) (ha : v (pre ++ [e]) = .done c) :
    post = [] ∧ (generic v t).ret = some .ok := by
  obtain ⟨r, m, hr, hm, _, hok⟩ := generic_accepted v t
  rw [hlog] at hm
  obtain ⟨hp, hs⟩ := stop_is_last v pre post e m .done hm (by rw [ha]; rfl)
  refine ⟨hp, ?_⟩
  cases r with
  | ok => exact hr
  | visitorError => simp [okRes, hs] at hok
  | cursorError => simp [okRes, hs] at hok

/-- `error_stops_immediately`: no event after the callback that called SetError with a non-nil error, and the error
is returned -/
theorem error_stops_immediately (v : Visitor α) (t : Tree α) (pre post : List (Ev α)) (e : Ev α) (c : Bool)
    (hlog : (generic v t).log = pre ++ e :: post) (ha : v (pre ++ [e]) = .error c) :
    post = [] ∧ (generic v t).ret = some .visitorError := by
  obtain ⟨r, m, hr, hm, _, hok⟩ := generic_accepted v t
  rw [hlog] at hm
  obtain ⟨hp, hs⟩ := stop_is_last v pre post e m .error hm (by rw [ha]; rfl)
  refine ⟨hp, ?_⟩
  cases r with
  | ok => simp [okRes, hs] at hok
  | visitorError => exact hr
  | cursorError => simp [okRes, hs] at hok

/-- `walk_leaves_handler_clean`: a walk in which no callback cancelled (no SetDone, no SetError(non-nil)) leaves the
visitor's handler in its initial state — in particular the consume flag is cleared, whatever the Consume schedule
(Consume in the root's Enter, Visit or Exit included). `done` and `err` persist BY DESIGN once set: a cancelled or
failed visitor stays cancelled (`reused_done_visitor_walks_nothing`). -/
theorem walk_leaves_handler_clean (v : Visitor α) (t : Tree α) (hv : ∀ h, (v h).stop = none) :
    (generic v t).h = Handler.fresh := by
  obtain ⟨m, hm, hc⟩ := generic_clean v t
  exact hc (replay_never_stopped v hv [] _ _ _ hm rfl)

/-- every per-walk theorem lifts to SEQUENCES of walks with one visitor object: after an uncancelled walk the next
walk with the same visitor object is the walk of a fresh visitor … -/
theorem reused_visitor_walk (v1 v2 : Visitor α) (t1 t2 : Tree α) (hv : ∀ h, (v1 h).stop = none) :
    genericFrom (generic v1 t1).h v2 t2 = generic v2 t2 := by
  rw [walk_leaves_handler_clean v1 t1 hv, genericFrom_fresh]

omit [DecidableEq α] in
/-- … and after a cancelled or failed walk (done set) the next walk makes no callback and returns nil -/
theorem reused_done_visitor_walks_nothing (h0 : Handler) (v : Visitor α) (t : Tree α) (hd : h0.done = true) :
    (genericFrom h0 v t).log = [] ∧ (genericFrom h0 v t).h = h0 ∧
      (t.good = true → (genericFrom h0 v t).ret = some .ok) := genericFrom_done h0 v t hd

omit [DecidableEq α] in
/-- `handler_calls_exact`: executing a callback's handler calls one by one — Consume, SetDone, SetError with its
`err != nil` guard, in any number and order — is exactly the action `actOf` summarises them to; every theorem about
`generic v` for arbitrary `v` therefore covers every visitor given by its calls (`genericCalls`). -/
theorem handler_calls_exact (h : Handler) (cs : List Call) : h.calls cs = h.apply (actOf cs) := calls_eq_apply h cs

/-- `setError_nil_never_cancels`: a visitor that never calls SetDone and never passes a non-nil error to SetError —
however often it calls `SetError(nil)`, e.g. forwarding a passing check — is never cancelled: if its walk returns nil
it is complete (no open node, no branch of a visited node left, for any Consume schedule). -/
theorem setError_nil_never_cancels (vc : CallVisitor α) (t : Tree α)
    (hv : ∀ h, (vc h).contains .setDone = false ∧ (vc h).contains (.setError false) = false)
    (hret : (genericCalls vc t).ret = some .ok) :
    ∃ m, treplay (fun h => actOf (vc h)) [] (genericCalls vc t).log (TMon.init t) = some m ∧
      m.stack = [⟨none, []⟩] ∧ m.must = none := by
  apply consume_schedule_complete (fun h => actOf (vc h)) t _ hret
  intro h
  simp only [actOf, (hv h).1, (hv h).2, Bool.false_eq_true, ite_false]
  split <;> rfl

omit [DecidableEq α] in
/-- `nil_branch_is_error`: a nil branch (outside consumed subtrees) is reported, not skipped: the walk returns the
cursor constructor's error instead of nil. -/
theorem nil_branch_is_error (p : α → Bool) (t : Tree α) (hbad : (t.prune p).good = false) :
    (generic (byLabel p) t).ret = some .cursorError := generic_byLabel_bad p t hbad

omit [DecidableEq α] in
/-- the never-acting visitor: returns nil iff there is no nil branch, and then enters every node once, in pre-order -/
theorem plain_walk (t : Tree α) :
    (t.good = true → (generic (fun _ => Act.continue) t).ret = some .ok ∧
        enters (generic (fun _ => Act.continue) t).log = t.labels) ∧
    (t.good = false → (generic (fun _ => Act.continue) t).ret = some .cursorError) := by
  rw [← byLabel_false]
  constructor
  · intro hg
    have := generic_byLabel (fun _ => false) t (by rw [prune_false]; exact hg)
    rwa [prune_false] at this
  · intro hb
    exact generic_byLabel_bad (fun _ => false) t (by rw [prune_false]; exact hb)

end walk

/-! ## C. The two Cypher walkers over a schema -/

/-- `structural_visits_all`: if the structural constructor's branch table lists every node-typed field of every node
type (and no field twice), then on every value without nil branches the structural walk returns nil, enters every
node (identified by its access path in the value) AT MOST once, and enters every node the SCHEMA says the value
has: every node exactly once. -/
theorem structural_visits_all (T : Tables) (hT : branchesComplete T = true) (v : Val)
    (hg : (treeOf T T.structural v).good = true) :
    let r := generic (fun _ => Act.continue) (treeOf T T.structural v)
    r.ret = some .ok ∧ (enters r.log).Nodup ∧ ∀ l ∈ (treeOf T (schemaTab T) v).labels, l ∈ enters r.log := by
  simp only [branchesComplete, Bool.and_eq_true] at hT
  obtain ⟨hret, hent⟩ := (plain_walk (treeOf T T.structural v)).1 hg
  refine ⟨hret, ?_, ?_⟩
  · rw [hent]; exact treeOf_nodup T _ hT.2 v
  · intro l hl
    rw [hent]
    exact treeOf_sub T _ _ hT.1.1 hT.1.2 v hl

/-- `semantic_subset_structural`: every node the semantic walk enters is entered by the structural walk -/
theorem semantic_subset_structural (T : Tables) (hT : semanticSubset T = true) (v : Val)
    (hs : (treeOf T T.semantic v).good = true) (hg : (treeOf T T.structural v).good = true) :
    ∀ l ∈ enters (generic (fun _ => Act.continue) (treeOf T T.semantic v)).log,
      l ∈ enters (generic (fun _ => Act.continue) (treeOf T T.structural v)).log := by
  simp only [semanticSubset, Bool.and_eq_true] at hT
  intro l hl
  rw [((plain_walk _).1 hs).2] at hl
  rw [((plain_walk _).1 hg).2]
  exact treeOf_sub T _ _ hT.1 hT.2 v hl

/-! ## D. Instance: the tables regenerated from the current sources -/

def tables : Tables := Dawgs.Generated.C11.tables

/-- the extractor classified every `copy()` method and every cursor-constructor case -/
theorem extractor_recognised_everything : Dawgs.Generated.C11.unrecognised = [] := by decide

/-- the shape of `walk.Generic` the transcription mirrors: one Enter, one Visit and three Exit call sites; the error
check follows every callback, the done check every Enter/Visit, and after EVERY Exit the consume flag is
read-and-cleared before the cursor is popped (a Consume issued in an Exit callback cannot leak to the parent) -/
theorem generic_shape_inst : Dawgs.Generated.C11.genericSites = (1, 1, 3) ∧
    Dawgs.Generated.C11.genericFacts.all (·.2) = true := by decide

/-- the shape of the handler methods `Handler.call` / `clearConsumed` transcribe: SetError does nothing for a nil error
(its whole body is guarded by `err != nil`) and otherwise records the error and sets done; SetDone and Consume set
one field; WasConsumed reads and clears the flag; Done and Error read their fields; SetErrorf goes through SetError -/
theorem handler_shape_inst : Dawgs.Generated.C11.handlerFacts.length = 8 ∧
    Dawgs.Generated.C11.handlerFacts.all (·.2) = true := by decide

/-- `semanticSubset Generated.tables` -/
theorem semanticSubset_inst : semanticSubset tables = true := by decide +kernel

/-- `branchesComplete Generated.tables`: no node-typed field is missing from a structural cursor -/
theorem branchesComplete_inst : branchesComplete tables = true := by decide +kernel

/-- every node type, and the static type of every deeply copied field, has a case in `Copy`'s type switch -/
theorem copyTotal_inst : copyTotal tables = true := by decide +kernel

/-- every function a deep copy passes through — the `Copy` dispatcher, each `copy()` method, `copySlice`,
`graph.Kinds.Copy` — returns a fresh object (or nil) on every path and never its own argument -/
theorem helpers_allocate_inst : tables.types.all (fun d => !d.copyCase || tables.declAllocs d) = true := by
  decide +kernel

/-- slice-of-scalar fields named here are treated as frozen (immutable) -/
def maskFrozen (T : Tables) (names : List String) : Tables :=
  { T with types := T.types.map (fun d => { d with fields := d.fields.map (fun f =>
      if f.kind == .sliceScalar && names.contains f.name then { f with frozen := true } else f) }) }

/-- `schemaCopyOK Generated.tables`: every type `Copy` handles copies every field deeply (through helpers that
allocate) or shares it harmlessly -/
theorem schemaCopyOK_inst : schemaCopyOK tables = true := by decide +kernel

/-- The copy half of the property at full strength for the current code. -/
def C11_copy_full : Prop :=
  ∀ (v : Val) (n : Nat), copyPanics tables v = false → (∀ a ∈ v.addrs, a < n) →
    (copy tables v n).1.erase = v.erase ∧ ∀ a ∈ mutAddrs tables (copy tables v n).1, a ∉ v.addrs

/-- `c11_copy`: for the copy table of the current sources the copy of every value (on which `Copy` returns) is
equal up to addresses and shares no address through which a mutation is possible. -/
theorem c11_copy : C11_copy_full :=
  fun v n hp hn => copy_equal_and_fresh tables schemaCopyOK_inst v n hp hn

/-- … and without any assumption about panics, for every value built from the types `Copy` handles (by
`copyTotal_inst` these are all node types of the schema and the static types of all deeply copied fields) -/
theorem c11_copy_total (v : Val) (n : Nat) (hv : allHandled tables v = true) (hn : ∀ a ∈ v.addrs, a < n) :
    (copy tables v n).1.erase = v.erase ∧ ∀ a ∈ mutAddrs tables (copy tables v n).1, a ∉ v.addrs :=
  copy_total tables schemaCopyOK_inst v n hv hn

/-- every type a schema-typed value can contain has a `Copy` case (node types, static types of pointer / slice / map
fields, element types of slices / maps) -/
theorem typesHandled_inst : typesHandled tables = true := by decide +kernel

/-- `schema_typed_allHandled`: a value that is well-typed against the extracted schema (each position holds nil, a
scalar where a scalar is declared, a node of exactly the static type, or — in interface positions — a node of any
schema node type; no typed-nil pointer) is built from handled types only -/
theorem schema_typed_allHandled (v : Val) (h : wellTyped tables v = true) : allHandled tables v = true :=
  Dawgs.C11.schema_typed_allHandled tables typesHandled_inst v h

/-- the copy half for every well-typed model: the only hypothesis left is "well-typed against the schema, no typed
nil" — what Go's type system gives for every parser- or builder-produced model, and what the harness checks on
every real model by reflection (`welltyped=1`, compared with `wellTyped` computed here on the same value) -/
theorem c11_copy_welltyped (v : Val) (n : Nat) (hv : wellTyped tables v = true) (hn : ∀ a ∈ v.addrs, a < n) :
    (copy tables v n).1.erase = v.erase ∧ ∀ a ∈ mutAddrs tables (copy tables v n).1, a ∉ v.addrs :=
  c11_copy_total v n (schema_typed_allHandled v hv) hn

/-! ### The old copy table (before `fix: errors: Copy(s.errors)` + `case []error` in Copy)

FIXED FINDING C11:cypher.Copy:aliasing:<T>.errors — `copy()` of SinglePartQuery, UpdatingClause, Create and
FunctionInvocation copied the promoted slice `errors` shallowly (`errors: s.errors`) while `AddError` appends to it
in place, so with spare capacity an `AddError` on the copy overwrote the error the original had appended.
`tablesOld` is the current table with exactly that repair undone; the theorems below are about this named
constant, so they stay true whatever the current sources do. -/

def knownShared : List String := ["errors"]

/-- the copy table as it was: `errors` copied by assignment, no `case []error` in `Copy` -/
def tablesOld : Tables :=
  { tables with types := tables.types.map (fun d =>
      let d := { d with fields := d.fields.map (fun f =>
        if f.kind == .sliceScalar && knownShared.contains f.name then { f with mode := .shallow } else f) }
      if d.name == "[]error" then { d with copyCase := false, elemMode := .unknown, helpers := [] } else d) }

theorem schemaCopyOK_old_fails : schemaCopyOK tablesOld = false := by decide +kernel

def C11_copy_full_old : Prop :=
  ∀ (v : Val) (n : Nat), copyPanics tablesOld v = false → (∀ a ∈ v.addrs, a < n) →
    (copy tablesOld v n).1.erase = v.erase ∧ ∀ a ∈ mutAddrs tablesOld (copy tablesOld v n).1, a ∉ v.addrs

def tyOf (n : String) : Nat := tables.types.findIdx (fun d => d.name == n)

/-- `&SinglePartQuery{errorContext{errors: []error{e0}}}`: the old copy's `errors` slice is the original's -/
def witness : Val :=
  .node .obj 1 (tyOf "*cypher.SinglePartQuery") []
    [.node .list 2 (tyOf "[]error") [] [.scalar "*errors.errorString" "e0"], .nil, .nil, .nil]

theorem c11_copy_full_refuted_old : ¬ C11_copy_full_old := by
  intro h
  have h1 := (h witness 10 (by decide +kernel) (by decide +kernel)).2 2 (by decide +kernel)
  exact h1 (by decide +kernel)

/-- with the repaired table the same witness is copied apart -/
example : 2 ∉ mutAddrs tables (copy tables witness 10).1 := by decide +kernel

def tablesPartial_old : Tables := maskFrozen tablesOld knownShared

/-- `schemaCopyOK` held for the old table once the `errors` slices were set aside -/
theorem schemaCopyOK_partial_old : schemaCopyOK tablesPartial_old = true := by decide +kernel

/-- what did hold for the old table: equality, and freshness of everything but the `errors` slices -/
theorem c11_copy_partial_old (v : Val) (n : Nat) (hp : copyPanics tablesPartial_old v = false)
    (hn : ∀ a ∈ v.addrs, a < n) :
    (copy tablesPartial_old v n).1.erase = v.erase ∧
      ∀ a ∈ mutAddrs tablesPartial_old (copy tablesPartial_old v n).1, a ∉ v.addrs :=
  copy_equal_and_fresh tablesPartial_old schemaCopyOK_partial_old v n hp hn

/-- the minimal repair of the old table: `errors: Copy(s.errors)` with a `case []error:` that clones the slice -/
def tablesFixed_old : Tables :=
  { tablesOld with types := tablesOld.types.map (fun d =>
      let d := { d with fields := d.fields.map (fun f =>
        if f.kind == .sliceScalar && knownShared.contains f.name then { f with mode := .deep } else f) }
      if d.name == "[]error" then { d with copyCase := true, elemMode := .deep } else d) }

theorem schemaCopyOK_fixed_old : schemaCopyOK tablesFixed_old = true := by decide +kernel

/-- the full statement held for the repaired old table (what the fix was proved against before it landed) -/
theorem c11_copy_fixed_old (v : Val) (n : Nat) (hp : copyPanics tablesFixed_old v = false)
    (hn : ∀ a ∈ v.addrs, a < n) :
    (copy tablesFixed_old v n).1.erase = v.erase ∧
      ∀ a ∈ mutAddrs tablesFixed_old (copy tablesFixed_old v n).1, a ∉ v.addrs :=
  copy_equal_and_fresh tablesFixed_old schemaCopyOK_fixed_old v n hp hn

/-- the walking half of the property for the current code: both side conditions hold, so the generic theorems
apply to `tables` as they are -/
theorem c11_walk (v : Val) (hg : (treeOf tables tables.structural v).good = true) :
    let r := generic (fun _ => Act.continue) (treeOf tables tables.structural v)
    r.ret = some .ok ∧ (enters r.log).Nodup ∧
    (∀ l ∈ (treeOf tables (schemaTab tables) v).labels, l ∈ enters r.log) ∧
    ((treeOf tables tables.semantic v).good = true →
      ∀ l ∈ enters (generic (fun _ => Act.continue) (treeOf tables tables.semantic v)).log, l ∈ enters r.log) := by
  obtain ⟨h1, h2, h3⟩ := structural_visits_all tables branchesComplete_inst v hg
  exact ⟨h1, h2, h3, fun hs => semantic_subset_structural tables semanticSubset_inst v hs hg⟩

/-- The walking half of the property at full strength for the current code. -/
def C11_walk_full : Prop :=
  ∀ (v : Val), (treeOf tables tables.structural v).good = true →
    let r := generic (fun _ => Act.continue) (treeOf tables tables.structural v)
    r.ret = some .ok ∧ (enters r.log).Nodup ∧
    (∀ l ∈ (treeOf tables (schemaTab tables) v).labels, l ∈ enters r.log) ∧
    ((treeOf tables tables.semantic v).good = true →
      ∀ l ∈ enters (generic (fun _ => Act.continue) (treeOf tables tables.semantic v)).log, l ∈ enters r.log)

/-- C11 at full strength for the code as it is: both instance halves; the walker-protocol clauses (nesting, consume
schedules, immediate stop, nil branches, handler calls, reused visitors, termination) are the generic theorems of
section B, which hold for every tree and visitor and need no instance. -/
def C11_full : Prop := C11_copy_full ∧ C11_walk_full

theorem c11 : C11_full := ⟨c11_copy, fun v hg => c11_walk v hg⟩

/-! ## Non-vacuity -/

/-- `MATCH … RETURN`-like value: a RegularQuery → SingleQuery → SinglePartQuery with no errors -/
def sample : Val :=
  .node .obj 1 (tyOf "*cypher.RegularQuery") []
    [.node .obj 2 (tyOf "*cypher.SingleQuery") []
      [.node .obj 3 (tyOf "*cypher.SinglePartQuery") [] [.nil, .nil, .nil, .nil], .nil]]

example : copyPanics tables sample = false ∧ allHandled tables sample = true ∧ wellTyped tables sample = true ∧ (∀ a ∈ sample.addrs, a < 10) := by decide +kernel
example : (treeOf tables tables.structural sample).good = true ∧
    (treeOf tables tables.structural sample).labels.length = 3 := by decide +kernel
/-- a consuming, then cancelling visitor on a small tree: hypotheses of the index-form theorems are satisfiable -/
def tiny : Tree Nat := .node 0 [.node 1 [.node 2 []], .node 3 []]
example : (generic (scripted 2 .consume) tiny).log =
    [.enter 0, .enter 1, .exit 1, .visit 0, .enter 3, .exit 3, .exit 0] := by decide
example : (generic (scripted 4 (.done false)) tiny).log = [.enter 0, .enter 1, .enter 2, .exit 2] ∧
    (generic (scripted 4 (.done false)) tiny).ret = some .ok := by decide
example : (generic (scripted 3 (.error false)) tiny).ret = some .visitorError := by decide
example : (generic (fun _ => Act.continue) (.node 0 [.node 1 [], .bad] : Tree Nat)).ret = some .cursorError := by decide
example : (Tree.prune (fun n => n == 1) tiny).good = true := by decide
/-- SetError(nil) in every callback, with a Consume in Enter(1): nothing is cancelled -/
example : (genericCalls (fun h => if h.length == 2 then [.setError true, .consume] else [.setError true]) tiny).log =
    [.enter 0, .enter 1, .exit 1, .visit 0, .enter 3, .exit 3, .exit 0] ∧
    (genericCalls (fun h => if h.length == 2 then [.setError true, .consume] else [.setError true]) tiny).ret = some .ok := by
  decide
/-- a bare leaf root consumed in Enter, then a second walk with the same visitor object: all 4 nodes entered -/
example : (genericFrom (generic (scripted 1 .consume) (.node 9 [] : Tree Nat)).h (fun _ => Act.continue) tiny).log.length = 9 := by
  decide
/-- Consume in Enter(1) and again in Exit(1): the sibling 3 is still walked -/
example : (generic (fun h => if h.length == 2 || h.length == 3 then Act.consume else .continue) tiny).log =
    [.enter 0, .enter 1, .exit 1, .visit 0, .enter 3, .exit 3, .exit 0] := by decide

end Dawgs.C11.Props
