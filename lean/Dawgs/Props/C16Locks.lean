/-
C16 T-tie: the lock skeleton the reduction theorem (Props/C16Conc.lean) assumes, checked by `decide`
against the table regenerated from /repo/cache/*.go on every run.
-/
import Dawgs.Generated.C16Locks
namespace Dawgs.C16.Locks

abbrev Rec := String × String × String × String × List String × List String × List String
def Rec.typ (r : Rec) := r.1
def Rec.name (r : Rec) := r.2.1
def Rec.lock (r : Rec) := r.2.2.1
def Rec.unlock (r : Rec) := r.2.2.2.1
def Rec.sharedWrites (r : Rec) : List String := r.2.2.2.2.1.filter (fun w => !(w.startsWith "local:"))
def Rec.helpers (r : Rec) := r.2.2.2.2.2.2

def helperNames : List String := ["putEntry", "removeEntry", "evict"]
def cacheTypes : List String := ["Sieve", "NonExpiringMapCache"]

def isHelperCall (c : String) : Bool := helperNames.any (fun h => c.endsWith ("." ++ h))

/-- What the LTS of Model/C16Conc.lean assumes about the code:
* `Put`/`Delete` of both caches run entirely under `rwLock.Lock()` with a deferred `Unlock()`;
* `Get` runs under `RLock()`/deferred `RUnlock()`, performs no plain write to shared state and calls no
  mutating helper — only atomic operations (`Stats.Hit/Miss`, `visited.Store`);
* every other method that writes shared state or calls a mutating helper is one of the lock-free
  helpers, and those are reached only from `Put`/`Delete` or from each other;
* the `Stats` counters are touched only through atomic `Add`/`Load`. -/
def skeletonOK (ms : List Rec) : Bool :=
  cacheTypes.all (fun ty =>
    (ms.any (fun r => r.typ == ty && r.name == "Put" && r.lock == "Lock" && r.unlock == "Unlock")) &&
    (ms.any (fun r => r.typ == ty && r.name == "Delete" && r.lock == "Lock" && r.unlock == "Unlock")) &&
    (ms.any (fun r => r.typ == ty && r.name == "Get" && r.lock == "RLock" && r.unlock == "RUnlock" &&
      r.sharedWrites.isEmpty && r.helpers.isEmpty))) &&
  ms.all (fun r =>
    if cacheTypes.contains r.typ then
      (r.name == "Put" || r.name == "Delete" || helperNames.contains r.name) ||
        (r.sharedWrites.isEmpty && r.helpers.isEmpty)
    else r.sharedWrites.isEmpty && r.helpers.isEmpty) &&
  -- exactly one Put/Get/Delete per cache type (no shadowing variant without the lock)
  cacheTypes.all (fun ty => ["Put", "Get", "Delete"].all (fun n =>
    (ms.filter (fun r => r.typ == ty && r.name == n)).length == 1))

theorem lock_skeleton_ok : skeletonOK Generated.C16Locks.methods = true := by decide

end Dawgs.C16.Locks
