/-
C10 T-tie: the tables regenerated from /repo on every run (Generated/C10.lean: exported API of query and query/neo4j,
the functions of format.go, and every case of the switches of the emitter, the rewriters and the builders) against the
hand-written classification in Spec/C10Cover.lean. Each theorem is a kernel-checked `decide`: a new exported function,
a new emitter function, a new switch or a new case is unclassified; a removed one leaves a stale row; both break the
obligation, and the check then searches the implementation with the monitor (lib/flow.py).
-/
import Dawgs.Generated.C10
import Dawgs.Spec.C10Cover
namespace Dawgs.C10.Tie
open Dawgs.Generated.C10 Dawgs.C10.Cover

theorem query_exports_classified : covered exports_query Cover.query = true := by decide +kernel
theorem neo4j_exports_classified : covered exports_neo4j Cover.neo4j = true := by decide +kernel
theorem format_functions_classified : covered funcs_format formatFuncs = true := by decide +kernel
theorem switches_known : switchTables = switchNames := by decide +kernel

theorem writeExpression_cases_classified : covered cases_format_Emitter_WriteExpression_0 writeExpression = true := by decide +kernel
theorem formatLiteral_cases_classified : covered cases_format_Emitter_formatLiteral_0 formatLiteral = true := by decide +kernel
theorem bindsLooser_cases_classified : covered cases_format_bindsLooserThan_0 bindsLooser = true := by decide +kernel
theorem updatingClause_cases_classified : covered cases_format_Emitter_formatUpdatingClause_0 updatingClause = true := by decide +kernel
theorem relPattern_cases_classified :
    covered cases_format_Emitter_formatRelationshipPattern_0 relDirectionOpen = true ∧
    covered cases_format_Emitter_formatRelationshipPattern_1 relDirectionClose = true := by decide +kernel
theorem formatSet_cases_classified : covered cases_format_Emitter_formatSet_0 setOperator = true := by decide +kernel

theorem rewriter_cases_classified :
    covered cases_neo4jRewrite_ExpressionListRewriter_Exit_0 rewriterExit = true ∧
    covered cases_neo4jRewrite_ExpressionListRewriter_Exit_1 rewriterExitInner = true ∧
    covered cases_neo4jRewrite_unwrapParenthetical_0 unwrapParen = true ∧
    covered cases_neo4jRewrite_ExpressionListRewriter_rewriteStringNegation_0 stringNegation = true ∧
    covered cases_neo4jRewrite_ExpressionListRewriter_rewriteStringNegation_1 stringNegationOps = true ∧
    covered cases_queryRewrite_ParameterRewriter_Enter_0 paramRewriter = true := by decide +kernel

theorem builder_cases_classified :
    covered cases_neo4jBuilder_QueryBuilder_Apply_0 apply = true ∧
    covered cases_queryBuilder_Builder_Apply_0 apply = true ∧
    covered cases_neo4jBuilder_QueryBuilder_prepareMatch_0 prepareMatchVar = true ∧
    covered cases_neo4jBuilder_QueryBuilder_prepareMatch_1 (prepareMatchSymbols4 "query.") = true ∧
    covered cases_neo4jBuilder_QueryBuilder_prepareMatch_2 prepareMatchClauses = true ∧
    covered cases_neo4jBuilder_QueryBuilder_prepareMatch_3 prepareMatchElements = true ∧
    covered cases_neo4jBuilder_QueryBuilder_prepareMatch_4 (prepareMatchSymbols3 "query.") = true ∧
    covered cases_neo4jBuilder_QueryBuilder_prepareMatch_5 (prepareMatchSymbols1 "query.") = true ∧
    covered cases_queryBuilder_Builder_prepareMatch_0 prepareMatchVar = true ∧
    covered cases_queryBuilder_Builder_prepareMatch_1 (prepareMatchSymbols4 "") = true ∧
    covered cases_queryBuilder_Builder_prepareMatch_2 prepareMatchClauses = true ∧
    covered cases_queryBuilder_Builder_prepareMatch_3 prepareMatchElements = true ∧
    covered cases_queryBuilder_Builder_prepareMatch_4 (prepareMatchSymbols3 "") = true ∧
    covered cases_queryBuilder_Builder_prepareMatch_5 (prepareMatchSymbols1 "") = true := by decide +kernel

theorem constructor_cases_classified :
    covered cases_queryModel_Updatef_0 updatef = true ∧
    covered cases_queryModel_KindsOf_0 kindsOfRef = true ∧
    covered cases_queryModel_KindsOf_1 kindsOfSymbol = true ∧
    covered cases_queryModel_InIDs_0 inIDs = true ∧
    covered cases_queryModel_Order_0 orderDir = true ∧
    covered cases_queryModel_Delete_0 deleteSymbol = true ∧
    covered cases_queryModel_Create_0 createElement = true ∧
    covered cases_queryModel_Create_1 createSymbol = true ∧
    covered cases_queryModel_Returning_0 returning = true ∧
    covered cases_queryModel_SinglePartQuery_0 singlePartQuery = true := by decide +kernel

end Dawgs.C10.Tie
