/-
C16 — "coherent" beyond refinement: the caches forget ONLY what their policy says, and their hit / miss
statistics are exact.  `sieve_refines_map` alone would be satisfied by a cache that drops entries at will (every
lookup may be a miss); the theorems here close that gap for every reachable state.
ONLY property statements and non-vacuity examples live here; lemmas are in Proofs/C16Retain.lean.
-/
import Dawgs.Proofs.C16Retain
import Dawgs.Proofs.C16Fits
import Dawgs.Props.C16
namespace Dawgs.C16.Props
open Dawgs.C16

/-- SIEVE retention, for every state reachable by any history from any constructor argument and every next
operation: `Get` changes nothing that is stored; `Delete k` removes k only; `Put k v` stores (k, v) and
— k stored already: keeps the key set; k new and room left: evicts nothing; k new and cache full: evicts exactly
one stored key — and in every case all other bindings keep their values. -/
theorem sieve_step_retention (c : Int) (ops : List Op) (o : Op) :
    let s := (Sieve.new c).run ops
    let s' := (s.step o).1
    match o with
    | .get _ => keys s'.queue = keys s.queue ∧ ∀ x, valOf s'.queue x = valOf s.queue x
    | .del k => keys s'.queue = (keys s.queue).filter (· != k) ∧ ∀ x, x ≠ k → valOf s'.queue x = valOf s.queue x
    | .put k v =>
      valOf s'.queue k = some v ∧
      ((k ∈ keys s.queue → keys s'.queue = keys s.queue ∧ ∀ x, x ≠ k → valOf s'.queue x = valOf s.queue x) ∧
       (k ∉ keys s.queue → s.queue.length < sieveCap c →
          keys s'.queue = k :: keys s.queue ∧ ∀ x, x ≠ k → valOf s'.queue x = valOf s.queue x) ∧
       (k ∉ keys s.queue → sieveCap c ≤ s.queue.length →
          ∃ h, h ∈ keys s.queue ∧ keys s'.queue = k :: (keys s.queue).filter (· != h) ∧
            ∀ x, x ≠ k → x ≠ h → valOf s'.queue x = valOf s.queue x)) := by
  intro s s'
  have hi : s.Inv := Sieve.run_inv (Sieve.inv_new c) ops
  have hcap : s.cap = sieveCap c := Sieve.run_cap (Sieve.new c) ops
  cases o with
  | get k => exact Sieve.get_frame s k
  | del k => exact Sieve.delete_frame s k
  | put k v =>
    refine ⟨?_, fun hk => Sieve.put_frame_present hk v, fun hk hroom => Sieve.put_frame_room hk (hcap ▸ hroom) v,
      fun hk hfull => Sieve.put_frame_full hi hk (by rw [hcap]; exact hfull) v⟩
    have := Sieve.get_after_put s k v
    show valOf (s.put k v).queue k = some v
    unfold Sieve.get at this
    cases hf : find (s.put k v).queue k with
    | some e => simp only [hf] at this; simp [valOf, hf]; simpa using this
    | none => simp [hf] at this

/-- The SIEVE hit / miss counters after any history are exactly the numbers of hits and misses the callers were
given, and together the number of `Get` calls. -/
theorem sieve_counters_exact (c : Int) (ops : List Op) :
    let s := (Sieve.new c).run ops
    let t := (Sieve.new c).trace ops
    s.hits = (t.filter isHit).length ∧ s.misses = (t.filter isMiss).length ∧
    s.hits + s.misses = (ops.filter isGet).length := by
  intro s t
  have h := Sieve.counters (Sieve.new c) ops
  have hg := Sieve.trace_gets (Sieve.new c) ops
  have h1 : s.hits = (t.filter isHit).length := by
    have := h.1; simp only [Sieve.new, Nat.zero_add] at this; exact this
  have h2 : s.misses = (t.filter isMiss).length := by
    have := h.2; simp only [Sieve.new, Nat.zero_add] at this; exact this
  exact ⟨h1, h2, by rw [h1, h2]; exact hg⟩

/-- The map cache never evicts: from every reachable state, `Get` and `Put` keep every stored key, `Put k` changes
no other key's value, a `Put` of a new key into a full cache is dropped (the state is unchanged), and `Delete k`
removes k only. -/
theorem nemap_step_retention (c : Int) (ops : List Op) (o : Op) :
    let s := (NeMap.new c).run ops
    let s' := (s.step o).1
    match o with
    | .get _ => s'.store = s.store
    | .del k => skeys s'.store = (skeys s.store).filter (· != k) ∧ ∀ x, x ≠ k → s'.lookup x = s.lookup x
    | .put k _ =>
      (∀ x, x ∈ skeys s.store → x ∈ skeys s'.store) ∧ (∀ x, x ≠ k → s'.lookup x = s.lookup x) ∧
      (s.lookup k = none → ¬ s.size < s.cap → s' = s) := by
  intro s s'
  cases o with
  | get k => exact NeMap.get_frame s k
  | del k => exact NeMap.delete_frame s k
  | put k v =>
    exact ⟨(NeMap.put_frame s k v).1, (NeMap.put_frame s k v).2, fun hk hfull => NeMap.put_full_dropped hk hfull v⟩


/-- A SIEVE cache whose working set fits never forgets: if all keys the history ever puts lie in a list `U` of at most
`capacity` keys, then EVERY lookup of the history is answered exactly as the ideal never-evicting map answers it — hit
with the latest undeleted value, miss only when there is none.  (With `sieve_refines_map` a miss was always allowed;
here it is allowed only when the ideal map misses too.) -/
theorem sieve_exact_when_working_set_fits (c : Int) (ops : List Op) (U : List Nat)
    (hU : putKeys ops ⊆ U) (hlen : U.length ≤ sieveCap c) :
    (Sieve.new c).trace ops = idealTrace [] ops := by
  have hcap : (Sieve.new c).cap = sieveCap c := rfl
  exact Sieve.exact_trace U (Sieve.inv_new c) (fun x => by simp [Sieve.new, valOf_nil, Ideal.get])
    (by simp [Sieve.new, keys]) (fun l hn hs => by
      rw [hcap]; exact Nat.le_trans (List.Nodup.length_le_of_subset hn hs) hlen) ops hU

/-- The same for the map cache (which never evicts but REFUSES new keys when full): if the keys the history puts lie
in a list of at most `capacity` keys, nothing is ever refused and the trace equals the ideal map's. -/
theorem nemap_exact_when_working_set_fits (c : Int) (ops : List Op) (U : List Nat)
    (hU : putKeys ops ⊆ U) (hlen : (U.length : Int) ≤ c) :
    (NeMap.new c).trace ops = idealTrace [] ops := by
  have hcap : (NeMap.new c).cap = c := rfl
  exact NeMap.exact_trace U (NeMap.inv_new c) (fun x => by simp [NeMap.new, NeMap.lookup, Ideal.get])
    (by simp [NeMap.new, skeys]) (fun l hn hs => by
      rw [hcap]
      have := List.Nodup.length_le_of_subset hn hs
      omega) ops hU

/-! Non-vacuity: the three `Put` cases and the eviction witness occur on reachable states; the counters move. -/
example :
    let s := (Sieve.new 2).run [Op.put 1 10, .put 2 20, .get 1]
    sieveCap 2 ≤ s.queue.length ∧ 3 ∉ keys s.queue ∧
    keys ((s.step (.put 3 30)).1.queue) = 3 :: (keys s.queue).filter (· != 2) := by decide
example :
    let s := (Sieve.new 3).run [Op.put 1 10, .put 2 20]
    s.queue.length < sieveCap 3 ∧ keys ((s.step (.put 3 30)).1.queue) = 3 :: keys s.queue := by decide
example :
    let s := (Sieve.new 2).run [Op.put 1 10, .get 1, .get 7, .get 1]
    s.hits = 2 ∧ s.misses = 1 := by decide
example :
    let s := (NeMap.new 1).run [Op.put 1 10]
    s.lookup 2 = none ∧ ¬ s.size < s.cap ∧ (s.step (.put 2 20)).1 = s := by decide
example :
    let ops := [Op.put 1 10, .put 2 20, .get 1, .put 1 11, .del 2, .get 2, .get 1, .put 2 21, .get 2]
    putKeys ops ⊆ [1, 2] ∧ [1, 2].length ≤ sieveCap 2 ∧
    ((Sieve.new 2).trace ops).map (·.2) =
      [Out.unit, .unit, .hit 10, .unit, .unit, .miss, .hit 11, .unit, .hit 21] := by decide
/-- the hypothesis is needed: three keys through a cache of two lose one. -/
example :
    let ops := [Op.put 1 10, .put 2 20, .put 3 30, .get 1]
    (Sieve.new 2).trace ops ≠ idealTrace [] ops := by decide
example :
    let ops := [Op.put 1 10, .put 2 20, .get 1, .put 1 11, .del 2, .get 2, .get 1, .put 2 21, .get 2]
    putKeys ops ⊆ [1, 2] ∧ (([1, 2] : List Nat).length : Int) ≤ 2 ∧
    ((NeMap.new 2).trace ops).map (·.2) =
      [Out.unit, .unit, .hit 10, .unit, .unit, .miss, .hit 11, .unit, .hit 21] := by decide
example :
    let ops := [Op.put 1 10, .put 2 20, .put 3 30, .get 3]
    (NeMap.new 2).trace ops ≠ idealTrace [] ops := by decide

end Dawgs.C16.Props
