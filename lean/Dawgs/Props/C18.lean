/-
C18 — dump followed by load reproduces the graph.
ONLY property statements and non-vacuity examples live here; lemmas are in Proofs/C18.lean.

All theorems quantify over every property type, every codec with `dec ∘ enc = id`, every well-formed
database graph (`WF`: distinct node ids, distinct relationship ids, endpoints inside the graph — arbitrary
ids with gaps, any kinds incl. none, parallel relationships, self loops, the empty graph), every batch and
shard size ≥ 1 and every injective id allocator of the destination.
-/
import Dawgs.Proofs.C18
import Dawgs.Proofs.C18Metrics
import Dawgs.Proofs.C18Multi
import Dawgs.Model.C18Num
import Dawgs.Model.C18Json
namespace Dawgs.C18.Props
open Dawgs.C18

/-- The keyset scan visits every entity exactly once in strictly increasing id order, whatever the
batch size; the count-reconciliation cases are explicit: if the counted total exceeds what the
source holds the scan reports `shortRead` (never a silent partial dump), if it is smaller the scan
stops after the `total` smallest ids. -/
theorem scan_exactly_once {α : Type} (key : α → Nat) (xs : List α) (hnd : (xs.map key).Nodup)
    (batch : Nat) (hb : 1 ≤ batch) (total : Nat) :
    (total = xs.length →
      ∃ out, scan key xs total batch = .ok out ∧ out.Perm xs ∧ out.Pairwise (fun a b => key a < key b)) ∧
    (total ≤ xs.length → scan key xs total batch = .ok ((sortBy key xs).take total)) ∧
    (xs.length < total → scan key xs total batch = .error .shortRead) := by
  have h := scan_spec key xs total batch hb hnd
  refine ⟨?_, ?_, ?_⟩
  · intro ht
    refine ⟨sortBy key xs, ?_, sortBy_perm key xs, sortBy_strict key xs hnd⟩
    rw [h, if_pos (by omega), ht]
    congr 1
    apply List.take_of_length_le
    rw [sortBy_length]; exact Nat.le_refl _
  · intro ht; rw [h, if_pos ht]
  · intro ht; rw [h, if_neg (by omega)]

/-- Shards partition the scan: concatenating the fragments gives back the scan order; every fragment
is non-empty and holds at most `ShardSize` records; every fragment except the last is exactly full;
an empty phase writes no fragment; a phase of exactly `k · ShardSize` records writes exactly `k` full
fragments (rollover at equality leaves no trailing empty fragment). -/
theorem shard_partition {α : Type} (shard : Nat) (hs : 1 ≤ shard) (xs : List α) :
    (shards shard xs).flatten = xs ∧
    (∀ f ∈ shards shard xs, f ≠ [] ∧ f.length ≤ shard) ∧
    (∀ f ∈ (shards shard xs).dropLast, f.length = shard) ∧
    (xs = [] → shards shard xs = []) ∧
    (∀ k, xs.length = k * shard → (shards shard xs).length = k ∧ ∀ f ∈ shards shard xs, f.length = shard) :=
  ⟨shards_flatten shard xs, shards_sizes shard hs xs, shards_full_but_last shard hs xs.length xs (Nat.le_refl _),
   fun h => by subst h; rfl, fun k h => shards_multiple shard hs k xs h⟩

/-- A dump of a well-formed graph succeeds and its manifest describes exactly the files written:
entries and files correspond one to one in order (path, phase, digest and byte size of the file's
bytes, count = number of records the file decodes to), paths are pairwise distinct, node entries come
before edge entries, and the manifest's node/edge counts equal both the per-file totals and the
source's entity counts. -/
theorem manifest_describes_files {P B D : Type} (c : Codec P B D) (g : Graph P) (hw : WF g)
    (batch shard : Nat) (hb : 1 ≤ batch) :
    ∃ gd, dumpGraph c g batch shard = .ok gd ∧
      Describes c gd.manifest.files gd.files ∧
      (gd.files.map (fun f => f.1)).Nodup ∧
      gd.manifest.nodeCount = g.nodes.length ∧ gd.manifest.edgeCount = g.edges.length ∧
      ∃ ne ee, gd.manifest.files = ne ++ ee ∧
        (∀ e ∈ ne, e.phase = .nodes) ∧ (∀ e ∈ ee, e.phase = .edges) ∧
        countSum ne = gd.manifest.nodeCount ∧ countSum ee = gd.manifest.edgeCount := by
  obtain ⟨m, _, hd⟩ := dumpGraph_ok c g hw batch shard hb
  refine ⟨_, hd, assemble_describes c g shard _ _ m, assemble_paths_nodup c g shard _ _ m, rfl, rfl, ?_⟩
  refine ⟨_, _, assemble_entries c g shard _ _ m, ?_, ?_, ?_, ?_⟩
  · exact entries_phase c g.name .nodes _ 1
  · exact entries_phase c g.name .edges _ 1
  · rw [node_count_sum]; exact sortBy_length _ _
  · rw [edge_count_sum]; exact sortBy_length _ _

/-- `load (dump g) ≅ g`: loading the dump of a well-formed graph into an empty target succeeds and the
result is isomorphic to the source under the loader's id map — same node count and relationship count,
same kinds and properties per node, endpoints re-pointed through the map, relationship kinds and
properties preserved, parallel relationships preserved as a multiset — whatever the dump batch/shard
sizes, the load batch size and the destination's (injective) id allocator and counters. -/
theorem load_iso {P B D : Type} [DecidableEq D] (c : Codec P B D) (g : Graph P) (hw : WF g)
    (batch shard lbatch : Nat) (hb : 1 ≤ batch)
    (alloc allocE : Nat → Nat) (halloc : ∀ a b, alloc a = alloc b → a = b) (nc ec : Nat) :
    ∃ gd d idmap, dumpGraph c g batch shard = .ok gd ∧
      load c gd lbatch alloc allocE { nodes := [], edges := [], nodeCtr := nc, edgeCtr := ec } = .ok (d, idmap) ∧
      Iso g d.nodes d.edges (phiOf idmap) ∧
      d.nodes.length = g.nodes.length ∧ d.edges.length = g.edges.length := by
  obtain ⟨m, _, hd⟩ := dumpGraph_ok c g hw batch shard hb
  have hperm : (sortedNodes g).Perm g.nodes := sortBy_perm _ _
  have hpermE : (sortedEdges g).Perm g.edges := sortBy_perm _ _
  have hN : ((sortedNodes g).map (fun n => n.id)).Nodup := (hperm.map _).nodup_iff.mpr hw.nodeIds
  have hE : ∀ e ∈ sortedEdges g, e.src ∈ (sortedNodes g).map (fun n => n.id) ∧ e.dst ∈ (sortedNodes g).map (fun n => n.id) := by
    intro e he
    obtain ⟨⟨n1, hn1, h1⟩, ⟨n2, hn2, h2⟩⟩ := hw.endpoints e (hpermE.mem_iff.mp he)
    exact ⟨List.mem_map.mpr ⟨n1, hperm.mem_iff.mpr hn1, h1⟩, List.mem_map.mpr ⟨n2, hperm.mem_iff.mpr hn2, h2⟩⟩
  have hl := load_assemble c g shard lbatch (sortedNodes g) (sortedEdges g) m alloc allocE nc ec hN hE
    (sortBy_length _ _) (sortBy_length _ _)
  refine ⟨_, _, _, hd, hl, iso_of_load g hw alloc allocE halloc nc ec, ?_, ?_⟩
  · show (newNodes alloc nc ((sortedNodes g).map Node.toRec)).length = g.nodes.length
    rw [newNodes_length, List.length_map]; exact sortBy_length _ _
  · show (newEdges allocE _ ec ((sortedEdges g).map Edge.toRec)).length = g.edges.length
    rw [newEdges_length, List.length_map]; exact sortBy_length _ _

/-- `Verify` succeeds exactly when the metrics collection succeeds and the histograms the code
compares agree (entity counts, node kind sets, relationship kinds, in/out/total degree, endpoint
kind triples). This is *not* graph isomorphism — see `verify_gap`. -/
theorem verify_iff_match {P : Type} (expected : Metrics) (nodes : List (Node P)) (edges : List (Edge P)) :
    verify expected nodes edges = .ok ↔
      ∃ actual, graphMetrics nodes edges = some actual ∧ MetricsAgree expected actual :=
  verify_ok_iff expected nodes edges

/-- The Verify clause, precisely. `Verify` collects the metrics of the database graph (`graphMetrics`: id-ordered
scans; `none` when a relationship endpoint is not a node of the graph) and compares them with the manifest's:
* it succeeds exactly when the collection succeeds and the metrics are EQUAL in the sense of
  `compareGraphMetrics`: equal node and relationship counts and, for each of the six histograms (node kind
  sets, relationship kinds, in-, out-, total degree, endpoint kind triples), equal as multisets of keys;
* it reports a mismatch exactly when the collection succeeds and they are not;
* it errors exactly when the collection fails.
Metrics equality is implied by isomorphism (`verify_accepts_loaded`, `AllOk.verify`) but does not imply it
(`verify_gap`): that direction of "exactly when the graphs match" is the refuted part of `C18_full`. -/
theorem verify_iff_metrics_equal {P : Type} (expected : Metrics) (nodes : List (Node P)) (edges : List (Edge P)) :
    (verify expected nodes edges = .ok ↔ ∃ actual, graphMetrics nodes edges = some actual ∧ MetricsAgree expected actual) ∧
    (verify expected nodes edges = .mismatch ↔ ∃ actual, graphMetrics nodes edges = some actual ∧ ¬ MetricsAgree expected actual) ∧
    (verify expected nodes edges = .error ↔ graphMetrics nodes edges = none) ∧
    (∀ actual, MetricsAgree expected actual ↔
      expected.nodeCount = actual.nodeCount ∧ expected.edgeCount = actual.edgeCount ∧
      expected.nodeKinds.Perm actual.nodeKinds ∧ expected.edgeKinds.Perm actual.edgeKinds ∧
      expected.inDeg.Perm actual.inDeg ∧ expected.outDeg.Perm actual.outDeg ∧ expected.totDeg.Perm actual.totDeg ∧
      expected.endpoints.Perm actual.endpoints) := by
  refine ⟨verify_ok_iff expected nodes edges, ?_, ?_, ?_⟩
  · unfold verify
    cases hm : graphMetrics nodes edges with
    | none => simp
    | some actual =>
      simp only [Option.some.injEq, exists_eq_left']
      rw [← agree_iff]
      by_cases h : expected.agree actual = true <;> simp [h]
  · unfold verify
    cases hm : graphMetrics nodes edges with
    | none => simp
    | some actual => by_cases h : expected.agree actual = true <;> simp [h]
  · intro actual
    constructor
    · intro h
      exact ⟨h.nodeCount, h.edgeCount, (histAgree_iff_perm _ _).mp h.nodeKinds, (histAgree_iff_perm _ _).mp h.edgeKinds,
        (histAgree_iff_perm _ _).mp h.inDeg, (histAgree_iff_perm _ _).mp h.outDeg, (histAgree_iff_perm _ _).mp h.totDeg,
        (histAgree_iff_perm _ _).mp h.endpoints⟩
    · rintro ⟨h1, h2, h3, h4, h5, h6, h7, h8⟩
      exact ⟨h1, h2, (histAgree_iff_perm _ _).mpr h3, (histAgree_iff_perm _ _).mpr h4, (histAgree_iff_perm _ _).mpr h5,
        (histAgree_iff_perm _ _).mpr h6, (histAgree_iff_perm _ _).mpr h7, (histAgree_iff_perm _ _).mpr h8⟩

/-- Verification of the loaded database against the manifest succeeds: the metrics `Verify` collects from
`load (dump g)` agree with the metrics the dump recorded (the histograms are invariant under the loader's node
correspondence and under the order in which the destination returns entities). -/
theorem verify_accepts_loaded {P B D : Type} [DecidableEq D] (c : Codec P B D) (g : Graph P) (hw : WF g)
    (batch shard lbatch : Nat) (hb : 1 ≤ batch)
    (alloc allocE : Nat → Nat) (halloc : ∀ a b, alloc a = alloc b → a = b) (nc ec : Nat) :
    ∃ gd d idmap, dumpGraph c g batch shard = .ok gd ∧
      load c gd lbatch alloc allocE { nodes := [], edges := [], nodeCtr := nc, edgeCtr := ec } = .ok (d, idmap) ∧
      verify gd.manifest.metrics d.nodes d.edges = .ok := by
  obtain ⟨m, hm, hd⟩ := dumpGraph_ok c g hw batch shard hb
  have hperm : (sortedNodes g).Perm g.nodes := sortBy_perm _ _
  have hpermE : (sortedEdges g).Perm g.edges := sortBy_perm _ _
  have hN : ((sortedNodes g).map (fun n => n.id)).Nodup := (hperm.map _).nodup_iff.mpr hw.nodeIds
  have hE : ∀ e ∈ sortedEdges g, e.src ∈ (sortedNodes g).map (fun n => n.id) ∧ e.dst ∈ (sortedNodes g).map (fun n => n.id) := by
    intro e he
    obtain ⟨⟨n1, hn1, h1⟩, ⟨n2, hn2, h2⟩⟩ := hw.endpoints e (hpermE.mem_iff.mp he)
    exact ⟨List.mem_map.mpr ⟨n1, hperm.mem_iff.mpr hn1, h1⟩, List.mem_map.mpr ⟨n2, hperm.mem_iff.mpr hn2, h2⟩⟩
  have hl := load_assemble c g shard lbatch (sortedNodes g) (sortedEdges g) m alloc allocE nc ec hN hE
    (sortBy_length _ _) (sortBy_length _ _)
  exact ⟨_, _, _, hd, hl, verify_loaded g hw alloc allocE halloc nc ec m hm⟩

/-! ### The whole collection: several graphs -/

/-- `Dump` over a target list: it succeeds and the manifest holds one entry per target graph — every graph
exactly once, in the order of the target list — and, when the target names are distinct, all fragment paths
of the directory are distinct (no graph writes into another graph's files). -/
theorem dump_all_graphs {P B D : Type} (c : Codec P B D) (db : List (Graph P)) (hw : ∀ g ∈ db, WF g)
    (batch shard : Nat) (hb : 1 ≤ batch) :
    ∃ ds, dumpAll c batch shard db = .ok ds ∧ ds.length = db.length ∧
      ds.map (fun d => d.manifest.name) = db.map (fun g => g.name) ∧
      ((db.map (fun g => g.name)).Nodup → ((allFiles ds).map (fun f => f.1)).Nodup) := by
  obtain ⟨ds, hds, hD⟩ := dumpAll_spec c batch shard hb db hw
  exact ⟨ds, hds, Dumped.length c shard db ds hD, Dumped.names c shard db ds hD, Dumped.paths_nodup c shard db ds hD⟩

/-- `Load` of the dump of a multi-graph database into an empty database: all fragments verify, every graph of
the manifest is loaded exactly once in the manifest's order, and for EACH graph (`AllOk` / `GraphOk`): the
manifest entry describes its files and counts, the loaded graph is isomorphic to the source graph under that
graph's own id map, the id map holds exactly that graph's source node ids (nothing leaks between graphs; the
destination's creation counters simply run on), and Verify accepts it. -/
theorem load_all_graphs {P B D : Type} [DecidableEq D] (c : Codec P B D) (db : List (Graph P)) (hw : ∀ g ∈ db, WF g)
    (hnames : (db.map (fun g => g.name)).Nodup) (batch shard lbatch : Nat) (hb : 1 ≤ batch)
    (alloc allocE : Nat → Nat) (halloc : ∀ a b, alloc a = alloc b → a = b) (nc ec : Nat) :
    ∃ ds rs, dumpAll c batch shard db = .ok ds ∧
      loadAll c (allFiles ds) (ds.map (fun d => d.manifest)) lbatch alloc allocE nc ec = .ok rs ∧
      AllOk c db ds rs := by
  obtain ⟨ds, hds, hD⟩ := dumpAll_spec c batch shard hb db hw
  have hnd := Dumped.paths_nodup c shard db ds hD hnames
  have hsub : ∀ d ∈ ds, ∀ f ∈ d.files, f ∈ allFiles ds := by
    intro d hd f hf
    unfold allFiles
    exact List.mem_flatten.mpr ⟨d.files, List.mem_map.mpr ⟨d, hd, rfl⟩, hf⟩
  obtain ⟨rs, hrs, hok⟩ := loadGraphs_spec c shard lbatch alloc allocE halloc (allFiles ds) hnd db ds hD hw hsub nc ec
  refine ⟨ds, rs, hds, ?_, hok⟩
  unfold loadAll
  rw [verifyAll_spec c shard (allFiles ds) hnd db ds hD hw hsub]
  exact hrs

/-- The manifest's metrics and counts describe the source graph exactly: for every graph of the dump the recorded
metrics are the metrics of the id-ordered node / relationship streams of that source graph (`metricsOf` of
`dumpNodeObs` / `dumpEdgeObs`), and its node / relationship counts are the source's. Together with
`manifest_describes_files` (per-file count, byte size, digest) this is the clause "the manifest's counts,
checksums and metrics describe exactly the files written". -/
theorem manifest_metrics_exact {P B D : Type} (c : Codec P B D) (db : List (Graph P)) (hw : ∀ g ∈ db, WF g)
    (batch shard : Nat) (hb : 1 ≤ batch) :
    ∃ ds, dumpAll c batch shard db = .ok ds ∧
      ∀ g d, (g, d) ∈ db.zip ds →
        metricsOf (dumpNodeObs g) (dumpEdgeObs g) = some d.manifest.metrics ∧
        d.manifest.nodeCount = g.nodes.length ∧ d.manifest.edgeCount = g.edges.length ∧
        d.manifest.metrics.nodeCount = g.nodes.length ∧ d.manifest.metrics.edgeCount = g.edges.length := by
  obtain ⟨ds, hds, hD⟩ := dumpAll_spec c batch shard hb db hw
  refine ⟨ds, hds, ?_⟩
  clear hds hw
  induction db generalizing ds with
  | nil => intro g d h; simp at h
  | cons g0 gs ih =>
    cases ds with
    | nil => exact absurd hD (by simp [Dumped])
    | cons d0 ds =>
      simp only [Dumped] at hD
      obtain ⟨⟨m, hm, rfl⟩, hrest⟩ := hD
      intro g d h
      simp only [List.zip_cons_cons, List.mem_cons, Prod.mk.injEq] at h
      rcases h with ⟨rfl, rfl⟩ | h
      · refine ⟨hm, rfl, rfl, ?_, ?_⟩
        · have : m.nodeCount = (dumpNodeObs g).length := by
            unfold metricsOf at hm
            split at hm
            · cases hm; rfl
            · cases hm
          show m.nodeCount = _
          rw [this]; unfold dumpNodeObs; rw [List.length_map]; exact sortBy_length _ _
        · have : m.edgeCount = (dumpEdgeObs g).length := by
            unfold metricsOf at hm
            split at hm
            · cases hm; rfl
            · cases hm
          show m.edgeCount = _
          rw [this]; unfold dumpEdgeObs; rw [List.length_map]; exact sortBy_length _ _
      · exact ih ds hrest g d h

/-! ### The gap between metrics equality and isomorphism -/

/-- two self loops -/
def gapA : Graph Unit := { name := "g", nodes := [⟨1, [], ()⟩, ⟨2, [], ()⟩], edges := [⟨1, 1, 1, "R", ()⟩, ⟨2, 2, 2, "R", ()⟩] }
/-- a 2-cycle on the same two nodes -/
def gapB : Graph Unit := { name := "g", nodes := [⟨1, [], ()⟩, ⟨2, [], ()⟩], edges := [⟨1, 1, 2, "R", ()⟩, ⟨2, 2, 1, "R", ()⟩] }

def gapMetrics : Metrics :=
  { nodeCount := 2, edgeCount := 2, nodeKinds := [[], []], edgeKinds := ["R", "R"], inDeg := [1, 1], outDeg := [1, 1],
    totDeg := [2, 2], endpoints := [([], "R", []), ([], "R", [])] }

theorem gapA_wf : WF gapA := by constructor <;> decide
theorem gapB_wf : WF gapB := by constructor <;> decide

theorem sorted_id {α : Type} (key : α → Nat) (l : List α) (h : l.Pairwise (fun a b => key a ≤ key b)) : sortBy key l = l := by
  unfold sortBy
  apply List.mergeSort_of_pairwise
  exact h.imp (by intro a b hab; simpa using hab)

theorem gapA_metrics : graphMetrics gapA.nodes gapA.edges = some gapMetrics := by
  unfold graphMetrics
  rw [sorted_id _ gapA.nodes (by decide), sorted_id _ gapA.edges (by decide)]
  simp [metricsOf, gapA, gapMetrics, lookupKinds, kindKey, sortKinds, List.eraseDups]

theorem gapB_metrics : graphMetrics gapB.nodes gapB.edges = some gapMetrics := by
  unfold graphMetrics
  rw [sorted_id _ gapB.nodes (by decide), sorted_id _ gapB.edges (by decide)]
  simp [metricsOf, gapB, gapMetrics, lookupKinds, kindKey, sortKinds, List.eraseDups]

theorem gap_not_iso : ¬ ∃ φ, Iso gapA gapB.nodes gapB.edges φ := by
  rintro ⟨φ, h⟩
  have hmem : ((1 : Nat), (2 : Nat), "R", ()) ∈ gapB.edges.map (fun e => (e.src, e.dst, e.kind, e.props)) := by decide
  have := h.edges.mem_iff.mp hmem
  simp only [gapA, List.map_cons, List.map_nil, List.mem_cons, Prod.mk.injEq, List.not_mem_nil, or_false] at this
  rcases this with ⟨h1, h2, _⟩ | ⟨h1, h2, _⟩
  · have h12 : φ 1 = φ 2 → False := fun e => by
      have := h.inj 1 (by decide) 2 (by decide) e
      omega
    omega
  · omega

/-- The witness pair: two well-formed, non-isomorphic graphs (two self loops vs. a 2-cycle) have the
same metrics, so `Verify` against the dump of the first accepts the second. -/
theorem verify_gap :
    WF gapA ∧ WF gapB ∧ graphMetrics gapA.nodes gapA.edges = some gapMetrics ∧
    verify gapMetrics gapB.nodes gapB.edges = .ok ∧ ¬ ∃ φ, Iso gapA gapB.nodes gapB.edges φ := by
  refine ⟨gapA_wf, gapB_wf, gapA_metrics, ?_, gap_not_iso⟩
  rw [verify_iff_match]
  exact ⟨gapMetrics, gapB_metrics, by
    constructor <;> first | rfl | (intro k; rfl)⟩

/-! ### The full statement -/

/-- C18 at the strength of properties.jsonl: for every database of several well-formed graphs with distinct
names, the dump succeeds, load into an empty database succeeds, for every graph the manifest describes the files
and the loaded graph is isomorphic to the source (`AllOk`), and verification of a database graph against a
graph's manifest metrics succeeds *exactly when* it is isomorphic to that source graph. -/
def C18_full : Prop :=
  ∀ (P B D : Type) [DecidableEq D] (c : Codec P B D) (db : List (Graph P)), (∀ g ∈ db, WF g) → (db.map (fun g => g.name)).Nodup →
  ∀ (batch shard lbatch : Nat), 1 ≤ batch → 1 ≤ shard → 1 ≤ lbatch →
  ∀ (alloc allocE : Nat → Nat), (∀ a b, alloc a = alloc b → a = b) → ∀ (nc ec : Nat),
    ∃ ds rs, dumpAll c batch shard db = .ok ds ∧
      loadAll c (allFiles ds) (ds.map (fun d => d.manifest)) lbatch alloc allocE nc ec = .ok rs ∧
      AllOk c db ds rs ∧
      (∀ g d, (g, d) ∈ db.zip ds → ∀ (nodes' : List (Node P)) (edges' : List (Edge P)),
        verify d.manifest.metrics nodes' edges' = .ok ↔ ∃ φ, Iso g nodes' edges' φ)

/-- What holds for the code as it is: everything in `C18_full`, with "verification succeeds exactly when the
graphs match" weakened to: verification of the loaded graphs succeeds (inside `AllOk`), and verification of any
database graph succeeds exactly when its metrics equal the manifest's (`verify_iff_metrics_equal`). -/
def C18_partial : Prop :=
  ∀ (P B D : Type) [DecidableEq D] (c : Codec P B D) (db : List (Graph P)), (∀ g ∈ db, WF g) → (db.map (fun g => g.name)).Nodup →
  ∀ (batch shard lbatch : Nat), 1 ≤ batch → 1 ≤ shard → 1 ≤ lbatch →
  ∀ (alloc allocE : Nat → Nat), (∀ a b, alloc a = alloc b → a = b) → ∀ (nc ec : Nat),
    ∃ ds rs, dumpAll c batch shard db = .ok ds ∧
      loadAll c (allFiles ds) (ds.map (fun d => d.manifest)) lbatch alloc allocE nc ec = .ok rs ∧
      AllOk c db ds rs ∧
      (∀ g d, (g, d) ∈ db.zip ds → ∀ (nodes' : List (Node P)) (edges' : List (Edge P)),
        verify d.manifest.metrics nodes' edges' = .ok ↔
          ∃ actual, graphMetrics nodes' edges' = some actual ∧ MetricsAgree d.manifest.metrics actual)

theorem c18_partial : C18_partial := by
  intro P B D _ c db hw hnames batch shard lbatch hb _ _ alloc allocE halloc nc ec
  obtain ⟨ds, rs, hd, hl, hok⟩ := load_all_graphs c db hw hnames batch shard lbatch hb alloc allocE halloc nc ec
  exact ⟨ds, rs, hd, hl, hok, fun _ d _ n e => verify_iff_match d.manifest.metrics n e⟩

/-- The full statement fails: `Verify` is a metrics fingerprint, not an isomorphism test. -/
theorem c18_full_refuted : ¬ C18_full := by
  intro h
  let c : Codec Unit (Content Unit) (Content Unit) :=
    { enc := id, dec := some, digest := id, size := Content.count, dec_enc := fun _ => rfl }
  have hw : ∀ g ∈ [gapA], WF g := by intro g hg; simp at hg; subst hg; exact gapA_wf
  obtain ⟨ds, rs, hd, _, _, hv⟩ :=
    h Unit (Content Unit) (Content Unit) c [gapA] hw (by simp) 1 1 1 (Nat.le_refl _) (Nat.le_refl _) (Nat.le_refl _)
      id id (fun _ _ h => h) 0 0
  obtain ⟨ds', hd', hD⟩ := dumpAll_spec c 1 1 (Nat.le_refl _) [gapA] hw
  rw [hd] at hd'
  have hds : ds = ds' := Except.ok.inj hd'
  subst hds
  cases ds with
  | nil => exact absurd hD (by simp [Dumped])
  | cons d rest =>
    simp only [Dumped] at hD
    obtain ⟨⟨m, hm, hdm⟩, _⟩ := hD
    have hmet : d.manifest.metrics = m := by rw [hdm]; rfl
    have hm' : graphMetrics gapA.nodes gapA.edges = some m := hm
    rw [gapA_metrics] at hm'
    have : m = gapMetrics := (Option.some.inj hm').symm
    rw [this] at hmet
    have hok := verify_gap.2.2.2.1
    rw [← hmet] at hok
    exact gap_not_iso ((hv gapA d (by simp) gapB.nodes gapB.edges).mp hok)

/-! ### Integer property values through dump and load (the number leaf of the JSON value model)

The protocol theorems above are parametric in the property type and in a codec with `dec (enc x) = x`. For
the real codec that assumption holds for every JSON value except integers beyond 2^53: -/

/-- current code: an integer property survives the round trip when |i| ≤ 2^53 … -/
theorem int_round_trip_current (i : Int) (h : -(2 : Int) ^ 53 ≤ i ∧ i ≤ (2 : Int) ^ 53) : loadIntCurrent i = i := by
  unfold loadIntCurrent roundToF64
  have round_small : ∀ n : Nat, n ≤ 2 ^ 53 → roundNatToF64 n = n := by
    intro n hn
    unfold roundNatToF64
    by_cases hlt : n < 2 ^ 53
    · simp [hlt]
    · have : n = 2 ^ 53 := by omega
      subst this
      decide
  by_cases h0 : 0 ≤ i
  · rw [if_pos h0, round_small i.toNat (by omega)]; omega
  · rw [if_neg h0, round_small (-i).toNat (by omega)]; omega

/-- … and not beyond (known finding `C18:Load.decodeFragment:int-beyond-2^53`): 2^53+1 comes back as 2^53,
MaxInt64 as 2^63 -/
theorem int_round_trip_current_lossy :
    loadIntCurrent 9007199254740993 = 9007199254740992 ∧ loadIntCurrent 9223372036854775807 = 9223372036854775808 := by
  decide

/-- with hooks/C18-fix.patch every int64 survives the round trip exactly -/
theorem int_round_trip_fixed (i : Int) (h : inInt64 i) : loadIntFixed i = i := by
  unfold loadIntFixed; rw [if_pos h]

/-! ### Property values: every JSON kind, Go types after load -/

section Values
variable {F : Type}

/-- What a property value comes back as, for EVERY value (all kinds, any nesting): `normalizeVal` of it. Hypothesis: the
int64 values are int64 (`IntsFit`). Uses `F64.round_trip` (named assumption float_text_round_trip). -/
theorem decode_encode_value (m : F64 F) (v : GVal F) (h : IntsFit v) : decodeVal m (encodeVal m v) = normalizeVal m v := by
  induction v with
  | null => rfl
  | bool b => rfl
  | str s => rfl
  | int i =>
    have hi : inInt64 i := h
    simp [encodeVal, decodeVal, normalizeVal, hi]
  | flt f =>
    simp only [encodeVal, normalizeVal]
    cases hf : m.intText f with
    | none => rfl
    | some i =>
      simp only [decodeVal]
      by_cases hi : inInt64 i
      · rw [if_pos hi, if_pos hi]
      · rw [if_neg hi, if_neg hi, m.round_trip f i hf]
  | arrNil => rfl
  | arrCons a b iha ihb =>
    have h' : IntsFit a ∧ IntsFit b := h
    simp only [encodeVal, decodeVal, normalizeVal, iha h'.1, ihb h'.2]
  | objNil => rfl
  | objCons k a b iha ihb =>
    have h' : IntsFit a ∧ IntsFit b := h
    simp only [encodeVal, decodeVal, normalizeVal, iha h'.1, ihb h'.2]

theorem canon_intsFit (m : F64 F) (v : GVal F) (h : Canon m v) : IntsFit v := by
  induction v with
  | int i => exact h
  | arrCons a b iha ihb => exact ⟨iha h.1, ihb h.2⟩
  | objCons k a b iha ihb => exact ⟨iha h.1, ihb h.2⟩
  | _ => trivial

theorem normalize_canon (m : F64 F) (v : GVal F) (h : Canon m v) : normalizeVal m v = v := by
  induction v with
  | flt f =>
    simp only [normalizeVal]
    cases hf : m.intText f with
    | none => rfl
    | some i =>
      have : ¬ inInt64 i := h i hf
      simp only [if_neg this]
  | arrCons a b iha ihb => simp only [normalizeVal, iha h.1, ihb h.2]
  | objCons k a b iha ihb => simp only [normalizeVal, iha h.1, ihb h.2]
  | _ => rfl

/-- The value round trip, Go types included: on the image `Canon` (int64 inside int64; no float64 that prints as an integer
literal inside int64) load gives back exactly the value: null, bool, string, int64 of any magnitude, float64, arrays,
objects, any nesting. -/
theorem value_round_trip (m : F64 F) (v : GVal F) (h : Canon m v) : decodeVal m (encodeVal m v) = v := by
  rw [decode_encode_value m v (canon_intsFit m v h), normalize_canon m v h]

/-- Outside `Canon` only the Go type of a number changes: the value that comes back is written as the SAME JSON value
(JSON-equal), and a second round trip changes nothing. -/
theorem normalize_json_equal (m : F64 F) (v : GVal F) :
    encodeVal m (normalizeVal m v) = encodeVal m v ∧ normalizeVal m (normalizeVal m v) = normalizeVal m v := by
  induction v with
  | flt f =>
    simp only [normalizeVal]
    cases hf : m.intText f with
    | none => simp [encodeVal, normalizeVal, hf]
    | some i =>
      by_cases hi : inInt64 i
      · simp [encodeVal, normalizeVal, hf, hi]
      · simp [encodeVal, normalizeVal, hf, hi]
  | arrCons a b iha ihb => simp only [normalizeVal, encodeVal, iha.1, ihb.1, iha.2, ihb.2, and_self]
  | objCons k a b iha ihb => simp only [normalizeVal, encodeVal, iha.1, ihb.1, iha.2, ihb.2, and_self]
  | _ => exact ⟨rfl, rfl⟩

/-- the type change exists: a float64 that prints as `3` comes back as int64 3 -/
theorem integral_float_becomes_int (m : F64 F) (f : F) (i : Int) (hf : m.intText f = some i) (hi : inInt64 i) :
    decodeVal m (encodeVal m (.flt f)) = .int i := by
  simp [encodeVal, decodeVal, hf, hi]

def mapGraph {P Q : Type} (f : P → Q) (g : Graph P) : Graph Q :=
  { name := g.name, nodes := g.nodes.map (fun n => ⟨n.id, n.kinds, f n.props⟩),
    edges := g.edges.map (fun e => ⟨e.id, e.src, e.dst, e.kind, f e.props⟩) }

theorem wf_mapGraph {P Q : Type} (f : P → Q) (g : Graph P) (hw : WF g) : WF (mapGraph f g) := by
  constructor
  · simpa [mapGraph, List.map_map, Function.comp_def] using hw.nodeIds
  · simpa [mapGraph, List.map_map, Function.comp_def] using hw.edgeIds
  · intro e he
    simp only [mapGraph, List.mem_map] at he
    obtain ⟨e0, he0, rfl⟩ := he
    obtain ⟨⟨n1, hn1, h1⟩, ⟨n2, hn2, h2⟩⟩ := hw.endpoints e0 he0
    exact ⟨⟨_, List.mem_map.mpr ⟨n1, hn1, rfl⟩, h1⟩, ⟨_, List.mem_map.mpr ⟨n2, hn2, rfl⟩, h2⟩⟩

theorem iso_mapGraph {P Q : Type} (f : P → Q) (g : Graph P) (ns : List (Node P)) (es : List (Edge P)) (φ : Nat → Nat)
    (h : Iso g ns es φ) :
    Iso (mapGraph f g) (ns.map (fun n => ⟨n.id, n.kinds, f n.props⟩)) (es.map (fun e => ⟨e.id, e.src, e.dst, e.kind, f e.props⟩)) φ := by
  constructor
  · have := h.inj
    simpa [mapGraph, List.map_map, Function.comp_def] using this
  · have := h.nodes.map (fun t : Nat × List String × P => (t.1, t.2.1, f t.2.2))
    simpa [mapGraph, List.map_map, Function.comp_def] using this
  · have := h.edges.map (fun t : Nat × Nat × String × P => (t.1, t.2.1, t.2.2.1, f t.2.2.2))
    simpa [mapGraph, List.map_map, Function.comp_def] using this

/-- `load_iso` with the property clause at the level of Go values of every JSON kind. The source graph carries Go values;
the dump writes their JSON values (`encodeVal`) through any codec with dec(enc x) = x over JSON-valued records; the loader
decodes them (`decodeVal`). The loaded graph is isomorphic to the source with every property value normalised
(`normalizeVal`: JSON-equal, only integral float64 inside int64 become int64), and isomorphic to the source itself when
all property values are in `Canon`. -/
theorem load_iso_values {B D : Type} [DecidableEq D] (m : F64 F) (c : Codec (JVal F) B D) (g : Graph (GVal F)) (hw : WF g)
    (hfit : (∀ n ∈ g.nodes, IntsFit n.props) ∧ (∀ e ∈ g.edges, IntsFit e.props))
    (batch shard lbatch : Nat) (hb : 1 ≤ batch)
    (alloc allocE : Nat → Nat) (halloc : ∀ a b, alloc a = alloc b → a = b) (nc ec : Nat) :
    ∃ gd d idmap, dumpGraph c (mapGraph (encodeVal m) g) batch shard = .ok gd ∧
      load c gd lbatch alloc allocE { nodes := [], edges := [], nodeCtr := nc, edgeCtr := ec } = .ok (d, idmap) ∧
      Iso (mapGraph (normalizeVal m) g)
        (d.nodes.map (fun n => ⟨n.id, n.kinds, decodeVal m n.props⟩))
        (d.edges.map (fun e => ⟨e.id, e.src, e.dst, e.kind, decodeVal m e.props⟩)) (phiOf idmap) ∧
      (((∀ n ∈ g.nodes, Canon m n.props) ∧ (∀ e ∈ g.edges, Canon m e.props)) →
        Iso g (d.nodes.map (fun n => ⟨n.id, n.kinds, decodeVal m n.props⟩))
          (d.edges.map (fun e => ⟨e.id, e.src, e.dst, e.kind, decodeVal m e.props⟩)) (phiOf idmap)) := by
  obtain ⟨gd, d, idmap, hd, hl, hiso, _, _⟩ :=
    load_iso c (mapGraph (encodeVal m) g) (wf_mapGraph _ g hw) batch shard lbatch hb alloc allocE halloc nc ec
  have hdec := iso_mapGraph (decodeVal m) _ _ _ _ hiso
  have hnorm : mapGraph (decodeVal m) (mapGraph (encodeVal m) g) = mapGraph (normalizeVal m) g := by
    unfold mapGraph
    simp only [List.map_map, Function.comp_def]
    congr 1
    · apply List.map_congr_left
      intro n hn
      simp only [decode_encode_value m n.props (hfit.1 n hn)]
    · apply List.map_congr_left
      intro e he
      simp only [decode_encode_value m e.props (hfit.2 e he)]
  rw [hnorm] at hdec
  refine ⟨gd, d, idmap, hd, hl, hdec, ?_⟩
  intro hcan
  have hid : mapGraph (normalizeVal m) g = g := by
    unfold mapGraph
    cases g with
    | mk name nodes edges =>
      simp only
      congr 1
      · conv => rhs; rw [← List.map_id nodes]
        apply List.map_congr_left
        intro n hn
        simp only [normalize_canon m n.props (hcan.1 n hn), id]
      · conv => rhs; rw [← List.map_id edges]
        apply List.map_congr_left
        intro e he
        simp only [normalize_canon m e.props (hcan.2 e he), id]
  rw [hid] at hdec
  exact hdec

end Values

/-! ### Non-vacuity -/

/-- a graph with id gaps, a node without kinds, a multi-kind node, a self loop and two parallel
relationships is well formed; the theorems above apply to it -/
def sample : Graph String :=
  { name := "default"
    nodes := [⟨7, ["User", "Base"], "{}"⟩, ⟨2, [], "{\"a\":1}"⟩, ⟨40, ["Group"], "{}"⟩]
    edges := [⟨9, 7, 40, "MemberOf", "{}"⟩, ⟨3, 7, 40, "MemberOf", "{}"⟩, ⟨5, 2, 2, "Self", "{}"⟩] }

example : WF sample := by constructor <;> decide

def sampleCodec : Codec String (Content String) (Content String) :=
  { enc := id, dec := some, digest := id, size := Content.count, dec_enc := fun _ => rfl }

example : ∃ gd d idmap, dumpGraph sampleCodec sample 2 2 = .ok gd ∧
    load sampleCodec gd 2 (fun k => 1000 + 3 * k) id { nodes := [], edges := [], nodeCtr := 0, edgeCtr := 0 } = .ok (d, idmap) ∧
    Iso sample d.nodes d.edges (phiOf idmap) ∧ d.nodes.length = 3 ∧ d.edges.length = 3 :=
  load_iso sampleCodec sample (by constructor <;> decide) 2 2 2 (by decide) _ _ (by intro a b h; omega) 0 0

/-- the isomorphism relation is not trivially true: dropping a parallel relationship breaks it -/
example : ¬ Iso sample sample.nodes (sample.edges.drop 1) id := by
  intro h
  have := h.edges.length_eq
  simp [sample] at this

/-- a database of two graphs (one of them empty) with distinct names: the collection theorem applies -/
def sample2 : Graph String := { name := "g2", nodes := [], edges := [] }

example : ∃ ds rs, dumpAll sampleCodec 2 2 [sample, sample2] = .ok ds ∧
    loadAll sampleCodec (allFiles ds) (ds.map (fun d => d.manifest)) 3 (fun k => 1000 + 3 * k) id 0 0 = .ok rs ∧
    AllOk sampleCodec [sample, sample2] ds rs :=
  load_all_graphs sampleCodec [sample, sample2]
    (by intro g hg; simp at hg; rcases hg with h | h <;> (subst h; constructor <;> decide))
    (by decide) 2 2 3 (by decide) _ _ (by intro a b h; omega) 0 0

end Dawgs.C18.Props
