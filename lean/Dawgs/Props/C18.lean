/-
C18 — dump followed by load reproduces the graph.
ONLY property statements and non-vacuity examples live here; lemmas are in Proofs/C18.lean.

All theorems quantify over every property type, every codec with `dec ∘ enc = id`, every well-formed
database graph (`WF`: distinct node ids, distinct relationship ids, endpoints inside the graph — arbitrary
ids with gaps, any kinds incl. none, parallel relationships, self loops, the empty graph), every batch and
shard size ≥ 1 and every injective id allocator of the destination.
-/
import Dawgs.Proofs.C18
import Dawgs.Proofs.C18Metrics
namespace Dawgs.C18.Props
open Dawgs.C18

/-- The keyset scan visits every entity exactly once in strictly increasing id order, whatever the
batch size; the count-reconciliation cases are explicit: if the counted total exceeds what the
source holds the scan reports `shortRead` (never a silent partial dump), if it is smaller the scan
stops after the `total` smallest ids. -/
theorem scan_exactly_once {α : Type} (key : α → Nat) (xs : List α) (hnd : (xs.map key).Nodup)
    (batch : Nat) (hb : 1 ≤ batch) (total : Nat) :
    (total = xs.length →
      ∃ out, scan key xs total batch = .ok out ∧ out.Perm xs ∧ out.Pairwise (fun a b => key a < key b)) ∧
    (total ≤ xs.length → scan key xs total batch = .ok ((sortBy key xs).take total)) ∧
    (xs.length < total → scan key xs total batch = .error .shortRead) := by
  have h := scan_spec key xs total batch hb hnd
  refine ⟨?_, ?_, ?_⟩
  · intro ht
    refine ⟨sortBy key xs, ?_, sortBy_perm key xs, sortBy_strict key xs hnd⟩
    rw [h, if_pos (by omega), ht]
    congr 1
    apply List.take_of_length_le
    rw [sortBy_length]; exact Nat.le_refl _
  · intro ht; rw [h, if_pos ht]
  · intro ht; rw [h, if_neg (by omega)]

/-- Shards partition the scan: concatenating the fragments gives back the scan order; every fragment
is non-empty and holds at most `ShardSize` records; every fragment except the last is exactly full;
an empty phase writes no fragment; a phase of exactly `k · ShardSize` records writes exactly `k` full
fragments (rollover at equality leaves no trailing empty fragment). -/
theorem shard_partition {α : Type} (shard : Nat) (hs : 1 ≤ shard) (xs : List α) :
    (shards shard xs).flatten = xs ∧
    (∀ f ∈ shards shard xs, f ≠ [] ∧ f.length ≤ shard) ∧
    (∀ f ∈ (shards shard xs).dropLast, f.length = shard) ∧
    (xs = [] → shards shard xs = []) ∧
    (∀ k, xs.length = k * shard → (shards shard xs).length = k ∧ ∀ f ∈ shards shard xs, f.length = shard) :=
  ⟨shards_flatten shard xs, shards_sizes shard hs xs, shards_full_but_last shard hs xs.length xs (Nat.le_refl _),
   fun h => by subst h; rfl, fun k h => shards_multiple shard hs k xs h⟩

/-- A dump of a well-formed graph succeeds and its manifest describes exactly the files written:
entries and files correspond one to one in order (path, phase, digest and byte size of the file's
bytes, count = number of records the file decodes to), paths are pairwise distinct, node entries come
before edge entries, and the manifest's node/edge counts equal both the per-file totals and the
source's entity counts. -/
theorem manifest_describes_files {P B D : Type} (c : Codec P B D) (g : Graph P) (hw : WF g)
    (batch shard : Nat) (hb : 1 ≤ batch) :
    ∃ gd, dumpGraph c g batch shard = .ok gd ∧
      Describes c gd.manifest.files gd.files ∧
      (gd.files.map (fun f => f.1)).Nodup ∧
      gd.manifest.nodeCount = g.nodes.length ∧ gd.manifest.edgeCount = g.edges.length ∧
      ∃ ne ee, gd.manifest.files = ne ++ ee ∧
        (∀ e ∈ ne, e.phase = .nodes) ∧ (∀ e ∈ ee, e.phase = .edges) ∧
        countSum ne = gd.manifest.nodeCount ∧ countSum ee = gd.manifest.edgeCount := by
  obtain ⟨m, _, hd⟩ := dumpGraph_ok c g hw batch shard hb
  refine ⟨_, hd, assemble_describes c g shard _ _ m, assemble_paths_nodup c g shard _ _ m, rfl, rfl, ?_⟩
  refine ⟨_, _, assemble_entries c g shard _ _ m, ?_, ?_, ?_, ?_⟩
  · exact entries_phase c g.name .nodes _ 1
  · exact entries_phase c g.name .edges _ 1
  · rw [node_count_sum]; exact sortBy_length _ _
  · rw [edge_count_sum]; exact sortBy_length _ _

/-- `load (dump g) ≅ g`: loading the dump of a well-formed graph into an empty target succeeds and the
result is isomorphic to the source under the loader's id map — same node count and relationship count,
same kinds and properties per node, endpoints re-pointed through the map, relationship kinds and
properties preserved, parallel relationships preserved as a multiset — whatever the dump batch/shard
sizes, the load batch size and the destination's (injective) id allocator and counters. -/
theorem load_iso {P B D : Type} [DecidableEq D] (c : Codec P B D) (g : Graph P) (hw : WF g)
    (batch shard lbatch : Nat) (hb : 1 ≤ batch)
    (alloc allocE : Nat → Nat) (halloc : ∀ a b, alloc a = alloc b → a = b) (nc ec : Nat) :
    ∃ gd d idmap, dumpGraph c g batch shard = .ok gd ∧
      load c gd lbatch alloc allocE { nodes := [], edges := [], nodeCtr := nc, edgeCtr := ec } = .ok (d, idmap) ∧
      Iso g d.nodes d.edges (phiOf idmap) ∧
      d.nodes.length = g.nodes.length ∧ d.edges.length = g.edges.length := by
  obtain ⟨m, _, hd⟩ := dumpGraph_ok c g hw batch shard hb
  have hperm : (sortedNodes g).Perm g.nodes := sortBy_perm _ _
  have hpermE : (sortedEdges g).Perm g.edges := sortBy_perm _ _
  have hN : ((sortedNodes g).map (fun n => n.id)).Nodup := (hperm.map _).nodup_iff.mpr hw.nodeIds
  have hE : ∀ e ∈ sortedEdges g, e.src ∈ (sortedNodes g).map (fun n => n.id) ∧ e.dst ∈ (sortedNodes g).map (fun n => n.id) := by
    intro e he
    obtain ⟨⟨n1, hn1, h1⟩, ⟨n2, hn2, h2⟩⟩ := hw.endpoints e (hpermE.mem_iff.mp he)
    exact ⟨List.mem_map.mpr ⟨n1, hperm.mem_iff.mpr hn1, h1⟩, List.mem_map.mpr ⟨n2, hperm.mem_iff.mpr hn2, h2⟩⟩
  have hl := load_assemble c g shard lbatch (sortedNodes g) (sortedEdges g) m alloc allocE nc ec hN hE
    (sortBy_length _ _) (sortBy_length _ _)
  refine ⟨_, _, _, hd, hl, iso_of_load g hw alloc allocE halloc nc ec, ?_, ?_⟩
  · show (newNodes alloc nc ((sortedNodes g).map Node.toRec)).length = g.nodes.length
    rw [newNodes_length, List.length_map]; exact sortBy_length _ _
  · show (newEdges allocE _ ec ((sortedEdges g).map Edge.toRec)).length = g.edges.length
    rw [newEdges_length, List.length_map]; exact sortBy_length _ _

/-- `Verify` succeeds exactly when the metrics collection succeeds and the histograms the code
compares agree (entity counts, node kind sets, relationship kinds, in/out/total degree, endpoint
kind triples). This is *not* graph isomorphism — see `verify_gap`. -/
theorem verify_iff_match {P : Type} (expected : Metrics) (nodes : List (Node P)) (edges : List (Edge P)) :
    verify expected nodes edges = .ok ↔
      ∃ actual, graphMetrics nodes edges = some actual ∧ MetricsAgree expected actual :=
  verify_ok_iff expected nodes edges

/-- Verification of the loaded database against the manifest succeeds: the metrics `Verify` collects from
`load (dump g)` agree with the metrics the dump recorded (the histograms are invariant under the loader's node
correspondence and under the order in which the destination returns entities). -/
theorem verify_accepts_loaded {P B D : Type} [DecidableEq D] (c : Codec P B D) (g : Graph P) (hw : WF g)
    (batch shard lbatch : Nat) (hb : 1 ≤ batch)
    (alloc allocE : Nat → Nat) (halloc : ∀ a b, alloc a = alloc b → a = b) (nc ec : Nat) :
    ∃ gd d idmap, dumpGraph c g batch shard = .ok gd ∧
      load c gd lbatch alloc allocE { nodes := [], edges := [], nodeCtr := nc, edgeCtr := ec } = .ok (d, idmap) ∧
      verify gd.manifest.metrics d.nodes d.edges = .ok := by
  obtain ⟨m, hm, hd⟩ := dumpGraph_ok c g hw batch shard hb
  have hperm : (sortedNodes g).Perm g.nodes := sortBy_perm _ _
  have hpermE : (sortedEdges g).Perm g.edges := sortBy_perm _ _
  have hN : ((sortedNodes g).map (fun n => n.id)).Nodup := (hperm.map _).nodup_iff.mpr hw.nodeIds
  have hE : ∀ e ∈ sortedEdges g, e.src ∈ (sortedNodes g).map (fun n => n.id) ∧ e.dst ∈ (sortedNodes g).map (fun n => n.id) := by
    intro e he
    obtain ⟨⟨n1, hn1, h1⟩, ⟨n2, hn2, h2⟩⟩ := hw.endpoints e (hpermE.mem_iff.mp he)
    exact ⟨List.mem_map.mpr ⟨n1, hperm.mem_iff.mpr hn1, h1⟩, List.mem_map.mpr ⟨n2, hperm.mem_iff.mpr hn2, h2⟩⟩
  have hl := load_assemble c g shard lbatch (sortedNodes g) (sortedEdges g) m alloc allocE nc ec hN hE
    (sortBy_length _ _) (sortBy_length _ _)
  refine ⟨_, _, _, hd, hl, ?_⟩
  have hiso := iso_of_load g hw alloc allocE halloc nc ec
  have hndr : (((sortedNodes g).map Node.toRec).map (fun r => r.id)).Nodup := by rw [toRec_ids]; exact hN
  have hnodes := newNodes_eq_map alloc ((sortedNodes g).map Node.toRec) nc hndr
  rw [verify_iff_match]
  show ∃ actual, graphMetrics (newNodes alloc nc ((sortedNodes g).map Node.toRec))
      (newEdges allocE (phiOf (newMap alloc nc ((sortedNodes g).map Node.toRec))) ec ((sortedEdges g).map Edge.toRec)) = some actual ∧
      MetricsAgree m actual
  unfold graphMetrics
  apply metrics_invariant (dumpNodeObs g) _ (dumpEdgeObs g) _ (phiOf (newMap alloc nc ((sortedNodes g).map Node.toRec)))
  · -- distinct ids in the dump's node stream
    have : (dumpNodeObs g).map (fun p => p.1) = (sortedNodes g).map (fun n => n.id) := by
      unfold dumpNodeObs; rw [List.map_map]; rfl
    rw [this]; exact hN
  · -- the id map is injective on them
    have : (dumpNodeObs g).map (fun p => p.1) = (sortedNodes g).map (fun n => n.id) := by
      unfold dumpNodeObs; rw [List.map_map]; rfl
    rw [this]
    intro a ha b hb hab
    exact hiso.inj a ((hperm.map _).mem_iff.mp ha) b ((hperm.map _).mem_iff.mp hb) hab
  · -- endpoints are nodes
    have : (dumpNodeObs g).map (fun p => p.1) = (sortedNodes g).map (fun n => n.id) := by
      unfold dumpNodeObs; rw [List.map_map]; rfl
    rw [this]
    intro e he
    obtain ⟨e', he', rfl⟩ := List.mem_map.mp he
    exact hE e' he'
  · -- the destination's node stream is a permutation of the renamed source stream
    refine ((sortBy_perm _ _).map _).trans ?_
    rw [hnodes]
    apply List.Perm.of_eq
    unfold dumpNodeObs
    simp only [List.map_map]
    apply List.map_congr_left
    intro n _
    rfl
  · refine ((sortBy_perm _ _).map _).trans ?_
    apply List.Perm.of_eq
    have hs := newEdges_strip allocE (phiOf (newMap alloc nc ((sortedNodes g).map Node.toRec))) ((sortedEdges g).map Edge.toRec) ec
    have := congrArg (List.map (fun t : Nat × Nat × String × P => (t.1, t.2.1, t.2.2.1))) hs
    simp only [List.map_map] at this
    unfold dumpEdgeObs
    simp only [List.map_map]
    exact this
  · exact hm

/-! ### The gap between metrics equality and isomorphism -/

/-- two self loops -/
def gapA : Graph Unit := { name := "g", nodes := [⟨1, [], ()⟩, ⟨2, [], ()⟩], edges := [⟨1, 1, 1, "R", ()⟩, ⟨2, 2, 2, "R", ()⟩] }
/-- a 2-cycle on the same two nodes -/
def gapB : Graph Unit := { name := "g", nodes := [⟨1, [], ()⟩, ⟨2, [], ()⟩], edges := [⟨1, 1, 2, "R", ()⟩, ⟨2, 2, 1, "R", ()⟩] }

def gapMetrics : Metrics :=
  { nodeCount := 2, edgeCount := 2, nodeKinds := [[], []], edgeKinds := ["R", "R"], inDeg := [1, 1], outDeg := [1, 1],
    totDeg := [2, 2], endpoints := [([], "R", []), ([], "R", [])] }

theorem gapA_wf : WF gapA := by constructor <;> decide
theorem gapB_wf : WF gapB := by constructor <;> decide

theorem sorted_id {α : Type} (key : α → Nat) (l : List α) (h : l.Pairwise (fun a b => key a ≤ key b)) : sortBy key l = l := by
  unfold sortBy
  apply List.mergeSort_of_pairwise
  exact h.imp (by intro a b hab; simpa using hab)

theorem gapA_metrics : graphMetrics gapA.nodes gapA.edges = some gapMetrics := by
  unfold graphMetrics
  rw [sorted_id _ gapA.nodes (by decide), sorted_id _ gapA.edges (by decide)]
  simp [metricsOf, gapA, gapMetrics, lookupKinds, kindKey, sortKinds, List.eraseDups]

theorem gapB_metrics : graphMetrics gapB.nodes gapB.edges = some gapMetrics := by
  unfold graphMetrics
  rw [sorted_id _ gapB.nodes (by decide), sorted_id _ gapB.edges (by decide)]
  simp [metricsOf, gapB, gapMetrics, lookupKinds, kindKey, sortKinds, List.eraseDups]

theorem gap_not_iso : ¬ ∃ φ, Iso gapA gapB.nodes gapB.edges φ := by
  rintro ⟨φ, h⟩
  have hmem : ((1 : Nat), (2 : Nat), "R", ()) ∈ gapB.edges.map (fun e => (e.src, e.dst, e.kind, e.props)) := by decide
  have := h.edges.mem_iff.mp hmem
  simp only [gapA, List.map_cons, List.map_nil, List.mem_cons, Prod.mk.injEq, List.not_mem_nil, or_false] at this
  rcases this with ⟨h1, h2, _⟩ | ⟨h1, h2, _⟩
  · have h12 : φ 1 = φ 2 → False := fun e => by
      have := h.inj 1 (by decide) 2 (by decide) e
      omega
    omega
  · omega

/-- The witness pair: two well-formed, non-isomorphic graphs (two self loops vs. a 2-cycle) have the
same metrics, so `Verify` against the dump of the first accepts the second. -/
theorem verify_gap :
    WF gapA ∧ WF gapB ∧ graphMetrics gapA.nodes gapA.edges = some gapMetrics ∧
    verify gapMetrics gapB.nodes gapB.edges = .ok ∧ ¬ ∃ φ, Iso gapA gapB.nodes gapB.edges φ := by
  refine ⟨gapA_wf, gapB_wf, gapA_metrics, ?_, gap_not_iso⟩
  rw [verify_iff_match]
  exact ⟨gapMetrics, gapB_metrics, by
    constructor <;> first | rfl | (intro k; rfl)⟩

/-! ### The full statement -/

/-- C18 at the strength of properties.jsonl, for one graph of the dump: dump succeeds, the manifest
describes the files, load into an empty target succeeds and is an isomorphism, and verification of a
database against the manifest succeeds *exactly when* that database is isomorphic to the source. -/
def C18_full : Prop :=
  ∀ (P B D : Type) [DecidableEq D] (c : Codec P B D) (g : Graph P), WF g →
  ∀ (batch shard lbatch : Nat), 1 ≤ batch → 1 ≤ shard → 1 ≤ lbatch →
  ∀ (alloc allocE : Nat → Nat), (∀ a b, alloc a = alloc b → a = b) → ∀ (nc ec : Nat),
    ∃ gd d idmap, dumpGraph c g batch shard = .ok gd ∧
      Describes c gd.manifest.files gd.files ∧
      load c gd lbatch alloc allocE { nodes := [], edges := [], nodeCtr := nc, edgeCtr := ec } = .ok (d, idmap) ∧
      Iso g d.nodes d.edges (phiOf idmap) ∧
      (∀ (nodes' : List (Node P)) (edges' : List (Edge P)),
        verify gd.manifest.metrics nodes' edges' = .ok ↔ ∃ φ, Iso g nodes' edges' φ)

/-- What holds for the code as it is: everything in `C18_full` with "verification succeeds exactly
when the graphs match" weakened to "verification of the loaded database succeeds, and verification of any
database succeeds exactly when the compared histograms agree". -/
def C18_partial : Prop :=
  ∀ (P B D : Type) [DecidableEq D] (c : Codec P B D) (g : Graph P), WF g →
  ∀ (batch shard lbatch : Nat), 1 ≤ batch → 1 ≤ shard → 1 ≤ lbatch →
  ∀ (alloc allocE : Nat → Nat), (∀ a b, alloc a = alloc b → a = b) → ∀ (nc ec : Nat),
    ∃ gd d idmap, dumpGraph c g batch shard = .ok gd ∧
      Describes c gd.manifest.files gd.files ∧
      load c gd lbatch alloc allocE { nodes := [], edges := [], nodeCtr := nc, edgeCtr := ec } = .ok (d, idmap) ∧
      Iso g d.nodes d.edges (phiOf idmap) ∧
      verify gd.manifest.metrics d.nodes d.edges = .ok ∧
      (∀ (nodes' : List (Node P)) (edges' : List (Edge P)),
        verify gd.manifest.metrics nodes' edges' = .ok ↔
          ∃ actual, graphMetrics nodes' edges' = some actual ∧ MetricsAgree gd.manifest.metrics actual)

theorem c18_partial : C18_partial := by
  intro P B D _ c g hw batch shard lbatch hb _ _ alloc allocE halloc nc ec
  obtain ⟨gd, d, idmap, hd, hl, hiso, _, _⟩ := load_iso c g hw batch shard lbatch hb alloc allocE halloc nc ec
  obtain ⟨gd', hd', hdesc, _⟩ := manifest_describes_files c g hw batch shard hb
  have : gd' = gd := by rw [hd] at hd'; exact (Except.ok.inj hd').symm
  subst this
  obtain ⟨gd2, d2, idmap2, hd2, hl2, hv2⟩ := verify_accepts_loaded c g hw batch shard lbatch hb alloc allocE halloc nc ec
  have e1 : gd2 = gd' := by rw [hd] at hd2; exact (Except.ok.inj hd2).symm
  subst e1
  have e2 : (d2, idmap2) = (d, idmap) := by rw [hl] at hl2; exact (Except.ok.inj hl2).symm
  have e3 : d2 = d := congrArg Prod.fst e2
  subst e3
  exact ⟨gd2, d2, idmap, hd, hdesc, hl, hiso, hv2, fun n e => verify_iff_match _ n e⟩

/-- The full statement fails: `Verify` is a metrics fingerprint, not an isomorphism test. -/
theorem c18_full_refuted : ¬ C18_full := by
  intro h
  obtain ⟨gd, d, idmap, hd, _, _, _, hv⟩ :=
    h Unit (Content Unit) (Content Unit)
      { enc := id, dec := some, digest := id, size := Content.count, dec_enc := fun _ => rfl }
      gapA gapA_wf 1 1 1 (Nat.le_refl _) (Nat.le_refl _) (Nat.le_refl _) id id (fun _ _ h => h) 0 0
  obtain ⟨m, hm, hd'⟩ := dumpGraph_ok
      ({ enc := id, dec := some, digest := id, size := Content.count, dec_enc := fun _ => rfl } : Codec Unit (Content Unit) (Content Unit))
      gapA gapA_wf 1 1 (Nat.le_refl _)
  rw [hd] at hd'
  have hgd := Except.ok.inj hd'
  have hmet : gd.manifest.metrics = m := by rw [hgd]; rfl
  have hm' : graphMetrics gapA.nodes gapA.edges = some m := hm
  rw [gapA_metrics] at hm'
  have : m = gapMetrics := (Option.some.inj hm').symm
  rw [this] at hmet
  have hok := verify_gap.2.2.2.1
  rw [← hmet] at hok
  exact gap_not_iso ((hv gapB.nodes gapB.edges).mp hok)

/-! ### Non-vacuity -/

/-- a graph with id gaps, a node without kinds, a multi-kind node, a self loop and two parallel
relationships is well formed; the theorems above apply to it -/
def sample : Graph String :=
  { name := "default"
    nodes := [⟨7, ["User", "Base"], "{}"⟩, ⟨2, [], "{\"a\":1}"⟩, ⟨40, ["Group"], "{}"⟩]
    edges := [⟨9, 7, 40, "MemberOf", "{}"⟩, ⟨3, 7, 40, "MemberOf", "{}"⟩, ⟨5, 2, 2, "Self", "{}"⟩] }

example : WF sample := by constructor <;> decide

def sampleCodec : Codec String (Content String) (Content String) :=
  { enc := id, dec := some, digest := id, size := Content.count, dec_enc := fun _ => rfl }

example : ∃ gd d idmap, dumpGraph sampleCodec sample 2 2 = .ok gd ∧
    load sampleCodec gd 2 (fun k => 1000 + 3 * k) id { nodes := [], edges := [], nodeCtr := 0, edgeCtr := 0 } = .ok (d, idmap) ∧
    Iso sample d.nodes d.edges (phiOf idmap) ∧ d.nodes.length = 3 ∧ d.edges.length = 3 :=
  load_iso sampleCodec sample (by constructor <;> decide) 2 2 2 (by decide) _ _ (by intro a b h; omega) 0 0

/-- the isomorphism relation is not trivially true: dropping a parallel relationship breaks it -/
example : ¬ Iso sample sample.nodes (sample.edges.drop 1) id := by
  intro h
  have := h.edges.length_eq
  simp [sample] at this

end Dawgs.C18.Props
