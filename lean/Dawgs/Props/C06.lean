/-
C06 — translation is hygienic: user-chosen names never capture translator names.
Property statements over the scope model of Model/C06.lean (transcription of translate/tracking.go and of
the patterns in which translator.go / pattern.go / unwind.go / projection.go / with.go / quantifiers.go use it).

LIVE definition = the scope after the fix of F10: parameters have their own alias table
(`parameterAliases`, `AliasParameter`, `ParameterLookup`), modelled as namespace-tagged keys `USym`.
For EVERY program of scope operations (every reachable scope):
  * `fresh_ids`, `generated_names_never_user_keyed`, `alias_values_injective`;
  * `alias_only_lookup` — results are invariant under any re-keying of user symbols that is injective on the
    symbols in play (user spellings are consulted only as alias keys);
  * `scope_renaming_fixed` / `c06_full` — FULL renaming invariance for the live scope: every injective renaming
    of variables/aliases and of parameters, including onto translator names and onto each other's spellings.
About the OLD definition (one alias table shared by variables and parameters), kept as theorems `…_old`:
  * `scope_renaming_partial_old` — invariance only when no variable is spelled like a parameter;
  * `c06_full_refuted_old`, `f10_results_old` — the unrestricted statement was FALSE (F10 witness).
Independent of the fix:
  * `fallback_lookup_captures` — a `Lookup`-then-`AliasedLookup` fallback is not hygienic (witness of the finding fixed in
    /repo e63912b; `Sites.alias_keys_user_only` proves that the tree has no such fallback any more);
  * `prune_alias_choice_unique` — the first-match loops of PruneDefinitions over the alias maps do not depend on
    iteration order on reachable scopes (used by C05).
-/
import Dawgs.Proofs.C06
namespace Dawgs.C06.Props
open Dawgs.C06

set_option linter.unusedSectionVars false
set_option linter.unusedVariables false
variable {K : Type} [DecidableEq K]

/-- all user keys a program mentions -/
def progKeys : List (Op K) → List K
  | [] => []
  | o :: t => o.keys ++ progKeys t

theorem progKeys_mem {p : List (Op K)} {o : Op K} (ho : o ∈ p) {k : K} (hk : k ∈ o.keys) : k ∈ progKeys p := by
  induction p with
  | nil => cases ho
  | cons a t ih =>
    cases ho with
    | head => exact List.mem_append_left _ hk
    | tail _ h => exact List.mem_append_right _ (ih h)

/-- scopes reachable by the translator's operations from `NewScope()` -/
def reach (p : List (Op K)) : Scope K := (run (Scope.new : Scope K) p).1

theorem reach_inv (p : List (Op K)) : Inv (reach p) := Inv.run p Inv.new

/-- **fresh_ids**: in every reachable scope, the identifier `DefineNew` hands out is not a key of
`definitions` (nor the target of any alias), whatever the data type. -/
theorem fresh_ids (p : List (Op K)) (dt : DataType) :
    (∀ d ∈ (reach p).defs, d.1 ≠ ((reach p).defineNew dt).2.ident) ∧
    (∀ a ∈ (reach p).aliases, a.2 ≠ ((reach p).defineNew dt).2.ident) := by
  have h := reach_inv p
  rw [defineNew_ident]
  exact ⟨fun d hd e => fresh_not_gen (e ▸ h.defs_gen d hd), fun a ha e => fresh_not_gen (e ▸ h.alias_gen a ha)⟩

/-- **generated_names_never_user_keyed**: every key of `definitions` and every alias target of a reachable
scope is a name the generator produced (`prefix ++ counter` with the counter below the class's current value).
User spellings are therefore never inserted into `definitions`; they live only in the KEYS of `aliases`
(and in `BoundIdentifier.Alias`, used for output column names). Holds for any key type, in particular Go's strings. -/
theorem generated_names_never_user_keyed (p : List (Op K)) :
    (∀ d ∈ (reach p).defs, IsGen (reach p).gen d.1) ∧ (∀ a ∈ (reach p).aliases, IsGen (reach p).gen a.2) :=
  ⟨(reach_inv p).defs_gen, (reach_inv p).alias_gen⟩

/-- **alias_values_injective**: two different user keys never alias the same generated identifier. -/
theorem alias_values_injective (p : List (Op K)) :
    ∀ a ∈ (reach p).aliases, ∀ b ∈ (reach p).aliases, a.2 = b.2 → a.1 = b.1 :=
  (reach_inv p).alias_inj

/-- **alias_only_lookup**: the scope consults user spellings ONLY as alias keys and only for equality, so
re-keying by any map that is injective on the keys a program mentions leaves every result — the sequence of
generated identifiers, every lookup result, every error — unchanged. -/
theorem alias_only_lookup {K' : Type} [DecidableEq K'] (f : K → K') (p : List (Op K))
    (hinj : ∀ a ∈ progKeys p, ∀ b ∈ progKeys p, f a = f b → a = b) :
    results (p.map (Op.mapKeys f)) = results p :=
  results_mapKeys f (S := progKeys p) hinj p (fun _ ho _ hk => progKeys_mem ho hk)

/-! ### renamings of user symbols -/

def Injective {α β : Type} (f : α → β) : Prop := ∀ a b, f a = f b → a = b

theorem rename_injective {rv rp : String → String} (hv : Injective rv) (hp : Injective rp) :
    Injective (USym.rename rv rp) := by
  intro a b h
  cases a <;> cases b <;> simp [USym.rename] at h
  · exact congrArg _ (hv _ _ h)
  · exact congrArg _ (hp _ _ h)

theorem mapKeys_comp {K1 K2 K3 : Type} (f : K1 → K2) (g : K2 → K3) (o : Op K1) :
    (o.mapKeys f).mapKeys g = o.mapKeys (g ∘ f) := by
  cases o with
  | bindPattern k dt => cases k <;> rfl
  | useParameter k => cases k <;> rfl
  | withProject id k => cases k <;> rfl
  | _ => rfl

theorem map_mapKeys_comp {K1 K2 K3 : Type} (f : K1 → K2) (g : K2 → K3) (p : List (Op K1)) :
    (p.map (Op.mapKeys f)).map (Op.mapKeys g) = p.map (Op.mapKeys (g ∘ f)) := by
  simp [List.map_map, Function.comp_def, mapKeys_comp]

theorem keys_mapKeys {K1 K2 : Type} (f : K1 → K2) (o : Op K1) : (o.mapKeys f).keys = o.keys.map f := by
  cases o with
  | bindPattern k dt => cases k <;> rfl
  | useParameter k => cases k <;> rfl
  | withProject id k => cases k <;> rfl
  | _ => rfl

theorem progKeys_map {K1 K2 : Type} (f : K1 → K2) : ∀ p : List (Op K1), progKeys (p.map (Op.mapKeys f)) = (progKeys p).map f
  | [] => rfl
  | o :: t => by simp [progKeys, keys_mapKeys, progKeys_map f t]

/-- **scope_renaming_fixed**: with namespace-separated alias keys (variables/aliases and parameters can never
collide), EVERY injective renaming of variables and of parameters leaves every result unchanged — including
renamings onto translator names or onto each other's spellings. -/
theorem scope_renaming_fixed (rv rp : String → String) (hv : Injective rv) (hp : Injective rp) (p : List (Op USym)) :
    liveResults (p.map (Op.mapKeys (USym.rename rv rp))) = liveResults p :=
  alias_only_lookup (USym.rename rv rp) p (fun a _ b _ h => rename_injective hv hp a b h)

/-- "variables and parameters live in disjoint key spaces" for a program: no two DIFFERENT user symbols it
mentions are spelled alike (i.e. no variable or alias shares its spelling with a parameter). -/
def NsDisjoint (p : List (Op USym)) : Prop :=
  ∀ a ∈ progKeys p, ∀ b ∈ progKeys p, a.erase = b.erase → a = b

theorem nsDisjoint_iff (p : List (Op USym)) :
    NsDisjoint p ↔ ∀ x y, USym.var x ∈ progKeys p → USym.param y ∈ progKeys p → x ≠ y := by
  constructor
  · intro h x y hx hy e
    have := h _ hx _ hy (by simp [USym.erase, e])
    cases this
  · intro h a ha b hb e
    cases a <;> cases b <;> simp [USym.erase] at e
    · rw [e]
    · rename_i x y; exact absurd e (h x y ha hb)
    · rename_i x y; exact absurd e.symm (h y x hb ha)
    · rw [e]

/-- on a program without cross-namespace spelling collisions the shared table behaves exactly like the
separated one -/
theorem shared_eq_live_of_disjoint_old (p : List (Op USym)) (h : NsDisjoint p) : sharedResults_old p = liveResults p :=
  alias_only_lookup USym.erase p h

/-- **scope_renaming_partial_old**: for the code AS IT IS (one alias table keyed by the bare spelling), injective
renamings leave every result unchanged PROVIDED no variable/alias is spelled like a parameter, before and
after the renaming. -/
theorem scope_renaming_partial_old (rv rp : String → String) (hv : Injective rv) (hp : Injective rp) (p : List (Op USym))
    (h0 : NsDisjoint p) (h1 : NsDisjoint (p.map (Op.mapKeys (USym.rename rv rp)))) :
    sharedResults_old (p.map (Op.mapKeys (USym.rename rv rp))) = sharedResults_old p := by
  rw [shared_eq_live_of_disjoint_old _ h1, shared_eq_live_of_disjoint_old _ h0]
  exact scope_renaming_fixed rv rp hv hp p

/-- The property at full strength on the scope level for the LIVE definition (separate parameter key space). -/
def C06_full : Prop :=
  ∀ (rv rp : String → String), Injective rv → Injective rp → ∀ p : List (Op USym),
    liveResults (p.map (Op.mapKeys (USym.rename rv rp))) = liveResults p

/-- **c06_full**: the full statement holds for the live scope. -/
theorem c06_full : C06_full := fun rv rp hv hp p => scope_renaming_fixed rv rp hv hp p

/-- The same statement for the OLD definition (one shared alias table): false, see `c06_full_refuted_old`. -/
def C06_full_old : Prop :=
  ∀ (rv rp : String → String), Injective rv → Injective rp → ∀ p : List (Op USym),
    sharedResults_old (p.map (Op.mapKeys (USym.rename rv rp))) = sharedResults_old p

/-! F10 witness: `MATCH (n) WHERE n.name = $n RETURN n` binds the node `n` (→ n0), then looks the parameter
`$n` up in the SAME table, finds the node binding and pushes its nil `Parameter`; with `$m` it defines pi0. -/
def f10Program : List (Op USym) :=
  [.pushFrame, .bindPattern (some (.var "n")) "nodecomposite", .useVariable (.var "n"), .useParameter (some (.param "n"))]

def swapNM (s : String) : String := if s = "n" then "m" else if s = "m" then "n" else s

theorem swapNM_injective : Injective swapNM := by
  intro a b h
  unfold swapNM at h
  by_cases ha : a = "n" <;> by_cases hb : b = "n" <;> by_cases ha' : a = "m" <;> by_cases hb' : b = "m" <;> simp_all

theorem f10_results_old :
    sharedResults_old f10Program = [.ident "s0", .bound ⟨"n0", "nodecomposite", false, true, none⟩ false, .ident "n0", .nilParam "n0"] ∧
    sharedResults_old (f10Program.map (Op.mapKeys (USym.rename id swapNM)))
      = [.ident "s0", .bound ⟨"n0", "nodecomposite", false, true, none⟩ false, .ident "n0", .param "pi0"] := by
  decide

/-- **c06_full_refuted_old**: with the shared alias table the full statement is false. -/
theorem c06_full_refuted_old : ¬ C06_full_old := by
  intro h
  have := h id swapNM (fun _ _ e => e) swapNM_injective f10Program
  revert this
  decide

/-- the repaired scope handles the same witness -/
example : liveResults (f10Program.map (Op.mapKeys (USym.rename id swapNM))) = liveResults f10Program := by decide

/-- and the reverse capture (parameter first, variable second: `… WHERE n.name = $m MATCH (m) …` re-uses the
PARAMETER's binding pi0 as the node) is the same defect -/
example : sharedResults_old [.useParameter (some (.param "m")), .bindPattern (some (.var "m")) "nodecomposite"]
    = [.param "pi0", .bound ⟨"pi0", "parameter_identifier", true, true, none⟩ true] := by decide

/-! ### string-level fallback lookups (Go only): a second, independent capture -/

/-- `UNWIND [1,2] AS x WITH x AS y MATCH <pv> = (a)-[r]->(b) …`: x ↦ i0, y ↦ i1, WITH prunes i0 from
`definitions` although SQL fragments still mention it; `pathCompositeBinding(scope, "i0")` then falls back to
`AliasedLookup("i0")`, which hits iff the USER named the path variable `i0`. -/
def fallbackScope (pathVar : String) : Scope String :=
  (run (Scope.new : Scope String)
    [.pushFrame, .unwindTarget "x", .withProject "i0" (some "y"), .prune ["i1"], .bindPath pathVar]).1

/-- **fallback_lookup_captures**: the answer of the fallback lookup for the generated identifier `i0` depends
on how the user spelled an unrelated path variable. -/
theorem fallback_lookup_captures :
    ((fallbackScope "p").lookupOrAliased "i0").map Binding.view = none ∧
    ((fallbackScope "i0").lookupOrAliased "i0").map Binding.view = some ⟨"pc0", "pathcomposite", false, true, none⟩ := by
  decide

/-! ### PruneDefinitions' loop over the alias map (for C05) -/

theorem find_unique_of_valInj {β : Type} [DecidableEq β] {l l' : List (K × β)} (hl : ValInj l) (hk : KeysNodup l)
    (hperm : ∀ e, e ∈ l ↔ e ∈ l') (v : β) :
    (l.find? (fun e => e.2 = v)).map (·.1) = (l'.find? (fun e => e.2 = v)).map (·.1) := by
  have key : ∀ (m : List (K × β)), (∀ e ∈ m, e ∈ l) → ∀ e, m.find? (fun e => decide (e.2 = v)) = some e →
      ∀ e' ∈ l, e'.2 = v → e'.1 = e.1 := by
    intro m hm e he e' he' hv
    have h1 := List.mem_of_find?_eq_some he
    have h2 : e.2 = v := by simpa using List.find?_some he
    exact hl e' he' e (hm e h1) (by rw [hv, h2])
  cases h1 : l.find? (fun e => decide (e.2 = v)) with
  | none =>
    cases h2 : l'.find? (fun e => decide (e.2 = v)) with
    | none => rfl
    | some e' =>
      have hm := (hperm e').2 (List.mem_of_find?_eq_some h2)
      have hv : e'.2 = v := by simpa using List.find?_some h2
      have := List.find?_eq_none.1 h1 e' hm
      simp [hv] at this
  | some e =>
    have hm := List.mem_of_find?_eq_some h1
    have hv : e.2 = v := by simpa using List.find?_some h1
    cases h2 : l'.find? (fun e => decide (e.2 = v)) with
    | none =>
      have := List.find?_eq_none.1 h2 e ((hperm e).1 hm)
      simp [hv] at this
    | some e' =>
      have hm' := (hperm e').2 (List.mem_of_find?_eq_some h2)
      have hv' : e'.2 = v := by simpa using List.find?_some h2
      simp only [Option.map_some]
      exact congrArg some (key l (fun _ h => h) e h1 e' hm' hv').symm

/-- **prune_alias_choice_unique**: on every reachable scope, the alias that `PruneDefinitions` keeps for a
protected identifier is the same for every iteration order of the `aliases` map. -/
theorem prune_alias_choice_unique (p : List (Op K)) (l' : List (K × Ident))
    (hk : KeysNodup (reach p).aliases) (hperm : ∀ e, e ∈ (reach p).aliases ↔ e ∈ l') (v : Ident) :
    ((reach p).aliases.find? (fun e => e.2 = v)).map (·.1) = (l'.find? (fun e => e.2 = v)).map (·.1) :=
  find_unique_of_valInj (reach_inv p).alias_inj hk hperm v

/-! ### non-vacuity -/

/-- a program on which the hypotheses of `scope_renaming_partial_old` hold and the renaming targets translator
names (`n ↦ n0`, `$p ↦ pi0`): both runs give the same generated identifiers -/
def sampleProgram : List (Op USym) :=
  [.pushFrame, .bindPattern (some (.var "n")) "nodecomposite", .useParameter (some (.param "p")),
   .ensureAlias (.var "out") "text", .useVariable (.var "out"), .prune ["n0"], .useVariable (.var "out")]

def toTranslatorNames (s : String) : String := if s = "n" then "n0" else if s = "out" then "s0" else s ++ "_"
def toTranslatorParams (s : String) : String := if s = "p" then "pi0" else s ++ "_"

example : NsDisjoint sampleProgram := by
  unfold NsDisjoint; decide
example : NsDisjoint (sampleProgram.map (Op.mapKeys (USym.rename toTranslatorNames toTranslatorParams))) := by
  unfold NsDisjoint; decide
example : sharedResults_old (sampleProgram.map (Op.mapKeys (USym.rename toTranslatorNames toTranslatorParams))) = sharedResults_old sampleProgram := by
  decide
example : sharedResults_old sampleProgram =
    [.ident "s0", .bound ⟨"n0", "nodecomposite", false, true, none⟩ false, .param "pi0", .ident "i0", .ident "i0",
     .unit, .err "unable to resolve"] := by decide

end Dawgs.C06.Props
