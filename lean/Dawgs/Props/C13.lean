/-
C13 — ID-set providers implement exact set algebra across all implementation pairings.
ONLY property statements and non-vacuity examples live here; lemmas are in Proofs/C13.lean and Proofs/C13Lts.lean.

Reading. A duplex provider denotes a finite set of naturals (strictly ascending list, `Spec.Sorted`); the meaning of
`recv.Op(operand)` is `Spec.binop op recv operand`, whatever the implementation pairing. Native roaring operations are
assumed exact (trusted base; `native_ops_set` shows that the functions standing for them ARE ∪ ∩ \ △ on sets).
Proved here about DAWGS' own code: the fallbacks taken for an operand that is not the receiver's concrete type, the
wrappers (lock; delegate; unlock — tied to lock.go by the regenerated table), and the lock-level LTS of the wrappers.
-/
import Dawgs.Proofs.C13
import Dawgs.Proofs.C13Lts
import Dawgs.Generated.C13_locks
set_option linter.unusedSimpArgs false
namespace Dawgs.C13.Props
open Dawgs.C13 Dawgs.C13.Spec Dawgs.C13.Lts

/-- set-algebra meaning of the four in-place operations -/
def Denotes : BinOp → S → S → Nat → Prop
  | .or, a, b, x => x ∈ a ∨ x ∈ b
  | .and, a, b, x => x ∈ a ∧ x ∈ b
  | .andNot, a, b, x => x ∈ a ∧ x ∉ b
  | .xor, a, b, x => (x ∈ a ∧ x ∉ b) ∨ (x ∈ b ∧ x ∉ a)

/-- The functions standing for the native roaring operations (and used by the monitor as the spec) are exactly
∪, ∩, \, △, insert and erase on canonical sets, and keep sets canonical. -/
theorem native_ops_set {a b : S} (ha : Sorted a) (hb : Sorted b) :
    (∀ op, Sorted (Spec.binop op a b) ∧ ∀ x, x ∈ Spec.binop op a b ↔ Denotes op a b x) ∧
    (∀ v, Sorted (ins v a) ∧ ∀ x, x ∈ ins v a ↔ x = v ∨ x ∈ a) ∧
    (∀ v, Sorted (del v a) ∧ ∀ x, x ∈ del v a ↔ x ∈ a ∧ x ≠ v) ∧
    (∀ op, nativeOp op = Spec.binop op) := by
  refine ⟨?_, fun v => ⟨sorted_ins ha, fun x => mem_ins⟩, fun v => ⟨sorted_del ha, fun x => mem_del ha⟩, fun op => by cases op <;> rfl⟩
  intro op
  cases op
  · exact ⟨sorted_union ha hb, fun x => mem_union⟩
  · exact ⟨sorted_inter ha, fun x => mem_inter ha hb⟩
  · exact ⟨sorted_diff ha, fun x => mem_diff ha hb⟩
  · exact ⟨sorted_symm ha hb, fun x => mem_symm ha hb⟩

/-- `Or` with an operand of another implementation (`operand.Each` + `s.Add`) is the union, for all sets. -/
theorem or_fallback_correct {r o : S} (hr : Sorted r) (ho : Sorted o) : orFallback r o = Spec.binop .or r o :=
  orFallback_eq hr ho

/-- `Xor` with an operand of another implementation (copy through `Each`, then native `Xor`) is the symmetric
difference, for all sets. -/
theorem xor_fallback_correct {r o : S} (_hr : Sorted r) (ho : Sorted o) : xorFallback r o = Spec.binop .xor r o :=
  xorFallback_eq ho

/-- full-strength statement for the `And` fallback AS WRITTEN (iterate the receiver while removing from it) -/
def AndFallbackCorrect (w : Width) : Prop :=
  ∀ r o : S, Sorted r → Sorted o → andFallback w r o = Spec.binop .and r o

/-- full-strength statement for the `AndNot` fallback as written -/
def AndNotFallbackCorrect (w : Width) : Prop :=
  ∀ r o : S, Sorted r → Sorted o → andNotFallback w r o = Spec.binop .andNot r o

/-- F1: false of the current code for both widths. Witness `{0,3,5,7}.And(wrapped ∅)` leaves `{3}` (every second
element of an array container is skipped); the same case is corpus/C13/c13_f1_and32.ops against the real code. -/
theorem and_fallback_correct_refuted : ¬ AndFallbackCorrect .w32 ∧ ¬ AndFallbackCorrect .w64 := by
  constructor
  · intro h
    have := h [0, 3, 5, 7] [] ((sortedB_iff _).1 (by decide)) ((sortedB_iff _).1 (by decide))
    revert this; decide
  · intro h
    have := h [0, 3, 5, 7] [] ((sortedB_iff _).1 (by decide)) ((sortedB_iff _).1 (by decide))
    revert this; decide

/-- F1 for `AndNot`: `{0,3,5,7,65536,131072,131073}.AndNot(wrapped same set)` leaves `{3,131072,131073}` (32 bit: a
whole container is skipped after the preceding one was emptied and deleted). -/
theorem andnot_fallback_correct_refuted : ¬ AndNotFallbackCorrect .w32 ∧ ¬ AndNotFallbackCorrect .w64 := by
  constructor
  · intro h
    have := h [0, 3, 5, 7, 65536, 131072, 131073] [0, 3, 5, 7, 65536, 131072, 131073] ((sortedB_iff _).1 (by decide)) ((sortedB_iff _).1 (by decide))
    revert this; decide
  · intro h
    have := h [0, 3, 5, 7] [0, 3, 5, 7] ((sortedB_iff _).1 (by decide)) ((sortedB_iff _).1 (by decide))
    revert this; decide

/-- the repaired shape (collect during the iteration, remove afterwards — hooks/C13-fix.patch) is the intersection -/
theorem and_fallback_correct_fixed {r o : S} (hr : Sorted r) (ho : Sorted o) : andFallbackFixed r o = Spec.binop .and r o :=
  andFallbackFixed_eq hr ho

theorem andnot_fallback_correct_fixed {r o : S} (hr : Sorted r) (ho : Sorted o) :
    andNotFallbackFixed r o = Spec.binop .andNot r o :=
  andNotFallbackFixed_eq hr ho

/-- What does hold for the `And` fallback as written, for every cursor behaviour: the result is a canonical subset
of the receiver that still contains the whole intersection (it only fails to remove), and it is exact whenever
nothing has to be removed. -/
theorem and_fallback_correct_partial (w : Width) {r o : S} (hr : Sorted r) :
    Sorted (andFallback w r o) ∧ (∀ x, x ∈ andFallback w r o → x ∈ r) ∧
    (∀ x, x ∈ r → x ∈ o → x ∈ andFallback w r o) ∧
    ((∀ x, x ∈ r → x ∈ o) → andFallback w r o = r) := by
  have hsub := eachRemove_sublist w r (fun v => !has o v)
  have hkeep : ∀ x, x ∈ r → x ∈ o → x ∈ andFallback w r o := fun x hx hxo =>
    eachRemove_keeps w r _ (by simp [has_iff.2 hxo]) hx
  refine ⟨Sorted.sublist hsub hr, fun x hx => hsub.subset hx, hkeep, fun hall => ?_⟩
  exact sorted_ext (Sorted.sublist hsub hr) hr (fun x => ⟨fun hx => hsub.subset hx, fun hx => hkeep x hx (hall x hx)⟩)

theorem andnot_fallback_correct_partial (w : Width) {r o : S} (hr : Sorted r) :
    Sorted (andNotFallback w r o) ∧ (∀ x, x ∈ andNotFallback w r o → x ∈ r) ∧
    (∀ x, x ∈ r → x ∉ o → x ∈ andNotFallback w r o) ∧
    ((∀ x, x ∈ r → x ∉ o) → andNotFallback w r o = r) := by
  have hsub := eachRemove_sublist w r (fun v => has o v)
  have hkeep : ∀ x, x ∈ r → x ∉ o → x ∈ andNotFallback w r o := fun x hx hxo =>
    eachRemove_keeps w r _ (has_false_iff.2 hxo) hx
  refine ⟨Sorted.sublist hsub hr, fun x hx => hsub.subset hx, hkeep, fun hall => ?_⟩
  exact sorted_ext (Sorted.sublist hsub hr) hr (fun x => ⟨fun hx => hsub.subset hx, fun hx => hkeep x hx (hall x hx)⟩)

/-- `Clone` returns a provider with the same content and kind and a free mutex of its own. (Providers are values
in the model: no later operation on the clone can reach the original; that the implementation's clone shares
nothing is what the tie checks on every clone-then-mutate case.) -/
theorem clone_independent (p q : Prov) (h : p.clone = some q) :
    q.set = p.set ∧ q.width = p.width ∧ q.wrapped = p.wrapped ∧ q.locked = false ∧ (p.wrapped && p.locked) = false := by
  unfold Prov.clone Prov.guard at h
  split at h
  · cases h
  · rename_i hl
    cases h
    exact ⟨rfl, rfl, rfl, rfl, by simpa using hl⟩

/-- A wrapper whose mutex is free gives the same answers and ends with the same content as the bitmap it wraps, for
every binary operation with every operand and for every other method, and has released its mutex whenever the call
returned; and the wrapper methods of lock.go ARE `lock; defer unlock; delegate` (regenerated table, by `decide`). -/
theorem wrapper_same_answers (fixed : Bool) (p : Prov) (hp : p.locked = false) :
    (∀ op o,
      ({ p with wrapped := true }.binop fixed op o).2 = ({ p with wrapped := false }.binop fixed op o).2 ∧
      ({ p with wrapped := true }.binop fixed op o).1.set = ({ p with wrapped := false }.binop fixed op o).1.set ∧
      (({ p with wrapped := true }.binop fixed op o).2 = .ok → ({ p with wrapped := true }.binop fixed op o).1.locked = false)) ∧
    (∀ {α : Type} (f : S → α), { p with wrapped := true }.guard f = { p with wrapped := false }.guard f) ∧
    Facts.wrappersOk Generated.C13.wrapperMethods = true := by
  refine ⟨?_, ?_, by decide⟩
  · intro op o
    simp only [Prov.binop, hp, Bool.and_false, Bool.false_eq_true, if_false]
    cases bitmapBinop fixed p.width op p.set o <;> simp [hp]
  · intro α f
    simp [Prov.guard, hp]

/-- The type switches of roaring32.go/roaring64.go have exactly the shape the model transcribes (own concrete type →
native call, any other Duplex → the fallback loop with these calls, no default; iterate-while-remove present exactly
in the unrepaired And/AndNot) — regenerated from the source, closed by `decide`. -/
theorem type_switch_as_modelled :
    Generated.C13.typeSwitches = Facts.expectedSwitches liveFixed ∧
    (∀ s, switchPath (.bitmap s) = .native) ∧ (∀ l s, switchPath (.wrapper l s) = .fallback) ∧
    switchPath .selfWrapper = .fallback ∧ switchPath .nonDuplex = .none ∧
    (∀ fixed w op r, bitmapBinop fixed w op r .nonDuplex = some r) := by
  refine ⟨by decide, fun _ => rfl, fun _ _ => rfl, rfl, rfl, fun _ _ _ _ => rfl⟩

/-! ### the lock-level LTS -/

/-- a call of method `name` on wrapper `w` with a non-wrapper operand; whether the body holds the lock is read from
the regenerated table of lock.go -/
def tableCall {D R : Type} (w : Nat) (m : String × (D → D × R)) : Call D R :=
  { recv := w, operand := none, cbs := 0, locked := Facts.lockedIn Generated.C13.wrapperMethods m.1, opLocked := true,
    f := fun d _ => m.2 d }

/-- Linearizability of one wrapper: for all programs of callers of wrapper `w` (any methods of the interface, operands
not wrappers) and every state reachable under ANY interleaving of their atomic steps, the log of write steps is a
sequential execution — every call returned what it returns when the calls run one after the other in log order, the
wrapper's data is the result of that sequential run, the log respects each thread's program order, and at most one
thread is inside a method body. -/
theorem wrapper_linearizable_single {D R : Type} (w : Nat) (d0 : Nat → D) (dflt : D)
    (progs : Nat → List (String × (D → D × R)))
    (hnames : ∀ t, ∀ m ∈ progs t, m.1 ∈ Facts.duplexMethods)
    (s : State D R) (hr : Reach (init d0 dflt (fun t => (progs t).map (tableCall w))) s) :
    Lin (d0 w) s.log (s.data w) ∧
    (∀ t, (mine t s.log).map (·.call) ++ pending s t = (progs t).map (tableCall w)) ∧
    (∀ t, (s.th t).res = (mine t s.log).map (·.r)) ∧
    (∀ t t', inCS s t → inCS s t' → t = t') := by
  have hall : Facts.duplexMethods.all (Facts.lockedIn Generated.C13.wrapperMethods) = true := by decide
  have hsingle : ∀ t, ∀ c ∈ (progs t).map (tableCall (D := D) (R := R) w), Single w c := by
    intro t c hc
    obtain ⟨m, hm, rfl⟩ := List.mem_map.1 hc
    exact ⟨rfl, rfl, List.all_eq_true.1 hall m.1 (hnames t m hm)⟩
  have inv := linInv_reach hsingle hr
  exact ⟨inv.lin, inv.order, inv.res, fun t t' h h' => mutex_of_holds inv.holds h h'⟩

/-- full-strength deadlock freedom: arbitrary programs of calls whose operands may be wrappers (every body holds its
lock, the operand's `Each`/`Contains` holds the operand's) never reach a state where somebody has work and nobody
can move -/
def WrapperDeadlockFree : Prop :=
  ∀ (n : Nat) (progs : Nat → List (Call Unit Unit)), (∀ t, n ≤ t → progs t = []) →
    (∀ t, ∀ c ∈ progs t, c.locked = true ∧ c.opLocked = true) →
    ∀ s, Reach (unitInit progs) s → deadlocked n s = false

/-- F12 (self operand): false. `x.Or(x)` on a wrapper: after `Lock()` the fallback calls `x.Each`, which calls
`Lock()` on the mutex the caller holds — and the call can never complete, in every schedule. -/
theorem wrapper_deadlock_free_refuted_self :
    ¬ WrapperDeadlockFree ∧ (∀ s, Reach (unitInit selfProgs) s → (s.th 0).todo ≠ []) := by
  constructor
  · intro h
    have hw : (runSched (unitInit selfProgs) [0]).map (deadlocked 1) = some true := by decide
    cases hrun : runSched (unitInit selfProgs) [0] with
    | none => rw [hrun] at hw; cases hw
    | some s =>
      rw [hrun] at hw
      have hd : deadlocked 1 s = true := by simpa using hw
      have := h 1 selfProgs (fun t ht => by match t, ht with | t+1, _ => rfl)
        (fun t c hc => by
          match t, hc with
          | 0, hc => simp [selfProgs] at hc; subst hc; exact ⟨rfl, rfl⟩
          | t+1, hc => simp [selfProgs] at hc)
        s (reach_of_runSched [0] Reach.refl hrun)
      rw [this] at hd; cases hd
  · intro s hr
    have inv : (s.th 0).todo = selfProgs 0 ∧ (∀ t, t ≠ 0 → (s.th t).todo = []) ∧
        (((s.th 0).pc = .start ∧ s.holder 0 = none) ∨ ((s.th 0).pc = .held 1 ∧ s.holder 0 = some 0)) := by
      induction hr with
      | refl => exact ⟨rfl, fun t ht => by match t, ht with | t+1, _ => rfl, Or.inl ⟨rfl, rfl⟩⟩
      | @step s1 s2 t _ hs ih =>
        obtain ⟨h1, h2, h3⟩ := ih
        by_cases ht : t = 0
        · subst ht
          unfold step at hs
          simp only [h1, selfProgs] at hs
          rcases h3 with ⟨hpc, hh⟩ | ⟨hpc, hh⟩
          · simp only [hpc, hh, if_true] at hs
            have hs := Option.some.inj hs
            subst hs
            refine ⟨by simp [upd_same, h1, selfProgs], fun t ht => by simp [upd_other _ _ ht, h2 t ht], Or.inr ⟨by simp [upd_same, Call.rounds], by simp [upd_same]⟩⟩
          · simp only [hpc, hh, if_true] at hs
            cases hs
        · unfold step at hs
          simp only [h2 t ht] at hs
          cases hs
    rw [inv.1]; simp [selfProgs]

/-- F12 (ABBA): `a.Or(b) ∥ b.Or(a)` on two wrappers reaches a state where each thread holds its receiver's mutex and
waits for the other's. -/
theorem wrapper_deadlock_free_refuted_abba :
    ∃ s, Reach (unitInit (abbaProgs 1 1)) s ∧ deadlocked 2 s = true ∧
      s.holder 0 = some 0 ∧ s.holder 1 = some 1 := by
  have hw : (runSched (unitInit (abbaProgs 1 1)) [0, 1]).map
      (fun s => deadlocked 2 s && s.holder 0 == some 0 && s.holder 1 == some 1) = some true := by decide
  cases hrun : runSched (unitInit (abbaProgs 1 1)) [0, 1] with
  | none => rw [hrun] at hw; cases hw
  | some s =>
    rw [hrun] at hw
    simp only [Option.map_some, Option.some.injEq, Bool.and_eq_true, beq_iff_eq] at hw
    exact ⟨s, reach_of_runSched [0, 1] Reach.refl hrun, hw.1.1, hw.1.2, hw.2⟩

/-- what holds today: when no operand is a wrapper (whatever the methods, however many wrappers and threads, locked
or not), no reachable state is deadlocked -/
theorem wrapper_deadlock_free_partial {D R : Type} (n : Nat) (d0 : Nat → D) (dflt : D) (progs : Nat → List (Call D R))
    (hidle : ∀ t, n ≤ t → progs t = []) (hops : ∀ t, ∀ c ∈ progs t, c.operand = none)
    (s : State D R) (hr : Reach (init d0 dflt progs) s) : deadlocked n s = false :=
  not_deadlocked_of_inv (dlInv_reach hops hidle hr)

/-! ### the property at full strength -/

/-- sequential part: every binary operation through the fallback path (operand of any other implementation) yields
exactly the set-algebra result — `fixed = false` is /repo as it is -/
def C13_seq (fixed : Bool) : Prop :=
  ∀ (w : Width) (op : BinOp) (r o : S), Sorted r → Sorted o → fallbackOp fixed w op r o = Spec.binop op r o

/-- C13 at the strength of properties.jsonl for DAWGS' own code (native roaring operations assumed exact): exact set
algebra on every pairing, and wrappers that give the same answers under concurrent use — which needs every call to
return, i.e. deadlock freedom for arbitrary (also wrapped) operands. -/
def C13_full : Prop :=
  C13_seq liveFixed ∧
  (∀ (D R : Type) (w : Nat) (d0 : Nat → D) (dflt : D) (progs : Nat → List (String × (D → D × R))),
    (∀ t, ∀ m ∈ progs t, m.1 ∈ Facts.duplexMethods) →
    ∀ s, Reach (init d0 dflt (fun t => (progs t).map (tableCall w))) s → Lin (d0 w) s.log (s.data w)) ∧
  WrapperDeadlockFree

/-- with hooks/C13-fix.patch the sequential part holds for all widths, operations and sets -/
theorem c13_seq_fixed : C13_seq true := by
  intro w op r o hr ho
  cases op
  · exact orFallback_eq hr ho
  · exact andFallbackFixed_eq hr ho
  · exact andNotFallbackFixed_eq hr ho
  · exact xorFallback_eq ho

/-- the sequential part is false of the code as it is (F1) -/
theorem c13_seq_current_refuted : ¬ C13_seq false := fun h =>
  and_fallback_correct_refuted.1 (fun r o hr ho => h .w32 .and r o hr ho)

/-- C13 is false of the current code: wrappers deadlock on wrapper operands (F12) — independent of the F1 repair -/
theorem c13_full_refuted : ¬ C13_full := fun h => wrapper_deadlock_free_refuted_self.1 h.2.2

/-! ### non-vacuity -/

-- the cursor model reproduces the real outputs (DESIGN §5 F1; see corpus/C13)
example : andFallback .w64 [0, 3, 5, 7, 196608, 196609, 25769803776, 25769803778] [] = [3] := by decide
example : andNotFallback .w32 [0, 3, 5, 7, 65536, 131072, 131073] [0, 3, 5, 7, 65536, 131072, 131073] = [3, 131072, 131073] := by decide
-- the repaired shape on the same inputs
example : andFallbackFixed [0, 3, 5, 7, 196608, 196609, 25769803776, 25769803778] [] = [] := by decide
example : andFallbackFixed [0, 3, 5, 7, 65536] [3, 4, 65536] = [3, 65536] := by decide
-- the partial theorem's exactness hypothesis is satisfiable on a non-trivial state and the loop is then exact
example : andFallback .w32 [1, 2, 65536, 65537] [0, 1, 2, 3, 65536, 65537] = [1, 2, 65536, 65537] := by decide
-- hypotheses of or/xor fallback: satisfiable, results non-trivial
example : orFallback [1, 5, 65536] [0, 5, 70000] = [0, 1, 5, 65536, 70000] ∧ Spec.binop .or [1, 5, 65536] [0, 5, 70000] = [0, 1, 5, 65536, 70000] := by decide
example : xorFallback [1, 5, 65536] [0, 5, 70000] = [0, 1, 65536, 70000] := by decide
-- the monitor is not trivially true
example : Spec.acceptsTrace [1, 2] [(.bin .and [2, 3], .unit, [2])] = true := by decide
example : Spec.acceptsTrace [0, 3, 5, 7] [(.bin .and [], .unit, [3])] = false := by decide
example : Spec.acceptsTrace [1] [(.checkedAdd 1, .bool true, [1])] = false := by decide
-- linearizability has teeth: with a method body that does NOT take the lock, two increments can lose an update
example :
    let inc : Call Nat Nat := { recv := 0, operand := none, cbs := 0, locked := false, opLocked := true, f := fun d _ => (d + 1, d) }
    let progs : Nat → List (Call Nat Nat) := fun t => if t < 2 then [inc] else []
    (runSched (init (fun _ => 0) 0 progs) [0, 1, 0, 1, 0, 1, 0, 1]).map (fun s => (s.data 0, (s.th 0).res, (s.th 1).res)) = some (1, [0], [0]) := by
  decide
-- and a locked body cannot be interleaved that way: the second thread is blocked at `Lock()`
example :
    let inc : Call Nat Nat := { recv := 0, operand := none, cbs := 0, locked := true, opLocked := true, f := fun d _ => (d + 1, d) }
    let progs : Nat → List (Call Nat Nat) := fun t => if t < 2 then [inc] else []
    ((runSched (init (fun _ => 0) 0 progs) [0, 1]).isNone &&
     ((runSched (init (fun _ => 0) 0 progs) [0, 0, 0, 0, 1, 1, 1, 1]).map (fun s => (s.data 0, (s.th 0).res, (s.th 1).res)) == some (2, [0], [1]))) = true := by
  decide
-- deadlock-free partial: hypotheses satisfiable with two wrappers, two threads
example : deadlocked 2 ((runSched (init (fun _ => ()) () (fun t => if t < 2 then
    [({ recv := t, operand := none, cbs := 0, locked := true, opLocked := true, f := fun _ _ => ((), ()) } : Call Unit Unit)] else []))
    [0, 1, 0, 1]).getD (unitInit selfProgs)) = false := by decide

end Dawgs.C13.Props
