/-
C13 — ID-set providers implement exact set algebra across all implementation pairings.
ONLY property statements and non-vacuity examples live here; lemmas are in Proofs/C13.lean and Proofs/C13Lts.lean.

Reading. A duplex provider denotes a finite set of naturals (strictly ascending list, `Spec.Sorted`); the meaning of
`recv.Op(operand)` is `Spec.binop op recv operand`, whatever the implementation pairing. Native roaring operations are
assumed exact (trusted base; `native_ops_set` shows that the functions standing for them ARE ∪ ∩ \ △ on sets).
Proved here about DAWGS' own code: the fallbacks taken for an operand that is not the receiver's concrete type, the
wrappers (snapshot a wrapper operand under its own lock; then lock; delegate; unlock — tied to lock.go by the
regenerated table), and the lock-level LTS of the wrappers. Theorems named `…_old` are about lock.go before
hooks/C13-fix2.patch (a wrapper operand was read while the receiver's lock was held).
-/
import Dawgs.Proofs.C13
import Dawgs.Proofs.C13Lts
import Dawgs.Generated.C13_locks
set_option linter.unusedSimpArgs false
namespace Dawgs.C13.Props
open Dawgs.C13 Dawgs.C13.Spec Dawgs.C13.Lts

/-- set-algebra meaning of the four in-place operations -/
def Denotes : BinOp → S → S → Nat → Prop
  | .or, a, b, x => x ∈ a ∨ x ∈ b
  | .and, a, b, x => x ∈ a ∧ x ∈ b
  | .andNot, a, b, x => x ∈ a ∧ x ∉ b
  | .xor, a, b, x => (x ∈ a ∧ x ∉ b) ∨ (x ∈ b ∧ x ∉ a)

/-- The functions standing for the native roaring operations (and used by the monitor as the spec) are exactly
∪, ∩, \, △, insert and erase on canonical sets, and keep sets canonical. -/
theorem native_ops_set {a b : S} (ha : Sorted a) (hb : Sorted b) :
    (∀ op, Sorted (Spec.binop op a b) ∧ ∀ x, x ∈ Spec.binop op a b ↔ Denotes op a b x) ∧
    (∀ v, Sorted (ins v a) ∧ ∀ x, x ∈ ins v a ↔ x = v ∨ x ∈ a) ∧
    (∀ v, Sorted (del v a) ∧ ∀ x, x ∈ del v a ↔ x ∈ a ∧ x ≠ v) ∧
    (∀ op, nativeOp op = Spec.binop op) := by
  refine ⟨?_, fun v => ⟨sorted_ins ha, fun x => mem_ins⟩, fun v => ⟨sorted_del ha, fun x => mem_del ha⟩, fun op => by cases op <;> rfl⟩
  intro op
  cases op
  · exact ⟨sorted_union ha hb, fun x => mem_union⟩
  · exact ⟨sorted_inter ha, fun x => mem_inter ha hb⟩
  · exact ⟨sorted_diff ha, fun x => mem_diff ha hb⟩
  · exact ⟨sorted_symm ha hb, fun x => mem_symm ha hb⟩

/-- `Or` with an operand of another implementation (`operand.Each` + `s.Add`) is the union, for all sets. -/
theorem or_fallback_correct {r o : S} (hr : Sorted r) (ho : Sorted o) : orFallback r o = Spec.binop .or r o :=
  orFallback_eq hr ho

/-- `Xor` with an operand of another implementation (copy through `Each`, then native `Xor`) is the symmetric
difference, for all sets. -/
theorem xor_fallback_correct {r o : S} (_hr : Sorted r) (ho : Sorted o) : xorFallback r o = Spec.binop .xor r o :=
  xorFallback_eq ho

/-- full-strength statement for the `And` fallback AS WRITTEN (iterate the receiver while removing from it) -/
def AndFallbackCorrect (w : Width) : Prop :=
  ∀ r o : S, Sorted r → Sorted o → andFallback w r o = Spec.binop .and r o

/-- full-strength statement for the `AndNot` fallback as written -/
def AndNotFallbackCorrect (w : Width) : Prop :=
  ∀ r o : S, Sorted r → Sorted o → andNotFallback w r o = Spec.binop .andNot r o

/-- F1: false of the current code for both widths. Witness `{0,3,5,7}.And(wrapped ∅)` leaves `{3}` (every second
element of an array container is skipped); the same case is corpus/C13/c13_f1_and32.ops against the real code. -/
theorem and_fallback_correct_refuted : ¬ AndFallbackCorrect .w32 ∧ ¬ AndFallbackCorrect .w64 := by
  constructor
  · intro h
    have := h [0, 3, 5, 7] [] ((sortedB_iff _).1 (by decide)) ((sortedB_iff _).1 (by decide))
    revert this; decide
  · intro h
    have := h [0, 3, 5, 7] [] ((sortedB_iff _).1 (by decide)) ((sortedB_iff _).1 (by decide))
    revert this; decide

/-- F1 for `AndNot`: `{0,3,5,7,65536,131072,131073}.AndNot(wrapped same set)` leaves `{3,131072,131073}` (32 bit: a
whole container is skipped after the preceding one was emptied and deleted). -/
theorem andnot_fallback_correct_refuted : ¬ AndNotFallbackCorrect .w32 ∧ ¬ AndNotFallbackCorrect .w64 := by
  constructor
  · intro h
    have := h [0, 3, 5, 7, 65536, 131072, 131073] [0, 3, 5, 7, 65536, 131072, 131073] ((sortedB_iff _).1 (by decide)) ((sortedB_iff _).1 (by decide))
    revert this; decide
  · intro h
    have := h [0, 3, 5, 7] [0, 3, 5, 7] ((sortedB_iff _).1 (by decide)) ((sortedB_iff _).1 (by decide))
    revert this; decide

/-- the repaired shape (collect during the iteration, remove afterwards — hooks/C13-fix.patch) is the intersection -/
theorem and_fallback_correct_fixed {r o : S} (hr : Sorted r) (ho : Sorted o) : andFallbackFixed r o = Spec.binop .and r o :=
  andFallbackFixed_eq hr ho

theorem andnot_fallback_correct_fixed {r o : S} (hr : Sorted r) (ho : Sorted o) :
    andNotFallbackFixed r o = Spec.binop .andNot r o :=
  andNotFallbackFixed_eq hr ho

/-- What does hold for the `And` fallback as written, for every cursor behaviour: the result is a canonical subset
of the receiver that still contains the whole intersection (it only fails to remove), and it is exact whenever
nothing has to be removed. -/
theorem and_fallback_correct_partial (w : Width) {r o : S} (hr : Sorted r) :
    Sorted (andFallback w r o) ∧ (∀ x, x ∈ andFallback w r o → x ∈ r) ∧
    (∀ x, x ∈ r → x ∈ o → x ∈ andFallback w r o) ∧
    ((∀ x, x ∈ r → x ∈ o) → andFallback w r o = r) := by
  have hsub := eachRemove_sublist w r (fun v => !has o v)
  have hkeep : ∀ x, x ∈ r → x ∈ o → x ∈ andFallback w r o := fun x hx hxo =>
    eachRemove_keeps w r _ (by simp [has_iff.2 hxo]) hx
  refine ⟨Sorted.sublist hsub hr, fun x hx => hsub.subset hx, hkeep, fun hall => ?_⟩
  exact sorted_ext (Sorted.sublist hsub hr) hr (fun x => ⟨fun hx => hsub.subset hx, fun hx => hkeep x hx (hall x hx)⟩)

theorem andnot_fallback_correct_partial (w : Width) {r o : S} (hr : Sorted r) :
    Sorted (andNotFallback w r o) ∧ (∀ x, x ∈ andNotFallback w r o → x ∈ r) ∧
    (∀ x, x ∈ r → x ∉ o → x ∈ andNotFallback w r o) ∧
    ((∀ x, x ∈ r → x ∉ o) → andNotFallback w r o = r) := by
  have hsub := eachRemove_sublist w r (fun v => has o v)
  have hkeep : ∀ x, x ∈ r → x ∉ o → x ∈ andNotFallback w r o := fun x hx hxo =>
    eachRemove_keeps w r _ (has_false_iff.2 hxo) hx
  refine ⟨Sorted.sublist hsub hr, fun x hx => hsub.subset hx, hkeep, fun hall => ?_⟩
  exact sorted_ext (Sorted.sublist hsub hr) hr (fun x => ⟨fun hx => hsub.subset hx, fun hx => hkeep x hx (hall x hx)⟩)

/-- `Clone` returns a provider with the same content and kind and a free mutex of its own. (Providers are values
in the model: no later operation on the clone can reach the original; that the implementation's clone shares
nothing is what the tie checks on every clone-then-mutate case.) -/
theorem clone_independent (p q : Prov) (h : p.clone = some q) :
    q.set = p.set ∧ q.width = p.width ∧ q.wrapped = p.wrapped ∧ q.locked = false ∧ (p.wrapped && p.locked) = false := by
  unfold Prov.clone Prov.guard at h
  split at h
  · cases h
  · rename_i hl
    cases h
    exact ⟨rfl, rfl, rfl, rfl, by simpa using hl⟩

/-- operands a caller can actually pass in the live protocol (no mutex is ever held forever): canonical sets -/
def OperandOk : Operand → Prop
  | .bitmap o => Sorted o
  | .wrapper locked o => locked = false ∧ Sorted o
  | .selfWrapper => False
  | .nonDuplex => True

/-- Live protocol (snapshot a wrapper operand, then lock; delegate; unlock — with the F1 repair): a wrapper whose
mutex is free gives the same answer and ends with the same content as the bitmap it wraps, for every binary
operation with every operand of either implementation and for every other method; every call returns and has
released its mutex; `x.Op(x)` on a wrapper returns and is `Op` applied to the set and itself. And the wrapper
methods of lock.go ARE that protocol (regenerated table, by `decide`). -/
theorem wrapper_same_answers (p : Prov) (hp : p.locked = false) (hs : Sorted p.set) :
    (∀ op o, OperandOk o →
      ({ p with wrapped := true }.binop true true op o).2 = .ok ∧
      ({ p with wrapped := false }.binop true true op o).2 = .ok ∧
      ({ p with wrapped := true }.binop true true op o).1.set = ({ p with wrapped := false }.binop true true op o).1.set ∧
      ({ p with wrapped := true }.binop true true op o).1.locked = false) ∧
    (∀ op, { p with wrapped := true }.binop true true op .selfWrapper =
      ({ p with wrapped := true, set := Spec.binop op p.set p.set }, .ok)) ∧
    (∀ {α : Type} (f : S → α), { p with wrapped := true }.guard f = { p with wrapped := false }.guard f) ∧
    Facts.wrappersOk liveSnapshot Generated.C13.wrapperMethods Generated.C13.snapshotCases Generated.C13.snapshotDefault = true := by
  refine ⟨?_, ?_, ?_, by decide⟩
  · intro op o ho
    cases o with
    | bitmap o => simp [Prov.binop, snapshotOperand, bitmapBinop, hp]
    | wrapper locked o =>
      obtain ⟨rfl, hso⟩ := ho
      have hfb : fallbackOp true p.width op p.set o = nativeOp op p.set o := by
        cases op
        · exact orFallback_eq hs hso
        · exact andFallbackFixed_eq hs hso
        · exact andNotFallbackFixed_eq hs hso
        · exact xorFallback_eq hso
      simp [Prov.binop, snapshotOperand, bitmapBinop, hp, hfb]
    | selfWrapper => exact absurd ho id
    | nonDuplex => simp [Prov.binop, snapshotOperand, bitmapBinop, hp]
  · intro op
    have : nativeOp op = Spec.binop op := by cases op <;> rfl
    simp [Prov.binop, snapshotOperand, bitmapBinop, hp, this]
  · intro α f
    simp [Prov.guard, hp]

/-- The protocol of lock.go before hooks/C13-fix2.patch (`snap = false`): same answers as the wrapped bitmap as long
as the call returns at all; it does not return for a self operand (see `wrapper_deadlock_free_old_refuted_self`). -/
theorem wrapper_same_answers_old (fixed : Bool) (p : Prov) (hp : p.locked = false) :
    (∀ op o,
      ({ p with wrapped := true }.binop fixed false op o).2 = ({ p with wrapped := false }.binop fixed false op o).2 ∧
      ({ p with wrapped := true }.binop fixed false op o).1.set = ({ p with wrapped := false }.binop fixed false op o).1.set ∧
      (({ p with wrapped := true }.binop fixed false op o).2 = .ok → ({ p with wrapped := true }.binop fixed false op o).1.locked = false)) ∧
    (∀ op, callsOperand op p.set = true → ({ p with wrapped := true }.binop fixed false op .selfWrapper).2 = .deadlock) := by
  refine ⟨?_, ?_⟩
  · intro op o
    simp only [Prov.binop, hp, Bool.and_false, Bool.false_eq_true, if_false]
    cases bitmapBinop fixed p.width op p.set o <;> simp [hp]
  · intro op hc
    simp [Prov.binop, hp, bitmapBinop, hc]

/-- The type switches of roaring32.go/roaring64.go have exactly the shape the model transcribes (own concrete type →
native call, any other Duplex → the fallback loop with these calls, no default; iterate-while-remove present exactly
in the unrepaired And/AndNot) — regenerated from the source, closed by `decide`. -/
theorem type_switch_as_modelled :
    Generated.C13.typeSwitches = Facts.expectedSwitches liveFixed ∧
    (∀ s, switchPath (.bitmap s) = .native) ∧ (∀ l s, switchPath (.wrapper l s) = .fallback) ∧
    switchPath .selfWrapper = .fallback ∧ switchPath .nonDuplex = .none ∧
    (∀ fixed w op r, bitmapBinop fixed w op r .nonDuplex = some r) := by
  refine ⟨by decide, fun _ => rfl, fun _ _ => rfl, rfl, rfl, fun _ _ _ _ => rfl⟩

/-- **`snapshotOperand` hands out private copies only** (regenerated from lock.go): its body is one type switch; the
case of each wrapper type is exactly `Lock(); defer Unlock(); return typedOther.provider.Clone()` and has NO other return
path — in particular none that returns the wrapper's live inner provider for some content (an empty operand included);
only a provider that is not a wrapper is returned as it is. -/
theorem snapshot_returns_private_copy :
    Generated.C13.snapshotCases = Facts.expectedSnapshotCases ∧ Generated.C13.snapshotDefault = "other" ∧
    Generated.C13.snapshotBodyStmts = 1 := by decide

/-- **API completeness.** Every method of the `Duplex` interface is an operation of the model; every exact provider
(`bitmap32`, `bitmap64`, `threadSafeDuplex`) implements all of them and has no other method except the listed
exempt one (`Iterator`); the one-way providers implement exactly `Simplex`; every type of package `cardinality` that
has methods is one of these, a pinned combinator of commutative.go, or a listed exempt adapter. Regenerated from the
source on every run: a new interface method, implementation method or type breaks this obligation. -/
theorem api_complete : Facts.apiComplete Generated.C13.interfaces Generated.C13.implMethods = true := by decide

/-- commutative.go: `DuplexCommutation.Contains` is membership in the union of its members and
`CommutativeDuplexes.Contains` is "in some `or` commutation and in every `and` commutation", for all member sets. -/
theorem commutative_contains (ors ands : List (List S)) (dc : List S) (v : Nat) :
    (commContains dc v = true ↔ ∃ d ∈ dc, v ∈ d) ∧
    (commDuplexesContains ors ands v = true ↔ (∃ dc ∈ ors, ∃ d ∈ dc, v ∈ d) ∧ (∀ dc ∈ ands, ∃ d ∈ dc, v ∈ d)) :=
  ⟨commContains_iff, commDuplexesContains_iff⟩

/-! ### the lock-level LTS -/

/-- one call of a caller's program: method `name` of the duplex wrapper with mutex `recv`; `operand = some o` when
the operand is itself the wrapper with mutex `o` (possibly `o = recv`) -/
structure Item (D R : Type) where
  /-- "threadSafeDuplex" or "threadSafeSimplex" -/
  wrapper : String := "threadSafeDuplex"
  name : String
  recv : Nat
  operand : Option Nat
  f : D → D → D × R

/-- a method of that wrapper type; only the binary operations (`Or` for the simplex wrapper) take an operand -/
def Item.WellFormed {D R : Type} (it : Item D R) : Prop :=
  (it.wrapper = "threadSafeDuplex" ∨ it.wrapper = "threadSafeSimplex") ∧
  it.name ∈ Facts.methodsOf it.wrapper ∧ (it.operand ≠ none → it.name ∈ Facts.operandMethodsOf it.wrapper)

/-- the LTS call of an item: whether the body holds the lock, whether a wrapper operand is snapshotted before the
lock is taken, and whether the snapshot is taken under the operand's lock are READ FROM THE REGENERATED TABLE of
lock.go -/
def tableCall {D R : Type} (it : Item D R) : Call D R :=
  { recv := it.recv, operand := it.operand, cbs := 1,
    locked := Facts.lockedIn Generated.C13.wrapperMethods it.name it.wrapper,
    opLocked := Facts.snapshotLocks Generated.C13.snapshotCases,
    snapshot := Facts.snapshotsIn Generated.C13.wrapperMethods it.name it.wrapper,
    f := it.f }

theorem tableCall_good {D R : Type} (it : Item D R) (h : it.WellFormed) : Good (tableCall it) := by
  have hall : ∀ w, w = "threadSafeDuplex" ∨ w = "threadSafeSimplex" →
      (Facts.methodsOf w).all (fun n => Facts.lockedIn Generated.C13.wrapperMethods n w) = true := by
    rintro w (rfl | rfl) <;> decide
  have hbin : ∀ w, w = "threadSafeDuplex" ∨ w = "threadSafeSimplex" →
      (Facts.operandMethodsOf w).all (fun n => Facts.snapshotsIn Generated.C13.wrapperMethods n w) = true := by
    rintro w (rfl | rfl) <;> decide
  have hsnap : Facts.snapshotLocks Generated.C13.snapshotCases = true := by decide
  exact ⟨fun ho => List.all_eq_true.1 (hbin _ h.1) it.name (h.2.2 ho), List.all_eq_true.1 (hall _ h.1) it.name h.2.1, hsnap⟩

/-- Linearizability of the wrappers, arbitrary operands (other wrappers, the receiver itself): for all programs of
calls of the interface on any number of wrappers and every state reachable under ANY interleaving of their atomic
steps,
* per wrapper, the log of write steps on it is a sequential execution: every call returned what it returns when the
  calls on that wrapper run one after the other in log order on the operand snapshots they recorded, and the wrapper's
  data is the result of that run (each operation is atomic on its receiver);
* the log respects every thread's program order and holds exactly its returned results;
* a wrapper is used by at most one thread at a time — bodies on it and snapshot reads of it exclude one another —
  and while a thread reads an operand its snapshot IS the operand's data (the operand is read atomically). -/
theorem wrapper_linearizable {D R : Type} (d0 : Nat → D) (dflt : D) (progs : Nat → List (Item D R))
    (hwf : ∀ t, ∀ it ∈ progs t, it.WellFormed)
    (s : State D R) (hr : Reach (init d0 dflt (fun t => (progs t).map tableCall)) s) :
    (∀ m, Lin (d0 m) (onRecv m s.log) (s.data m)) ∧
    (∀ t, (mine t s.log).map (·.call) ++ pending s t = (progs t).map tableCall) ∧
    (∀ t, (s.th t).res = (mine t s.log).map (·.r)) ∧
    (∀ t t' m, Uses s t m → Uses s t' m → t = t') ∧
    (∀ t c rest o, (s.th t).todo = c :: rest → (s.th t).pc = .snapHeld → c.operand = some o → (s.th t).opLoc = s.data o) := by
  have hgood : ∀ t, ∀ c ∈ (progs t).map (tableCall (D := D) (R := R)), Good c := by
    intro t c hc
    obtain ⟨it, hit, rfl⟩ := List.mem_map.1 hc
    exact tableCall_good it (hwf t it hit)
  have inv := linInv_reach hgood hr
  refine ⟨inv.lin, inv.order, inv.res, ?_, ?_⟩
  · intro t t' m h h'
    have := uses_holder inv h; have := uses_holder inv h'; simp_all
  · intro t c rest o h1 h2 h3
    obtain ⟨o', ho1, _, ho3⟩ := inv.snap t c rest h1 h2
    rw [h3] at ho1; cases ho1; exact ho3

/-- deadlock freedom for ARBITRARY wrapper operands, parameterised by the protocol: programs of calls whose bodies
hold their lock, whose operand reads hold the operand's lock, and which all follow protocol `snapshot`, never reach
a state where somebody has work and nobody can move -/
def WrapperDeadlockFree (snapshot : Bool) : Prop :=
  ∀ (n : Nat) (progs : Nat → List (Call Unit Unit)), (∀ t, n ≤ t → progs t = []) →
    (∀ t, ∀ c ∈ progs t, c.locked = true ∧ c.opLocked = true ∧ c.snapshot = snapshot) →
    ∀ s, Reach (unitInit progs) s → deadlocked n s = false

/-- The live protocol is deadlock free for arbitrary operands — other wrappers, the receiver itself, any number of
wrappers and threads, any data: a thread never waits for a lock while it holds one, so in every reachable state
with an unfinished thread some thread has an enabled step. (Holds whatever `locked`/`opLocked` are.) -/
theorem wrapper_deadlock_free_any {D R : Type} (n : Nat) (d0 : Nat → D) (dflt : D) (progs : Nat → List (Call D R))
    (hidle : ∀ t, n ≤ t → progs t = []) (hlive : ∀ t, ∀ c ∈ progs t, c.operand ≠ none → c.snapshot = true)
    (s : State D R) (hr : Reach (init d0 dflt progs) s) : deadlocked n s = false :=
  not_deadlocked_of_inv (dfInv_reach hlive hidle hr)

theorem wrapper_deadlock_free : WrapperDeadlockFree true :=
  fun n progs hidle h s hr => wrapper_deadlock_free_any n _ _ progs hidle (fun t c hc _ => (h t c hc).2.2) s hr

/-- … and lock.go follows it: programs built from the regenerated table are deadlock free -/
theorem wrapper_deadlock_free_live {D R : Type} (n : Nat) (d0 : Nat → D) (dflt : D) (progs : Nat → List (Item D R))
    (hidle : ∀ t, n ≤ t → progs t = []) (hwf : ∀ t, ∀ it ∈ progs t, it.WellFormed)
    (s : State D R) (hr : Reach (init d0 dflt (fun t => (progs t).map tableCall)) s) : deadlocked n s = false := by
  refine wrapper_deadlock_free_any n d0 dflt _ (fun t ht => by simp [hidle t ht]) ?_ s hr
  intro t c hc
  obtain ⟨it, hit, rfl⟩ := List.mem_map.1 hc
  exact (tableCall_good it (hwf t it hit)).1

/-- F12 (self operand), protocol before hooks/C13-fix2.patch: false. `x.Or(x)` on a wrapper: after `Lock()` the
fallback calls `x.Each`, which calls `Lock()` on the mutex the caller holds — the call can never complete, in every
schedule. -/
theorem wrapper_deadlock_free_old_refuted_self :
    ¬ WrapperDeadlockFree false ∧ (∀ s, Reach (unitInit (selfProgs false)) s → (s.th 0).todo ≠ []) := by
  constructor
  · intro h
    have hw : (runSched (unitInit (selfProgs false)) [0]).map (deadlocked 1) = some true := by decide
    cases hrun : runSched (unitInit (selfProgs false)) [0] with
    | none => rw [hrun] at hw; cases hw
    | some s =>
      rw [hrun] at hw
      have hd : deadlocked 1 s = true := by simpa using hw
      have := h 1 (selfProgs false) (fun t ht => by match t, ht with | t+1, _ => rfl)
        (fun t c hc => by
          match t, hc with
          | 0, hc => simp [selfProgs] at hc; subst hc; exact ⟨rfl, rfl, rfl⟩
          | t+1, hc => simp [selfProgs] at hc)
        s (reach_of_runSched [0] Reach.refl hrun)
      rw [this] at hd; cases hd
  · intro s hr
    have inv : (s.th 0).todo = selfProgs false 0 ∧ (∀ t, t ≠ 0 → (s.th t).todo = []) ∧
        (((s.th 0).pc = .start ∧ s.holder 0 = none) ∨ ((s.th 0).pc = .held 1 ∧ s.holder 0 = some 0)) := by
      induction hr with
      | refl => exact ⟨rfl, fun t ht => by match t, ht with | t+1, _ => rfl, Or.inl ⟨rfl, rfl⟩⟩
      | @step s1 s2 t _ hs ih =>
        obtain ⟨h1, h2, h3⟩ := ih
        by_cases ht : t = 0
        · subst ht
          unfold step at hs
          simp only [h1, selfProgs] at hs
          rcases h3 with ⟨hpc, hh⟩ | ⟨hpc, hh⟩
          · simp only [hpc, Call.snapTarget, acquireRecv, hh, if_true] at hs
            have hs := Option.some.inj hs
            subst hs
            refine ⟨by simp [upd_same, h1, selfProgs], fun t ht => by simp [upd_other _ _ ht, h2 t ht], Or.inr ⟨by simp [upd_same, Call.rounds], by simp [upd_same]⟩⟩
          · simp only [hpc, hh, if_true] at hs
            cases hs
        · unfold step at hs
          simp only [h2 t ht] at hs
          cases hs
    rw [inv.1]; simp [selfProgs]

/-- F12 (ABBA), protocol before hooks/C13-fix2.patch: `a.Or(b) ∥ b.Or(a)` on two wrappers reaches a state where each
thread holds its receiver's mutex and waits for the other's. -/
theorem wrapper_deadlock_free_old_refuted_abba :
    ∃ s, Reach (unitInit (abbaProgs false 1 1)) s ∧ deadlocked 2 s = true ∧
      s.holder 0 = some 0 ∧ s.holder 1 = some 1 := by
  have hw : (runSched (unitInit (abbaProgs false 1 1)) [0, 1]).map
      (fun s => deadlocked 2 s && s.holder 0 == some 0 && s.holder 1 == some 1) = some true := by decide
  cases hrun : runSched (unitInit (abbaProgs false 1 1)) [0, 1] with
  | none => rw [hrun] at hw; cases hw
  | some s =>
    rw [hrun] at hw
    simp only [Option.map_some, Option.some.injEq, Bool.and_eq_true, beq_iff_eq] at hw
    exact ⟨s, reach_of_runSched [0, 1] Reach.refl hrun, hw.1.1, hw.1.2, hw.2⟩

/-- what held for the old protocol: no deadlock when no operand is a wrapper -/
theorem wrapper_deadlock_free_old_partial {D R : Type} (n : Nat) (d0 : Nat → D) (dflt : D) (progs : Nat → List (Call D R))
    (hidle : ∀ t, n ≤ t → progs t = []) (hops : ∀ t, ∀ c ∈ progs t, c.operand = none)
    (s : State D R) (hr : Reach (init d0 dflt progs) s) : deadlocked n s = false :=
  wrapper_deadlock_free_any n d0 dflt progs hidle (fun t c hc ho => absurd (hops t c hc) ho) s hr

/-! ### the property at full strength -/

/-- sequential part: every binary operation through the fallback path (operand of any other implementation) yields
exactly the set-algebra result — `fixed = false` is /repo as it is -/
def C13_seq (fixed : Bool) : Prop :=
  ∀ (w : Width) (op : BinOp) (r o : S), Sorted r → Sorted o → fallbackOp fixed w op r o = Spec.binop op r o

/-- **One provider, any history, any operand pairing: the model refines the set spec.** For the live code (F1 repair,
snapshot protocol), a plain bitmap or a wrapper with a free mutex and canonical content, and EVERY history of calls of
the Duplex interface — add, remove, clear, checked add, contains, cardinality, slice, iteration with early stop, clone,
and the four in-place binary operations with an operand that is a plain bitmap, a wrapper, or (for a wrapper) the
receiver itself — every call returns, answers what the set spec answers, and leaves exactly the set the spec
prescribes. (Operands are values here: a plain bitmap as its OWN operand, and what the native Xor does to a plain
operand object, are the refuted instances in Props/C13Roaring.) -/
def ProvRefinesSpec (fixed snap : Bool) : Prop :=
  ∀ (p : Prov) (ops : List Spec.SeqOp), p.locked = false → Sorted p.set → (∀ op ∈ ops, op.Ok p.wrapped) →
    Prov.accepted fixed snap p ops = true

theorem model_refines_spec : ProvRefinesSpec true true :=
  fun p ops hl hs hok => Spec.accepted_of_ok ops p hl hs hok

/-- C13 at the strength of properties.jsonl for DAWGS' own code (native roaring operations assumed exact): exact set
algebra on every pairing, and wrappers that give the same answers under concurrent use — linearizable, and every
call returns (deadlock freedom for arbitrary, also wrapped, operands). `fixed`/`snapshot` select the code version. -/
def C13_fullFor (fixed snapshot : Bool) : Prop :=
  ProvRefinesSpec fixed snapshot ∧
  C13_seq fixed ∧
  (∀ (D R : Type) (d0 : Nat → D) (dflt : D) (progs : Nat → List (Item D R)),
    (∀ t, ∀ it ∈ progs t, it.WellFormed) →
    ∀ s, Reach (init d0 dflt (fun t => (progs t).map tableCall)) s → ∀ m, Lin (d0 m) (onRecv m s.log) (s.data m)) ∧
  WrapperDeadlockFree snapshot

/-- the live code: /repo with hooks/C13-fix.patch (committed) and hooks/C13-fix2.patch -/
def C13_full : Prop := C13_fullFor liveFixed liveSnapshot

/-- with hooks/C13-fix.patch the sequential part holds for all widths, operations and sets -/
theorem c13_seq_fixed : C13_seq true := by
  intro w op r o hr ho
  cases op
  · exact orFallback_eq hr ho
  · exact andFallbackFixed_eq hr ho
  · exact andNotFallbackFixed_eq hr ho
  · exact xorFallback_eq ho

/-- the sequential part was false of the code before hooks/C13-fix.patch (F1) -/
theorem c13_seq_current_refuted : ¬ C13_seq false := fun h =>
  and_fallback_correct_refuted.1 (fun r o hr ho => h .w32 .and r o hr ho)

/-- C13 holds of the live code -/
theorem c13_full : C13_full :=
  ⟨model_refines_spec, c13_seq_fixed, fun D R d0 dflt progs hwf s hr => (wrapper_linearizable d0 dflt progs hwf s hr).1,
   wrapper_deadlock_free⟩

/-- … and was false before each of the two repairs: wrappers deadlocked on wrapper operands (F12), the And/AndNot
fallbacks lost elements (F1) -/
theorem c13_full_old_refuted : ¬ C13_fullFor true false ∧ ¬ C13_fullFor false true :=
  ⟨fun h => wrapper_deadlock_free_old_refuted_self.1 h.2.2.2, fun h => c13_seq_current_refuted h.2.1⟩

/-! ### non-vacuity -/

-- the cursor model reproduces the real outputs (DESIGN §5 F1; see corpus/C13)
example : andFallback .w64 [0, 3, 5, 7, 196608, 196609, 25769803776, 25769803778] [] = [3] := by decide
example : andNotFallback .w32 [0, 3, 5, 7, 65536, 131072, 131073] [0, 3, 5, 7, 65536, 131072, 131073] = [3, 131072, 131073] := by decide
-- the repaired shape on the same inputs
example : andFallbackFixed [0, 3, 5, 7, 196608, 196609, 25769803776, 25769803778] [] = [] := by decide
example : andFallbackFixed [0, 3, 5, 7, 65536] [3, 4, 65536] = [3, 65536] := by decide
-- the partial theorem's exactness hypothesis is satisfiable on a non-trivial state and the loop is then exact
example : andFallback .w32 [1, 2, 65536, 65537] [0, 1, 2, 3, 65536, 65537] = [1, 2, 65536, 65537] := by decide
-- hypotheses of or/xor fallback: satisfiable, results non-trivial
example : orFallback [1, 5, 65536] [0, 5, 70000] = [0, 1, 5, 65536, 70000] ∧ Spec.binop .or [1, 5, 65536] [0, 5, 70000] = [0, 1, 5, 65536, 70000] := by decide
example : xorFallback [1, 5, 65536] [0, 5, 70000] = [0, 1, 65536, 70000] := by decide
-- `model_refines_spec`: hypotheses satisfiable on a non-trivial history (wrapper receiver, wrapper operand, self operand), and
-- the acceptor is not vacuous: the unrepaired And fallback fails it on the F1 witness
example : Prov.accepted true true { width := .w64, wrapped := true, set := [1, 5] }
    [.add [7, 3], .bin .and (.wrapper false [3, 5, 9]), .checkedAdd 3, .bin .xor .selfWrapper, .card] = true := by decide
example : Prov.accepted false true { width := .w32, wrapped := false, set := [0, 3, 5, 7] } [.bin .and (.wrapper false [])] = false := by
  decide
-- the monitor is not trivially true
example : Spec.acceptsTrace [1, 2] [(.bin .and [2, 3], .unit, [2])] = true := by decide
example : Spec.acceptsTrace [0, 3, 5, 7] [(.bin .and [], .unit, [3])] = false := by decide
example : Spec.acceptsTrace [1] [(.checkedAdd 1, .bool true, [1])] = false := by decide
-- linearizability has teeth: with a method body that does NOT take the lock, two increments can lose an update
example :
    let inc : Call Nat Nat := { recv := 0, operand := none, cbs := 0, locked := false, opLocked := true, snapshot := true, f := fun d _ => (d + 1, d) }
    let progs : Nat → List (Call Nat Nat) := fun t => if t < 2 then [inc] else []
    (runSched (init (fun _ => 0) 0 progs) [0, 1, 0, 1, 0, 1, 0, 1]).map (fun s => (s.data 0, (s.th 0).res, (s.th 1).res)) = some (1, [0], [0]) := by
  decide
-- and a locked body cannot be interleaved that way: the second thread is blocked at `Lock()`
example :
    let inc : Call Nat Nat := { recv := 0, operand := none, cbs := 0, locked := true, opLocked := true, snapshot := true, f := fun d _ => (d + 1, d) }
    let progs : Nat → List (Call Nat Nat) := fun t => if t < 2 then [inc] else []
    ((runSched (init (fun _ => 0) 0 progs) [0, 1]).isNone &&
     ((runSched (init (fun _ => 0) 0 progs) [0, 0, 0, 0, 1, 1, 1, 1]).map (fun s => (s.data 0, (s.th 0).res, (s.th 1).res)) == some (2, [0], [1]))) = true := by
  decide
-- deadlock-free partial: hypotheses satisfiable with two wrappers, two threads
example : deadlocked 2 ((runSched (init (fun _ => ()) () (fun t => if t < 2 then
    [({ recv := t, operand := none, cbs := 0, locked := true, opLocked := true, snapshot := true, f := fun _ _ => ((), ()) } : Call Unit Unit)] else []))
    [0, 1, 0, 1]).getD (unitInit (selfProgs true))) = false := by decide
-- the live protocol on the two F12 witnesses: x.Op(x) completes; a.Op(b) ∥ b.Op(a) completes from the old ABBA prefix
example : (runSched (unitInit (selfProgs true)) [0, 0, 0, 0, 0, 0]).map (fun s => (s.th 0).todo.isEmpty) = some true := by decide
example : (runSched (unitInit (abbaProgs true 1 1)) [0, 1, 0, 1, 0, 0, 0, 0, 1, 1, 1, 1]).map
    (fun s => (s.th 0).todo.isEmpty && (s.th 1).todo.isEmpty) = some true := by decide
-- the snapshot of an operand that is being written by another thread is taken under the operand's lock: with an
-- unlocked snapshot (`opLocked := false`) a reader can run between a writer's read and write of the operand
example :
    let w : Call Nat Nat := { recv := 1, operand := none, cbs := 0, locked := true, opLocked := true, snapshot := true, f := fun d _ => (d + 1, d) }
    let m : Call Nat Nat := { recv := 0, operand := some 1, cbs := 1, locked := true, opLocked := true, snapshot := true, f := fun d o => (d + o, o) }
    let progs : Nat → List (Call Nat Nat) := fun t => if t = 0 then [m] else if t = 1 then [w] else []
    -- thread 1 is inside its body on wrapper 1 (holds its lock): thread 0 cannot start its snapshot
    (runSched (init (fun _ => 0) 0 progs) [1, 1, 0]).isNone = true := by decide
example :
    let w : Call Nat Nat := { recv := 1, operand := none, cbs := 0, locked := true, opLocked := true, snapshot := true, f := fun d _ => (d + 1, d) }
    let m : Call Nat Nat := { recv := 0, operand := some 1, cbs := 1, locked := true, opLocked := false, snapshot := true, f := fun d o => (d + o, o) }
    let progs : Nat → List (Call Nat Nat) := fun t => if t = 0 then [m] else if t = 1 then [w] else []
    -- the same schedule goes through when the snapshot does not take the operand's lock: a read in the middle of a body
    (runSched (init (fun _ => 0) 0 progs) [1, 1, 0]).isSome = true := by decide

end Dawgs.C13.Props
