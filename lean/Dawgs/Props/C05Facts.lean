/-
C05 T-tie: side conditions over the facts regenerated from the current sources by `tools/extract/gotyped c05`
(go/types): every `range` over a map with the shape of its body, the parameter-map copy of NewTranslator, the uses of
the caller's query in Optimize / Translate, the shape of walk.Generic, the lock table of the in-memory kind mapper.
Re-checked by the kernel on every run; a new order-sensitive range, a write to the caller's parameter map, a second
use of the caller's query or a callback without error check makes `lake build` fail.
-/
import Dawgs.Generated.C05_ranges
import Dawgs.Generated.C12Api
import Dawgs.Generated.C05_paramvalues
namespace Dawgs.C05.Facts
open Dawgs.Generated.C05

/-- classes whose result cannot depend on iteration order (instances of `fold_perm_invariant` in Props/C05):
map-insert, set-insert, sorted-before-use, lookup-only, commutative-fold; callback-unused = dead code -/
def safeClass (c : Nat) : Bool := c ≤ 4 || c == 7

/-- loops outside the safe classes, each with its own argument:
* `Scope.PruneDefinitions` (first-match with break over `aliases` and over `parameterAliases`): alias targets are
  pairwise distinct on every reachable scope (one invariant for the namespace-tagged table that models both maps), so
  each match is unique — `Dawgs.C06.Props.prune_alias_choice_unique`;
* `mergeAggregatePredicateParameters` (insert-or-error): only the TEXT of the collision error names the first key met;
  both translators draw parameter names from one shared generator, so the branch is not reachable, and the SQL never
  depends on it (the harness compares error texts across repeated runs);
* `SymbolTable.Contains` (supporting package): `found` is assigned by every iteration that does not return false,
  always to true. -/
def exempt : List (String × String × Nat × String) :=
  [("translate/tracking.go", "Scope.PruneDefinitions", 5,
      "first match with break over aliases / parameterAliases: alias targets are pairwise distinct on every reachable scope, so the match is unique (Dawgs.C06.Props.prune_alias_choice_unique)"),
   ("translate/aggregate_traversal_count.go", "Translator.mergeAggregatePredicateParameters", 6,
      "insert-or-error: only the TEXT of the collision error names the first key met; both translators draw parameter names from one shared generator, so the branch is unreachable and no SQL depends on it"),
   ("pgsql/identifiers.go", "SymbolTable.Contains", 8,
      "`found` is assigned by every iteration that does not return false, always the value true")]

def justified : List (String × String × Nat) := exempt.map (fun e => (e.1, e.2.1, e.2.2.1))

theorem exempt_have_reasons : exempt.all (fun e => e.2.2.2 != "") = true := by decide +kernel

theorem table_nonempty : 25 ≤ ranges.length ∧ 300 ≤ rangeStatementsSeen ∧ classNames.length = 9 := by decide

/-- **no_order_sensitive_range**: every `range` over a map in translate/, optimize/, format/, pgutil (and in the
supporting packages pgsql, cypher, walk) is of an order-independent shape or one of the three justified loops. -/
theorem no_order_sensitive_range :
    ranges.all (fun r => safeClass r.cls || justified.contains (r.file, r.fn, r.cls)) = true := by decide

/-- no stale justification: each justified loop still exists with that classification -/
theorem justified_all_present :
    justified.all (fun j => ranges.any (fun r => (r.file, r.fn, r.cls) == j)) = true := by decide

/-- **parameter_map_copied**: NewTranslator only reads the caller's map (nil check, len, range) and keeps an
entry-by-entry copy; nothing in package translate assigns or deletes through a `parameters` field. -/
theorem parameter_map_copied :
    newTranslatorUsesParametersReadOnly = true ∧ newTranslatorCopiesParameters = true ∧ translatorParameterWrites = [] := by decide

/-- **caller_query_only_copied**: Optimize touches its argument only to nil-check and to `cypher.Copy` it; Translate
passes the caller's query to Optimize and uses nothing but the returned plan afterwards (premise of `optimize_isolated`). -/
theorem caller_query_only_copied :
    optimizeQueryUses = ["nil-compare", "arg:cypher.Copy"] ∧ translateQueryUses = ["arg:optimize.Optimize"] := by decide

/-- **generic_shape**: walk.Generic has the loop condition, the five callback sites (Enter, Visit, Exit×3) each followed
by the error check, one push per NextBranch (which advances the index) and three pops that Model/C05.lean transcribes. -/
theorem generic_shape :
    genericLoopCondition = "len(stack) > 0 && !visitor.Done()" ∧ genericCallbacks = 5 ∧ genericCallbacksErrorChecked = 5
    ∧ genericPushes = 2 ∧ genericNextBranchCalls = 1 ∧ genericPops = 3 ∧ nextBranchAdvancesIndex = true
    ∧ setErrorSetsDone = true := by decide

/-! ### determinism: sorts -/

/-- sorts with a caller-supplied order that are not a total order on the elements, each with its reason (none today) -/
def exemptSorts : List (String × String × String) := []

/-- **sort_comparators_total**: "sorted before use" erases iteration order only if the order is TOTAL on the elements.
Natural sorts (`sort.Strings`, `slices.Sort`, …) are; every `sort.Slice` / `sort.SliceStable` / `slices.SortFunc` /
`sort.Sort` in translate/, optimize/, format/, pgsql/, cypher/, walk/ must end in a comparison of the two elements
themselves (`xs[i] < xs[j]`, `cmp.Compare(a, b)`, possibly after keyed guards), or be exempt with a reason. A comparator
on a key FUNCTION of the element (e.g. `strings.ToLower`) leaves ties in map order. The range classifier applies the same
rule before it answers `sorted-before-use`. -/
theorem sort_comparators_total :
    sortComparators.all (fun s => s.2.2.2.2.2 == 0 || exemptSorts.any (fun e => e.1 == s.1 && e.2.1 == s.2.2.1)) = true := by decide +kernel

/-! ### determinism: no other source of schedule- or environment-dependence -/

/-- **no_nondeterminism_sources**: besides `range` over maps (classified above) the packages translate/, optimize/, format/,
pgsql/, cypher/ and walk/ contain NO `select`, NO `go` statement, no wall-clock or timer call, no random numbers, no
`sync.Map`, no `reflect` / `maps` iteration over a map, no `%p` formatting, no `unsafe`, no read of the process
environment. With `no_order_sensitive_range` this is the whole syntactic argument: what remains — that a sequential Go
program without these constructs computes a function of its inputs (Go's semantics), and that values compared by
`reflect.DeepEqual` / printed with `%v` are rendered deterministically (fmt sorts map keys) — is the TRUSTED step. -/
theorem no_nondeterminism_sources : nondetSources = [] := by decide

def wKind (w : String × Nat × String × String × String × String) : String := w.2.2.2.1
def wFn (w : String × Nat × String × String × String × String) : String := w.2.2.1
def wCls (w : String × Nat × String × String × String × String) : String := w.2.2.2.2.2

/-! ### determinism / isolation: no state survives a call or is shared between concurrent calls -/

/-- uses of package-level variables that are not plain reads and are harmless, each with its reason -/
def knownSharedUses : List (String × String × String) :=
  [("FromCypher", "translate.newlineToCommentReplacer *strings.Replacer.WriteString",
      "strings.Replacer is documented safe for concurrent use by multiple goroutines; its only internal state is the lookup table built once (sync.Once) from the constructor arguments, so the output is a function of the arguments")]

/-- **no_shared_mutable_state**: all mutable translation state hangs off the per-call Translator / Scope /
IdentifierGenerator — the only other place a Go program can keep state between calls is a package-level variable, and in
translate/, optimize/, format/, pgsql/, cypher/ and walk/ (function bodies and function literals of initialisers)
* NO package-level variable is assigned, element-assigned, incremented, `delete`d / `clear`ed or has its address taken
  (not even in an `init`);
* every method with a pointer receiver called on one is a listed one with its reason (today: the `*strings.Replacer`);
* a package-level slice / map / pointer never leaves through an alias (assigned, returned, stored, re-sliced, passed to a
  call) except as an argument of a same-package function that only ranges over / measures that parameter.
So no translation can observe what an earlier or a concurrent one did, except through the kind mapper (below). A memo
table, a "last query" cache or a shared scratch buffer makes this obligation fail. -/
theorem no_shared_mutable_state :
    (sharedStateSites.filter (fun s => wKind s == "write" || wKind s == "address-taken")) = []
    ∧ (sharedStateSites.filter (fun s => wKind s == "pointer-method-call")).all (fun s =>
        knownSharedUses.any (fun u => u.1 == wFn s && u.2.1 == s.2.2.2.2.1 && u.2.2 != "")) = true
    ∧ (sharedStateSites.filter (fun s => wKind s == "escapes")).all (fun s => wCls s == "arg-read-only") = true
    ∧ sharedStateSites.all (fun s => ["write", "address-taken", "pointer-method-call", "escapes"].contains (wKind s)) = true
    ∧ 10 ≤ packageVars.length ∧ packageVars.any (fun v => wCls v == "ref") = true := by decide +kernel

/-! ### side-effect freedom: nothing reachable from the inputs is written -/


/-- a struct field of type `map[string]any` is harmless when every map ever stored in it is fresh (make / literal) or
the translation's own result map -/
def fieldOK (f : String) : Bool :=
  mapFieldFlows.any (fun x => wKind x == f) &&
  (mapFieldFlows.filter (fun x => wKind x == f)).all (fun x => wCls x == "fresh" || wCls x == "output")

def mapWriteOK (w : String × Nat × String × String × String × String) : Bool :=
  wCls w == "fresh" || wCls w == "output" || mapFieldFlows.any (fun x => wCls w == "field:" ++ wKind x && fieldOK (wKind x))

/-- **inputs_not_written**, over every assignment, `delete`, mutating method call and reflective setter of translate/,
format/ and pgsql/ (typed):
* no write at all into a field or element of a cypher model value (`*cypher.X`, `[]cypher.Expression`, …): the
  translator only READS the AST it is given (and `Translate` hands it the optimizer's copy anyway);
* every write into a `map[string]any` goes into a map made in the same function, into the translation's result
  parameters, or into a receiver field that only ever holds such maps — never into the caller's parameter map
  (which `NewTranslator` copies, `parameter_map_copied`);
* no `reflect.Value.Set…`;
* the kind mapper is only read (`MapKinds`, …) except for `AssertKinds`, the one allowed effect (registering the kinds
  a CREATE names), called from the two CREATE builders through the context wrapper. -/
theorem inputs_not_written :
    (inputWrites.filter (fun w => wKind w == "ast-write" || wKind w == "ast-mutator-call" || wKind w == "reflect-set")) = []
    ∧ (inputWrites.filter (fun w => wKind w == "param-map-write")).all mapWriteOK = true
    ∧ (inputWrites.filter (fun w => wKind w == "kind-mapper-call")).all (fun w => wCls w == "read" || wCls w == "register") = true
    ∧ (inputWrites.filter (fun w => wCls w == "register")).all (fun w =>
        ["Translator.buildKindIDsArray", "Translator.buildEdgeKindIDExpression", "contextAwareKindMapper.AssertKinds"].contains (wFn w)) = true
    ∧ 20 ≤ inputWrites.length := by decide +kernel

/-- **library_values_not_written**: values of the graph package (`*graph.Properties`, nodes, relationships) reach the
translator only as parameter VALUES and belong to the caller. Every method translate/, format/ or pgsql/ calls on such a
value is, by the C12 API table regenerated from graph/*.go, one that does not write through its receiver (`mutates =
false`); plain `graph.ID` methods are value conversions. A "lazy allocation" inside such a getter flips its flag. -/
theorem library_values_not_written :
    (inputWrites.filter (fun w => wKind w == "graph-method-call")).all (fun w =>
      (w.2.2.2.2.1).startsWith "ID." ||
      Dawgs.Generated.C12Api.methods.any (fun m => m.1 == w.2.2.2.2.1 && m.2.2.2 == false)) = true
    ∧ (inputWrites.filter (fun w => wKind w == "graph-method-call")).length ≥ 2 := by decide +kernel

/-! ### totality: the partial operations of translate/ -/

/-- single-value type assertions, slice indexes and slice expressions of translate/ that no recognised guard protects
(recognised: index variable of a `range` over the same slice or over the slice a `make(T, len(·))` copy was sized from;
full / `[:0]` re-slices; constant index into an array; comma-ok and type-switch assertions). `len-mentioned` sites —
a `len` of the same expression occurs in the function — are counted separately and are NOT claimed safe. -/
def knownUnguarded : List (String × String × String) :=
  [("translate/constraints.go", "ConstraintTracker.ConsumeAll", "constraintExpressions[idx]"),
   ("translate/create.go", "Translator.buildKindIDsArray", "arrayLiteral.Values[idx]"),
   ("translate/create.go", "Translator.buildEdgeKindIDExpression", "kindIDs[0]"),
   ("translate/expansion.go", "rewriteBoundEndpointSeedReference", "rewriteBoundEndpointSeedReference(*typedExpression, previousFrameIdentifier, nodeIdentifier).(pgsql.FunctionCall)"),
   ("translate/expansion.go", "rewriteBoundEndpointSeedReference", "rewriteBoundEndpointSeedReference(*typedExpression, previousFrameIdentifier, nodeIdentifier).(pgsql.ArrayIndex)"),
   ("translate/expansion.go", "rewriteBoundEndpointSeedReference", "rewriteBoundEndpointSeedReference(*typedExpression, previousFrameIdentifier, nodeIdentifier).(pgsql.ArraySlice)"),
   ("translate/expansion.go", "rewriteBoundEndpointSeedReference", "rewriteBoundEndpointSeedReference(*typedExpression, previousFrameIdentifier, nodeIdentifier).(pgsql.AnyExpression)"),
   ("translate/expansion.go", "rewriteBoundEndpointSeedReference", "rewriteBoundEndpointSeedReference(*typedExpression, previousFrameIdentifier, nodeIdentifier).(pgsql.UnaryExpression)"),
   ("translate/function.go", "Translator.translateCoalesceFunction", "arguments[numArgs - idx - 1]"),
   ("translate/path_functions.go", "resolvePathCompositeFieldReferences", "resolved.(pgsql.FunctionCall)"),
   ("translate/path_functions.go", "resolvePathCompositeFieldReferences", "resolved.(pgsql.ArraySlice)"),
   ("translate/path_functions.go", "resolvePathCompositeFieldReferences", "resolved.(pgsql.ArrayIndex)"),
   ("translate/path_functions.go", "resolvePathCompositeFieldReferences", "resolved.(pgsql.AnyExpression)"),
   ("translate/pattern.go", "Translator.buildTraversalPatternPart", "part.TraversalSteps[idx - 1]"),
   ("translate/predicate.go", "Translator.buildPatternPredicates", "predicateFuture.Data.Parts[0]"),
   ("translate/quantifiers.go", "Translator.buildQuantifier", "s.query.CurrentPart().stashedQuantifierArray[0]"),
   ("translate/renamer.go", "rewriteCompoundIdentifierScopeReference", "identifier[0]"),
   ("translate/renamer.go", "rewriteCompoundIdentifierScopeReference", "identifier[1]"),
   ("translate/translator.go", "Translator.Exit", "literal.Values[idx]"),
   ("translate/traversal.go", "Translator.applyExpansionSuffixPushdown", "part.TraversalSteps[suffixStartIndex:suffixEndIndex + 1]"),
   ("translate/traversal.go", "previousRelationshipUniquenessConstraint", "part.TraversalSteps[:stepIndex]"),
   ("translate/traversal.go", "expansionPreviousRelationshipUniquenessConstraint", "part.TraversalSteps[:stepIndex]"),
   ("translate/update.go", "Translator.buildUpdates", "arrayLiteral.Values[idx]"),
   -- package pgsql (scanned since round 5): compound identifiers are built with two parts by the translator
   ("pgsql/identifiers.go", "SymbolTable.RootIdentifiers", "typedIdentifier[0]"),
   ("pgsql/model.go", "CompoundIdentifier.Root", "s[0]"),
   ("pgsql/model.go", "CompoundIdentifier.Field", "s[1]")]

/-- **unguarded_partial_sites_known**: every unguarded partial operation of translate/ is one of the listed ones; a new
one breaks this obligation. Which of them the search reaches (under `recover`) is measured with Go's coverage
instrumentation on every run and written to the evidence (`unguarded_sites_reached` / `…_unreached`). -/
theorem unguarded_partial_sites_known :
    unguardedPartialSites.all (fun s => knownUnguarded.contains (s.1, s.2.2.1, s.2.2.2.2.1)) = true := by decide +kernel

/-- **parameter_value_index_guarded**: `anySliceType` looks at element 0 and at `[1:]` of a caller's `[]any` parameter value;
both are protected by a VERIFIED guard — a top-level `if len(slice) == 0 { return … }` before the use
(`len-zero-return-guard`). A comparison with nil is not such a guard (an empty non-nil `[]any{}` passes it and `slice[0]`
panics): with `slice == nil` the two sites turn `unguarded` and this obligation and `unguarded_partial_sites_known` fail.
Every other partial operation of package pgsql is an index under `range`, or one of the three pinned ones. -/
theorem parameter_value_index_guarded :
    (pgsqlPartialSites.filter (fun s => wFn s == "anySliceType")).map (fun s => (s.2.2.2.2.1, wCls s))
        = [("slice[0]", "len-zero-return-guard"), ("slice[1:]", "len-zero-return-guard")]
    ∧ pgsqlPartialSites.all (fun s => ["range-index", "len-zero-return-guard", "unguarded", "full-slice", "constant-in-array"].contains (wCls s)) = true := by
  decide +kernel

/-- forms a generated value of a given shape must come in -/
def requiredForms (shape : String) : List String :=
  if shape == "slice" || shape == "map" then ["nil", "empty", "nonempty"]
  else if shape == "pointer" then ["nil", "nonempty"]
  else if shape == "interface" then ["nil", "value"]
  else ["value"]

/-- **parameter_value_types_generated**: every case of the type switches of `pgsql.ValueToDataType` / `pgsql.NegotiateValue`
(regenerated from the source) has a generated parameter value of exactly that dynamic type in harness/c05params.go — in
nil, empty non-nil and non-empty form where it is a slice or a map, nil and non-nil where it is a pointer — and the
harness puts each value into every one of its parameter positions (IN lists, id lists, property comparison, pattern /
CREATE / SET properties, UNWIND, function argument, projection, SKIP/LIMIT). A new case in either switch without a
generated value breaks this obligation. (That the declared type and form are what the value is, the runner checks on
every case.) -/
theorem parameter_value_types_generated :
    valueTypeSwitchCases.all (fun c => (requiredForms c.2.2).all (fun f => generatedParamValues.contains (c.2.1, f))) = true
    ∧ 40 ≤ valueTypeSwitchCases.length ∧ 10 ≤ generatedParamPositions
    ∧ generatedParamValues.contains ("[]any", "empty") = true := by decide +kernel

/-! ### kind mapper -/

/-- the full condition: every method touching the shared maps holds a lock of the mapper -/
def C05_kindmapper_full : Prop := kindMapperMethods.all (fun m => !m.touches || m.holdsLock) = true

/-- **kind_mapper_locked**: `pgutil.InMemoryKindMapper` has a mutex and every method that touches the shared maps or the
id counter directly takes it (RLock for readers, Lock in `Put`); methods that only call other methods need none.
(Before the fix the struct had no lock at all and concurrent `AssertKinds` of new kinds ended in `fatal error:
concurrent map writes`; a method that forgets the lock makes this obligation fail.) -/
theorem kind_mapper_locked : C05_kindmapper_full ∧ kindMapperMutexFields ≠ [] := by
  unfold C05_kindmapper_full; decide

/-- **kind_mapper_check_then_act**: the premise of `assert_kinds_idempotent` as a fact of the lock table: every method
that writes the shared fields holds the lock AND looks the kind up (comma-ok read of a shared map) before its first
write in the SAME body, i.e. the existence check and the allocation are one critical section; `AssertKinds` itself
writes nothing and allocates only by calling `Put`. -/
theorem kind_mapper_check_then_act :
    (kindMapperMethods.filter (·.writes)).all (fun m => m.holdsLock && m.checksBeforeWrite) = true
    ∧ (kindMapperMethods.filter (fun m => m.name == "AssertKinds")).all (fun m => !m.writes && m.calls.contains "Put"
        && m.calls.all (fun c => c == "Put" || c == "mapKinds")) = true
    ∧ kindMapperMethods.any (fun m => m.name == "AssertKinds") = true := by decide

/-- **kinds_interned_atomically** (source fact shared with C12, `string_kind_interns_atomically`): the mapper's tables
are keyed by `graph.Kind` IDENTITY, and `assert_kinds_idempotent` speaks about kinds as keys. "One id per kind NAME under
concurrency" therefore also needs interning to be a function of the name even when two goroutines first use a name at
the same moment: `graph.StringKind` — the only function that mints a `stringKind` handle, also behind `StringsToKinds` —
goes through ONE atomic `sync.Map.LoadOrStore`. A `Load` followed by a `Store` hands the loser a second handle, which
the mapper registers under a second id. -/
theorem kinds_interned_atomically :
    Dawgs.Generated.C12Api.stringKindCacheCalls = ["LoadOrStore"] ∧ Dawgs.Generated.C12Api.stringKindMinters = ["StringKind"]
    ∧ Dawgs.Generated.C12Api.stringsToKindsUsesFactory = true := by decide

/-- **assert_kinds_order**: `AssertKinds` fills its result position-wise (`ids[idx] = s.Put(kinds[idx])`) — the LIVE model
`KM.assertKinds`, for which `assert_kinds_repeatable` holds (in /repo since 576f2e1). The old shape (`mapKinds` for the
kinds found, then `Put` for the missing ones: found ids first, new ids after — `KM.assertKinds_old`) made the id order
depend on the mapper's state (`assert_kinds_old_order_depends_on_state`, finding fixed); going back to it makes this
obligation fail. -/
theorem assert_kinds_order : assertKindsPositionWise = true := by decide

/-- only `Put` writes the shared fields -/
theorem kind_mapper_single_writer : (kindMapperMethods.filter (·.writes)).map (·.name) = ["Put"] := by decide

end Dawgs.C05.Facts
