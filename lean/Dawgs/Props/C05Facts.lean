/-
C05 T-tie: side conditions over the facts regenerated from the current sources by `tools/extract/gotyped c05`
(go/types): every `range` over a map with the shape of its body, the parameter-map copy of NewTranslator, the uses of
the caller's query in Optimize / Translate, the shape of walk.Generic, the lock table of the in-memory kind mapper.
Re-checked by the kernel on every run; a new order-sensitive range, a write to the caller's parameter map, a second
use of the caller's query or a callback without error check makes `lake build` fail.
-/
import Dawgs.Generated.C05_ranges
namespace Dawgs.C05.Facts
open Dawgs.Generated.C05

/-- classes whose result cannot depend on iteration order (instances of `fold_perm_invariant` in Props/C05):
map-insert, set-insert, sorted-before-use, lookup-only, commutative-fold; callback-unused = dead code -/
def safeClass (c : Nat) : Bool := c ≤ 4 || c == 7

/-- loops outside the safe classes, each with its own argument:
* `Scope.PruneDefinitions` (first-match with break over `aliases` and over `parameterAliases`): alias targets are
  pairwise distinct on every reachable scope (one invariant for the namespace-tagged table that models both maps), so
  each match is unique — `Dawgs.C06.Props.prune_alias_choice_unique`;
* `mergeAggregatePredicateParameters` (insert-or-error): only the TEXT of the collision error names the first key met;
  both translators draw parameter names from one shared generator, so the branch is not reachable, and the SQL never
  depends on it (the harness compares error texts across repeated runs);
* `SymbolTable.Contains` (supporting package): `found` is assigned by every iteration that does not return false,
  always to true. -/
def justified : List (String × String × Nat) :=
  [("translate/tracking.go", "Scope.PruneDefinitions", 5),
   ("translate/aggregate_traversal_count.go", "Translator.mergeAggregatePredicateParameters", 6),
   ("pgsql/identifiers.go", "SymbolTable.Contains", 8)]

theorem table_nonempty : 25 ≤ ranges.length ∧ 300 ≤ rangeStatementsSeen ∧ classNames.length = 9 := by decide

/-- **no_order_sensitive_range**: every `range` over a map in translate/, optimize/, format/, pgutil (and in the
supporting packages pgsql, cypher, walk) is of an order-independent shape or one of the three justified loops. -/
theorem no_order_sensitive_range :
    ranges.all (fun r => safeClass r.cls || justified.contains (r.file, r.fn, r.cls)) = true := by decide

/-- no stale justification: each justified loop still exists with that classification -/
theorem justified_all_present :
    justified.all (fun j => ranges.any (fun r => (r.file, r.fn, r.cls) == j)) = true := by decide

/-- **parameter_map_copied**: NewTranslator only reads the caller's map (nil check, len, range) and keeps an
entry-by-entry copy; nothing in package translate assigns or deletes through a `parameters` field. -/
theorem parameter_map_copied :
    newTranslatorUsesParametersReadOnly = true ∧ newTranslatorCopiesParameters = true ∧ translatorParameterWrites = [] := by decide

/-- **caller_query_only_copied**: Optimize touches its argument only to nil-check and to `cypher.Copy` it; Translate
passes the caller's query to Optimize and uses nothing but the returned plan afterwards (premise of `optimize_isolated`). -/
theorem caller_query_only_copied :
    optimizeQueryUses = ["nil-compare", "arg:cypher.Copy"] ∧ translateQueryUses = ["arg:optimize.Optimize"] := by decide

/-- **generic_shape**: walk.Generic has the loop condition, the five callback sites (Enter, Visit, Exit×3) each followed
by the error check, one push per NextBranch (which advances the index) and three pops that Model/C05.lean transcribes. -/
theorem generic_shape :
    genericLoopCondition = "len(stack) > 0 && !visitor.Done()" ∧ genericCallbacks = 5 ∧ genericCallbacksErrorChecked = 5
    ∧ genericPushes = 2 ∧ genericNextBranchCalls = 1 ∧ genericPops = 3 ∧ nextBranchAdvancesIndex = true
    ∧ setErrorSetsDone = true := by decide

/-! ### kind mapper -/

/-- the full condition: every method touching the shared maps holds a lock of the mapper -/
def C05_kindmapper_full : Prop := kindMapperMethods.all (fun m => !m.touches || m.holdsLock) = true

/-- **kind_mapper_locked**: `pgutil.InMemoryKindMapper` has a mutex and every method that touches the shared maps or the
id counter directly takes it (RLock for readers, Lock in `Put`); methods that only call other methods need none.
(Before the fix the struct had no lock at all and concurrent `AssertKinds` of new kinds ended in `fatal error:
concurrent map writes`; a method that forgets the lock makes this obligation fail.) -/
theorem kind_mapper_locked : C05_kindmapper_full ∧ kindMapperMutexFields ≠ [] := by
  unfold C05_kindmapper_full; decide

/-- **kind_mapper_check_then_act**: the premise of `assert_kinds_idempotent` as a fact of the lock table: every method
that writes the shared fields holds the lock AND looks the kind up (comma-ok read of a shared map) before its first
write in the SAME body, i.e. the existence check and the allocation are one critical section; `AssertKinds` itself
writes nothing and allocates only by calling `Put`. -/
theorem kind_mapper_check_then_act :
    (kindMapperMethods.filter (·.writes)).all (fun m => m.holdsLock && m.checksBeforeWrite) = true
    ∧ (kindMapperMethods.filter (fun m => m.name == "AssertKinds")).all (fun m => !m.writes && m.calls.contains "Put"
        && m.calls.all (fun c => c == "Put" || c == "mapKinds")) = true
    ∧ kindMapperMethods.any (fun m => m.name == "AssertKinds") = true := by decide

/-- only `Put` writes the shared fields -/
theorem kind_mapper_single_writer : (kindMapperMethods.filter (·.writes)).map (·.name) = ["Put"] := by decide

end Dawgs.C05.Facts
