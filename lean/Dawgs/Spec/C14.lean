/-
C14 abstract spec `A`: the ground-truth graph as a plain node list and edge list, and the naive
computations every container is judged against. Core Lean only; everything here is executable (the
monitor `Driver/C14Mon.lean` runs it on the REAL containers' answers) and is at the same time the
declarative object of the theorems in Props/C14.lean.
-/
import Dawgs.Model.C14
namespace Dawgs.C14

/-- Ground truth: nodes (with repetitions, order irrelevant) and edges `(id, start, end)`. -/
structure G where
  nodes : List Nat := []
  edges : List Edge := []
deriving Repr, Inhabited

def G.step (g : G) : Op → G
  | .node n => { g with nodes := g.nodes ++ [n] }
  | .edge id s e => { nodes := g.nodes ++ [s, e], edges := g.edges ++ [⟨id, s, e⟩] }

/-- the graph denoted by a build history: every added node, every endpoint, every triple. -/
def G.ofOps (ops : List Op) : G := ops.foldl G.step {}

/-- `DeleteEdge` tombstones / projection deleted-edge set: drop edges by id. -/
def G.dropEdges (g : G) (ids : List Nat) : G := { g with edges := g.edges.filter (fun e => !(ids.contains e.id)) }

/-- projection deleted-node set: drop the nodes and every edge touching one. -/
def G.dropNodes (g : G) (ns : List Nat) : G :=
  { nodes := g.nodes.filter (fun n => !(ns.contains n)),
    edges := g.edges.filter (fun e => !(ns.contains e.start) && !(ns.contains e.stop)) }

/-- the graph a projection with deleted-node set `dn` and deleted-edge set `de` must present -/
def G.project (g : G) (dn de : List Nat) : G := (g.dropEdges de).dropNodes dn

def outOf (v : Nat) (e : Edge) : Option Nat := if e.start = v then some e.stop else none
def inOf (v : Nat) (e : Edge) : Option Nat := if e.stop = v then some e.start else none

/-- `adj G v d` as a list read as a SET: out-neighbours, in-neighbours, `both = out ∪ in`
(so `v ∈ adj G v both` iff `v` has a self loop). -/
def G.adj (g : G) (v : Nat) : Dir → List Nat
  | .out => g.edges.filterMap (outOf v)
  | .inn => g.edges.filterMap (inOf v)
  | .both => g.edges.filterMap (outOf v) ++ g.edges.filterMap (inOf v)

/-- set equality of two lists (multiplicity and order are not part of the property). -/
def SetEq (a b : List Nat) : Prop := ∀ x, x ∈ a ↔ x ∈ b

/-- end points of the walks of exactly `k` steps from `s` along `adj`. -/
def walkEnds (adj : Nat → List Nat) (s : Nat) : Nat → List Nat
  | 0 => [s]
  | k + 1 => (walkEnds adj s k).flatMap adj

/-- reachable by at least one step — what `container.Reach` documents and its tests expect
(`Reach(4, inbound) = {}` for a source node: the start is NOT included unless it lies on a cycle). -/
def Reachable (adj : Nat → List Nat) (s w : Nat) : Prop := ∃ k, 1 ≤ k ∧ w ∈ walkEnds adj s k

/-- `d` is the length of a shortest walk of ≥ 1 step from `s` to `w`. -/
def IsDist (adj : Nat → List Nat) (s w d : Nat) : Prop :=
  1 ≤ d ∧ w ∈ walkEnds adj s d ∧ ∀ k, 1 ≤ k → k < d → w ∉ walkEnds adj s k

/-! executable naive versions used by the monitor (walks of ≤ `n` steps; a shortest walk never needs
more than `|nodes|` steps) -/

/-- canonical form of a set: ascending, no duplicates. -/
def canon (xs : List Nat) : List Nat := sofList xs

def layer (adj : Nat → List Nat) (s : Nat) : Nat → List Nat
  | 0 => [s]
  | k + 1 => canon ((layer adj s k).flatMap adj)

/-- the first layer `k, k+1, …` (at most `fuel` of them) that contains `w` -/
def firstLayer (adj : Nat → List Nat) (s w : Nat) : Nat → Nat → Option Nat
  | 0, _ => none
  | fuel + 1, k => if (layer adj s k).contains w then some k else firstLayer adj s w fuel (k + 1)

/-- `(w, d)` for every `w` reachable in `1..n` steps, `d` the first layer containing it; ascending in `w`. -/
def naiveDists (adj : Nat → List Nat) (s : Nat) (n : Nat) : List (Nat × Nat) :=
  (canon ((List.range n).flatMap (fun k => layer adj s (k + 1)))).filterMap
    (fun w => (firstLayer adj s w n 1).map (fun d => (w, d)))

def naiveReach (adj : Nat → List Nat) (s : Nat) (n : Nat) : List Nat := (naiveDists adj s n).map (·.1)

/-! edges incident in a direction, and the maximal filtered walks TSBFS/TSDFS must report -/

def G.incident (g : G) (v : Nat) : Dir → List Edge
  | .out => g.edges.filter (fun e => e.start = v)
  | .inn => g.edges.filter (fun e => e.stop = v)
  | .both => g.edges.filter (fun e => e.start = v || e.stop = v)

/-- leaves of the tree `x ↦ children x` that are past the root, each as often as it occurs, left to right
(`fuel` bounds the height explored; a tree of height < fuel is explored completely). -/
def treeLeaves {α : Type} (children : α → List α) (isPath : α → Bool) : Nat → α → List α
  | 0, _ => []
  | fuel + 1, x =>
    if (children x).isEmpty then (if isPath x then [x] else [])
    else (children x).flatMap (treeLeaves children isPath fuel)

/-- all maximal walks (as segments, terminal → root) from the walk `w`: a walk is reported when it has
≥ 1 edge and no admitted continuation, or when it reached the depth bound. `pick` is the far end of an
edge seen from a node (`Edge.other`; the monitor also instantiates the defect shape to classify). -/
def maxWalks (g : G) (d : Dir) (filt : Edge → Bool) (maxDepth : Int) (pick : Edge → Nat → Nat := Edge.other) :
    Nat → List Seg → List (List Seg) :=
  treeLeaves (segChildren (fun n => g.incident n d) filt maxDepth pick) segIsPath

/-- end point, length (in edges) and weight product of every maximal weighted walk from the terminal `t` —
what TSStatelessBFS must hand to its handler. -/
def maxTerms (g : G) (d : Dir) (wfilt : Edge → Option Nat) (maxDepth : Int) : Nat → PTerm → List PTerm :=
  treeLeaves (ptChildren (fun n => g.incident n d) wfilt maxDepth Edge.other) ptIsPath

/-- the graph the store denotes after a history of store operations and handle operations (the latter do not touch it) -/
def G.hstep (g : G) : HOp → G
  | .build o => g.step o
  | _ => g

def G.ofRun (ops : List HOp) : G := ops.foldl G.hstep {}

/-- keep the last occurrence of every pair -/
def dedupP : List (Nat × Nat) → List (Nat × Nat)
  | [] => []
  | p :: ps => if p ∈ dedupP ps then dedupP ps else p :: dedupP ps

/-- the distinct (start, end) pairs — what a simple-digraph container (adjacency map, CSR) can count. -/
def G.pairs (g : G) : List (Nat × Nat) := dedupP (g.edges.map (fun e => (e.start, e.stop)))

end Dawgs.C14
