/-
C12 spec `A`: "the tracked change sets are exactly the delta from the loaded state to the current state".

* `Inv L s` / `KInv L e`: the invariant of DESIGN §4 C12 for properties / kinds (propositional form, used by the
  theorems in Props/C12.lean).
* `applyDelta`, `applyKinds`: what a driver does with the delta it is sent (`ModifiedProperties()`,
  `DeletedProperties()`, `AddedKinds`, `DeletedKinds`) on top of the stored (= loaded) state.
* executable judges (`propsViolation`, `kindsViolation`, per-operation post-conditions): the same statements as
  `Option`-valued functions over an *observed* state; the monitor (Driver/C12Mon.lean) runs them on the state the real
  implementation dumps after every operation.  `propsViolation_none_iff` / `kindsViolation_none_iff`
  (Proofs/C12.lean) prove the judges equivalent to the propositional invariants.
Core Lean only.
-/
import Dawgs.Model.C12
namespace Dawgs.C12

/-! ### propositional invariants -/

/-- Properties: loaded map `L`, tracked state `s`. -/
structure Inv (L : KV) (s : Props) : Prop where
  /-- Modified ∩ Deleted = ∅ -/
  disj : ∀ k, k ∈ s.mod → k ∉ s.del
  /-- Modified ⊆ dom Map -/
  modDom : ∀ k, k ∈ s.mod → lookup s.m k ≠ none
  /-- Deleted ∩ dom Map = ∅ -/
  delDom : ∀ k, k ∈ s.del → lookup s.m k = none
  /-- keys outside Modified ∪ Deleted read as loaded -/
  untouched : ∀ k, k ∉ s.mod → k ∉ s.del → lookup s.m k = lookup L k

/-- The clauses of `Inv` that the *current* `Merge` preserves (everything except `delDom`). -/
structure WeakInv (L : KV) (s : Props) : Prop where
  disj : ∀ k, k ∈ s.mod → k ∉ s.del
  modDom : ∀ k, k ∈ s.mod → lookup s.m k ≠ none
  untouched : ∀ k, k ∉ s.mod → k ∉ s.del → lookup s.m k = lookup L k

/-- What the driver writes: stored map, overlaid with the modified pairs, minus the deleted keys. -/
def applyDelta (L : KV) (mp : KV) (dp : List Key) : KV := eraseAll (overlay L mp) dp

/-- "applied to the loaded state, the recorded change sets reproduce the current state exactly" -/
def Reproduces (L : KV) (s : Props) : Prop :=
  ∀ k, lookup (applyDelta L s.modifiedProperties s.del) k = lookup s.m k

/-- Kinds: loaded kinds `L`, tracked entity `e`. -/
structure KInv (L : List Kind) (e : Ent) : Prop where
  nodupK : e.kinds.Nodup
  nodupA : e.added.Nodup
  nodupR : e.removed.Nodup
  /-- Added ∩ Deleted = ∅ -/
  disj : ∀ k, k ∈ e.added → k ∉ e.removed
  /-- Added ⊆ Kinds -/
  addedIn : ∀ k, k ∈ e.added → k ∈ e.kinds
  /-- Deleted ∩ Kinds = ∅ -/
  removedOut : ∀ k, k ∈ e.removed → k ∉ e.kinds
  /-- kinds outside Added ∪ Deleted are present iff loaded -/
  untouched : ∀ k, k ∉ e.added → k ∉ e.removed → (k ∈ e.kinds ↔ k ∈ L)

/-- The clauses of `KInv` the current `Node.Merge` preserves (everything except `removedOut`). -/
structure WeakKInv (L : List Kind) (e : Ent) : Prop where
  nodupK : e.kinds.Nodup
  nodupA : e.added.Nodup
  nodupR : e.removed.Nodup
  disj : ∀ k, k ∈ e.added → k ∉ e.removed
  addedIn : ∀ k, k ∈ e.added → k ∈ e.kinds
  untouched : ∀ k, k ∉ e.added → k ∉ e.removed → (k ∈ e.kinds ↔ k ∈ L)

/-- stored kinds plus added kinds minus deleted kinds (as a set) -/
def applyKinds (L add rem : List Kind) : List Kind := (L ++ add).filter (fun k => !rem.contains k)

def KReproduces (L : List Kind) (e : Ent) : Prop :=
  ∀ k, k ∈ applyKinds L e.added e.removed ↔ k ∈ e.kinds

/-! ### executable judges over an observed state -/

/-- some key of `mod` that is also in `del` -/
def bothIn (mod del : List Key) : Option Key := mod.find? (fun k => del.contains k)
/-- some key of `mod` missing from the map -/
def modAbsent (m : KV) (mod : List Key) : Option Key := mod.find? (fun k => (lookup m k).isNone)
/-- some key of `del` present in the map -/
def delPresent (m : KV) (del : List Key) : Option Key := del.find? (fun k => (lookup m k).isSome)
/-- some key outside `mod ∪ del` whose value differs from the loaded one -/
def untouchedChanged (L m : KV) (mod del : List Key) : Option Key :=
  (keysOf L ++ keysOf m).find? (fun k => !mod.contains k && !del.contains k && lookup m k != lookup L k)

inductive PViol where
  | modifiedAndDeleted (k : Key)
  | modifiedKeyAbsent (k : Key)
  | deletedKeyPresent (k : Key)
  | untouchedKeyChanged (k : Key)
deriving Repr, DecidableEq

/-- first violated clause of `Inv`, if any -/
def propsViolation (L m : KV) (mod del : List Key) : Option PViol :=
  match bothIn mod del with
  | some k => some (.modifiedAndDeleted k)
  | none =>
    match modAbsent m mod with
    | some k => some (.modifiedKeyAbsent k)
    | none =>
      match delPresent m del with
      | some k => some (.deletedKeyPresent k)
      | none =>
        match untouchedChanged L m mod del with
        | some k => some (.untouchedKeyChanged k)
        | none => none

/-- the literal statement: applying the sent delta to the loaded map gives the current map (on every key in sight) -/
def reproducesB (L m mp : KV) (dp : List Key) : Bool :=
  (keysOf L ++ keysOf m ++ keysOf mp ++ dp).all (fun k => lookup (applyDelta L mp dp) k == lookup m k)

def kBothIn (add rem : List Kind) : Option Kind := add.find? (fun k => rem.contains k)
def kAddedAbsent (kinds add : List Kind) : Option Kind := add.find? (fun k => !kinds.contains k)
def kRemovedPresent (kinds rem : List Kind) : Option Kind := rem.find? (fun k => kinds.contains k)
def kUntouchedChanged (L kinds add rem : List Kind) : Option Kind :=
  (L ++ kinds).find? (fun k => !add.contains k && !rem.contains k && (kinds.contains k != L.contains k))

inductive KViol where
  | addedAndDeleted (k : Kind)
  | addedKindAbsent (k : Kind)
  | deletedKindPresent (k : Kind)
  | untouchedKindChanged (k : Kind)
deriving Repr, DecidableEq

/-- first violated set-level clause of `KInv`, if any (duplicates inside the slices are not part of C12) -/
def kindsViolation (L kinds add rem : List Kind) : Option KViol :=
  match kBothIn add rem with
  | some k => some (.addedAndDeleted k)
  | none =>
    match kAddedAbsent kinds add with
    | some k => some (.addedKindAbsent k)
    | none =>
      match kRemovedPresent kinds rem with
      | some k => some (.deletedKindPresent k)
      | none =>
        match kUntouchedChanged L kinds add rem with
        | some k => some (.untouchedKindChanged k)
        | none => none

def kReproducesB (L kinds add rem : List Kind) : Bool :=
  (L ++ kinds ++ add ++ rem).all (fun k => (applyKinds L add rem).contains k == kinds.contains k)

/-! ### per-operation post-conditions ("the last edit of a key wins", nothing else moves) -/

/-- keys in sight of two maps -/
def keysIn (a b : KV) : List Key := keysOf a ++ keysOf b

/-- `Set(k, v)`: `k ↦ v`, every other key reads as before. Returns an offending key. -/
def setPost (before after : KV) (k : Key) (v : Val) : Option Key :=
  if lookup after k != some v then some k
  else (keysIn before after).find? (fun k' => k' != k && lookup after k' != lookup before k')

/-- `Delete(k)`: `k` absent, every other key reads as before. -/
def deletePost (before after : KV) (k : Key) : Option Key :=
  if lookup after k != none then some k
  else (keysIn before after).find? (fun k' => k' != k && lookup after k' != lookup before k')

/-- `SetAll(kvs)` with distinct keys: every listed key has its value, every other key reads as before. -/
def setAllPost (before after kvs : KV) : Option Key :=
  match kvs.find? (fun p => lookup after p.1 != some p.2) with
  | some p => some p.1
  | none => (keysIn before after).find? (fun k' => !(keysOf kvs).contains k' && lookup after k' != lookup before k')

/-- `Merge(other)` as documented: other's deletions win, then other's current map, then the receiver's own state. -/
def mergeExpect (sm om : KV) (odel : List Key) (k : Key) : Option Val :=
  if odel.contains k then none
  else match lookup om k with
    | some v => some v
    | none => lookup sm k

def mergePost (before after om : KV) (odel : List Key) : Option Key :=
  (keysIn before after ++ keysOf om ++ odel).find? (fun k => lookup after k != mergeExpect before om odel k)

/-- kinds after `Node.Merge(other)`: other's deletions win, then other's kinds, then the receiver's own kinds. -/
def kMergeExpect (sk ok orem : List Kind) (k : Kind) : Bool :=
  if orem.contains k then false else (ok.contains k || sk.contains k)

def kMergePost (before after ok orem : List Kind) : Option Kind :=
  (before ++ after ++ ok ++ orem).find? (fun k => after.contains k != kMergeExpect before ok orem k)

/-- `AddKinds(ks)`: every listed kind present, membership of every other kind unchanged. -/
def addKindsPost (before after ks : List Kind) : Option Kind :=
  match ks.find? (fun k => !after.contains k) with
  | some k => some k
  | none => (before ++ after).find? (fun k => !ks.contains k && (after.contains k != before.contains k))

/-- `DeleteKinds(ks)`: every listed kind absent, membership of every other kind unchanged. -/
def deleteKindsPost (before after ks : List Kind) : Option Kind :=
  match ks.find? (fun k => after.contains k) with
  | some k => some k
  | none => (before ++ after).find? (fun k => !ks.contains k && (after.contains k != before.contains k))

/-! ### whole entities, whole states, edit histories -/

def Loaded.kv (L : Loaded) : KV := L.store.getD []

/-- the map an entity's property tracking is relative to: the loaded map, or the empty map once
`StripAllPropertiesExcept` detached it (ghost flag `Ent.attached`) -/
def Ent.base (x : Ent) (L : Loaded) : KV := if x.attached then L.kv else []

/-- invariant of one tracked entity: properties and kinds -/
structure EInv (L : Loaded) (x : Ent) : Prop where
  props : Inv (x.base L) x.props
  kinds : KInv L.kinds x

structure EWeak (L : Loaded) (x : Ent) : Prop where
  props : WeakInv (x.base L) x.props
  kinds : WeakKInv L.kinds x

def Op.isStrip : Op → Bool
  | .strip _ _ => true
  | _ => false

/-- both entities of a state satisfy the invariant w.r.t. the one loaded state -/
def SInv (L : Loaded) (st : St) : Prop := ∀ e, EInv L (st.get e)
def SWeak (L : Loaded) (st : St) : Prop := ∀ e, EWeak L (st.get e)

/-- a single-key edit: `(k, some v)` is `Set(k, v)`, `(k, none)` is `Delete(k)` -/
abbrev Edit := Key × Option Val

def Props.edit (s : Props) (e : Edit) : Props :=
  match e.2 with
  | some v => s.set e.1 v
  | none => s.delete e.1

def Props.runEdits (s : Props) : List Edit → Props
  | [] => s
  | e :: es => (s.edit e).runEdits es

/-- the last edit of key `k` in a history, if any -/
def lastEdit : List Edit → Key → Option (Option Val)
  | [], _ => none
  | e :: es, k =>
    match lastEdit es k with
    | some r => some r
    | none => if e.1 = k then some e.2 else none

/-- `SetAll` as edits -/
def editsOfKV (kvs : KV) : List Edit := kvs.map (fun p => (p.1, some p.2))

/-! ### consumers: which tracking accessors an update path reads, and what it therefore sends

Reads are coded as in tools/extract/goext/c12.go: 0 AddedKinds, 1 DeletedKinds, 2 Kinds, 3 ModifiedProperties(),
4 DeletedProperties(), 5 the whole map, 6 raw Modified, 7 raw Deleted. -/

/-- does the path write kinds / properties at all? -/
def kindsTouched (r : List Nat) : Bool := r.contains 0 || r.contains 1
def propsTouched (r : List Nat) : Bool := r.contains 3 || r.contains 4 || r.contains 5

/-- kinds are either not written by this path, or written completely: deletions together with the added kinds
(delta form) or with all current kinds (full form) -/
def kindsPartOk (r : List Nat) : Bool := !kindsTouched r || (r.contains 1 && (r.contains 0 || r.contains 2))

/-- properties are either not written by this path, or written completely: deletions together with the modified pairs
(delta form) or with the whole map (full form); raw tracking fields are never read -/
def propsPartOk (r : List Nat) : Bool :=
  !(r.contains 6 || r.contains 7) && (!propsTouched r || (r.contains 4 && (r.contains 3 || r.contains 5)))

/-- a path that reads only the kind delta and no property state (a helper such as a batching key) -/
def kindsOnly (r : List Nat) : Bool := kindsTouched r && !propsTouched r && !(r.contains 6 || r.contains 7)

/-- the path consumes the delta completely: every part it writes is complete, and a path that writes kinds also writes
properties unless it is a pure kinds helper (those are pinned by name in Props/C12Consumers.lean) -/
def pathOk (r : List Nat) : Bool := kindsPartOk r && propsPartOk r && (!kindsTouched r || propsTouched r || kindsOnly r)

/-- first missing piece, for reports -/
def pathGap (r : List Nat) : String :=
  if r.contains 6 || r.contains 7 then "raw-tracking-field-read"
  else if propsTouched r && !r.contains 4 then "deleted-properties-not-consumed"
  else if propsTouched r && !(r.contains 3 || r.contains 5) then "modified-properties-not-consumed"
  else if kindsTouched r && !r.contains 1 then "deleted-kinds-not-consumed"
  else if kindsTouched r && !(r.contains 0 || r.contains 2) then "added-kinds-not-consumed"
  else if pathOk r then "ok" else "incomplete"

/-- what a path with reads `r` sends for the properties: (pairs to write, keys to delete) -/
def sentProps (r : List Nat) (s : Props) : KV × List Key :=
  (if r.contains 3 then s.modifiedProperties else if r.contains 5 then s.m else [],
   if r.contains 4 then s.del else [])

/-- … and for the kinds: (kinds to add, kinds to remove) -/
def sentKinds (r : List Nat) (x : Ent) : List Kind × List Kind :=
  (if r.contains 0 then x.added else if r.contains 2 then x.kinds else [],
   if r.contains 1 then x.removed else [])

end Dawgs.C12
