/-
C11 spec: the walker protocol as an executable acceptor of event logs (core Lean only).
The same acceptor judges the REAL walkers' logs (monitor suite `c11mon`) and is proved to accept every
log of the transcribed `walk.Generic` (Proofs/C11.lean).
-/
import Dawgs.Model.C11
namespace Dawgs.C11

/-- pure Dyck check: `nest open log` = the stack of entered-but-not-exited nodes after `log`, or `none` when
an Exit/Visit does not name the innermost open node -/
def nest {α : Type} [DecidableEq α] : List α → List (Ev α) → Option (List α)
  | st, [] => some st
  | st, .enter l :: es => nest (l :: st) es
  | st, .visit l :: es =>
    match st with
    | t :: _ => if t = l then nest st es else none
    | [] => none
  | st, .exit l :: es =>
    match st with
    | t :: r => if t = l then nest r es else none
    | [] => none

/-- how a walk was cancelled -/
inductive Stop where
  | done
  | error
deriving DecidableEq, Repr

/-- monitor state while replaying a log against the visitor's actions -/
structure Mon (α : Type) where
  /-- entered, not yet exited; innermost first -/
  opened : List α
  /-- after a Consume in Enter/Visit of `l`: the next event must be `Exit l` -/
  must : Option α
  /-- after SetDone / SetError: no event may follow -/
  stopped : Option Stop
deriving Repr

def Mon.init {α : Type} : Mon α := { opened := [], must := none, stopped := none }

/-- effect of the action taken in the callback for `l` -/
def Mon.after {α : Type} (m : Mon α) (a : Act) (l : α) (isExit : Bool) : Mon α :=
  match a with
  | .continue => m
  | .consume => if isExit then m else { m with must := some l }
  | .done _ => { m with stopped := some .done }
  | .error _ => { m with stopped := some .error }

/-- one event `e` in whose callback the visitor took action `a` -/
def Mon.step {α : Type} [DecidableEq α] (m : Mon α) (a : Act) (e : Ev α) : Option (Mon α) :=
  if m.stopped.isSome then none else
  match e with
  | .enter l =>
    if m.must.isSome then none
    else some (Mon.after { m with opened := l :: m.opened } a l false)
  | .visit l =>
    if m.must.isSome then none
    else match m.opened with
      | t :: _ => if t = l then some (m.after a l false) else none
      | [] => none
  | .exit l =>
    match m.opened with
    | t :: r =>
      if t = l ∧ (m.must = none ∨ m.must = some l) then some (Mon.after { m with opened := r, must := none } a l true)
      else none
    | [] => none

/-- replay `log` after the events `seen`; the visitor is asked for its action with the full history -/
def replay {α : Type} [DecidableEq α] (v : Visitor α) : List (Ev α) → List (Ev α) → Mon α → Option (Mon α)
  | _, [], m => some m
  | seen, e :: es, m =>
    match m.step (v (seen ++ [e])) e with
    | none => none
    | some m' => replay v (seen ++ [e]) es m'

/-- the returned value agrees with what the log shows -/
def okRes {α : Type} (r : Result) (m : Mon α) : Prop :=
  match r with
  | .ok => (m.stopped = none → m.opened = []) ∧ m.stopped ≠ some .error
  | .visitorError => m.stopped = some .error
  | .cursorError => m.stopped = none

instance {α : Type} [DecidableEq α] (r : Result) (m : Mon α) : Decidable (okRes r m) := by
  unfold okRes; cases r <;> exact inferInstance

/-- verdict on a complete run: `none` = accepted, `some msg` = first protocol violation -/
def judgeRun {α : Type} [DecidableEq α] (v : Visitor α) (log : List (Ev α)) (r : Result) : Option String :=
  match replay v [] log Mon.init with
  | none => some "protocol"          -- bad nesting, an event after done/error, or a consumed subtree was walked
  | some m =>
    if m.must.isSome then some "consume-not-followed-by-exit"
    else if okRes r m then none else some "result"

/-! ### the tree-aware monitor: completeness of the walk under ANY consume schedule

`Mon` checks nesting only; it cannot see that a node was exited with branches left. `TMon` replays a log against
the branch tree: every Enter must be the next unvisited branch of the innermost open node, and an Exit is legal
only when no branch is left or the visitor consumed in the node's Enter or in one of its Visits. A Consume in an
Exit callback has no effect on anything. So an accepted complete log enters and exits, exactly once and in order,
every node that is not below a consumed node, whatever the visitor's Consume schedule. -/

/-- an open node and its branches not yet entered; `lbl = none` is the virtual frame holding the root -/
structure Frame (α : Type) where
  lbl : Option α
  rest : List (Tree α)

structure TMon (α : Type) where
  stack : List (Frame α)      -- innermost first
  must : Option α
  stopped : Option Stop

def TMon.init {α : Type} (t : Tree α) : TMon α := { stack := [⟨none, [t]⟩], must := none, stopped := none }

def TMon.after {α : Type} (m : TMon α) (a : Act) (l : α) (isExit : Bool) : TMon α :=
  match a with
  | .continue => m
  | .consume => if isExit then m else { m with must := some l }
  | .done _ => { m with stopped := some .done }
  | .error _ => { m with stopped := some .error }

def TMon.step {α : Type} [DecidableEq α] (m : TMon α) (a : Act) (e : Ev α) : Option (TMon α) :=
  if m.stopped.isSome then none else
  match e with
  | .enter l =>
    if m.must.isSome then none
    else match m.stack with
      | ⟨pl, Tree.node l' ks :: rest⟩ :: fs =>
        if l' = l then some (TMon.after { m with stack := ⟨some l, ks⟩ :: ⟨pl, rest⟩ :: fs } a l false) else none
      | _ => none
  | .visit l =>
    if m.must.isSome then none
    else match m.stack with
      | ⟨some t, _ :: _⟩ :: _ => if t = l then some (m.after a l false) else none
      | _ => none
  | .exit l =>
    match m.stack with
    | ⟨some t, rest⟩ :: fs =>
      if t = l ∧ ((rest.isEmpty = true ∧ m.must = none) ∨ m.must = some l) then
        some (TMon.after { m with stack := fs, must := none } a l true)
      else none
    | _ => none

def treplay {α : Type} [DecidableEq α] (v : Visitor α) : List (Ev α) → List (Ev α) → TMon α → Option (TMon α)
  | _, [], m => some m
  | seen, e :: es, m =>
    match m.step (v (seen ++ [e])) e with
    | none => none
    | some m' => treplay v (seen ++ [e]) es m'

/-- a walk that returned nil without being cancelled has closed every node and left no branch of the root -/
def tokRes {α : Type} (r : Result) (m : TMon α) : Prop :=
  match r with
  | .ok => (m.stopped = none → m.stack = [⟨none, []⟩]) ∧ m.stopped ≠ some .error
  | .visitorError => m.stopped = some .error
  | .cursorError => m.stopped = none

/-- verdict on a complete run against its branch tree: `none` = accepted -/
def judgeRunT {α : Type} [DecidableEq α] (v : Visitor α) (t : Tree α) (log : List (Ev α)) (r : Result) : Option String :=
  match treplay v [] log (TMon.init t) with
  | none => some "tree-protocol"    -- a branch skipped, entered twice or out of order; exit with branches left
  | some m =>
    if m.must.isSome then some "consume-not-followed-by-exit"
    else match r with
      | .ok => if m.stopped.isNone && !(match m.stack with
                  | [f] => f.lbl.isNone && f.rest.isEmpty
                  | _ => false) then some "returned-nil-with-open-nodes"
               else if m.stopped == some .error then some "result" else none
      | .visitorError => if m.stopped == some .error then none else some "result"
      | .cursorError => if m.stopped.isNone then none else some "result"

/-! ### pruning by label (statement of `consume_prunes_exactly_subtree`) -/

/-- the visitor that calls Consume() when it enters a node whose label satisfies `p`, and nothing else -/
def byLabel {α : Type} (p : α → Bool) : Visitor α := fun hist =>
  match hist.getLast? with
  | some (.enter l) => if p l then .consume else .continue
  | _ => .continue

mutual
/-- the tree with every subtree below a `p`-node removed (the node itself stays) -/
def Tree.prune {α : Type} (p : α → Bool) : Tree α → Tree α
  | .node l kids => if p l then .node l [] else .node l (pruneL p kids)
  | .bad => .bad
def pruneL {α : Type} (p : α → Bool) : List (Tree α) → List (Tree α)
  | [] => []
  | t :: ts => t.prune p :: pruneL p ts
end

end Dawgs.C11
