/-
C20 spec `A`: the property as executable acceptors of what can be observed of the implementation
(core Lean only). Used by the monitor suites (`Driver/C20Mon.lean`) to judge the REAL code's outputs and
by `Props/C20.lean` as the statement the models are proved against.

"No harm" (DESIGN.md §4 C20):
 (a) no node / relationship write before an integrity failure is reported;
 (b) nothing created or overwritten outside the output directory;
 (c) no partial output left in the destination on failure;
 (d) an encrypted archive opens only with the matching key.
A mutation that still yields a self-consistent collection may load; then the loaded graph must equal the
original.
-/
import Dawgs.Model.C20
namespace Dawgs.C20

/-! ## (b) path safety -/

/-- an ordinary path component: not empty, not `.`, not `..`, no separator -/
def normalComp (c : Str) : Bool := decide (c ≠ []) && decide (c ≠ dot) && decide (c ≠ dotdot) && !(c.contains '/')

/-- a relative path that names something strictly inside the directory it is joined to -/
def safeRel (p : Str) : Bool :=
  decide (p ≠ []) && !isAbs p && (splitSlash p).all normalComp && !(p.contains '\\')

/-- `base` joined with `p` without any normalisation (`base` a clean absolute directory) -/
def joinUnder (base p : Str) : Str := if base = ['/'] then '/' :: p else base ++ '/' :: p

/-- `filepath.Join(out, p)` is literally `Clean(out)` + `/` + `p`: the joined path lies under `out` -/
def staysUnder (out p : Str) : Bool := decide (joinOut out p = joinUnder (pathClean out) p)

/-- acceptor for one observed result of the path function -/
def acceptPath : Except PathErr Str → Bool
  | .error _ => true
  | .ok p => safeRel p && staysUnder ['/', 'o', 'u', 't'] p && staysUnder ['/'] p

/-! ## (a) Load: what may be observed after a mutation -/

inductive MutKind where
  | pristine     -- no mutation: must load and reproduce the graph
  | fragment     -- a fragment file differs (any byte, truncation, extension, swap, duplication, removal)
  | manifest     -- manifest.json differs (bytes or a field edit)
  | archive      -- the encrypted archive differs
  | key          -- wrong or malformed key material
  | garbage      -- manifest.json extended / prefixed by bytes that are not JSON white space (stray brace, NUL, text,
                 -- a second document, a BOM): the whole file must be the manifest
  | semantic     -- a fragment re-encoded and re-hashed (manifest digest / sizes updated) so that an edge endpoint
                 -- exists in no node fragment of ITS graph, or a node id occurs twice in its graph
deriving DecidableEq, Repr

structure LoadObs where
  ok    : Bool            -- Load returned nil
  log   : Nat             -- node / relationship write attempts seen by the target database
  equal : Option Bool     -- loaded graph = original graph (only when ok)
deriving Repr

/-- `none` = accepted, `some class` = violation class -/
def judgeLoad (k : MutKind) (o : LoadObs) : Option String :=
  if !o.ok then
    if o.log ≠ 0 then some "write-before-integrity-failure"
    else if k = .pristine then some "pristine-input-rejected"
    else none
  else if o.equal ≠ some true then some "loaded-graph-differs"
  else match k with
    | .pristine => none
    | .manifest => none                                   -- self-consistent edit, graph reproduced
    | .fragment => some "fragment-mutation-accepted"      -- the digest binds every fragment byte
    | .archive => some "archive-mutation-accepted"        -- AEAD + header hash + framing bind every archive byte
    | .key => some "opened-with-wrong-key"
    | .garbage => some "manifest-with-garbage-accepted"
    | .semantic => some "dangling-or-duplicate-accepted"   -- unreachable: such a graph cannot equal the original

/-! ## (b)(c) unpack: what may be observed of the file system -/

inductive OldState where
  | kept | gone | na
deriving DecidableEq, Repr

structure UnpackObs where
  ok          : Bool
  outsideSame : Bool          -- sentinel tree around the destination unchanged (hash)
  newFiles    : Nat           -- files created or changed inside the destination
  old         : OldState      -- pre-existing content of the destination
  created     : List Str      -- relative paths of the new files
deriving Repr

structure UnpackCase where
  staged   : Bool             -- the call promises staging (retriever.Unpack)
  force    : Bool
  preFull  : Bool             -- destination was non-empty before
  explicit : List (Nat × Option Str)   -- (typeflag, name if valid UTF-8) of the hand-made entries
deriving Repr

def entryAccepted (seen : List Str) (e : Nat × Option Str) : Option Str :=
  match e.2 with
  | none => none
  | some n => match sanitize n with
    | .error _ => none
    | .ok rel => if (e.1 = typeReg ∨ e.1 = typeRegA) ∧ rel ∉ seen then some rel else none

/-- the model's verdict on the explicit entries: all acceptable, in order, without duplicates -/
def explicitAccepted : List Str → List (Nat × Option Str) → Option (List Str)
  | seen, [] => some seen
  | seen, e :: es => match e.2 with
    | none => explicitAccepted seen es           -- name not representable: judged on observables only
    | some _ => match entryAccepted seen e with
      | none => none
      | some rel => explicitAccepted (rel :: seen) es

def judgeUnpack (c : UnpackCase) (o : UnpackObs) : Option String :=
  if !o.outsideSame then some "outside-modified"
  else if !o.ok then
    if o.newFiles ≠ 0 then some "partial-output"
    else if c.preFull ∧ o.old ≠ .kept ∧ (c.staged ∨ !c.force) then some "old-output-lost"
    else none
  else if c.preFull ∧ !c.force then some "nonempty-destination-replaced"
  else if !(o.created.all safeRel) then some "unsafe-path-created"
  else match explicitAccepted [] c.explicit with
    | none => some "hostile-entry-accepted"
    | some rels => if rels.all (fun r => o.created.contains r) then none else some "accepted-entry-misplaced"

/-- JSON white space: what `json.Unmarshal` tolerates around the one value -/
def jsonSpaceOnly (bs : Bytes) : Bool := bs.all isJsonSpace

/-- a hostile encrypted archive whose fragment bytes do not match the manifest (whatever spelling the manifest
uses for the fragment's path) must not be accepted, let alone promoted; otherwise the usual unpack rules -/
def judgeHostileArchive (altered : Bool) (c : UnpackCase) (o : UnpackObs) : Option String :=
  if altered ∧ o.ok then some "unverified-fragment-promoted"
  else judgeUnpack c o

end Dawgs.C20