/-
C10 spec (core Lean only): what "same structure" means.
  `norm`   structural normal form: parentheses erased (the tree carries the grouping), nested lists of the same
           operator flattened, one-element lists collapsed, a kind matcher over several kinds expanded into the
           any-of (`or`) / all-of (`and`) list of single-kind tests.
  `eval`   three-valued (Kleene) evaluation over an abstract valuation of the atoms; `norm` preserves it, so equality
           of normal forms is equality of a semantic invariant, not of layout.
  `canon`  the grammar-shaped representative the repaired emitter follows (used by the proofs only).
  `valid`, `safe` and the F8 shape classifier (decidable predicates).
-/
import Dawgs.Model.C10
namespace Dawgs.C10

/-! ### normal form -/

/-- children a node contributes to an enclosing `op` list -/
def items (op : Op) : Expr → List Expr
  | .join op' xs => if op' = op then xs else [.join op' xs]
  | e => [e]

def kindAtoms (ref : String) : List String → List Expr
  | [] => []
  | k :: ks => .kinds ref [k] true :: kindAtoms ref ks

mutual
def norm : Expr → Expr
  | .cmp l op r => .cmp l op r
  | .isNull l b => .isNull l b
  | .kinds ref ks allOf => mkJ (if allOf then .and else .or) (kindAtoms ref ks)
  | .neg e => .neg (norm e)
  | .paren e => norm e
  | .join op es => mkJ op (normItems op es)
def normItems (op : Op) : List Expr → List Expr
  | [] => []
  | e :: es => items op (norm e) ++ normItems op es
end

/-! ### three-valued evaluation -/

abbrev V3 := Option Bool   -- none = null

def and3 : V3 → V3 → V3
  | some false, _ => some false
  | _, some false => some false
  | some true, some true => some true
  | _, _ => none

def or3 : V3 → V3 → V3
  | some true, _ => some true
  | _, some true => some true
  | some false, some false => some false
  | _, _ => none

def xor3 : V3 → V3 → V3
  | some a, some b => some (a != b)
  | _, _ => none

def not3 : V3 → V3
  | some b => some (!b)
  | none => none

def op3 : Op → V3 → V3 → V3
  | .or => or3
  | .xor => xor3
  | .and => and3

def unit3 : Op → V3
  | .or => some false
  | .xor => some false
  | .and => some true

/-- abstract valuation: truth value of every comparison, null test and single-kind test -/
structure Val where
  cmp : Operand → CmpOp → Operand → V3
  isNull : Operand → Bool → V3
  kind : String → String → V3

def evalKinds (v : Val) (ref : String) (op : Op) : List String → V3
  | [] => unit3 op
  | k :: ks => op3 op (v.kind ref k) (evalKinds v ref op ks)

mutual
def eval (v : Val) : Expr → V3
  | .cmp l op r => v.cmp l op r
  | .isNull l b => v.isNull l b
  | .kinds ref ks allOf => evalKinds v ref (if allOf then .and else .or) ks
  | .neg e => not3 (eval v e)
  | .paren e => eval v e
  | .join op es => evalList v op es
def evalList (v : Val) (op : Op) : List Expr → V3
  | [] => unit3 op
  | e :: es => op3 op (eval v e) (evalList v op es)
end

/-! ### validity (what the theorems assume about a term) -/

def Lit.ok : Lit → Bool
  | .int i => decide (i.natAbs ≤ maxI)          -- |i| ≤ 2^63-1: the digits must pass ParseInt on their own
  | .float d => decide (stripZ d.frac = d.frac)  -- canonical decimal: no trailing zero
  | _ => true

mutual
def Operand.ok : Operand → Bool
  | .lit l => l.ok
  | .fn _ a => a.ok
  | .list xs => Operand.oks xs
  | _ => true
def Operand.oks : List Operand → Bool
  | [] => true
  | x :: xs => x.ok && Operand.oks xs
end

mutual
/-- no empty criteria list, no kind matcher without kinds, operands in range -/
def valid : Expr → Bool
  | .cmp l _ r => l.ok && r.ok
  | .isNull l _ => l.ok
  | .kinds _ ks _ => !ks.isEmpty
  | .neg e => valid e
  | .paren e => valid e
  | .join _ es => !es.isEmpty && valids es
def valids : List Expr → Bool
  | [] => true
  | e :: es => valid e && valids es
end

/-! ### the two clauses of `valid`, separately (what remains false of the live emitter is exactly these) -/

mutual
/-- no empty criteria list, no kind matcher without kinds -/
def listsNonEmpty : Expr → Bool
  | .kinds _ ks _ => !ks.isEmpty
  | .neg e => listsNonEmpty e
  | .paren e => listsNonEmpty e
  | .join _ es => !es.isEmpty && listsNonEmptyAll es
  | _ => true
def listsNonEmptyAll : List Expr → Bool
  | [] => true
  | e :: es => listsNonEmpty e && listsNonEmptyAll es
end

mutual
/-- every integer literal has magnitude ≤ 2^63-1 (and decimals are canonical, a representation invariant) -/
def literalsInRange : Expr → Bool
  | .cmp l _ r => l.ok && r.ok
  | .isNull l _ => l.ok
  | .neg e => literalsInRange e
  | .paren e => literalsInRange e
  | .join _ es => literalsInRangeAll es
  | _ => true
def literalsInRangeAll : List Expr → Bool
  | [] => true
  | e :: es => literalsInRange e && literalsInRangeAll es
end

/-! ### the F8 shapes -/

def Lit.integralFloat : Lit → Bool
  | .float d => d.frac.isEmpty
  | _ => false

mutual
def Operand.hasIntegralFloat : Operand → Bool
  | .lit l => l.integralFloat
  | .fn _ a => a.hasIntegralFloat
  | .list xs => Operand.anyIntegralFloat xs
  | _ => false
def Operand.anyIntegralFloat : List Operand → Bool
  | [] => false
  | x :: xs => x.hasIntegralFloat || Operand.anyIntegralFloat xs
end

mutual
/-- a child whose constructor binds looser than its context and carries no Parenthetical -/
def needsParens : Expr → Bool
  | .neg e => decide (e.lvl < 4) || needsParens e
  | .paren e => needsParens e
  | .join op es => needsParensList op es
  | _ => false
def needsParensList (op : Op) : List Expr → Bool
  | [] => false
  | e :: es => decide (e.lvl < op.lvl) || needsParens e || needsParensList op es
end

mutual
def hasIntegralFloat : Expr → Bool
  | .cmp l _ r => l.hasIntegralFloat || r.hasIntegralFloat
  | .isNull l _ => l.hasIntegralFloat
  | .neg e => hasIntegralFloat e
  | .paren e => hasIntegralFloat e
  | .join _ es => hasIntegralFloats es
  | _ => false
def hasIntegralFloats : List Expr → Bool
  | [] => false
  | e :: es => hasIntegralFloat e || hasIntegralFloats es
end

mutual
def hasAllOfKinds : Expr → Bool
  | .kinds _ ks allOf => allOf && decide (2 ≤ ks.length)
  | .neg e => hasAllOfKinds e
  | .paren e => hasAllOfKinds e
  | .join _ es => hasAllOfKindsList es
  | _ => false
def hasAllOfKindsList : List Expr → Bool
  | [] => false
  | e :: es => hasAllOfKinds e || hasAllOfKindsList es
end

/-- the sub-algebra on which the CURRENT emitter round-trips -/
def safe (e : Expr) : Bool := !needsParens e && !hasIntegralFloat e && !hasAllOfKinds e

/-! ### canonical (grammar-shaped) terms and the representative the repaired emitter follows -/

mutual
/-- `canonL L e`: `e` is exactly what the frontend builds for a phrase of precedence level ≥ `L` -/
def canonL : Nat → Expr → Bool
  | _, .cmp l _ r => l.ok && r.ok
  | _, .isNull l _ => l.ok
  | _, .kinds _ ks allOf => allOf && !ks.isEmpty
  | L, .neg e => decide (L ≤ 3) && canonL 4 e
  | _, .paren e => canonL 0 e
  | L, .join op es => decide (L ≤ op.lvl) && decide (2 ≤ es.length) && canonLs (op.lvl + 1) es
def canonLs : Nat → List Expr → Bool
  | _, [] => true
  | L, e :: es => canonL L e && canonLs L es
end

def wrapE (b : Bool) (e : Expr) : Expr := if b then .paren e else e

mutual
def canon : Expr → Expr
  | .cmp l op r => .cmp l op r
  | .isNull l b => .isNull l b
  | .kinds ref ks allOf =>
    if allOf then .kinds ref ks true
    else match ks with
      | [k] => .kinds ref [k] true
      | _ => .paren (.join .or (kindAtoms ref ks))
  | .neg e => .neg (wrapE (decide (e.lvl < 4)) (canon e))
  | .paren e => .paren (canon e)
  | .join op es => mkJ op (canonItems op es)
def canonItems (op : Op) : List Expr → List Expr
  | [] => []
  | e :: es => items op (wrapE (decide (e.lvl < op.lvl)) (canon e)) ++ canonItems op es
end

/-! ### Prepare as it is: the neo4j ExpressionListRewriter (query/neo4j/rewrite.go) on the WHERE expression

`prep sn neg inList e` mirrors the post-order walk: `neg` = a Negation is on the descent stack, `inList` = the
immediate parent is an ExpressionList (Where, Conjunction, Disjunction, ExclusiveDisjunction). Result `none` = Prepare
fails ("expected an expression list AST node"); otherwise the kind lists hoisted onto the relationship pattern (one
entry per matcher, in walk order) and what is left of the node (`none` = removed from its parent list).
`sn` switches the string-negation null guard (`not (x contains y)` ↦ `(not (…) or x is null)`), a deliberate change of
meaning that the eval theorem leaves out. -/

def edgeSym : String := "r"      -- query.EdgeSymbol

def isStrOp : CmpOp → Bool
  | .startsWith => true
  | .endsWith => true
  | .contains => true
  | _ => false

def unwrapParens : Expr → Expr
  | .paren e => unwrapParens e
  | e => e

def strNegGuard (c : Expr) : Option Expr :=
  match unwrapParens c with
  | .cmp l op _ => if isStrOp op then some (.paren (.join .or [.neg c, .isNull l false])) else none
  | _ => none

def negExit (sn inList : Bool) (c : Expr) : Expr :=
  if sn && inList then (strNegGuard c).getD (.neg c) else .neg c

/-- Parenthetical exit: an emptied list removes the parenthetical from its parent list, a one-element list is unwrapped -/
def parenExit (inList : Bool) : Expr → Option Expr
  | .join op [] => if inList then none else some (.paren (.join op []))
  | .join _ [x] => some (.paren x)
  | c => some (.paren c)

/-- ExpressionList exit: an empty list removes itself from its parent list -/
def joinExit (inList : Bool) (op : Op) (es : List Expr) : Option Expr :=
  if es.isEmpty && inList then none else some (.join op es)

def consOpt : Option Expr → List Expr → List Expr
  | some x, xs => x :: xs
  | none, xs => xs

mutual
def prep (sn neg inList : Bool) : Expr → Option (List (List String) × Option Expr)
  | .cmp l op r => some ([], some (.cmp l op r))
  | .isNull l b => some ([], some (.isNull l b))
  | .kinds ref ks a =>
    if ref = edgeSym && !neg then (if inList then some ([ks], none) else none)
    else some ([], some (.kinds ref ks a))
  | .neg c =>
    match prep sn true false c with
    | some p => some (p.1, some (negExit sn inList (p.2.getD c)))
    | none => none
  | .paren c =>
    match prep sn neg false c with
    | some p => some (p.1, parenExit inList (p.2.getD c))
    | none => none
  | .join op es =>
    match prepList sn neg es with
    | some p => some (p.1, joinExit inList op p.2)
    | none => none
def prepList (sn neg : Bool) : List Expr → Option (List (List String) × List Expr)
  | [] => some ([], [])
  | e :: es =>
    match prep sn neg true e, prepList sn neg es with
    | some p, some q => some (p.1 ++ q.1, consOpt p.2 q.2)
    | _, _ => none
end

def flattenKinds : List (List String) → List String
  | [] => []
  | ks :: r => ks ++ flattenKinds r

/-- what QueryBuilder.Prepare does to the WHERE expression: kinds appended to the relationship pattern, new WHERE -/
def prepare (e : Expr) : Option (List String × Option Expr) :=
  match prep true false true e with
  | some p => some (flattenKinds p.1, p.2)
  | none => none

/-- kinds on the relationship pattern `[r:A|B]`: any-of; no kinds = no constraint -/
def patK (v : Val) : List String → V3
  | [] => some true
  | k :: ks => evalKinds v edgeSym .or (k :: ks)

def evalOpt (v : Val) : Option Expr → V3
  | none => some true
  | some e => eval v e

/-- a row is returned iff the pattern matches and the WHERE is true -/
def meaning (v : Val) (ks : List String) (w : Option Expr) : V3 := and3 (patK v ks) (evalOpt v w)

/-! ### PROPOSAL (hooks/C10-fix7, not applied in /repo): a relationship kind matcher moves onto the pattern
only if it is any-of, has no Negation above it, is reached from the WHERE through conjunctions and parentheticals only,
sits directly in an expression list, and the pattern carries no kinds yet (`busy`); otherwise it stays where it is.
There is no refusal any more. -/
mutual
def prepFix7 (sn busy neg conj inList : Bool) : Expr → List (List String) × Option Expr
  | .cmp l op r => ([], some (.cmp l op r))
  | .isNull l b => ([], some (.isNull l b))
  | .kinds ref ks a =>
    if ref = edgeSym && !neg && conj && inList && !busy && !(a && decide (2 ≤ ks.length)) then ([ks], none)
    else ([], some (.kinds ref ks a))
  | .neg c =>
    let p := prepFix7 sn busy true false false c
    (p.1, some (negExit sn inList (p.2.getD c)))
  | .paren c =>
    let p := prepFix7 sn busy neg conj false c
    (p.1, parenExit inList (p.2.getD c))
  | .join op es =>
    let p := prepListFix7 sn busy neg (conj && decide (op = .and)) es
    (p.1, joinExit inList op p.2)
def prepListFix7 (sn busy neg conj : Bool) : List Expr → List (List String) × List Expr
  | [] => ([], [])
  | e :: es =>
    let p := prepFix7 sn busy neg conj true e
    let q := prepListFix7 sn (busy || !p.1.isEmpty) neg conj es
    (p.1 ++ q.1, consOpt p.2 q.2)
end

/-- what QueryBuilder.Prepare does to the WHERE expression: kinds put on the relationship pattern, new WHERE -/
def prepareFix7 (e : Expr) : List String × Option Expr :=
  let p := prepFix7 true false false true true e
  (flattenKinds p.1, p.2)

mutual
/-- one flag per matcher the rewriter will hoist: does it sit in a purely conjunctive position (and is it any-of)? -/
def sites (neg conj : Bool) : Expr → List Bool
  | .kinds ref ks a =>
    -- the pattern `[r:A|B]` is any-of: an all-of matcher over several kinds cannot be hoisted faithfully either
    if ref = edgeSym && !neg then [conj && !(a && decide (2 ≤ ks.length))] else []
  | .neg c => sites true false c
  | .paren c => sites neg conj c
  | .join op es => sitesList neg (conj && decide (op = .and)) es
  | _ => []
def sitesList (neg conj : Bool) : List Expr → List Bool
  | [] => []
  | e :: es => sites neg conj e ++ sitesList neg conj es
end

/-- at most one hoisted matcher, and it is reached through conjunctions and parentheses only -/
def hoistOK (e : Expr) : Bool :=
  match sites false true e with
  | [] => true
  | [b] => b
  | _ => false

/-! ### PROPOSAL (hooks/C10-fix8, not applied in /repo): Prepare refuses what it cannot hoist faithfully.
The rewriter keeps hoisting (Neo4j 4.x rejects `r:TYPE` in WHERE), but returns an error unless `hoistOK` holds: every
matcher it would hoist is any-of, sits in a purely conjunctive un-negated position, and there is at most one. -/
def prepareGuarded (e : Expr) : Option (List String × Option Expr) :=
  if hoistOK e then prepare e else none

end Dawgs.C10
