/-
C17 abstract specs `A` and executable monitors (core Lean only).

  * `FifoMon`   — FIFO-prefix acceptor for the pipe: judges an observable history of
                  submissions / deliveries / close / cancel of the real `channels.BufferedPipe`.
  * `callsOk`   — trace acceptor for BreadthFirst: judges the order in which the real traversal
                  handed segments to the driver (root first, every other segment after its parent,
                  nothing twice, nothing foreign) and, for a clean exit, completeness.
  * `pathsSpec` — recursive definition of what ops.TraversePaths returns (plan-defined paths).
-/
import Dawgs.Model.C17
import Dawgs.Model.C17Seq
namespace Dawgs.C17

/-! ### pipe monitor -/

structure FifoMon where
  submitted : List Nat := []
  delivered : Nat := 0          -- number of values delivered so far (they must be `submitted[0..delivered)`)
  closed : Bool := false        -- writer closed
  cancelled : Bool := false
deriving Repr, Inhabited

inductive Verdict where
  | ok
  | reject (cls : String) (detail : String)
deriving Repr

def FifoMon.outstanding (m : FifoMon) : Nat := m.submitted.length - m.delivered

/-- a delivered value must be the next undelivered submitted one -/
def FifoMon.deliver (m : FifoMon) (v : Nat) : FifoMon × Verdict :=
  match m.submitted[m.delivered]? with
  | some w =>
    if w == v then ({ m with delivered := m.delivered + 1 }, .ok)
    else if m.submitted.contains v then
      (m, .reject (if (m.submitted.take m.delivered).contains v then "duplicate" else "reordered")
        s!"got {v} expected {w}")
    else (m, .reject "phantom" s!"got {v} never submitted")
  | none => (m, .reject (if m.submitted.contains v then "duplicate" else "phantom") s!"got {v} with nothing outstanding")

def FifoMon.deliverAll (m : FifoMon) : List Nat → FifoMon × Verdict
  | [] => (m, .ok)
  | v :: vs => match m.deliver v with
    | (m', .ok) => m'.deliverAll vs
    | r => r

/-- the reader saw the channel closed: only legal after cancel, or after close with everything delivered -/
def FifoMon.sawClosed (m : FifoMon) : Verdict :=
  if m.cancelled then .ok
  else if !m.closed then .reject "closed-early" "reader channel closed while the writer is open and the context live"
  else if m.outstanding > 0 then .reject "lost" s!"{m.outstanding} submitted values never delivered"
  else .ok

/-! ### BreadthFirst call-order acceptor -/

/-- parent id of every node of the tree, root ↦ none -/
def parentsOf : T → List (Nat × Option Nat)
  | t => go none [t] (t.nodes.length + 1)
where
  go (parent : Option Nat) : List T → Nat → List (Nat × Option Nat)
    | _, 0 => []
    | [], _ => []
    | .node i ks :: rest, fuel + 1 => (i, parent) :: (go (some i) ks fuel ++ go parent rest fuel)

/-- Judge the sequence of driver calls (node ids in real-time order). -/
def callsOk (parents : List (Nat × Option Nat)) (calls : List Nat) : Verdict :=
  go [] calls
where
  go (seen : List Nat) : List Nat → Verdict
    | [] => .ok
    | c :: cs =>
      if seen.contains c then .reject "duplicate" s!"segment {c} expanded twice"
      else match parents.lookup c with
        | none => .reject "foreign" s!"segment {c} is not in the driver's tree"
        | some none => go (c :: seen) cs
        | some (some p) =>
          if seen.contains p then go (c :: seen) cs
          else .reject "orphan" s!"segment {c} expanded before its parent {p}"

def callsComplete (parents : List (Nat × Option Nat)) (calls : List Nat) : Verdict :=
  match parents.find? (fun p => !calls.contains p.1) with
  | some p => .reject "lost" s!"segment {p.1} never expanded"
  | none => .ok

/-! ### sequential helpers: what the plan defines -/
namespace Seq

/-- the segments TraversePaths descends into below `seg`: the fetched branches that pass the caller's
descent filter and do not close a cycle, in fetch order -/
def pathKids (p : Plan) (seg : Seg) : List Seg :=
  ((p.adj seg.node).map (fun e => seg.descend e.1 e.2)).filter
    (fun c => optAccept p.descentFilter c && !c.isCycle)

/-- What TraversePaths is to return before skip/limit, defined by recursion on the path tree (no
stack): the maximal acyclic filtered paths below `seg` — a segment with no admissible continuation is
a result if it is a proper path (depth > 0) that the PathFilter accepts — listed with the LAST
fetched branch first (the order a LIFO stack visits them). `d` bounds the recursion depth. -/
def pathsSpec (p : Plan) : Nat → Seg → List Seg
  | 0, _ => []
  | d + 1, seg =>
    if (pathKids p seg).isEmpty then
      (if decide (seg.depth > 0) && optAccept p.pathFilter seg then [seg] else [])
    else (pathKids p seg).reverse.flatMap (pathsSpec p d)

/-- the recursion of `pathsSpec p d seg` never runs out of depth: the path tree below `seg` is lower than `d` -/
def Fits (p : Plan) : Nat → Seg → Prop
  | 0, _ => False
  | d + 1, seg => ∀ k ∈ pathKids p seg, Fits p d k

end Seq
end Dawgs.C17
