/-
C10 completeness bookkeeping (core Lean only, hand-written): for every exported operation of the builder packages and
every case of the emitter's / rewriters' / builders' switches, where it lives in the Lean model — or why it is exempt.
Props/C10.lean checks these tables against the tables regenerated from /repo (Generated/C10.lean) by `decide`, in both
directions: a new function or case is unclassified, a removed one leaves a stale row; either breaks the obligation.

Second component: "lean: <definition>"  = modelled there;  "exempt: <reason>" = outside the property, with the reason.
-/
namespace Dawgs.C10.Cover

/-- both directions: every generated name has a row, every row names a generated entry -/
def covered (gen : List String) (cov : List (String × String)) : Bool :=
  gen.all (fun n => (cov.lookup n).isSome) && cov.all (fun p => gen.contains p.1)

/-! ### exported API of package query -/
def query : List (String × String) := [
  ("And", "lean: qAnd"), ("Or", "lean: qOr"), ("Xor", "lean: qXor"), ("Not", "lean: qNot"),
  ("Equals", "lean: Expr.cmp .eq (valueOperand: literal operand or parameter)"),
  ("GreaterThan", "lean: Expr.cmp .gt"), ("GreaterThanOrEquals", "lean: Expr.cmp .ge"),
  ("LessThan", "lean: Expr.cmp .lt"), ("LessThanOrEquals", "lean: Expr.cmp .le"),
  ("LessThanGraphQuery", "lean: Expr.cmp .lt over two references"),
  ("After", "lean: Expr.cmp .gt (alias of GreaterThan)"), ("Before", "lean: Expr.cmp .lt (alias of LessThan over a time value)"),
  ("BeforeGraphQuery", "lean: Expr.cmp .lt (alias of LessThanGraphQuery)"),
  ("StringContains", "lean: Expr.cmp .contains"), ("StringStartsWith", "lean: Expr.cmp .startsWith"),
  ("StringEndsWith", "lean: Expr.cmp .endsWith"),
  ("CaseInsensitiveStringContains", "lean: Expr.cmp .contains over Operand.fn toLower"),
  ("CaseInsensitiveStringStartsWith", "lean: Expr.cmp .startsWith over Operand.fn toLower"),
  ("CaseInsensitiveStringEndsWith", "lean: Expr.cmp .endsWith over Operand.fn toLower"),
  ("In", "lean: Expr.cmp .isIn"), ("InInverted", "lean: Expr.cmp .isIn with the value on the left"),
  ("InIDs", "lean: Expr.cmp .isIn over Operand.fn id"),
  ("IsNull", "lean: Expr.isNull _ false"), ("IsNotNull", "lean: Expr.isNull _ true"), ("Exists", "lean: Expr.isNull _ true"),
  ("Kind", "lean: qKind (any-of)"), ("KindIn", "lean: qKind (any-of)"),
  ("KindsOf", "lean: Operand.fn labels / type"), ("Size", "lean: Operand.fn size"),
  ("Count", "lean: Item.op (Operand.fn count)"), ("CountDistinct", "lean: Item.fnDistinct count"),
  ("Identity", "lean: Operand.fn id"),
  ("Variable", "lean: Operand.var"), ("Node", "lean: Operand.var n"), ("Relationship", "lean: Operand.var r"),
  ("Start", "lean: Operand.var s"), ("End", "lean: Operand.var e"),
  ("NodeID", "lean: Operand.fn id (var n)"), ("RelationshipID", "lean: Operand.fn id (var r)"),
  ("StartID", "lean: Operand.fn id (var s)"), ("EndID", "lean: Operand.fn id (var e)"),
  ("Property", "lean: Operand.prop"), ("NodeProperty", "lean: Operand.prop n"), ("RelationshipProperty", "lean: Operand.prop r"),
  ("StartProperty", "lean: Operand.prop s"), ("EndProperty", "lean: Operand.prop e"),
  ("Parameter", "lean: Operand.param (named by liftQ)"), ("Literal", "lean: Operand.lit (raw Go strings: known finding query.Literal:raw-go-string-emitted-unquoted)"),
  ("Where", "lean: Query.where_"), ("Returning", "lean: Query.ret / Proj"), ("ReturningDistinct", "lean: Proj.distinct"),
  ("OrderBy", "lean: Proj.order"), ("Order", "lean: SortItem"), ("Ascending", "lean: SortItem.asc = true"), ("Descending", "lean: SortItem.asc = false"),
  ("SortItems.FormatCypherOrder", "lean: Proj.order (builds OrderBy from SortItems)"),
  ("Limit", "lean: Proj.limit"), ("Offset", "lean: Proj.skip"),
  ("Update", "lean: Query.updates"), ("Updatef", "lean: Query.updates (provider form of Update)"),
  ("SetProperty", "lean: Upd.set [SetItem.prop]"), ("SetProperties", "lean: Upd.set [SetItem.prop …] (one key per call in the tie: Go map order)"),
  ("AddKind", "lean: Upd.set [SetItem.kinds]"), ("AddKinds", "lean: Upd.set [SetItem.kinds]"),
  ("DeleteKind", "lean: Upd.remove [RemItem.kinds]"), ("DeleteKinds", "lean: Upd.remove [RemItem.kinds]"),
  ("DeleteProperty", "lean: Upd.remove [RemItem.prop]"), ("DeleteProperties", "lean: Upd.remove [RemItem.prop …]"),
  ("Delete", "lean: Upd.delete"), ("Create", "lean: Upd.create"),
  ("NodePattern", "lean: PatEl.node"), ("StartNodePattern", "lean: PatEl.node s"), ("EndNodePattern", "lean: PatEl.node e"),
  ("RelationshipPattern", "lean: PatEl.rel"),
  ("ParameterRewriter.Enter", "lean: liftQ (prepare_parameters_preserved)"), ("NewParameterRewriter", "lean: liftQ 0"),
  ("HasRelationships", "exempt: pattern predicate, outside the Lean algebra; compared by the harness's generic structural normal form (counted as unmodelled_by_lean)"),
  ("Path", "exempt: path variable of PrepareAllShortestPaths, not part of the criteria/clauses under test"),
  ("Builder.Apply", "exempt: PostgreSQL-side assembler; exercised by the tie (same criteria value rendered before/after, texts equal, caller's tree unchanged), not modelled"),
  ("Builder.Build", "exempt: as Builder.Apply (its text carries no parameter names)"),
  ("Builder.RegularQuery", "exempt: accessor"), ("NewBuilder", "exempt: constructor of Builder"), ("NewBuilderWithCriteria", "exempt: constructor of Builder"),
  ("SinglePartQuery", "exempt: assembles a RegularQuery directly from clauses; same emitter, not driven by the generator"),
  ("EmptySinglePartQuery", "exempt: constructor of an empty RegularQuery"), ("GetFirstReadingClause", "exempt: accessor")
]

/-! ### exported API of package query/neo4j -/
def neo4j : List (String × String) := [
  ("QueryBuilder.Apply", "lean: Query (pattern/where_/updates/ret as applied); harness builds QA from it"),
  ("QueryBuilder.Prepare", "lean: prepareQ = liftQ then prep (ExpressionListRewriter); prepareMatch's pattern is taken from the real query"),
  ("QueryBuilder.Render", "lean: emitQ"),
  ("ExpressionListRewriter.Enter", "lean: prep (descent stack = neg / inList arguments)"),
  ("ExpressionListRewriter.Exit", "lean: prep, parenExit, joinExit, negExit"),
  ("NewExpressionListRewriter", "lean: prep false true (top of the WHERE)"),
  ("NewEmptyQueryBuilder", "lean: Query with no clauses"),
  ("NewQueryBuilder", "exempt: starts from a caller-supplied RegularQuery (copied); not driven by the generator"),
  ("QueryBuilder.PrepareAllShortestPaths", "exempt: adds `p = allShortestPaths(…)` and `*` ranges to the pattern after Prepare; pattern shape outside the algebra")
]

/-! ### functions of format.go -/
def formatFuncs : List (String × String) := [
  ("Emitter.Write", "lean: emitQ (single-part branch)"), ("RegularQuery", "lean: emitQ"), ("NewCypherEmitter", "lean: emitQ (StripLiterals = false)"),
  ("Emitter.WriteExpression", "lean: emitE / emitO / emitItem"), ("Emitter.writeOperand", "lean: wrapIf"), ("bindsLooserThan", "lean: Expr.lvl"),
  ("Emitter.formatLiteral", "lean: emitLit"), ("formatFloatLiteral", "lean: emitLit (.float, frac := true)"),
  ("Emitter.formatSinglePartQuery", "lean: emitQG"), ("Emitter.formatReadingClause", "lean: emitMatch"), ("Emitter.formatWhere", "lean: emitWhere"),
  ("Emitter.formatPatternPart", "lean: emitPat"), ("Emitter.formatPatternElements", "lean: emitPat"), ("Emitter.formatPattern", "lean: emitPat (create)"),
  ("Emitter.formatNodePattern", "lean: emitEl (.node)"), ("Emitter.formatRelationshipPattern", "lean: emitEl (.rel)"), ("writeJoinedKinds", "lean: labelTail / pipeTail"),
  ("Emitter.formatReturn", "lean: emitRet"), ("Emitter.formatProjection", "lean: emitProj"),
  ("Emitter.formatUpdatingClause", "lean: emitUpd"), ("Emitter.formatSet", "lean: emitUpd (.set) / emitSetItem"), ("Emitter.formatRemove", "lean: emitUpd (.remove) / emitRemItem"),
  ("Emitter.formatDelete", "lean: emitUpd (.delete)"), ("Emitter.formatCreate", "lean: emitUpd (.create)"),
  ("Emitter.formatMapLiteral", "exempt: map literals are not built by package query (pattern properties are parameters)"),
  ("Emitter.formatMerge", "exempt: MERGE is not built by package query"), ("Emitter.formatMergeActions", "exempt: MERGE is not built by package query"),
  ("Emitter.formatMultiPartQuery", "exempt: WITH-chained queries are not built by package query (re-parse path covered by suite rwc10)"),
  ("Emitter.formatWith", "exempt: as formatMultiPartQuery")
]

/-! ### switches of format.go -/
def writeExpression : List (String × String) := [
  ("*cypher.Negation", "lean: emitE (.neg)"), ("*cypher.Parenthetical", "lean: emitE (.paren)"),
  ("*cypher.Disjunction", "lean: emitE (.join .or)"), ("*cypher.ExclusiveDisjunction", "lean: emitE (.join .xor)"), ("*cypher.Conjunction", "lean: emitE (.join .and)"),
  ("*cypher.Comparison", "lean: emitE (.cmp / .isNull)"), ("*cypher.PartialComparison", "lean: emitE (.cmp): operator and right operand"),
  ("*cypher.KindMatcher", "lean: emitKinds"), ("*cypher.Variable", "lean: emitO (.var)"), ("*cypher.Parameter", "lean: emitO (.param)"),
  ("*cypher.PropertyLookup", "lean: emitO (.prop)"), ("*cypher.FunctionInvocation", "lean: emitO (.fn) / emitItem (.fnDistinct)"),
  ("*cypher.Literal", "lean: emitLit"), ("*cypher.ListLiteral", "lean: emitO (.list)"),
  ("*cypher.ProjectionItem", "lean: emitItem (no alias)"), ("*cypher.Skip", "lean: emitOpt .kwSkip"), ("*cypher.Limit", "lean: emitOpt .kwLimit"),
  ("graph.Kinds", "lean: labelTail (set / remove items)"), ("graph.Kind", "exempt: single kind as an expression; the builders always pass graph.Kinds"),
  ("*cypher.Properties", "lean: optParamT (parameter branch); the map branch is exempt with formatMapLiteral"),
  ("cypher.Operator", "lean: Tok.cmp (written through PartialComparison)"),
  ("*cypher.PatternPredicate", "exempt: query.HasRelationships, outside the Lean algebra (generic normal form in the harness)"),
  ("*cypher.IDInCollection", "exempt: comprehension/quantifier syntax, not built by package query"),
  ("*cypher.FilterExpression", "exempt: as IDInCollection"), ("*cypher.Quantifier", "exempt: as IDInCollection"), ("*cypher.RangeQuantifier", "exempt: `*` ranges, not built by package query"),
  ("cypher.MapLiteral", "exempt: not built by package query"),
  ("*cypher.ArithmeticExpression", "exempt: arithmetic is not built by package query (the re-parse of `-5` is folded by the harness)"),
  ("*cypher.PartialArithmeticExpression", "exempt: as ArithmeticExpression"), ("*cypher.UnaryAddOrSubtractExpression", "exempt: as ArithmeticExpression"),
  ("default", "lean: none — the emitter returns an error, nothing is emitted")
]

def formatLiteral : List (String × String) := [
  ("string", "lean: emitLit (.str) — source form written verbatim"), ("bool", "lean: emitLit (.bool)"),
  ("int8", "lean: emitLit (.int)"), ("int16", "lean: emitLit (.int)"), ("int32", "lean: emitLit (.int)"), ("int64", "lean: emitLit (.int)"), ("int", "lean: emitLit (.int)"),
  ("uint8", "lean: emitLit (.int)"), ("uint16", "lean: emitLit (.int)"), ("uint32", "lean: emitLit (.int)"), ("uint64", "lean: emitLit (.int)"), ("uint", "lean: emitLit (.int)"),
  ("float32", "lean: emitLit (.float)"), ("float64", "lean: emitLit (.float)"),
  ("default", "exempt: a literal holding another expression is written as that expression; not built by package query")
]

def bindsLooser : List (String × String) := [
  ("*cypher.Disjunction", "lean: Expr.lvl = 0"), ("*cypher.ExclusiveDisjunction", "lean: Expr.lvl = 1"),
  ("*cypher.Conjunction", "lean: Expr.lvl = 2"), ("*cypher.Negation", "lean: Expr.lvl = 3")
]

def updatingClause : List (String × String) := [
  ("*cypher.Create", "lean: Upd.create"), ("*cypher.Remove", "lean: Upd.remove"), ("*cypher.Set", "lean: Upd.set"), ("*cypher.Delete", "lean: Upd.delete"),
  ("*cypher.Merge", "exempt: MERGE is not built by package query"), ("default", "lean: none — error")
]

def relDirectionOpen : List (String × String) := [
  ("graph.DirectionOutbound", "lean: Tok.relOpen"), ("graph.DirectionBoth", "exempt: only query.HasRelationships builds it (pattern predicate)"),
  ("graph.DirectionInbound", "exempt: not built by package query")
]
def relDirectionClose : List (String × String) := [
  ("graph.DirectionOutbound", "lean: Tok.relClose"), ("graph.DirectionBoth", "exempt: only query.HasRelationships builds it"),
  ("graph.DirectionInbound", "exempt: not built by package query")
]
def setOperator : List (String × String) := [
  ("cypher.OperatorLabelAssignment", "lean: emitSetItem (.kinds)"), ("default", "lean: emitSetItem (.prop): ` = `")
]

/-! ### the rewriters -/
def rewriterExit : List (String × String) := [
  ("cypher.ExpressionList", "lean: joinExit"), ("*cypher.KindMatcher", "lean: prep (.kinds)"),
  ("*cypher.Negation", "lean: negExit"), ("*cypher.Parenthetical", "lean: parenExit")
]
def rewriterExitInner : List (String × String) := [("cypher.ExpressionList", "lean: parenExit (0 / 1 / more elements)")]
def unwrapParen : List (String × String) := [("*cypher.Parenthetical", "lean: unwrapParens")]
def stringNegation : List (String × String) := [("*cypher.Comparison", "lean: strNegGuard")]
def stringNegationOps : List (String × String) := [
  ("cypher.OperatorStartsWith", "lean: isStrOp"), ("cypher.OperatorEndsWith", "lean: isStrOp"), ("cypher.OperatorContains", "lean: isStrOp")
]
def paramRewriter : List (String × String) := [("*cypher.Parameter", "lean: liftO (.param)")]

/-! ### the builders -/
def apply : List (String × String) := [
  ("[]graph.Criteria", "lean: flattened by the harness before building QA"), ("*cypher.Where", "lean: Query.where_"), ("*cypher.Return", "lean: Query.ret"),
  ("*cypher.Limit", "lean: Proj.limit"), ("*cypher.Skip", "lean: Proj.skip"), ("*cypher.Order", "lean: Proj.order"),
  ("[]*cypher.UpdatingClause", "lean: Query.updates"), ("*cypher.UpdatingClause", "lean: Query.updates"),
  ("default", "exempt: panics on a foreign criteria type; nothing is emitted")
]
def prepareMatchVar : List (String × String) := [("*cypher.Variable", "exempt: prepareMatch derives the MATCH pattern from variable use; the pattern is taken from the real query (not modelled)")]
def prepareMatchSymbols4 (pfx : String) : List (String × String) := [
  (pfx ++ "NodeSymbol", "exempt: as prepareMatch"), (pfx ++ "EdgeStartSymbol", "exempt: as prepareMatch"),
  (pfx ++ "EdgeEndSymbol", "exempt: as prepareMatch"), (pfx ++ "EdgeSymbol", "exempt: as prepareMatch")
]
def prepareMatchSymbols3 (pfx : String) : List (String × String) := [
  (pfx ++ "NodeSymbol", "exempt: as prepareMatch"), (pfx ++ "EdgeStartSymbol", "exempt: as prepareMatch"), (pfx ++ "EdgeEndSymbol", "exempt: as prepareMatch")
]
def prepareMatchSymbols1 (pfx : String) : List (String × String) := [(pfx ++ "EdgeSymbol", "exempt: as prepareMatch")]
def prepareMatchClauses : List (String × String) := [
  ("*cypher.Create", "exempt: as prepareMatch"), ("*cypher.Delete", "exempt: as prepareMatch"),
  ("*cypher.Set", "exempt: as prepareMatch (05ee5a8)"), ("*cypher.Remove", "exempt: as prepareMatch (05ee5a8)")
]
def prepareMatchElements : List (String × String) := [("*cypher.NodePattern", "exempt: as prepareMatch"), ("*cypher.RelationshipPattern", "exempt: as prepareMatch")]

/-! ### switches inside the constructors of query/model.go -/
def updatef : List (String × String) := [
  ("[]*cypherModel.UpdatingClause", "lean: Query.updates"), ("[]graph.Criteria", "lean: Query.updates"), ("*cypherModel.UpdatingClause", "lean: Query.updates"),
  ("default", "exempt: records an error on the clause; Prepare then refuses (compilationErrors), nothing is emitted")
]
def kindsOfRef : List (String × String) := [("*cypherModel.Variable", "lean: Operand.fn labels / type"), ("default", "exempt: error node; Prepare refuses")]
def kindsOfSymbol : List (String × String) := [
  ("NodeSymbol", "lean: Operand.fn labels"), ("EdgeStartSymbol", "lean: Operand.fn labels"), ("EdgeEndSymbol", "lean: Operand.fn labels"),
  ("EdgeSymbol", "lean: Operand.fn type"), ("default", "exempt: error node; Prepare refuses")
]
def inIDs : List (String × String) := [("*cypherModel.FunctionInvocation", "lean: Expr.cmp .isIn (fn id …)"), ("default", "lean: Expr.cmp .isIn (fn id (var …))")]
def orderDir : List (String × String) := [("cypherModel.SortDescending", "lean: SortItem.asc = false"), ("default", "lean: SortItem.asc = true")]
def deleteSymbol : List (String × String) := [
  ("EdgeSymbol", "lean: Upd.delete false"), ("EdgeStartSymbol", "lean: Upd.delete false"), ("EdgeEndSymbol", "lean: Upd.delete false")
]
def createElement : List (String × String) := [
  ("*cypherModel.Variable", "lean: PatEl.node (some v) [] none"), ("*cypherModel.NodePattern", "lean: PatEl.node"), ("*cypherModel.RelationshipPattern", "lean: PatEl.rel"),
  ("default", "exempt: records an error; Prepare refuses")
]
def createSymbol : List (String × String) := [
  ("NodeSymbol", "lean: PatEl.node"), ("EdgeStartSymbol", "lean: PatEl.node"), ("EdgeEndSymbol", "lean: PatEl.node"), ("default", "exempt: records an error; Prepare refuses")
]
def returning : List (String × String) := [
  ("*cypherModel.Order", "lean: Proj.order"), ("*cypherModel.Limit", "lean: Proj.limit"), ("*cypherModel.Skip", "lean: Proj.skip"), ("default", "lean: Proj.items")
]
def singlePartQuery : List (String × String) := [
  ("*cypherModel.Where", "exempt: query.SinglePartQuery is exempt"), ("*cypherModel.Return", "exempt: query.SinglePartQuery is exempt"),
  ("*cypherModel.Limit", "exempt: query.SinglePartQuery is exempt"), ("*cypherModel.Skip", "exempt: query.SinglePartQuery is exempt"),
  ("*cypherModel.Order", "exempt: query.SinglePartQuery is exempt"), ("*cypherModel.UpdatingClause", "exempt: query.SinglePartQuery is exempt"),
  ("[]*cypherModel.UpdatingClause", "exempt: query.SinglePartQuery is exempt"), ("default", "exempt: query.SinglePartQuery is exempt")
]

/-- the switches that exist, by generated table name: a new switch changes this list -/
def switchNames : List String := [
  "cases_format_Emitter_formatRelationshipPattern_0", "cases_format_Emitter_formatRelationshipPattern_1", "cases_format_Emitter_formatLiteral_0",
  "cases_format_bindsLooserThan_0", "cases_format_Emitter_WriteExpression_0", "cases_format_Emitter_formatSet_0", "cases_format_Emitter_formatUpdatingClause_0",
  "cases_neo4jRewrite_unwrapParenthetical_0", "cases_neo4jRewrite_ExpressionListRewriter_rewriteStringNegation_0",
  "cases_neo4jRewrite_ExpressionListRewriter_rewriteStringNegation_1", "cases_neo4jRewrite_ExpressionListRewriter_Exit_0",
  "cases_neo4jRewrite_ExpressionListRewriter_Exit_1", "cases_neo4jBuilder_QueryBuilder_Apply_0", "cases_neo4jBuilder_QueryBuilder_prepareMatch_0",
  "cases_neo4jBuilder_QueryBuilder_prepareMatch_1", "cases_neo4jBuilder_QueryBuilder_prepareMatch_2", "cases_neo4jBuilder_QueryBuilder_prepareMatch_3",
  "cases_neo4jBuilder_QueryBuilder_prepareMatch_4", "cases_neo4jBuilder_QueryBuilder_prepareMatch_5", "cases_queryBuilder_Builder_prepareMatch_0",
  "cases_queryBuilder_Builder_prepareMatch_1", "cases_queryBuilder_Builder_prepareMatch_2", "cases_queryBuilder_Builder_prepareMatch_3",
  "cases_queryBuilder_Builder_prepareMatch_4", "cases_queryBuilder_Builder_prepareMatch_5", "cases_queryBuilder_Builder_Apply_0",
  "cases_queryRewrite_ParameterRewriter_Enter_0", "cases_queryModel_Updatef_0", "cases_queryModel_KindsOf_0", "cases_queryModel_KindsOf_1",
  "cases_queryModel_InIDs_0", "cases_queryModel_Order_0", "cases_queryModel_Delete_0", "cases_queryModel_Create_0", "cases_queryModel_Create_1",
  "cases_queryModel_Returning_0", "cases_queryModel_SinglePartQuery_0"
]

end Dawgs.C10.Cover
