/-
C13 abstract spec `A`: a duplex provider IS a finite set of naturals and every method has its plain set-algebra
meaning, whatever the implementation pairing of receiver and operand. Executable: the monitor (Driver/C13Mon) replays
the operation history on ideal sets with these functions and judges what the real implementation returned after
every operation. Core Lean only.

The ideal sets are strictly ascending lists; `union/inter/diff/symm/ins/del` (Model/C13) are shown in Proofs/C13 to
have exactly the membership of ∪, ∩, \, △, insert, erase on such lists and to keep them strictly ascending, which is what
makes list equality the right comparison with the implementation's sorted `Slice()`.
-/
import Dawgs.Model.C13
namespace Dawgs.C13.Spec
open Dawgs.C13

/-- canonical representation of a finite set: strictly ascending -/
def Sorted (s : S) : Prop := s.Pairwise (· < ·)

def sortedB : S → Bool
  | [] => true
  | [_] => true
  | x :: y :: t => decide (x < y) && sortedB (y :: t)

/-- the meaning of `recv.Op(operand)`: the receiver becomes … ; the operand is unchanged -/
def binop : BinOp → S → S → S
  | .or => union
  | .and => inter
  | .andNot => diff
  | .xor => symm

/-- one observable step of the sequential interface on a single ideal set -/
inductive Op where
  | add (vs : List Nat)
  | remove (v : Nat)
  | clear
  | checkedAdd (v : Nat)
  | contains (v : Nat)
  | card
  | slice
  | each (k : Nat)
  | clone
  | bin (op : BinOp) (operand : S)
deriving Repr, Inhabited

inductive Out where
  | unit
  | bool (b : Bool)
  | nat (n : Nat)
  | list (l : List Nat)
deriving Repr, DecidableEq, Inhabited

/-- ideal next state -/
def next (s : S) : Op → S
  | .add vs => addMany s vs
  | .remove v => del v s
  | .clear => []
  | .checkedAdd v => ins v s
  | .bin op o => binop op s o
  | _ => s

/-- ideal answer -/
def answer (s : S) : Op → Out
  | .checkedAdd v => .bool (!has s v)
  | .contains v => .bool (has s v)
  | .card => .nat s.length
  | .slice => .list s
  | .each k => .list (eachPrefix s k)
  | .clone => .list s
  | _ => .unit

/-- trace acceptor for one provider: every answer is the ideal one and the observed content after every operation
(`obs`) is the ideal set -/
def acceptsTrace : S → List (Op × Out × S) → Bool
  | _, [] => true
  | s, (o, r, obs) :: t => decide (r = answer s o) && decide (obs = next s o) && acceptsTrace (next s o) t

/-! ### the model `B` through the same interface: one provider, any history, any operand pairing -/

/-- a call on one provider of the model; `bin`: in-place binary operation with an operand of any implementation -/
inductive SeqOp where
  | add (vs : List Nat)
  | remove (v : Nat)
  | clear
  | checkedAdd (v : Nat)
  | contains (v : Nat)
  | card
  | slice
  | each (k : Nat)
  | clone
  | bin (op : BinOp) (o : Operand)
deriving Repr, Inhabited

/-- the content of an operand (`selfWrapper`: the receiver's own) -/
def operandSet (p : Prov) : Operand → S
  | .bitmap s => s
  | .wrapper _ s => s
  | .selfWrapper => p.set
  | .nonDuplex => []

/-- the spec operation a call stands for -/
def SeqOp.spec (p : Prov) : SeqOp → Op
  | .add vs => .add vs
  | .remove v => .remove v
  | .clear => .clear
  | .checkedAdd v => .checkedAdd v
  | .contains v => .contains v
  | .card => .card
  | .slice => .slice
  | .each k => .each k
  | .clone => .clone
  | .bin op o => .bin op (operandSet p o)

def resOut : Prov × Res → Prov × Option Out
  | (p, .ok) => (p, some .unit)
  | (p, .deadlock) => (p, none)

/-- what the MODEL does for the call (plain bitmap or wrapper, `fixed`/`snap` = code version); `none` = the call never
returns -/
def _root_.Dawgs.C13.Prov.step (fixed snap : Bool) (p : Prov) : SeqOp → Prov × Option Out
  | .add vs => resOut (p.update (fun s => addMany s vs))
  | .remove v => resOut (p.update (del v))
  | .clear => resOut (p.update (fun _ => []))
  | .checkedAdd v => ((p.checkedAdd v).1, (p.checkedAdd v).2.map .bool)
  | .contains v => (p, (p.guard (fun s => has s v)).map .bool)
  | .card => (p, (p.guard List.length).map .nat)
  | .slice => (p, (p.guard id).map .list)
  | .each k => (p, (p.guard (fun s => eachPrefix s k)).map .list)
  | .clone => (p, p.clone.map (fun q => .list q.set))
  | .bin op o => resOut (p.binop fixed snap op o)

/-- the model's run of a history is accepted by the spec: every call returns, with the ideal answer, and leaves the
ideal content -/
def _root_.Dawgs.C13.Prov.accepted (fixed snap : Bool) : Prov → List SeqOp → Bool
  | _, [] => true
  | p, op :: ops =>
    match p.step fixed snap op with
    | (p', some r) => decide (r = answer p.set (op.spec p)) && decide (p'.set = next p.set (op.spec p)) && Prov.accepted fixed snap p' ops
    | (_, none) => false

/-- operands a caller can pass: canonical sets; a wrapper operand whose mutex is free; the receiver itself only for a
wrapper (a plain bitmap as its own operand is the alias case of the roaring findings); a Duplex -/
def SeqOp.Ok (wrapped : Bool) : SeqOp → Prop
  | .bin _ (.bitmap s) => Sorted s
  | .bin _ (.wrapper l s) => l = false ∧ Sorted s
  | .bin _ .selfWrapper => wrapped = true
  | .bin _ .nonDuplex => False
  | _ => True

end Dawgs.C13.Spec
