/-
C13 abstract spec `A`: a duplex provider IS a finite set of naturals and every method has its plain set-algebra
meaning, whatever the implementation pairing of receiver and operand. Executable: the monitor (Driver/C13Mon) replays
the operation history on ideal sets with these functions and judges what the real implementation returned after
every operation. Core Lean only.

The ideal sets are strictly ascending lists; `union/inter/diff/symm/ins/del` (Model/C13) are shown in Proofs/C13 to
have exactly the membership of ∪, ∩, \, △, insert, erase on such lists and to keep them strictly ascending, which is what
makes list equality the right comparison with the implementation's sorted `Slice()`.
-/
import Dawgs.Model.C13
namespace Dawgs.C13.Spec
open Dawgs.C13

/-- canonical representation of a finite set: strictly ascending -/
def Sorted (s : S) : Prop := s.Pairwise (· < ·)

def sortedB : S → Bool
  | [] => true
  | [_] => true
  | x :: y :: t => decide (x < y) && sortedB (y :: t)

/-- the meaning of `recv.Op(operand)`: the receiver becomes … ; the operand is unchanged -/
def binop : BinOp → S → S → S
  | .or => union
  | .and => inter
  | .andNot => diff
  | .xor => symm

/-- one observable step of the sequential interface on a single ideal set -/
inductive Op where
  | add (vs : List Nat)
  | remove (v : Nat)
  | clear
  | checkedAdd (v : Nat)
  | contains (v : Nat)
  | card
  | slice
  | each (k : Nat)
  | clone
  | bin (op : BinOp) (operand : S)
deriving Repr, Inhabited

inductive Out where
  | unit
  | bool (b : Bool)
  | nat (n : Nat)
  | list (l : List Nat)
deriving Repr, DecidableEq, Inhabited

/-- ideal next state -/
def next (s : S) : Op → S
  | .add vs => addMany s vs
  | .remove v => del v s
  | .clear => []
  | .checkedAdd v => ins v s
  | .bin op o => binop op s o
  | _ => s

/-- ideal answer -/
def answer (s : S) : Op → Out
  | .checkedAdd v => .bool (!has s v)
  | .contains v => .bool (has s v)
  | .card => .nat s.length
  | .slice => .list s
  | .each k => .list (eachPrefix s k)
  | .clone => .list s
  | _ => .unit

/-- trace acceptor for one provider: every answer is the ideal one and the observed content after every operation
(`obs`) is the ideal set -/
def acceptsTrace : S → List (Op × Out × S) → Bool
  | _, [] => true
  | s, (o, r, obs) :: t => decide (r = answer s o) && decide (obs = next s o) && acceptsTrace (next s o) t

end Dawgs.C13.Spec
