/-
C04 monitor: the property itself as an executable judgement on what the real translator produced.

Input (one case): the Cypher token of a hostile text and of a benign twin of the same type, what each
denotes, and for both the SQL text + parameter map produced by the real ParseCypher → Translate →
Translated pipeline (plus the `FromCypher` text of the pg driver's builder path).
Judgement: lex both SQL texts with the proved lexer (`lexFast = lex`); the token lists must agree token by
token except in value tokens, where the benign token must be `pre ++ benign ++ post` and the hostile one
`pre ++ hostile ++ post` for the same `pre`/`post` (the value read back is the denoted one, in the same
derived form, e.g. `%…%` for CONTAINS). SQL passed as text to the traversal functions — string constants
and `@pN` parameters that are arguments of a `*_harness(` call — is lexed and compared recursively.
-/
import Dawgs.Model.C04
namespace Dawgs.C04.Spec
open Dawgs.C04

/-- what a number must read back as: sign, integer or float8, magnitude (integer value or binary64 bit pattern of |v|) -/
structure NumExp where
  neg : Bool
  isInt : Bool
  mag : Nat
  deriving DecidableEq, Repr, Inhabited

inductive PVal where
  | n (e : NumExp)
  | s (v : Str)
  | l (vs : List Str)
  | o (d : String)
  deriving DecidableEq, Repr, Inhabited

inductive Res where
  | ok (sql : Str) (pgx : Int) (params : List (String × PVal))
  | err (cls : String)
  | panic (msg : String)
  | skip
  deriving Repr, Inhabited

structure Case where
  site : String
  tmpl : String
  kind : String       -- lit | key | ident | kindname | param | paramlist | bname | bkey (builder name / builder key or value)
  hraw : Str
  braw : Str
  hval : Str
  bval : Str
  xf : String         -- value transform the translator applies by design at this position: "" | "like"
  h : Res
  b : Res
  fc : Res
  fcs : Res := .skip          -- FromCypher with stripLiterals = true
  cy : Option Str := none     -- the Cypher text of the header for stripLiterals = false (trimmed)
  cys : Option Str := none    -- … for stripLiterals = true
  fmtstrip : Res := .skip     -- the statement formatted with OutputBuilder.StripLiterals = true (skip = same text)
  math : Res := .skip         -- the statement formatted with OutputBuilder.MaterializeParameters = true, hostile
  matb : Res := .skip         -- … benign twin
  numH : Option NumExp := none   -- kinds num / nparam: what the hostile number denotes
  numB : Option NumExp := none
  deriving Repr, Inhabited

/-- the option parameters of the entry points and the values the suite runs every case under (compared with the
harness's own table by the `o` op and with the extracted signatures by Props/C04Sites `entry_options_exercised`) -/
def exercisedOptions : List (String × String × List String) := [
  ("translate.FromCypher", "stripLiterals", ["false", "true"]),
  ("cypherformat.NewCypherEmitter", "stripLiterals", ["false", "true"]),
  ("cypherformat.RegularQuery", "stripLiterals", ["false", "true"]),
  ("cypherformat.Emitter", "StripLiterals", ["false", "true"]),
  ("format.OutputBuilder", "MaterializeParameters", ["false", "true"]),
  ("format.OutputBuilder", "StripLiterals", ["false", "true"])]

def renderOptions (os : List (String × String × List String)) : String :=
  ";".intercalate (os.map (fun o => o.1 ++ "." ++ o.2.1 ++ "=" ++ ",".intercalate o.2.2))

structure Verdict where
  pass : Bool
  cls : String
  detail : String := ""
  occ : Nat := 0
  ntoks : Nat := 0
  nested : Nat := 0
  deriving Repr, Inhabited

/-- what the Cypher token denotes, by the model's decoders -/
def denote (kind : String) (raw : Str) : Except String Str :=
  if kind == "lit" then
    match decode raw with
    | .ok v => .ok v
    | .error .tooShort => .error "decode-bad-literal"
    | .error .badQuotes => .error "decode-bad-literal"
    | .error .dangling => .error "decode-dangling"
    | .error .invalidEscape => .error "decode-invalid-escape"
  else if kind == "key" || kind == "ident" || kind == "kindname" then .ok (unescapeKey raw)
  else if kind == "num" || kind == "nparam" then .ok raw
  else .ok raw

/-- first occurrence of `needle` in `hay`: (before, after) -/
def splitAt? (needle : Str) : Str → Option (Str × Str)
  | [] => if needle.isEmpty then some ([], []) else none
  | c :: cs =>
    if needle.isPrefixOf (c :: cs) then some ([], (c :: cs).drop needle.length)
    else match splitAt? needle cs with
      | some (a, b) => some (c :: a, b)
      | none => none

/-- `vb = pre ++ bval ++ post` and `vh = pre ++ hval ++ post` for the same `pre`, `post` -/
def valueMatch (bval hval vb vh : Str) : Bool :=
  match splitAt? bval vb with
  | some (pre, post) => vh == pre ++ hval ++ post
  | none => false

def replaceGo (needle rep : Str) (skip : Nat) : Str → Str
  | [] => []
  | c :: cs =>
    match skip with
    | k + 1 => replaceGo needle rep k cs
    | 0 =>
      if !needle.isEmpty && needle.isPrefixOf (c :: cs) then rep ++ replaceGo needle rep (needle.length - 1) cs
      else c :: replaceGo needle rep 0 cs

/-- `strings.ReplaceAll(hay, needle, rep)` -/
def replaceAll (needle rep hay : Str) : Str := replaceGo needle rep 0 hay

def endsWith (s suffix : Str) : Bool := suffix.reverse.isPrefixOf s.reverse

/-- indices of the tokens that are arguments of a call to a `*_harness` function (paren depth ≤ 2 inside the
call: the translator writes `@p::text` and `('…')::text`) -/
def harnessArgsGo (idx : Nat) (depth : Nat) (prevHarness : Bool) : List Tok → List Nat
  | [] => []
  | t :: ts =>
    if depth == 0 then
      match t with
      | .word w => harnessArgsGo (idx + 1) 0 (endsWith w "_harness".toList) ts
      | .punct '(' => harnessArgsGo (idx + 1) (if prevHarness then 1 else 0) false ts
      | _ => harnessArgsGo (idx + 1) 0 false ts
    else
      match t with
      | .punct '(' => harnessArgsGo (idx + 1) (depth + 1) false ts
      | .punct ')' => harnessArgsGo (idx + 1) (depth - 1) false ts
      | .str _ => (if depth ≤ 2 then [idx] else []) ++ harnessArgsGo (idx + 1) depth false ts
      | .param _ => (if depth ≤ 2 then [idx] else []) ++ harnessArgsGo (idx + 1) depth false ts
      | _ => harnessArgsGo (idx + 1) depth false ts

def harnessArgs (ts : List Tok) : List Nat := harnessArgsGo 0 0 false ts

structure Cfg where
  kind : String
  bval : Str
  hval : Str
  hvalLike : Str      -- the hostile value LIKE-escaped (to name the defect when it shows up where no LIKE is involved)
  hvalRaw : Str       -- the hostile value as denoted (to name the defect when a LIKE operand is NOT escaped)
  numH : Option NumExp := none
  numB : Option NumExp := none

abbrev Cmp := Except (String × String) Nat

def hexNat (n : Nat) : String := String.ofList (Nat.toDigits 16 n)

/-- one-line rendering of a value (control characters, quotes and non-ASCII as \\u{…}), truncated -/
def showStr (s : Str) : String :=
  let body := (s.take 48).foldl (fun (acc : String) c =>
    if c.toNat < 32 || c == '"' || c == '\\' || c.toNat ≥ 127 then acc ++ "\\u{" ++ hexNat c.toNat ++ "}" else acc.push c) ""
  "\"" ++ body ++ (if s.length > 48 then "…\"(" ++ toString s.length ++ " chars)" else "\"")

/-- does the number token read back (numeric input, then float8 for doubles) as the expected magnitude? -/
def numReads (tok : Str) (e : NumExp) : Bool :=
  let pq := decValue tok
  if e.isInt then pq.1 == e.mag * pq.2 else nearestF64Bits pq == e.mag

def tokBrief : Tok → String
  | .str v => "str" ++ showStr v
  | .estr v => "estr" ++ showStr v
  | .bstr v => "bstr" ++ showStr v
  | .qident v => "qident" ++ showStr v
  | .ustr v => "ustr" ++ showStr v
  | .uident v => "uident" ++ showStr v
  | .dollar t b => "dollar" ++ showStr t ++ showStr b
  | .word v => "word" ++ showStr v
  | .num v => "num" ++ showStr v
  | .op v => "op" ++ showStr v
  | .punct c => "punct" ++ showStr [c]
  | .param v => "param" ++ showStr v
  | .pparam v => "pparam" ++ showStr v
  | .nul => "NUL"
  | .err w => "lex-error(" ++ w ++ ")"

def mism (cls : String) (i : Nat) (th tb : Tok) : Cmp :=
  .error (cls, s!"at token {i}: hostile {tokBrief th} vs benign {tokBrief tb}")

/-- the rule for one pair of non-nested tokens; returns 1 when a value token carries the text under test -/
def cmpTok (cfg : Cfg) (i : Nat) (th tb : Tok) : Cmp :=
  let isName := cfg.kind == "ident" || cfg.kind == "kindname" || cfg.kind == "bname"
  match th, tb with
  | .str vh, .str vb =>
    if vh == vb then .ok 0
    else if !isName && valueMatch cfg.bval cfg.hval vb vh then .ok 1
    else if !isName && cfg.hvalRaw != cfg.hval && valueMatch cfg.bval cfg.hvalRaw vb vh then
      .error ("unescaped-like-pattern", s!"at token {i}: the LIKE pattern {tokBrief th} carries the denoted string without escaping \\ % _, so they act as wildcards / escape")
    else if !isName && valueMatch cfg.bval cfg.hvalLike vb vh then
      .error ("like-escaped-value", s!"at token {i}: the constant {tokBrief th} is the denoted string with \\ % _ escaped as for LIKE, in a position that is not a LIKE pattern")
    else mism "value-mismatch" i th tb
  | .num vh, .num vb =>
    if vh == vb then .ok 0
    else match cfg.numH, cfg.numB with
      | some eh, some eb =>
        if !numReads vb eb then .error ("benign-number-value-mismatch", s!"at token {i}: benign number {tokBrief tb} does not read back as the benign value")
        else if numReads vh eh then .ok 1
        else .error ("number-value-mismatch", s!"at token {i}: the number {tokBrief th} read by the server (float8 bits / integer {if eh.isInt then (decValue vh).1 else nearestF64Bits (decValue vh)}) is not the value the query denotes ({eh.mag})")
      | _, _ => mism "shape-mismatch" i th tb
  | .word vh, .word vb =>
    if vh == vb then .ok 0
    else if isName && valueMatch cfg.bval cfg.hval vb vh then
      (if pgReserved.contains (String.ofList (pgFold vh)) then
         .error ("keyword-as-identifier", s!"at token {i}: the user's name {tokBrief th} is written unquoted and is a PostgreSQL reserved key word: the server reads a key word token, not an identifier")
       else if pgFold vh == vh then .ok 1
       else .error ("case-folded-identifier", s!"at token {i}: unquoted identifier {tokBrief th} is read back lower-cased by the server"))
    else mism "shape-mismatch" i th tb
  | .qident vh, .qident vb =>
    if vh == vb then .ok 0
    else if isName && valueMatch cfg.bval cfg.hval vb vh then .ok 1
    else mism "value-mismatch" i th tb
  | .qident vh, .word vb =>
    -- a quoted identifier where the benign twin has a bare one: both are one identifier token
    if isName && valueMatch cfg.bval cfg.hval vb vh then .ok 1
    else mism "shape-mismatch" i th tb
  | _, _ => if th == tb then .ok 0 else mism "shape-mismatch" i th tb

def cmpFlat (cfg : Cfg) (i : Nat) : List Tok → List Tok → Cmp
  | [], [] => .ok 0
  | th :: hs, tb :: bs =>
    match cmpTok cfg i th tb with
    | .error e => .error e
    | .ok k => match cmpFlat cfg (i + 1) hs bs with
      | .error e => .error e
      | .ok k' => .ok (k + k')
  | th :: _, [] => .error ("shape-mismatch", s!"hostile SQL has extra tokens from token {i}: {tokBrief th}")
  | [], tb :: _ => .error ("shape-mismatch", s!"hostile SQL lacks tokens from token {i}: {tokBrief tb}")

def lookupStr (ps : List (String × PVal)) (name : Str) : Option Str :=
  match ps.lookup (String.ofList name) with
  | some (.s v) => some v
  | _ => none

def nestedErr (e : String × String) (what : String) : Cmp := .error (e.1, s!"in SQL text passed to the traversal function ({what}): {e.2}")

/-- outer comparison: tokens at the indices `nh`/`nb` carry SQL text and are compared by lexing it -/
def cmpOuter (cfg : Cfg) (ph pb : List (String × PVal)) (nh nb : List Nat) (i : Nat) : List Tok → List Tok → Cmp
  | [], [] => .ok 0
  | th :: hs, tb :: bs =>
    let here : Cmp :=
      if nh.contains i != nb.contains i then mism "shape-mismatch" i th tb
      else if nh.contains i then
        match th, tb with
        | .str vh, .str vb =>
          (match cmpFlat cfg 0 (lexFast vh) (lexFast vb) with
           | .error e => nestedErr e "quoted literal"
           | .ok k => .ok k)
        | .param nh', .param nb' =>
          if nh' != nb' then mism "shape-mismatch" i th tb
          else match lookupStr ph nh', lookupStr pb nb' with
            | some vh, some vb =>
              (match cmpFlat cfg 0 (lexFast vh) (lexFast vb) with
               | .error e => nestedErr e s!"bound parameter {String.ofList nh'}"
               | .ok k => .ok k)
            | _, _ => .error ("param-set-mismatch", s!"harness parameter {String.ofList nh'} has no string value")
        | _, _ => mism "shape-mismatch" i th tb
      else cmpTok cfg i th tb
    match here with
    | .error e => .error e
    | .ok k => match cmpOuter cfg ph pb nh nb (i + 1) hs bs with
      | .error e => .error e
      | .ok k' => .ok (k + k')
  | th :: _, [] => .error ("shape-mismatch", s!"hostile SQL has extra tokens from token {i}: {tokBrief th}")
  | [], tb :: _ => .error ("shape-mismatch", s!"hostile SQL lacks tokens from token {i}: {tokBrief tb}")

def paramNames (ts : List Tok) : List Str :=
  (ts.filterMap (fun t => match t with | .param n => some n | _ => none)).eraseDups

def cmpListVals (cfg : Cfg) : List Str → List Str → Cmp
  | [], [] => .ok 0
  | vh :: hs, vb :: bs =>
    let k : Cmp := if vh == vb then .ok 0 else if valueMatch cfg.bval cfg.hval vb vh then .ok 1
      else .error ("param-value-mismatch", "list element differs from the supplied value")
    match k, cmpListVals cfg hs bs with
    | .ok a, .ok b => .ok (a + b)
    | .error e, _ => .error e
    | _, .error e => .error e
  | _, _ => .error ("param-value-mismatch", "list lengths differ")

/-- parameter maps: same names; values equal or carrying the text under test; SQL-valued ones are skipped
here (they are compared through the token that references them) -/
def cmpParams (cfg : Cfg) (nestedNames : List Str) : List (String × PVal) → List (String × PVal) → Cmp
  | [], [] => .ok 0
  | (nh, vh) :: hs, (nb, vb) :: bs =>
    if nh != nb then .error ("param-set-mismatch", s!"parameter names differ: {nh} vs {nb}")
    else
      let here : Cmp :=
        if nestedNames.contains nh.toList then .ok 0
        else match vh, vb with
          | .n a, .n b =>
            if a == b then .ok 0
            else if some a == cfg.numH && some b == cfg.numB then .ok 1
            else .error ("param-value-mismatch", s!"numeric parameter {nh} is not the supplied value")
          | .s a, .s b => if a == b then .ok 0 else if valueMatch cfg.bval cfg.hval b a then .ok 1
              else .error ("param-value-mismatch", s!"parameter {nh} is not the supplied value")
          | .l a, .l b => cmpListVals cfg a b
          | .o a, .o b => if a == b then .ok 0 else .error ("param-value-mismatch", s!"parameter {nh}: {a} vs {b}")
          | _, _ => .error ("param-value-mismatch", s!"parameter {nh} changes type")
      match here, cmpParams cfg nestedNames hs bs with
      | .ok a, .ok b => .ok (a + b)
      | .error e, _ => .error e
      | _, .error e => .error e
  | _, _ => .error ("param-set-mismatch", "different number of parameters")

def hasBadTok (ts : List Tok) : Option Tok :=
  ts.find? (fun t => match t with | .err _ => true | .nul => true | _ => false)

def judgeOk (c : Case) (sqlH : Str) (pgxH : Int) (pH : List (String × PVal))
    (sqlB : Str) (pgxB : Int) (pB : List (String × PVal)) : Verdict :=
  let xfv := fun (v : Str) => if c.xf == "like" then likeEsc v else v
  let cfg : Cfg := { kind := c.kind, bval := xfv c.bval, hval := xfv c.hval, hvalLike := likeEsc c.hval, hvalRaw := c.hval, numH := c.numH, numB := c.numB }
  let th := lexFast sqlH
  let tb := lexFast sqlB
  let nh := harnessArgs th
  let nb := harnessArgs tb
  let nestedNames := (nb.filterMap (fun i => match (tb[i]? : Option Tok) with | some (Tok.param n) => some n | _ => none))
  -- the hostile text was written into the SQL text as it is (the twin's text replaced by it gives the hostile SQL)
  let verbatimName := (c.kind == "ident" || c.kind == "bname") && sqlH == replaceAll c.braw c.hraw sqlB
  let verbatimKey := (c.kind == "bkey" || c.kind == "obs") && sqlH == replaceAll c.braw c.hraw sqlB
  let fail (cls detail : String) : Verdict :=
    let generic := cls == "shape-mismatch" || cls == "value-mismatch" || cls == "lex-error"
    let cls' := if verbatimName && generic then "unquoted-identifier" else if verbatimKey && generic then "unquoted-key" else cls
    { pass := false, cls := cls', detail := detail, ntoks := th.length, nested := nh.length }
  match hasBadTok tb with
  | some t => { pass := false, cls := "benign-lex-error", detail := tokBrief t }
  | none =>
  match cmpOuter cfg pH pB nh nb 0 th tb with
  | .error (cls, d) => fail cls d
  | .ok k1 =>
  match cmpParams cfg nestedNames pH pB with
  | .error (cls, d) => fail cls d
  | .ok k2 =>
    if pgxH ≥ 0 && pgxH != (paramNames th).length then
      fail "pgx-param-mismatch" s!"pgx rewrites {pgxH} named arguments, the lexer sees {(paramNames th).length} @name tokens"
    else if pgxB ≥ 0 && pgxB != (paramNames tb).length then
      fail "pgx-param-mismatch" s!"benign: pgx rewrites {pgxB} named arguments, the lexer sees {(paramNames tb).length}"
    else
      let okV : Verdict := { pass := true, cls := if k1 + k2 > 0 then "reached" else "unreached", occ := k1 + k2, ntoks := th.length, nested := nh.length }
      let bad (cls detail : String) : Verdict := { pass := false, cls := cls, detail := detail, ntoks := th.length }
      -- FromCypher under both values of stripLiterals: the text must lex to the statement's tokens, and it must be the
      -- modelled header (commentHeader) followed by the statement
      let fcCheck (r : Res) (text : Option Str) (strip : Bool) : Option Verdict :=
        match r with
        | .ok fsql _ _ =>
          if lexFast fsql != th then
            some (bad "comment-escape" s!"FromCypher(stripLiterals={strip}) text (statement preceded by the Cypher text as -- comment) does not lex to the statement's tokens")
          else match text with
            | some t =>
              if fsql != commentHeader t strip ++ sqlH then
                some (bad "comment-header-model-mismatch" s!"FromCypher(stripLiterals={strip}) is not `-- ` + newline-rewritten Cypher text + \\n + statement")
              else none
            | none => none
        | _ => none
      match fcCheck c.fc c.cy false with
      | some v => v
      | none =>
      match fcCheck c.fcs c.cys true with
      | some v => v
      | none =>
      -- OutputBuilder.StripLiterals = true must not change the statement's tokens
      match c.fmtstrip with
      | .ok s2 _ _ => if lexFast s2 == th then okV else bad "format-option-changes-tokens" "OutputBuilder.StripLiterals=true changes the token structure of the statement"
      | _ =>
      -- OutputBuilder.MaterializeParameters = true on the whole statement: hostile and benign must agree the same way
      match c.math, c.matb with
      | .ok mh _ _, .ok mb _ _ =>
        (match cmpOuter cfg [] [] (harnessArgs (lexFast mh)) (harnessArgs (lexFast mb)) 0 (lexFast mh) (lexFast mb) with
         | .error (cls, d) => bad cls ("with materialised parameters (OutputBuilder.MaterializeParameters=true): " ++ d)
         | .ok _ => okV)
      | _, _ => okV

def judgeCase (c : Case) : Verdict :=
  match c.h, c.b with
  | .skip, _ => { pass := true, cls := "skipped" }
  | _, _ =>
  match denote c.kind c.braw with
  | .error e => { pass := false, cls := "benign-denote", detail := e }
  | .ok bv =>
  if bv != c.bval then { pass := false, cls := "denote-mismatch", detail := "benign token does not denote the benign value" } else
  match denote c.kind c.hraw with
  | .error e =>
    (match c.h with
     | .ok _ _ _ => { pass := false, cls := "accepted-undecodable-literal", detail := e }
     | _ => { pass := true, cls := "decode-error" })
  | .ok hv =>
  if hv != c.hval then { pass := false, cls := "denote-mismatch", detail := "the model's decoder does not give the intended value for the generated token" } else
  if c.hval.contains NUL then
    { pass := true, cls := "excluded-nul", detail := (match c.h with | .ok _ _ _ => "passthrough" | _ => "rejected") }
  else
  match c.h, c.b with
  | _, .err e => { pass := true, cls := "benign-rejected", detail := e }
  | _, .panic m => { pass := true, cls := "benign-rejected", detail := "panic " ++ m }
  | _, .skip => { pass := true, cls := "skipped" }
  | .err e, .ok _ _ _ => { pass := true, cls := "hostile-rejected", detail := e }
  | .panic m, .ok _ _ _ => { pass := true, cls := "translator-panic", detail := m }
  | .skip, .ok _ _ _ => { pass := true, cls := "skipped" }
  | .ok sh gh ph, .ok sb gb pb => judgeOk c sh gh ph sb gb pb

/-- kind `obs`: a position outside the property's quantifier (text that is not part of an accepted query, e.g. the
identity property names of the pg driver's update batches). It is judged like a key position for information, and a
mismatch is reported as the passing class `outside-quantifier` — the property demands nothing there. -/
def judge (c : Case) : Verdict :=
  if c.kind == "obs" then
    let v := judgeCase c
    if v.pass then v else { v with pass := true, cls := "outside-quantifier", detail := v.cls ++ ": " ++ v.detail }
  else judgeCase c

def Verdict.render (c : Case) (v : Verdict) : String :=
  if v.pass then s!"ok {v.cls} occ={v.occ} toks={v.ntoks} nested={v.nested} site={c.site} tmpl={c.tmpl}" ++ (if v.detail.isEmpty then "" else " " ++ v.detail)
  else s!"reject {v.cls} site={c.site} tmpl={c.tmpl} {v.detail}"

end Dawgs.C04.Spec
